package main

import (
	"bytes"
	"fmt"
	"math/rand"
	"os"
	"path/filepath"
	"regexp"
	"sort"
	"strconv"
	"strings"

	"github.com/coreruleset/crs-toolchain/v2/cmd"
	"github.com/coreruleset/crs-toolchain/v2/context"
	"github.com/coreruleset/crs-toolchain/v2/regex"
	"github.com/coreruleset/crs-toolchain/v2/regex/parser"
	"github.com/coreruleset/crs-toolchain/v2/regex/processors"
)

func subm(re *regexp.Regexp, line []byte, groups ...int) Result {
	m := re.FindSubmatch(line)
	if m == nil {
		return ok([]byte{0})
	}
	out := [][]byte{{1}}
	for _, g := range groups {
		if m[g] == nil {
			out = append(out, []byte{})
		} else {
			out = append(out, m[g])
		}
	}
	return ok(out...)
}

var workerRoot string

// a CRS root for in-process operations of the worker (created lazily, under the scratch dir)
func workerCtx() (*processors.Context, string) {
	if workerRoot == "" {
		base := os.Getenv("VERIF_WORKER_SCRATCH")
		if base == "" {
			base = os.TempDir()
		}
		d, err := os.MkdirTemp(base, "wroot")
		if err != nil {
			panic(err)
		}
		_ = os.MkdirAll(filepath.Join(d, "regex-assembly", "include"), 0o755)
		_ = os.MkdirAll(filepath.Join(d, "regex-assembly", "exclude"), 0o755)
		_ = os.MkdirAll(filepath.Join(d, "rules"), 0o755)
		workerRoot = d
	}
	return processors.NewContext(context.New(workerRoot, "toolchain.yaml")), workerRoot
}

func init() {
	implOps["pat.blockStart"] = func(a [][]byte) Result { return subm(regex.ProcessorBlockStartRegex, a[0], 1, 2) }
	implOps["pat.blockEnd"] = func(a [][]byte) Result { return subm(regex.ProcessorEndRegex, a[0]) }
	implOps["pat.flags"] = func(a [][]byte) Result { return subm(regex.FlagsRegex, a[0], 1) }
	implOps["pat.prefix"] = func(a [][]byte) Result { return subm(regex.PrefixRegex, a[0], 1) }
	implOps["pat.suffix"] = func(a [][]byte) Result { return subm(regex.SuffixRegex, a[0], 1) }
	implOps["pat.definition"] = func(a [][]byte) Result { return subm(regex.DefinitionRegex, a[0], 2, 3) }
	implOps["pat.include"] = func(a [][]byte) Result { return subm(regex.IncludeRegex, a[0], 1, 2) }
	implOps["pat.includeExcept"] = func(a [][]byte) Result { return subm(regex.IncludeExceptRegex, a[0], 1, 2, 3) }
	implOps["pat.comment"] = func(a [][]byte) Result { return subm(regex.CommentRegex, a[0]) }
	implOps["pat.processorStart"] = func(a [][]byte) Result { return subm(regex.ProcessorStartRegex, a[0], 1, 2) }
	implOps["pat.assembleInput"] = func(a [][]byte) Result { return subm(regex.AssembleInputRegex, a[0], 1) }
	implOps["pat.assembleOutput"] = func(a [][]byte) Result { return subm(regex.AssembleOutputRegex, a[0], 1) }
	implOps["pat.splitArgs"] = func(a [][]byte) Result { return okS(parser.VerifSplitArgs(string(a[0]))...) }
	implOps["format.processLine"] = func(a [][]byte) Result {
		line, next, err := cmd.VerifProcessLine(a[0], len(a[1]))
		if err != nil {
			return diag(err.Error())
		}
		return ok(line, []byte(strconv.Itoa(next)))
	}
	implOps["format.file"] = func(a [][]byte) Result {
		ctxt, root := workerCtx()
		p := filepath.Join(root, "regex-assembly", "fmt.ra")
		if err := os.WriteFile(p, a[0], 0o644); err != nil {
			return Result{Status: "harness-error", Note: err.Error()}
		}
		defer os.Remove(p)
		if err := cmd.VerifProcessFile(p, ctxt, false); err != nil {
			// nothing may have been written
			now, _ := os.ReadFile(p)
			if !bytes.Equal(now, a[0]) {
				return Result{Status: "ok", Out: [][]byte{now}, Note: "error returned but file rewritten"}
			}
			return diag(err.Error())
		}
		out, _ := os.ReadFile(p)
		return ok(out)
	}
	// format --check on bytes: 1 = passes
	implOps["format.check"] = func(a [][]byte) Result {
		ctxt, root := workerCtx()
		p := filepath.Join(root, "regex-assembly", "chk.ra")
		if err := os.WriteFile(p, a[0], 0o644); err != nil {
			return Result{Status: "harness-error", Note: err.Error()}
		}
		defer os.Remove(p)
		// processFile prints to stdout in check mode; silence it
		old := os.Stdout
		devnull, _ := os.OpenFile(os.DevNull, os.O_WRONLY, 0)
		os.Stdout = devnull
		err := cmd.VerifProcessFile(p, ctxt, true)
		os.Stdout = old
		devnull.Close()
		now, _ := os.ReadFile(p)
		if !bytes.Equal(now, a[0]) {
			return Result{Status: "ok", Out: [][]byte{{2}}, Note: "check mode wrote"}
		}
		return ok(boolB(err == nil))
	}
	oracles["c09.format"] = oracleC09
	oracles["c09.cli"] = oracleC09CLI
	oracles["c09.checkAll"] = oracleC09CheckAll
}

// escalateFormat: a line or file on which the model of the formatter (or of a directive pattern) and the code disagree
// becomes whole files that carry the format oracles (format twice, --check, generate before/after).
func escalateFormat(d Disagreement) []Case {
	if len(d.Op.Args) == 0 {
		return nil
	}
	var files []string
	switch {
	case d.Op.Name == "format.file" || d.Op.Name == "format.check":
		files = []string{string(d.Op.Args[0])}
	case d.Op.Name == "format.processLine" || strings.HasPrefix(d.Op.Name, "pat."):
		l := strings.NewReplacer("\n", "", "\r", "").Replace(string(d.Op.Args[0]))
		files = []string{l + "\n", "##!> assemble\n" + l + "\nfoo\n##!<\n", "foo\n" + l + "\nbar\n"}
	default:
		return nil
	}
	var cases []Case
	for _, f := range files {
		args := [][]byte{{}, {}, {}, {}, {}, {}, []byte(f), []byte("i"), []byte("foo.ra"), []byte("a\nb\n"), []byte("i"), []byte("bar.ra"), []byte("c\n")}
		cases = append(cases, Case{Kind: "escalated-format", Ops: []Op{{"format.file", [][]byte{[]byte(f)}}},
			Oracles: []Op{{"c09.format", [][]byte{[]byte(f)}}, {"c10.meaning", args}}})
	}
	return cases
}

var patOps = []string{"pat.blockStart", "pat.blockEnd", "pat.flags", "pat.prefix", "pat.suffix", "pat.definition", "pat.include", "pat.includeExcept", "pat.comment", "pat.processorStart", "pat.assembleInput", "pat.assembleOutput", "pat.splitArgs"}

func patternCases(r *rand.Rand, n int) []Case {
	var cases []Case
	for i := 0; i < n; i++ {
		l := genDirectiveLine(r)
		if chance(r, 0.5) {
			l = strings.TrimLeft(l, " \t")
		}
		var ops []Op
		for _, o := range patOps {
			ops = append(ops, Op{o, [][]byte{[]byte(l)}})
		}
		depth := r.Intn(4)
		if i%5 == 2 {
			depth = 4 + r.Intn(12) // deeply nested blocks: two spaces per open block at every depth
		}
		ops = append(ops, Op{"format.processLine", [][]byte{[]byte(l), bytes.Repeat([]byte{'x'}, depth)}})
		cases = append(cases, Case{Kind: "pattern-line", Ops: ops})
	}
	return cases
}

// exhaustivePatternCases: EVERY sequence of up to maxLen tokens from a small alphabet of the directive grammar (markers,
// keywords, white space of three kinds, a name, a dash pair, a brace reference) through every recogniser and through
// processLine at two indentation levels — small-scope exhaustive, where patternCases samples.
func exhaustivePatternCases(maxLen int) []Case {
	toks := []string{"##!", ">", "+", "^", "$", "<", "=", " ", "\t", "include", "include-except", "define", "assemble", "cmdline", "a", "--", "{{a}}", "\f", "unix"}
	var cases []Case
	var rec func(prefix string, depth int)
	batch := []string{}
	flush := func() {
		if len(batch) == 0 {
			return
		}
		var ops []Op
		for _, l := range batch {
			for _, o := range patOps {
				ops = append(ops, Op{o, [][]byte{[]byte(l)}})
			}
			ops = append(ops, Op{"format.processLine", [][]byte{[]byte(l), {}}}, Op{"format.processLine", [][]byte{[]byte(l), []byte("xx")}})
		}
		cases = append(cases, Case{Kind: "pattern-exhaustive", Ops: ops})
		batch = nil
	}
	rec = func(prefix string, depth int) {
		if depth > 0 {
			batch = append(batch, prefix)
			if len(batch) >= 8 {
				flush()
			}
		}
		if depth == maxLen {
			return
		}
		for _, t := range toks {
			rec(prefix+t, depth+1)
		}
	}
	rec("", 0)
	flush()
	return cases
}

var hdr = "##! Please refer to the documentation at\n##! https://coreruleset.org/docs/development/regex_assembly/.\n\n"

// canonical layout, read independently of the code (C09)
func c09Canonical(out []byte) string {
	s := string(out)
	if !strings.HasPrefix(s, hdr) {
		return "does not start with the standard header followed by an empty line"
	}
	if !strings.HasSuffix(s, "\n") {
		return "does not end with a newline"
	}
	body := strings.Split(strings.TrimSuffix(s[len(hdr):], "\n"), "\n")
	if s == hdr {
		body = nil
	}
	if len(body) > 0 && body[len(body)-1] == "" {
		return "trailing empty line before the final newline"
	}
	depth := 0
	for i, l := range body {
		if l == "" {
			continue
		}
		t := strings.TrimLeft(l, " \t")
		ind := len(l) - len(t)
		want := 2 * depth
		isStart := regexp.MustCompile(`^##!>\s*(assemble|cmdline)(\s|$)`).MatchString(t)
		isEnd := strings.HasPrefix(t, "##!<")
		isTop := regexp.MustCompile(`^##![+^$]\s*\S`).MatchString(t)
		if isEnd {
			want = 2 * (depth - 1)
		}
		if isTop {
			want = 0
		}
		if t == "" {
			want = 0
			ind = 0
			if l != "" {
				return fmt.Sprintf("line %d consists of white space only: %q", i, l)
			}
		}
		if ind != want || strings.ContainsAny(l[:ind], "\t") {
			return fmt.Sprintf("line %d %q is indented by %d, expected %d spaces", i, l, ind, want)
		}
		if isStart {
			depth++
		} else if isEnd {
			depth--
		}
		// normalised spacing of directive keywords (only for lines that clearly are such directives)
		for _, shape := range []string{`^##!>\s*(assemble)\s*$`, `^##!>\s*(cmdline)\s+(\S+)\s*$`, `^##!>\s*(include)\s+([^\s-]+)\s*$`, `^##!>\s*(define)\s+([A-Za-z0-9_]+)\s+(\S+)\s*$`} {
			if m := regexp.MustCompile(shape).FindStringSubmatch(t); m != nil {
				if t != "##!> "+strings.Join(m[1:], " ") {
					return fmt.Sprintf("line %d %q: directive not in normalised spacing", i, l)
				}
			}
		}
		if isTop && !regexp.MustCompile(`^##![+^$] \S`).MatchString(t) {
			return fmt.Sprintf("line %d %q: flag/prefix/suffix not in normalised spacing", i, l)
		}
	}
	return ""
}

func stripWs(s string) string {
	return strings.Map(func(c rune) rune {
		if c == ' ' || c == '\t' || c == '\r' || c == '\f' || c == '\v' {
			return -1
		}
		return c
	}, s)
}

func oracleC09(p *Pair, env *Env, a [][]byte) *Failure {
	in := a[0]
	r1 := p.Impl(Op{"format.file", [][]byte{in}}, env.timeout)
	if r1.Note == "error returned but file rewritten" {
		return &Failure{What: "format reported an error but rewrote the file", Detail: fmt.Sprintf("%q -> %q", in, r1.Out[0])}
	}
	chk0 := p.Impl(Op{"format.check", [][]byte{in}}, env.timeout)
	if chk0.Status == "ok" && chk0.Out[0][0] == 2 {
		return &Failure{What: "format --check wrote to the file", Detail: fmt.Sprintf("%q", in)}
	}
	if r1.Status != "ok" {
		if r1.Status == "diag" {
			return nil // loud failure, file untouched (checked above and under C16)
		}
		return &Failure{What: "format died with " + r1.Status, Detail: fmt.Sprintf("%q %s", in, r1.String())}
	}
	out := r1.Out[0]
	if msg := c09Canonical(out); msg != "" {
		return &Failure{What: "format output is not in canonical layout: " + msg, Detail: fmt.Sprintf("input %q\noutput %q", in, out)}
	}
	// D22: a line ending in CR CR loses one CR per run
	crcr := bytes.Contains(in, []byte("\r\r\n")) || bytes.HasSuffix(in, []byte("\r\r"))
	r2 := p.Impl(Op{"format.file", [][]byte{out}}, env.timeout)
	if r2.Status != "ok" || !bytes.Equal(r2.Out[0], out) {
		f := &Failure{What: "format is not idempotent", Detail: fmt.Sprintf("input %q\nonce  %q\ntwice %s", in, out, r2.String())}
		if crcr && r2.Status == "ok" && bytes.Equal(bytes.ReplaceAll(r2.Out[0], []byte("\r"), nil), bytes.ReplaceAll(out, []byte("\r"), nil)) {
			f.Finding = "D22"
		}
		return f
	}
	r3 := p.Impl(Op{"format.file", [][]byte{r2.Out[0]}}, env.timeout)
	if r3.Status != "ok" || !bytes.Equal(r3.Out[0], out) {
		return &Failure{What: "third format changed the file", Detail: fmt.Sprintf("%q", in)}
	}
	// --check agrees with format (apart from the upper-case lint, which needs the i flag)
	lintPossible := regexp.MustCompile(`(?m)^[ \t]*##!\+.*i`).Match(in)
	if chk0.Status == "ok" && !lintPossible {
		pass := chk0.Out[0][0] == 1
		if pass != bytes.Equal(in, out) {
			return &Failure{What: "format --check disagrees with format", Detail: fmt.Sprintf("check passes: %v, format leaves file unchanged: %v, input %q", pass, bytes.Equal(in, out), in)}
		}
	}
	chk1 := p.Impl(Op{"format.check", [][]byte{out}}, env.timeout)
	if !lintPossible && (chk1.Status != "ok" || chk1.Out[0][0] != 1) {
		return &Failure{What: "format --check fails on a freshly formatted file", Detail: fmt.Sprintf("%q", out)}
	}
	// C10: white-space-stripped line sequence is the same apart from header and trailing blanks
	inLines := strings.Split(strings.ReplaceAll(string(in), "\r\n", "\n"), "\n")
	var a1 []string
	for _, l := range inLines {
		a1 = append(a1, stripWs(l))
	}
	for len(a1) > 0 && a1[len(a1)-1] == "" {
		a1 = a1[:len(a1)-1]
	}
	h1, h2 := stripWs("##! Please refer to the documentation at"), stripWs("##! https://coreruleset.org/docs/development/regex_assembly/.")
	var a2 []string
	for _, l := range strings.Split(strings.TrimSuffix(string(out)[len(hdr):], "\n"), "\n") {
		a2 = append(a2, stripWs(l))
	}
	if string(out) == hdr {
		a2 = nil
	}
	for len(a2) > 0 && a2[len(a2)-1] == "" {
		a2 = a2[:len(a2)-1]
	}
	// the input may already carry the header (with or without its empty line): decided on the raw lines, as format does
	// (indentation of spaces and tabs is not part of a line, any other character is)
	rawLine := func(i int) (string, bool) {
		if i >= len(inLines) {
			return "", false
		}
		return strings.TrimLeft(strings.TrimSuffix(inLines[i], "\r"), " \t"), true
	}
	l0, _ := rawLine(0)
	l1, _ := rawLine(1)
	l2, has2 := rawLine(2)
	if l0 == "##! Please refer to the documentation at" && l1 == "##! https://coreruleset.org/docs/development/regex_assembly/." && (!has2 || l2 == "") && len(a1) >= 2 {
		a1 = a1[2:]
		if len(a1) > 0 {
			a1 = a1[1:]
		}
	}
	_, _ = h1, h2
	if !crcr && strings.Join(a1, "\n") != strings.Join(a2, "\n") {
		f := &Failure{What: "format changed more than white space (line sequence differs after stripping white space)",
			Detail: fmt.Sprintf("input %q\noutput %q\nstripped in  %q\nstripped out %q", in, out, a1, a2)}
		// D23: a dangling `--` (no replacement pairs after it) on an include/include-except line is dropped;
		// attributed only when every differing line is such a directive and differs by that trailing `--` alone
		if len(a1) == len(a2) {
			only := true
			for i := range a1 {
				if a1[i] != a2[i] && !(a1[i] == a2[i]+"--" && strings.HasPrefix(a1[i], "##!>include")) {
					only = false
				}
			}
			if only {
				f.Finding = "D23"
			}
		}
		return f
	}
	return nil
}

func oracleC09CLI(p *Pair, env *Env, a [][]byte) *Failure {
	in := a[0]
	sb := mkSandbox(env)
	defer os.RemoveAll(sb)
	name := string(a[1])
	rel := filepath.Join("regex-assembly", name+".ra")
	if !regexp.MustCompile(`^\d{6}`).MatchString(name) {
		rel = filepath.Join("regex-assembly", "include", name+".ra")
	}
	t := Tree{rel: in, "regex-assembly/notes.txt": in, "rules/": nil}
	_ = t.write(sb)
	want := p.Impl(Op{"format.file", [][]byte{in}}, env.timeout)
	before := snapshot(sb)
	c := runCLI(env, sb, nil, "-l", "disabled", "regex", "format", "-c", name)
	if d := diffSnap(before, snapshot(sb)); len(d) > 0 {
		return &Failure{What: "format --check wrote to the tree", Detail: strings.Join(d, ", ")}
	}
	chkExit := c.exit
	c = runCLI(env, sb, nil, "-l", "disabled", "regex", "format", name)
	got, _ := os.ReadFile(filepath.Join(sb, rel))
	if want.Status != "ok" {
		if c.exit == 0 {
			return &Failure{What: "format exits 0 although formatting failed", Detail: fmt.Sprintf("%q", in)}
		}
		if !bytes.Equal(got, in) {
			return &Failure{What: "format failed but modified the file", Detail: fmt.Sprintf("%q -> %q", in, got)}
		}
		return nil
	}
	if c.exit != 0 || !bytes.Equal(got, want.Out[0]) {
		return &Failure{What: "format binary result differs from processFile", Detail: fmt.Sprintf("exit %d got %q want %q", c.exit, got, want.Out[0])}
	}
	if d := diffSnap(before, snapshot(sb)); len(d) > 1 || (len(d) == 1 && d[0] != "changed "+rel) {
		return &Failure{What: "format touched something else than its target", Detail: strings.Join(d, ", ")}
	}
	lintPossible := regexp.MustCompile(`(?m)^[ \t]*##!\+.*i`).Match(in)
	if !lintPossible && (chkExit == 0) != bytes.Equal(in, want.Out[0]) {
		return &Failure{What: "format --check exit status disagrees with format", Detail: fmt.Sprintf("exit %d, unchanged %v", chkExit, bytes.Equal(in, want.Out[0]))}
	}
	c = runCLI(env, sb, nil, "-l", "disabled", "regex", "format", "-c", "-a")
	if c.exit != 0 && !lintPossible {
		return &Failure{What: "format --check --all fails right after format", Detail: string(c.stdout)}
	}
	// the formatted file and files that differ from it in their line terminators only (CRLF on every line, on one line, no
	// final newline): `--check` succeeds exactly for the bytes format would leave as they are — in text mode and in GitHub
	// mode, for the file alone and under --all
	canon := want.Out[0]
	variants := [][]byte{canon, bytes.ReplaceAll(canon, []byte("\n"), []byte("\r\n")), bytes.Replace(canon, []byte("\n"), []byte("\r\n"), 1), bytes.TrimSuffix(canon, []byte("\n"))}
	if i := bytes.LastIndexByte(bytes.TrimSuffix(canon, []byte("\n")), '\n'); i >= 0 {
		variants = append(variants, append(append(append([]byte{}, canon[:i]...), '\r'), canon[i:]...))
	}
	for _, v := range variants {
		if lintPossible {
			break
		}
		f := p.Impl(Op{"format.file", [][]byte{v}}, env.timeout)
		if f.Status != "ok" {
			continue
		}
		unchanged := bytes.Equal(f.Out[0], v)
		_ = os.WriteFile(filepath.Join(sb, rel), v, 0o644)
		for _, argv := range [][]string{{"regex", "format", "-c", name}, {"-o", "github", "regex", "format", "-c", name}, {"regex", "format", "-c", "-a"}, {"-o", "github", "regex", "format", "-a", "-c"}} {
			c := runCLI(env, sb, nil, append([]string{"-l", "disabled"}, argv...)...)
			now, _ := os.ReadFile(filepath.Join(sb, rel))
			if !bytes.Equal(now, v) {
				return &Failure{What: "format --check wrote to the file", Detail: fmt.Sprintf("%v: %q -> %q", argv, v, now)}
			}
			if (c.exit == 0) != unchanged {
				return &Failure{What: "format --check does not succeed exactly for the bytes format would leave as they are",
					Detail: fmt.Sprintf("%v on %q: exit %d, format would leave the file unchanged: %v", argv, v, c.exit, unchanged)}
			}
		}
	}
	return nil
}

// `format --check --all` fails exactly when some file would be rewritten — wherever that file comes in the walk —,
// writes nothing, and passes right after `format --all`. args: tree
func oracleC09CheckAll(p *Pair, env *Env, a [][]byte) *Failure {
	t := decodeTree(a[0])
	wouldChange := []string{}
	for path, content := range t {
		if !strings.HasSuffix(path, ".ra") {
			continue
		}
		f := p.Impl(Op{"format.file", [][]byte{content}}, env.timeout)
		if f.Status != "ok" {
			return nil // a file format gives up on: C16's business
		}
		if !bytes.Equal(f.Out[0], content) {
			wouldChange = append(wouldChange, path)
		}
	}
	sort.Strings(wouldChange)
	sb := mkSandbox(env)
	defer os.RemoveAll(sb)
	_ = t.write(sb)
	before := snapshot(sb)
	for _, mode := range [][]string{{"-l", "disabled"}, {"-l", "disabled", "-o", "github"}} {
		c := runCLI(env, sb, nil, append(append([]string{}, mode...), "regex", "format", "--check", "--all")...)
		if d := diffSnap(before, snapshot(sb)); len(d) > 0 {
			return &Failure{What: "format --check --all wrote to the tree", Detail: strings.Join(d, ", ")}
		}
		if (c.exit != 0) != (len(wouldChange) > 0) {
			return &Failure{What: "format --check --all: the verdict is not 'some file would be rewritten'",
				Detail: fmt.Sprintf("mode %v: exit %d; files format would rewrite: %v", mode, c.exit, wouldChange)}
		}
	}
	c := runCLI(env, sb, nil, "-l", "disabled", "regex", "format", "--all")
	if c.exit != 0 {
		return &Failure{What: "format --all fails on files format accepts one by one", Detail: tail(string(c.stderr), 300)}
	}
	c = runCLI(env, sb, nil, "-l", "disabled", "regex", "format", "--check", "--all")
	if c.exit != 0 {
		return &Failure{What: "format --check --all fails right after format --all", Detail: fmt.Sprintf("exit %d", c.exit)}
	}
	return nil
}

func genFormatCases(r *rand.Rand, tier string, withOracle bool) []Case {
	nPat, nFile, nCli := 500, 350, 30
	if tier == "thorough" {
		nPat, nFile, nCli = 8000, 6000, 400
	}
	cases := patternCases(r, nPat)
	if withOracle {
		// small-scope exhaustive tie of the recognisers (C09 carries it; C10 shares the sampled stream)
		if tier == "thorough" {
			cases = append(cases, exhaustivePatternCases(4)...)
		} else {
			cases = append(cases, exhaustivePatternCases(3)...)
		}
	}
	fixed := []string{"", "\n", "\n\n", hdr, strings.TrimSuffix(hdr, "\n"), hdr + "\n", "##! Please refer to the documentation at\n", "foo", "foo\n\n\n", "  foo\n\tbar\n",
		"##!> assemble\nfoo\n##!<\n", "##!<\n", "##!> cmdline unix\n##!> assemble\na\n##!<\n##!<\nb\n", "##!+ i\n[A-Z]\n", "##!+ x\n", "##!> include a -- b\n", "a\r\nb\r\n", " \n \n"}
	{
		// blocks nested 13 deep, every kind of line at every depth
		var deep strings.Builder
		for d := 0; d < 13; d++ {
			deep.WriteString("##!> " + []string{"assemble", "cmdline unix"}[d%2] + "\nentry" + fmt.Sprint(d) + "\n##! comment\n##!=>\n##!> define d" + fmt.Sprint(d) + " x\n")
		}
		for d := 0; d < 13; d++ {
			deep.WriteString("tail" + fmt.Sprint(d) + "\n##!<\n")
		}
		fixed = append(fixed, deep.String())
	}
	for _, f := range fixed {
		c := Case{Kind: "fixed", Ops: []Op{{"format.file", [][]byte{[]byte(f)}}}}
		if withOracle {
			c.Oracles = []Op{{"c09.format", [][]byte{[]byte(f)}}}
		}
		cases = append(cases, c)
	}
	for i := 0; i < nFile; i++ {
		f := genRaBytes(r, 14)
		kindF := "ra-bytes"
		if i%40 == 17 {
			f, kindF = genBigRa(r), "big-file"
		}
		c := Case{Kind: kindF, Ops: []Op{{"format.file", [][]byte{[]byte(f)}}}}
		if withOracle {
			c.Oracles = []Op{{"c09.format", [][]byte{[]byte(f)}}}
			if i < nCli || kindF == "big-file" {
				c.Kind = kindF + "+cli"
				c.Oracles = append(c.Oracles, Op{"c09.cli", [][]byte{[]byte(f), []byte(pick(r, []string{"942100", "942100-chain1", "unix-shell", "foo"}))}})
			}
		}
		cases = append(cases, c)
	}
	if withOracle {
		// small trees through --check --all: the untidy file first, in the middle, last, in include/, or nowhere
		nT := 10
		if tier == "thorough" {
			nT = 80
		}
		tidy := func(body string) string {
			return "##! Please refer to the documentation at\n##! https://coreruleset.org/docs/development/regex_assembly/.\n\n" + body
		}
		for i := 0; i < nT; i++ {
			names := []string{"regex-assembly/942100.ra", "regex-assembly/942110.ra", "regex-assembly/942120-chain1.ra", "regex-assembly/include/words.ra", "regex-assembly/exclude/skip.ra"}
			t := Tree{}
			for _, nme := range names {
				t[nme] = []byte(tidy(pick(r, []string{"foo\nbar\n", "##!> assemble\n  a\n  ##!=>\n  b\n##!<\n", "x\n"})))
			}
			if i%6 != 5 {
				t[names[i%len(names)]] = []byte(pick(r, []string{"  foo\n", "foo\n\n\n", tidy("##!>   assemble\na\n##!<\n"), "##!> include  words\n"}))
			}
			if i%4 == 3 {
				t[names[(i+2)%len(names)]] = []byte("\tbar\n")
			}
			cases = append(cases, Case{Kind: "tree:check-all", Oracles: []Op{{"c09.checkAll", [][]byte{encodeTree(t)}}}})
		}
	}
	return cases
}

func init() {
	properties["C09"] = &Property{
		Escalate: escalateFormat,
		ID:       "C09", LeanMods: []string{"CrsProps.C09"},
		Corr: "K1 (every directive regexp vs Crs.Pat recognisers on pattern-directed lines), K6 (processLine, processFile vs Crs.Format), K10 (format binary)",
		Rule: "single lines generated around the directive grammar (members, near misses, boundary mutants of each pattern); whole .ra files of 0..14 such lines with tabs/spaces, CRLF, missing final newline, empty, white-space-only and header-carrying files; non-trivial = at least one directive or indentation change; distinct by bytes",
		Gen:  func(r *rand.Rand, tier string, env *Env) []Case { return genFormatCases(r, tier, true) },
		Assume: []string{"the upper-case lint of --check (findUpperCaseCharacterClassOnIgnoreCaseFlag) is an input of the model, as the property sets it aside",
			"lines ending in CR CR LF: known finding D22 (one CR is dropped per run)"},
	}
}
