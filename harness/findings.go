package main

import (
	"bufio"
	"encoding/json"
	"fmt"
	"os"
	"path/filepath"
)

// One line of /verif/known_findings.jsonl. kind "finding": a genuine defect recorded rather than
// repaired; the check prints a KNOWN-FINDING line while its witness still fails and does not count
// failures that fall under its (narrow, coded) trigger. kind "fixed": history only, suppresses nothing.
type knownFinding struct {
	Kind     string  `json:"kind"`
	Property string  `json:"property"`
	ID       string  `json:"id"`
	What     string  `json:"what"`
	Commit   string  `json:"commit,omitempty"`
	Witness  *opJSON `json:"witness,omitempty"`
}

func loadFindings() []knownFinding {
	f, err := os.Open(filepath.Join(verifDir(), "known_findings.jsonl"))
	if err != nil {
		return nil
	}
	defer f.Close()
	var out []knownFinding
	sc := bufio.NewScanner(f)
	sc.Buffer(nil, 1<<24)
	for sc.Scan() {
		var k knownFinding
		if len(sc.Bytes()) == 0 || json.Unmarshal(sc.Bytes(), &k) != nil {
			continue
		}
		out = append(out, k)
	}
	return out
}

// listedFindings returns the ids listed (kind finding) for a property.
func listedFindings(prop string) map[string]knownFinding {
	m := map[string]knownFinding{}
	for _, k := range loadFindings() {
		if k.Kind == "finding" && k.Property == prop {
			m[k.ID] = k
		}
	}
	return m
}

// findingLines evaluates the witness of every listed finding of the property on the real code.
func findingLines(prop string, p *Pair, env *Env) (lines []string, notes []string) {
	for id, k := range listedFindings(prop) {
		if k.Witness == nil {
			lines = append(lines, fmt.Sprintf("KNOWN-FINDING: property=%s %s %s (no executable witness)", prop, id, k.What))
			continue
		}
		op, err := opFromJSON(*k.Witness)
		if err != nil {
			notes = append(notes, "bad witness for "+id)
			continue
		}
		f, found := oracles[op.Name]
		if !found {
			notes = append(notes, "unknown witness oracle for "+id)
			continue
		}
		fl := f(p, env, op.Args)
		if fl != nil && fl.Finding == id {
			lines = append(lines, fmt.Sprintf("KNOWN-FINDING: property=%s %s %s", prop, id, k.What))
		} else if fl != nil {
			notes = append(notes, fmt.Sprintf("witness of %s fails differently: %s", id, fl.What))
		} else {
			notes = append(notes, fmt.Sprintf("witness of %s no longer fails (finding may have been repaired)", id))
		}
	}
	return
}
