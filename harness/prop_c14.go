package main

import (
	"bytes"
	"fmt"
	"math/rand"
	"os"
	"path/filepath"
	"strings"
	"unicode/utf8"

	"github.com/coreruleset/crs-toolchain/v2/chore"
	"github.com/coreruleset/crs-toolchain/v2/cmd"
	"github.com/coreruleset/crs-toolchain/v2/regex"
)

func init() {
	implOps["copyright.updateRules"] = func(a [][]byte) Result {
		out, err := chore.VerifUpdateRules(string(a[0]), string(a[1]), a[2])
		if err != nil {
			return diag(err.Error())
		}
		return ok(out)
	}
	// one marker pattern alone, with the replacement template of updateRules
	implOps["copyright.sub"] = func(a [][]byte) Result {
		v, l := string(a[1]), string(a[2])
		switch string(a[0]) {
		case "1":
			return okS(regex.CRSVersionRegex.ReplaceAllString(l, "${1}"+v))
		case "2":
			digits := ""
			for _, c := range v {
				if c >= '0' && c <= '9' {
					digits += string(c)
				}
			}
			return okS(regex.ShortCRSVersionRegex.ReplaceAllString(l, "${1}"+digits))
		case "3":
			return okS(regex.CRSCopyrightYearRegex.ReplaceAllString(l, "${1}"+v+"${3}"))
		case "4":
			return okS(regex.CRSYearSecRuleVerRegex.ReplaceAllString(l, "${1}"+v))
		case "5":
			return okS(regex.CRSVersionComponentSignatureRegex.ReplaceAllString(l, "${1}"+v))
		}
		return Result{Status: "bad-op"}
	}
	implOps["std.runeLen"] = func(a [][]byte) Result {
		_, n := utf8.DecodeRune(a[0])
		return okS(fmt.Sprint(n))
	}
	implOps["std.natToBytes"] = func(a [][]byte) Result { return okS(fmt.Sprint(len(a[0]))) }
	implOps["copyright.validateSemver"] = func(a [][]byte) Result {
		if err := cmd.VerifValidateSemver(string(a[0])); err != nil {
			return diag(err.Error())
		}
		return ok()
	}
	oracles["c14.seq"] = oracleC14Seq
	oracles["c14.cli"] = oracleC14CLI
	properties["C14"] = &Property{
		ID:       "C14",
		LeanMods: []string{"CrsProps.C14", "CrsProps.C14Comp"},
		Corr:     "K8 (chore.updateRules and each marker pattern alone vs Crs.Copyright), K0 (utf8.DecodeRune), K10 (update-copyright binary on sandbox trees)",
		Rule: "conf/example files generated from marker lines of the five kinds in many spellings (old versions x.y.z, pre-release tags in either case, v prefix, build metadata, two components), " +
			"near-miss markers, several markers per line, noise lines, CRLF; sequences of 1..3 (version, year) pairs drawn from the accepted grammar; non-trivial = the file contains at least one marker; distinct = distinct (file, sequence)",
		Gen: genC14,
		Assume: []string{
			"versions are those validateSemver accepts (no `$`, quotes or `:`), years are four digits",
			"a file line ending in CR CR LF loses one CR per run (bufio.ScanLines): known finding D22, excluded from generated files except for its witness",
		},
	}
}

var semverSamples = []string{"4.0.0", "4.1.0-RC1", "v4.2.0", "4.6.0", "4.10.0-rc2", "3.3.5", "4.0", "v5", "4.8.0-dev", "4.9.0+build.7", "4.7.0-rc.1+meta", "10.20.30", "4.0.1-DEV", "v4.12.3-RC10"}

func genVersion(r *rand.Rand) string {
	if chance(r, 0.6) {
		return pick(r, semverSamples)
	}
	v := ""
	if chance(r, 0.2) {
		v = "v"
	}
	v += fmt.Sprint(r.Intn(12))
	n := r.Intn(3)
	for i := 0; i < n; i++ {
		v += "." + fmt.Sprint(r.Intn(30))
	}
	if chance(r, 0.4) {
		v += "-" + pick(r, []string{"rc1", "RC2", "dev", "alpha.1", "x-y", "SNAPSHOT"})
	}
	if chance(r, 0.2) {
		v += "+" + pick(r, []string{"b1", "build.5", "2024"})
	}
	return v
}

func genConfLine(r *rand.Rand, markers *int) string {
	old := genVersion(r)
	switch weighted(r, []int{3, 3, 3, 3, 3, 8, 3, 2}) {
	case 0:
		*markers++
		return pick(r, []string{"# OWASP ModSecurity Core Rule Set ver.", "# OWASP CRS ver."}) + old
	case 1:
		*markers++
		return pick(r, []string{"    ", "  \"", ""}) + "setvar:tx" + pick(r, []string{".", ".", "_", "=", "é", "\xff"}) + "crs_setup_version=" + fmt.Sprint(r.Intn(5000)) + pick(r, []string{"\"", "", ",\\", "=1"})
	case 2:
		*markers++
		return "# Copyright (c) 2021-" + fmt.Sprint(2000+r.Intn(40)) + pick(r, []string{" Core Rule Set project. All rights reserved.", " CRS project. All rights reserved.", " CRS project, All rights reserved!"})
	case 3:
		*markers++
		return pick(r, []string{"    ", "\t"}) + "ver:'OWASP_CRS/" + old + pick(r, []string{"',\\", "'", "", "',ver:'OWASP_CRS/" + genVersion(r) + "'"})
	case 4:
		*markers++
		return "SecComponentSignature \"OWASP_CRS/" + old + pick(r, []string{"\"", "", "\" # x"})
	case 5:
		return pick(r, []string{"SecRule ARGS \"@rx foo\" \\", "    \"id:942100,\\", "    phase:2,\\", "", "# comment", "    t:none,\\", "    msg:'x',\\",
			"SecAction \\", "    nolog,\\", "    pass\"", "  ", "# -- Rule engine initialization ----------"})
	case 6: // near misses
		return pick(r, []string{"# OWASP CRS ver.", " # OWASP CRS ver.4.0.0", "# OWASP CRS ver4.0.0", "setvar:tx.crs_setup_version=", "setvar:tx.crs_setup_version=x1",
			"# Copyright (c) 2021-20245 CRS project. All rights reserved.", "# Copyright (c) 2021-2024 CRS project. All rights reserved. ", "ver:'OWASP_CRS/'", "ver:'OWASP_CRS", "ver:\"OWASP_CRS/4.0.0\"",
			"SecComponentSignature \"OWASP_CRS/\"", " SecComponentSignature \"OWASP_CRS/4.0.0\"", "setvar:txcrs_setup_version=400"})
	default: // several markers on one line
		*markers++
		return pick(r, []string{
			"ver:'OWASP_CRS/" + old + "',setvar:tx.crs_setup_version=" + fmt.Sprint(r.Intn(999)),
			"setvar:tx.crs_setup_version=" + fmt.Sprint(r.Intn(999)) + ",ver:'OWASP_CRS/" + old + "'",
			"# OWASP CRS ver." + old + " ver:'OWASP_CRS/" + old + "'",
			"SecComponentSignature \"OWASP_CRS/" + old + "\" ver:'OWASP_CRS/" + old + "'",
			"x ver:'OWASP_CRS/" + old + "ver:'OWASP_CRS/" + old + "'",
		})
	}
}

func genConfFile(r *rand.Rand) (string, int) {
	n := 1 + r.Intn(14)
	markers := 0
	lines := make([]string, n)
	for i := range lines {
		lines[i] = genConfLine(r, &markers)
	}
	return joinLines(r, lines, 0.2, chance(r, 0.85)), markers
}

// independent reading of "every marker shows V / digits(V) / Y"
func c14MarkersShow(out []byte, v, y string) string {
	digits := ""
	for _, c := range v {
		if c >= '0' && c <= '9' {
			digits += string(c)
		}
	}
	for _, l := range strings.Split(string(out), "\n") {
		for _, p := range []string{"# OWASP ModSecurity Core Rule Set ver.", "# OWASP CRS ver."} {
			if strings.HasPrefix(l, p) && len(l) > len(p) && l != p+v {
				return fmt.Sprintf("header line %q does not show version %q", l, v)
			}
		}
		if p := "SecComponentSignature \"OWASP_CRS/"; strings.HasPrefix(l, p) {
			rest := l[len(p):]
			if i := strings.IndexByte(rest, '"'); i != 0 && len(rest) > 0 {
				if i < 0 {
					i = len(rest)
				}
				if rest[:i] != v {
					return fmt.Sprintf("SecComponentSignature line %q does not show version %q", l, v)
				}
			}
		}
		rest := l
		for {
			i := strings.Index(rest, "ver:'OWASP_CRS/")
			if i < 0 {
				break
			}
			rest = rest[i+len("ver:'OWASP_CRS/"):]
			j := strings.IndexByte(rest, '\'')
			if j < 0 {
				j = len(rest)
			}
			if j > 0 && rest[:j] != v {
				return fmt.Sprintf("ver: marker in %q does not show version %q", l, v)
			}
			rest = rest[j:]
		}
		if p := "# Copyright (c) 2021-"; strings.HasPrefix(l, p) {
			for _, s := range []string{" Core Rule Set project. All rights reserved.", " CRS project. All rights reserved."} {
				if len(l) == len(p)+4+len(s) && strings.HasSuffix(l, s) {
					yy := l[len(p) : len(p)+4]
					if strings.Trim(yy, "0123456789") == "" && yy != y {
						return fmt.Sprintf("copyright line %q does not show year %q", l, y)
					}
				}
			}
		}
		rest = l
		for {
			i := strings.Index(rest, "crs_setup_version=")
			if i < 0 {
				break
			}
			before := rest[:i]
			rest = rest[i+len("crs_setup_version="):]
			if strings.HasSuffix(before, "setvar:tx.") || strings.HasSuffix(before, "setvar:tx_") {
				j := 0
				for j < len(rest) && rest[j] >= '0' && rest[j] <= '9' {
					j++
				}
				if j > 0 && rest[:j] != digits {
					return fmt.Sprintf("crs_setup_version in %q does not show %q", l, digits)
				}
			}
		}
	}
	return ""
}

func c14Apply(p *Pair, env *Env, v, y string, in []byte) ([]byte, *Failure) {
	r := p.Impl(Op{"copyright.updateRules", [][]byte{[]byte(v), []byte(y), in}}, env.timeout)
	if r.Status != "ok" {
		return nil, &Failure{What: "updateRules failed", Detail: r.String()}
	}
	return r.Out[0], nil
}

// args: contents, then pairs v,y
func oracleC14Seq(p *Pair, env *Env, a [][]byte) *Failure {
	in := a[0]
	cur := in
	var lastV, lastY string
	for i := 1; i+1 < len(a); i += 2 {
		lastV, lastY = string(a[i]), string(a[i+1])
		out, f := c14Apply(p, env, lastV, lastY, cur)
		if f != nil {
			return f
		}
		cur = out
	}
	direct, f := c14Apply(p, env, lastV, lastY, in)
	if f != nil {
		return f
	}
	if !bytes.Equal(direct, cur) {
		return &Failure{What: "update-copyright: the result depends on what earlier runs wrote (sequence differs from last invocation alone)",
			Detail: fmt.Sprintf("file %q\nsequence %q\nafter sequence %q\nlast alone     %q", in, a[1:], cur, direct)}
	}
	again, f := c14Apply(p, env, lastV, lastY, cur)
	if f != nil {
		return f
	}
	if !bytes.Equal(again, cur) {
		return &Failure{What: "update-copyright: repeating the command changes the file", Detail: fmt.Sprintf("once %q twice %q", cur, again)}
	}
	if msg := c14MarkersShow(cur, lastV, lastY); msg != "" {
		return &Failure{What: "update-copyright: " + msg, Detail: fmt.Sprintf("file %q result %q", in, cur)}
	}
	// frame: lines without any marker text are unchanged
	inLines := strings.Split(strings.TrimSuffix(strings.ReplaceAll(string(in), "\r\n", "\n"), "\n"), "\n")
	outLines := strings.Split(strings.TrimSuffix(string(cur), "\n"), "\n")
	if len(in) > 0 && len(inLines) == len(outLines) {
		for i, l := range inLines {
			marker := strings.Contains(l, "OWASP") || strings.Contains(l, "crs_setup_version") || strings.Contains(l, "Copyright")
			if !marker && strings.TrimSuffix(l, "\r") != outLines[i] {
				return &Failure{What: "update-copyright changed a line that carries no marker", Detail: fmt.Sprintf("%q -> %q", l, outLines[i])}
			}
		}
	} else if len(in) > 0 {
		return &Failure{What: "update-copyright changed the number of lines", Detail: fmt.Sprintf("%d -> %d", len(inLines), len(outLines))}
	}
	return nil
}

func oracleC14CLI(p *Pair, env *Env, a [][]byte) *Failure {
	in := a[0]
	mk := func() (string, Tree) {
		sb := mkSandbox(env)
		t := Tree{"regex-assembly/": nil, "rules/REQUEST-901-INITIALIZATION.conf": in, "crs-setup.conf.example": in,
			"rules/keep.data": in, "docs/README.md": in, "rules/sub/x.conf": in}
		_ = t.write(sb)
		// a .conf / .example path that is a symbolic link to a file stored under another name: it is a file under the
		// root like the others (the markers are read and written through it)
		_ = os.MkdirAll(filepath.Join(sb, "local"), 0o755)
		_ = os.WriteFile(filepath.Join(sb, "local", "linked.active"), in, 0o644)
		_ = os.Symlink(filepath.Join("..", "local", "linked.active"), filepath.Join(sb, "rules", "linked.conf"))
		_ = os.WriteFile(filepath.Join(sb, "local", "setup.active"), in, 0o644)
		_ = os.Symlink(filepath.Join("local", "setup.active"), filepath.Join(sb, "crs-setup.conf"))
		return sb, t
	}
	sb1, _ := mk()
	defer os.RemoveAll(sb1)
	sb2, _ := mk()
	defer os.RemoveAll(sb2)
	var lastV, lastY string
	for i := 1; i+1 < len(a); i += 2 {
		lastV, lastY = string(a[i]), string(a[i+1])
		c := runCLI(env, sb1, nil, "-l", "disabled", "chore", "update-copyright", "-v", lastV, "-y", lastY)
		if c.exit != 0 {
			return &Failure{What: "update-copyright failed for an accepted version", Detail: fmt.Sprintf("-v %s -y %s: exit %d %s", lastV, lastY, c.exit, c.stderr)}
		}
	}
	c := runCLI(env, sb2, nil, "-l", "disabled", "chore", "update-copyright", "-v", lastV, "-y", lastY)
	if c.exit != 0 {
		return &Failure{What: "update-copyright failed for an accepted version", Detail: string(c.stderr)}
	}
	s1, s2 := snapshot(sb1), snapshot(sb2)
	if d := diffSnap(s1, s2); len(d) > 0 {
		return &Failure{What: "update-copyright (binary): tree after the sequence differs from tree after the last invocation alone", Detail: strings.Join(d, ", ")}
	}
	want, f := c14Apply(p, env, lastV, lastY, in)
	if f != nil {
		return f
	}
	for _, rel := range []string{"rules/REQUEST-901-INITIALIZATION.conf", "crs-setup.conf.example", "rules/sub/x.conf", "rules/linked.conf", "crs-setup.conf"} {
		got, _ := os.ReadFile(filepath.Join(sb2, rel))
		if !bytes.Equal(got, want) {
			return &Failure{What: "update-copyright (binary) wrote something else than updateRules computes", Detail: rel}
		}
	}
	for _, rel := range []string{"rules/keep.data", "docs/README.md"} {
		got, _ := os.ReadFile(filepath.Join(sb2, rel))
		if !bytes.Equal(got, in) {
			return &Failure{What: "update-copyright modified a file that is neither .conf nor .example", Detail: rel}
		}
	}
	return nil
}

func genC14(r *rand.Rand, tier string, env *Env) []Case {
	n, nCli, nLines := 300, 25, 600
	if tier == "thorough" {
		n, nCli, nLines = 5000, 300, 10000
	}
	var cases []Case
	// single marker patterns on single lines, every kind
	for i := 0; i < nLines; i++ {
		m := 0
		l := genConfLine(r, &m)
		k := fmt.Sprint(1 + r.Intn(5))
		v := genVersion(r)
		if k == "3" {
			v = fmt.Sprint(1990 + r.Intn(60))
		}
		cases = append(cases, Case{Kind: "line-pattern" + k, Ops: []Op{{"copyright.sub", [][]byte{[]byte(k), []byte(v), []byte(l)}}}})
	}
	for _, s := range []string{"a", "\xc3\xa9", "\xc3", "\xe2\x82\xac", "\xe2\x82", "\xf0\x9f\x98\x80", "\xed\xa0\x80", "\xc0\x80", "\xff", "\xf4\x90\x80\x80", "\xe0\x9f\xbf", ""} {
		cases = append(cases, Case{Kind: "utf8", Ops: []Op{{"std.runeLen", [][]byte{[]byte(s)}}}})
	}
	for _, k := range []int{0, 1, 9, 10, 11, 99, 100, 101, 12345} {
		cases = append(cases, Case{Kind: "itoa", Ops: []Op{{"std.natToBytes", [][]byte{bytes.Repeat([]byte{'x'}, k)}}}})
	}
	for k, content := range []string{
		"# Copyright (c) 2021-2022 CRS project. All rights reserved.\nSecAction \"id:900990,phase:1,pass,t:none,nolog,setvar:tx.crs_setup_version=400\"\n",
		"SecAction \\\n    \"id:900990,\\\n    setvar:tx.crs_setup_version=330\"\n",
		"# Copyright (c) 2021-2024 Core Rule Set project. All rights reserved.\n",
		"# nothing to update here\nSecRuleEngine On\n",
	} {
		v, y := genVersion(r), fmt.Sprint(2025+k)
		args := [][]byte{[]byte(content), []byte(v), []byte(y)}
		cases = append(cases, Case{Kind: "file-without-the-project-name+cli", Ops: []Op{{"copyright.updateRules", [][]byte{args[1], args[2], args[0]}}},
			Oracles: []Op{{"c14.seq", args}, {"c14.cli", args}}})
	}
	for i := 0; i < n; i++ {
		content, markers := genConfFile(r)
		big := i%20 == 9
		if big {
			// 8 KiB … 60 KiB: several buffer-fulls of the scanner and the writer; the first version is a long spelling,
			// so the rewritten text outgrows the text read so far
			for len(content) < 8192+r.Intn(50000) {
				more, m := genConfFile(r)
				content += more
				markers += m
			}
		}
		args := [][]byte{[]byte(content)}
		steps := 1 + r.Intn(3)
		for s := 0; s < steps; s++ {
			v, y := genVersion(r), fmt.Sprint(2000+r.Intn(200))
			if big && s == 0 {
				v = pick(r, []string{"4.5.0-rc1+build.20260929", "v4.5.0-rc1-12-g1a2b3c4d", "14.25.36-beta.11+exp.sha.5114f85", "4.5.0"})
			}
			if s > 0 && chance(r, 0.3) {
				// the same version again with another year, or another version in the same year
				switch r.Intn(3) {
				case 0:
					v = string(args[len(args)-2])
				case 1:
					y = string(args[len(args)-1])
				default:
					// the same version in the other letter case, same year: still another version
					pv := string(args[len(args)-2])
					lead := ""
					if strings.HasPrefix(pv, "v") {
						lead, pv = "v", pv[1:] // the prefix is not part of the version: `V4.5.0` is no version
					}
					if up := strings.ToUpper(pv); up != pv {
						v = lead + up
					} else {
						v = lead + strings.ToLower(pv)
					}
					y = string(args[len(args)-1])
				}
			}
			args = append(args, []byte(v), []byte(y))
		}
		kind := "file-seq"
		if markers == 0 {
			kind = "trivial"
		} else if big {
			kind = "big-file-seq"
		}
		c := Case{Kind: kind,
			Ops:     []Op{{"copyright.updateRules", [][]byte{args[1], args[2], args[0]}}},
			Oracles: []Op{{"c14.seq", args}}}
		if i < nCli || (big && i < 4*nCli) {
			c.Kind = kind + "+cli"
			c.Oracles = append(c.Oracles, Op{"c14.cli", args})
		}
		cases = append(cases, c)
	}
	return cases
}
