module verif/harness

go 1.23.0

require (
	github.com/coreruleset/crs-toolchain/v2 v2.0.0
	github.com/itchyny/rassemble-go v0.1.2
	github.com/rs/zerolog v1.34.0
)

replace github.com/coreruleset/crs-toolchain/v2 => /repo
