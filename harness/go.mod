module verif/harness

go 1.23.0

require (
	github.com/coreruleset/crs-toolchain/v2 v2.0.0
	github.com/itchyny/rassemble-go v0.1.2
	github.com/rs/zerolog v1.34.0
)

require (
	code.gitea.io/sdk/gitea v0.20.0 // indirect
	dario.cat/mergo v1.0.1 // indirect
	github.com/42wim/httpsig v1.2.1 // indirect
	github.com/Masterminds/semver/v3 v3.3.1 // indirect
	github.com/creativeprojects/go-selfupdate v1.4.1 // indirect
	github.com/go-fed/httpsig v1.1.0 // indirect
	github.com/google/go-github/v30 v30.1.0 // indirect
	github.com/google/go-querystring v1.1.0 // indirect
	github.com/hashicorp/go-cleanhttp v0.5.2 // indirect
	github.com/hashicorp/go-retryablehttp v0.7.7 // indirect
	github.com/hashicorp/go-version v1.7.0 // indirect
	github.com/mattn/go-colorable v0.1.13 // indirect
	github.com/mattn/go-isatty v0.0.20 // indirect
	github.com/spf13/cobra v1.9.1 // indirect
	github.com/spf13/pflag v1.0.6 // indirect
	github.com/ulikunitz/xz v0.5.12 // indirect
	github.com/xanzy/go-gitlab v0.115.0 // indirect
	golang.org/x/crypto v0.35.0 // indirect
	golang.org/x/oauth2 v0.27.0 // indirect
	golang.org/x/sys v0.30.0 // indirect
	golang.org/x/time v0.9.0 // indirect
	gopkg.in/yaml.v3 v3.0.1 // indirect
)

replace github.com/coreruleset/crs-toolchain/v2 => /repo
