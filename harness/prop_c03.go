package main

import (
	"bytes"
	"fmt"
	"go/ast"
	"go/parser"
	"go/token"
	"math/rand"
	"os"
	"path/filepath"
	"sort"
	"strconv"
	"strings"
	"time"
)

// mapRangeSites lists `for … range X` statements whose X is (syntactically) a map-typed variable, field
// or parameter, in the non-test, non-hook Go files of the given package directories of /repo.
func mapRangeSites(repo string, dirs []string) ([]string, error) {
	var sites []string
	mapNames := map[string]bool{}
	parsed := map[string]map[string]*ast.Package{}
	for _, d := range dirs {
		fset := token.NewFileSet()
		pkgs, err := parser.ParseDir(fset, filepath.Join(repo, d), func(fi os.FileInfo) bool {
			return !strings.HasSuffix(fi.Name(), "_test.go") && fi.Name() != "verif_export.go"
		}, 0)
		if err != nil {
			return nil, err
		}
		parsed[d] = pkgs
		for _, pkg := range pkgs {
			isMapType := func(e ast.Expr) bool {
				_, isMap := e.(*ast.MapType)
				return isMap
			}
			// names declared with a map type anywhere in the package (fields, vars, params, := make(map…) / literals)
			for _, f := range pkg.Files {
				ast.Inspect(f, func(n ast.Node) bool {
					switch x := n.(type) {
					case *ast.Field:
						named := false
						if isMapType(x.Type) {
							named = true
						} else if id, isIdent := x.Type.(*ast.Ident); isIdent && strings.HasSuffix(strings.ToLower(id.Name), "map") {
							named = true // named map types such as inclusionLineMap
						}
						if named {
							for _, nm := range x.Names {
								mapNames[nm.Name] = true
							}
						}
					case *ast.ValueSpec:
						if x.Type != nil && isMapType(x.Type) {
							for _, nm := range x.Names {
								mapNames[nm.Name] = true
							}
						}
					case *ast.AssignStmt:
						for i, rhs := range x.Rhs {
							if i >= len(x.Lhs) {
								break
							}
							isMap := false
							switch r := rhs.(type) {
							case *ast.CompositeLit:
								isMap = r.Type != nil && isMapType(r.Type)
							case *ast.CallExpr:
								if id, isIdent := r.Fun.(*ast.Ident); isIdent && id.Name == "make" && len(r.Args) > 0 {
									if isMapType(r.Args[0]) {
										isMap = true
									} else if tid, isT := r.Args[0].(*ast.Ident); isT && strings.HasSuffix(strings.ToLower(tid.Name), "map") {
										isMap = true
									}
								}
							}
							if isMap {
								if id, isIdent := x.Lhs[i].(*ast.Ident); isIdent {
									mapNames[id.Name] = true
								}
							}
						}
					}
					return true
				})
			}
		}
	}
	for _, d := range dirs {
		for _, pkg := range parsed[d] {
			for fname, f := range pkg.Files {
				var fn string
				ast.Inspect(f, func(n ast.Node) bool {
					switch x := n.(type) {
					case *ast.FuncDecl:
						fn = x.Name.Name
					case *ast.RangeStmt:
						name := ""
						switch e := x.X.(type) {
						case *ast.Ident:
							name = e.Name
						case *ast.SelectorExpr:
							name = e.Sel.Name
						}
						if mapNames[name] {
							// a site is identified by its package and the map it ranges over: moving a loop into a helper
							// or another file of the package is no new site, ranging over another map is
							_, _ = fname, fn
							sites = append(sites, fmt.Sprintf("%s:%s", d, name))
						}
					}
					return true
				})
			}
		}
	}
	sort.Strings(sites)
	return sites, nil
}

// the map iterations the model parameterises by an explicit order (and proves order-free)
var expectedMapRanges = []string{
	"regex/operators:Flags",   // complete: sorted before use (C02_flags_order_free)
	"regex/parser:includeMap", // buildIncludeExceptString: sorted by distinct indices (C03_include_except_order_free)
	"regex/parser:variables",  // expandDefinitions: names collected and sorted; values rewritten entry by entry (C03/C07)
	"regex/parser:patterns",   // parseLine: recognisers pairwise disjoint (C03_classification_unambiguous)
}

// args: repetitions (length-coded), then a gen.run argument vector
func oracleC03Repeat(p *Pair, env *Env, a [][]byte) *Failure {
	n := len(a[0])
	args := a[1:]
	first := p.Impl(Op{"gen.run", args}, env.timeout)
	for i := 1; i < n; i++ {
		r := p.Impl(Op{"gen.run", args}, env.timeout)
		if r.Status != first.Status || (r.Status == "ok" && !bytes.Equal(r.Out[0], first.Out[0])) {
			return &Failure{What: "generate is not deterministic: two executions on the same files differ",
				Detail: fmt.Sprintf("program %q\nfiles %q\nfirst  %s\nlater  %s", args[6], args[7:], first.String(), r.String())}
		}
	}
	fr := p.Impl(Op{"format.file", [][]byte{args[6]}}, env.timeout)
	for i := 1; i < 4; i++ {
		r := p.Impl(Op{"format.file", [][]byte{args[6]}}, env.timeout)
		if r.Status != fr.Status || (r.Status == "ok" && !bytes.Equal(r.Out[0], fr.Out[0])) {
			return &Failure{What: "format is not deterministic", Detail: fmt.Sprintf("%q", args[6])}
		}
	}
	return nil
}

// args: repetitions (length-coded), style of the configuration file, then a gen.run argument vector
func oracleC03RepeatYaml(p *Pair, env *Env, a [][]byte) *Failure {
	n := len(a[0])
	op := Op{"gen.runYaml", a[1:]}
	first := p.Impl(op, env.timeout)
	for i := 1; i < n; i++ {
		r := p.Impl(op, env.timeout)
		if r.Status != first.Status || (r.Status == "ok" && !bytes.Equal(r.Out[0], first.Out[0])) {
			return &Failure{What: "generate is not deterministic: two executions on the same files and configuration differ",
				Detail: fmt.Sprintf("program %q\nconfiguration (%s) %q\nfirst  %s\nlater  %s", a[8], a[1], a[2:8], first.String(), r.String())}
		}
	}
	return nil
}

// fresh processes of the binary on a sandbox tree
func oracleC03CLI(p *Pair, env *Env, a [][]byte) *Failure {
	n := len(a[0])
	args := a[1:]
	sb := mkSandbox(env)
	defer os.RemoveAll(sb)
	t := Tree{"regex-assembly/include/": nil, "regex-assembly/exclude/": nil, "rules/": nil}
	files := args[7:]
	for i := 0; i+2 < len(files); i += 3 {
		dir := "include"
		if string(files[i]) == "e" {
			dir = "exclude"
		}
		t["regex-assembly/"+dir+"/"+string(files[i+1])] = files[i+2]
	}
	if !cfgIsEmpty(args[0:6]) {
		t["regex-assembly/toolchain.yaml"] = []byte(toolchainYaml(args[0:6]))
	}
	_ = t.write(sb)
	var first cliResult
	for i := 0; i < n; i++ {
		c := runCLI(env, sb, args[6], "-l", "disabled", "regex", "generate", "-")
		if i == 0 {
			first = c
			continue
		}
		if c.exit != first.exit || !bytes.Equal(c.stdout, first.stdout) {
			return &Failure{What: "generate (fresh processes) is not deterministic", Detail: fmt.Sprintf("program %q\nexit %d %q\nexit %d %q", args[6], first.exit, first.stdout, c.exit, c.stdout)}
		}
	}
	// the same tree, the same configuration, the same -d: the working directory of the process is no input. Started from
	// the exclude directory, the include directory, and a directory that holds other files (and directories) under the
	// names of the include files
	scratch := filepath.Join(sb, "elsewhere")
	_ = os.MkdirAll(scratch, 0o755)
	for i := 0; i+2 < len(files); i += 3 {
		name := string(files[i+1])
		if i%2 == 0 {
			_ = os.WriteFile(filepath.Join(scratch, name), []byte("decoy-entry-from-the-working-directory\n"), 0o644)
		} else {
			_ = os.MkdirAll(filepath.Join(scratch, name), 0o755)
		}
	}
	for _, cwd := range []string{filepath.Join(sb, "regex-assembly", "exclude"), filepath.Join(sb, "regex-assembly", "include"), scratch} {
		c := runCLI(env, cwd, args[6], "-l", "disabled", "-d", sb, "regex", "generate", "-")
		if c.exit != first.exit || !bytes.Equal(c.stdout, first.stdout) {
			return &Failure{What: "generate depends on the working directory of the process (same tree, same -d)",
				Detail: fmt.Sprintf("program %q\nfrom the root: exit %d %q\nfrom %s: exit %d %q", args[6], first.exit, first.stdout, strings.TrimPrefix(cwd, sb), c.exit, c.stdout)}
		}
	}
	return nil
}

// every command, repeated as fresh processes on the same tree: same stdout, same exit status, same files afterwards
// args: repetitions (length-coded), tree
func oracleC03Tree(p *Pair, env *Env, a [][]byte) *Failure {
	n := len(a[0])
	t := decodeTree(a[1])
	var ras []string
	for path := range t {
		if strings.HasPrefix(path, "regex-assembly/") && strings.HasSuffix(path, ".ra") && !strings.Contains(path[len("regex-assembly/"):], "/") {
			ras = append(ras, strings.TrimSuffix(path[len("regex-assembly/"):], ".ra"))
		}
	}
	sort.Strings(ras)
	if len(ras) == 0 {
		return nil
	}
	readers := [][]string{{"regex", "generate", ras[0]}, {"regex", "compare", ras[0]}, {"regex", "compare", "-a"}, {"-o", "github", "regex", "compare", "-a"},
		{"regex", "format", "-c", "-a"}, {"-o", "github", "regex", "format", "-a", "-c"}, {"-o", "github", "util", "renumber-tests", "-c", "-a"}}
	writers := [][]string{{"regex", "update", "-a"}, {"regex", "format", "-a"}, {"util", "renumber-tests", "-a"}, {"chore", "update-copyright", "-v", "4.9.0", "-y", "2033"}}
	sb := mkSandbox(env)
	defer os.RemoveAll(sb)
	_ = t.write(sb)
	for _, argv := range readers {
		var first cliResult
		for i := 0; i < n; i++ {
			c := runCLI(env, sb, nil, append([]string{"-l", "disabled"}, argv...)...)
			if i == 0 {
				first = c
			} else if c.exit != first.exit || !bytes.Equal(c.stdout, first.stdout) {
				return &Failure{What: "a command is not deterministic across fresh processes: " + strings.Join(argv, " "),
					Detail: fmt.Sprintf("exit %d %q\nexit %d %q", first.exit, first.stdout, c.exit, c.stdout)}
			}
		}
	}
	// logging goes to stderr: the same stdout and exit status whatever the log level
	for _, argv := range readers[:4] {
		ref := runCLI(env, sb, nil, append([]string{"-l", "disabled"}, argv...)...)
		for _, lv := range [][]string{{}, {"-l", "trace"}, {"-l", "error"}} {
			c := runCLI(env, sb, nil, append(append([]string{}, lv...), argv...)...)
			if c.exit != ref.exit || !bytes.Equal(c.stdout, ref.stdout) {
				return &Failure{What: "stdout or exit status depends on the log level: " + strings.Join(append(lv, argv...), " "),
					Detail: fmt.Sprintf("-l disabled: exit %d %q\nthis run: exit %d %q", ref.exit, ref.stdout, c.exit, c.stdout)}
			}
		}
	}
	for _, argv := range writers {
		var first cliResult
		var firstSnap map[string]string
		for i := 0; i < n; i++ {
			w := mkSandbox(env)
			_ = t.write(w)
			c := runCLI(env, w, nil, append([]string{"-l", "disabled"}, argv...)...)
			snap := snapshot(w)
			os.RemoveAll(w)
			if i == 0 {
				first, firstSnap = c, snap
			} else if c.exit != first.exit || !bytes.Equal(c.stdout, first.stdout) || len(diffSnap(firstSnap, snap)) > 0 {
				return &Failure{What: "a rewriting command is not deterministic across fresh processes: " + strings.Join(argv, " "),
					Detail: fmt.Sprintf("exit %d vs %d; stdout %q vs %q; files %v", first.exit, c.exit, first.stdout, c.stdout, diffSnap(firstSnap, snap))}
			}
		}
	}
	return nil
}

func genC03(r *rand.Rand, tier string, env *Env) []Case {
	n, nCli, reps := 150, 12, 10
	if tier == "thorough" {
		n, nCli, reps = 1500, 150, 40
	}
	var cases []Case
	for i := 0; i < n; i++ {
		o := progOpts{maxDepth: 2, maxItems: 5, includes: true, defs: true, cmdline: true, exotic: 0.3, malformed: 0.05, flagsPfxSf: true}
		p := genProgram(r, o)
		// lines several directive patterns could claim, comments that look like directives
		extra := 1 + r.Intn(3)
		lines := strings.Split(p.Input, "\n")
		for k := 0; k < extra; k++ {
			at := r.Intn(len(lines) + 1)
			l := pick(r, []string{"##! x ##!> include inc1", "##! ##!+ i", "  ##! note ##!> define a b", "##!+ is", "##!+ si", "##!> define zz {{d1}}q", "##!> define d1 override", "##! ##!> include-except inc1 inc2",
				// comments whose text begins with a directive's marker character
				"##! ^ is the start anchor", "##! $ is deliberately not appended here", "##! + s", "##!  + i", "##! > include inc1", "##! = > x", "##!\t^ tabbed"})
			lines = append(lines[:at:at], append([]string{l}, lines[at:]...)...)
		}
		p.Input = strings.Join(lines, "\n")
		if chance(r, 0.4) {
			addNestedDefs(r, p) // chains of definitions: the two map loops of expandDefinitions
		}
		if i%5 == 2 {
			p = genExceptScenario(r) // the line map of include-except and its sort
		}
		gargs := p.genOp().Args
		rep := bytes.Repeat([]byte{'x'}, reps)
		c := Case{Kind: "program", Ops: []Op{p.parseOp(), p.genOp()}, Oracles: []Op{{"c03.repeat", append([][]byte{rep}, gargs...)}}}
		if i < nCli {
			c.Kind = "program+cli"
			c.Oracles = append(c.Oracles, Op{"c03.cli", append([][]byte{bytes.Repeat([]byte{'x'}, 4)}, gargs...)})
		}
		cases = append(cases, c)
	}
	// definitions whose substitution creates reference syntax ("computed names"): the only place where the visiting
	// order of expandDefinitions decides the result (D28); the names are chosen so that definition order, sorted
	// order and reverse sorted order all differ
	emptyCfg := [][]byte{{}, {}, {}, {}, {}, {}}
	for _, prog := range []string{
		"##!> define a {\n##!> define b Z\n{{a}}{b}}\nfoo\n",
		"##!> define zz {{\n##!> define k Q\n##!> define m R\n{{zz}}k}}|{{zz}}m}}\n",
		"##!> define b }\n##!> define a X\n##!> define c Y\n{{a{{b}}}|{{c{{b}}}\n",
		"##!> define p {{q\n##!> define q r}}\n##!> define r W\n##!> define qr}}x V\n{{p}}{{q}}x\n",
		"##!> define n1 {{n\n##!> define n2 2}}\n##!> define n U\n##!> define n2 T\nx{{n1}}2}}y{{n1}}{{n2}}\n",
		"##!> define outer {{in{{s}}}}\n##!> define s ner\n##!> define inner I\n##!> define in J\n{{outer}}\n",
	} {
		args := append(append([][]byte{}, emptyCfg...), []byte(prog))
		cases = append(cases, Case{Kind: "computed-name", Ops: []Op{{"parse.run", args[6:]}, {"gen.run", args}},
			Oracles: []Op{{"c03.repeat", append([][]byte{bytes.Repeat([]byte{'x'}, 3*reps)}, args...)}, {"c03.cli", append([][]byte{bytes.Repeat([]byte{'x'}, 12)}, args...)}}})
	}
	// exclusion files of one directive that interact through definitions (they share one table, the first definition of
	// a name wins): the result depends on the order they are read in, which must be the written one
	for k := 0; k < 6; k++ {
		words := []string{"alpha", "beta", "gamma", "delta", "eps"}
		r.Shuffle(len(words), func(i, j int) { words[i], words[j] = words[j], words[i] })
		files := [][]byte{[]byte("i"), []byte("words.ra"), []byte(strings.Join(words, "\n") + "\n"),
			[]byte("e"), []byte("skip-a.ra"), []byte("##!> define word " + words[0] + "\n{{word}}\n"),
			[]byte("e"), []byte("skip-b.ra"), []byte(pick(r, []string{"##!> define word " + words[1] + "\n{{word}}\n", "{{word}}\n" + words[2] + "\n"})),
			[]byte("e"), []byte("skip-c.ra"), []byte("##!> define word " + words[3] + "\n##!> define other " + words[4] + "\n{{word}}\n{{other}}\n")}
		names := []string{"skip-a", "skip-b", "skip-c"}
		r.Shuffle(len(names), func(i, j int) { names[i], names[j] = names[j], names[i] })
		prog := "##!> include-except words " + strings.Join(names[:2+r.Intn(2)], " ") + "\nzz\n"
		args := append(append(append([][]byte{}, emptyCfg...), []byte(prog)), files...)
		cases = append(cases, Case{Kind: "exclusion-files-share-definitions", Ops: []Op{{"parse.run", args[6:]}, {"gen.run", args}},
			Oracles: []Op{{"c03.repeat", append([][]byte{bytes.Repeat([]byte{'x'}, 3*reps)}, args...)}}})
	}
	// the configuration file in spellings whose loading could depend on an order (keys differing only in case, unknown keys)
	nY := 12
	if tier == "thorough" {
		nY = 120
	}
	for i := 0; i < nY; i++ {
		var cb [][]byte
		for _, c := range pick(r, cfgMenu) {
			cb = append(cb, []byte(c))
		}
		style := []string{"case-keys", "padded", "case-keys", "omit-empty"}[i%4]
		prog := "##!> cmdline " + pick(r, []string{"unix", "windows"}) + "\n" + genCmdWord(r) + "\n" + pick(r, []string{"ls@", "cat~", "a b"}) + "\n##!<\n"
		yargs := append(append([][]byte{[]byte(style)}, cb...), []byte(prog))
		cases = append(cases, Case{Kind: "yaml-style:" + style, Ops: []Op{{"gen.runYaml", yargs}},
			Oracles: []Op{{"c03.repeatYaml", append([][]byte{bytes.Repeat([]byte{'x'}, 2*reps)}, yargs...)}}})
	}
	// whole trees through every command, several stale rules
	nTrees, treeReps := 3, 4
	if tier == "thorough" {
		nTrees, treeReps = 30, 8
	}
	for i := 0; i < nTrees; i++ {
		ct := genCRSTree(r, 3+r.Intn(4))
		cases = append(cases, Case{Kind: "tree:all-commands-repeated", Oracles: []Op{{"c03.tree", [][]byte{bytes.Repeat([]byte{'x'}, treeReps), encodeTree(ct.t)}}}})
	}
	// the static obligation: every range over a map in the modelled packages is one the model quantifies over
	cases = append(cases, Case{Kind: "map-range-sites", Oracles: []Op{{"c03.sites", nil}}})
	// time: the same program on standard input, delivered at once and delivered with a pause in the middle / before the
	// first byte (a slow producer in front of the pipe). When the source has a new place that can read the clock or the
	// environment (envwatch.go) the pauses grow and the obligation is reported if no run differs.
	pauses := []string{"6"}
	if tier == "thorough" {
		pauses = []string{"6", "13"}
	}
	if len(newEnvSources()) > 0 {
		pauses = append(pauses, "31", "62")
	}
	slowProg := "##!> assemble\nab\nac\n##!=>\nx(?:y|z)\n##!<\nfoo[0-9]bar\nfoo[a-z]bar\n"
	for k, ps := range pauses {
		args := append(append([][]byte{[]byte(ps), []byte([]string{"mid", "start"}[k%2])}, emptyCfg...), []byte(slowProg))
		cases = append(cases, Case{Kind: "slow-input", Oracles: []Op{{"c03.slow", args}}})
	}
	cases = append(cases, Case{Kind: "clock-and-environment-sites", Oracles: []Op{{"c03.env", nil}}})
	return cases
}

func oracleC03Sites(p *Pair, env *Env, a [][]byte) *Failure {
	repo := os.Getenv("VERIF_REPO")
	if repo == "" {
		repo = "/repo"
	}
	got, err := mapRangeSites(repo, []string{"regex/operators", "regex/parser", "regex/processors", "regex", "cmd", "util", "chore", "configuration", "context", "utils"})
	if err != nil {
		return &Failure{What: "harness: cannot parse /repo sources", Detail: err.Error()}
	}
	// only a site the model does not cover is an open obligation; a covered site that disappeared is none
	known := map[string]bool{}
	for _, e := range expectedMapRanges {
		known[e] = true
	}
	var fresh []string
	for _, g := range got {
		if !known[g] {
			fresh = append(fresh, g)
		}
	}
	if len(fresh) > 0 {
		return &Failure{What: "obligation: a `range` loop over a map appeared in the modelled packages; order-freeness of the new site is not proved",
			Detail: fmt.Sprintf("new      %q\nfound    %q\nexpected %q", fresh, got, expectedMapRanges)}
	}
	return nil
}

// generate on standard input that arrives slowly, against the same input delivered at once
// args: pause in seconds, where ("mid" / "start"), six patterns, program
func oracleC03Slow(p *Pair, env *Env, a [][]byte) *Failure {
	secs, _ := strconv.Atoi(string(a[0]))
	prog := a[8]
	sb := mkSandbox(env)
	defer os.RemoveAll(sb)
	t := Tree{"regex-assembly/include/": nil, "regex-assembly/exclude/": nil, "rules/": nil}
	if !cfgIsEmpty(a[2:8]) {
		t["regex-assembly/toolchain.yaml"] = []byte(toolchainYaml(a[2:8]))
	}
	_ = t.write(sb)
	fast := runCLI(env, sb, prog, "-l", "disabled", "regex", "generate", "-")
	cut := len(prog) / 2
	if string(a[1]) == "start" {
		cut = 0
	}
	pause := time.Duration(secs) * time.Second
	slow := runCLIWith(env, sb, &pausedReader{data: prog, cut: cut, pause: pause}, pause+env.timeout, "-l", "disabled", "regex", "generate", "-")
	if slow.exit != fast.exit || !bytes.Equal(slow.stdout, fast.stdout) {
		return &Failure{What: "generate depends on how fast its input arrives (same program, same files)",
			Detail: fmt.Sprintf("program %q\nat once: exit %d %q\nwith a pause of %d s (%s): exit %d %q", prog, fast.exit, fast.stdout, secs, a[1], slow.exit, slow.stdout)}
	}
	return nil
}

func oracleC03Env(p *Pair, env *Env, a [][]byte) *Failure {
	if fresh := newEnvSources(); len(fresh) > 0 {
		return &Failure{What: "obligation: the source has a new place that can read the clock, randomness, the process or the environment; independence of the output from it is not shown",
			Detail: fmt.Sprintf("new %q\nall %q", fresh, envSources(repoDir()))}
	}
	return nil
}

func init() {
	oracles["c03.slow"] = oracleC03Slow
	oracles["c03.env"] = oracleC03Env
	oracles["c03.repeat"] = oracleC03Repeat
	oracles["c03.repeatYaml"] = oracleC03RepeatYaml
	oracles["c03.cli"] = oracleC03CLI
	oracles["c03.sites"] = oracleC03Sites
	oracles["c03.tree"] = oracleC03Tree
	properties["C03"] = &Property{
		ID: "C03", LeanMods: []string{"CrsProps.C03"},
		Corr: "K2, K5 (the model is a function: agreement of the code with it on every repetition is determinism), static list of map `range` sites (go/ast)",
		Rule: "programs biased to ambiguity (comment lines that look like directives, duplicate and nested definitions, chained suffix pairs, both flags in either order); each executed 10 (quick) / 40 (thorough) times in one process — Go randomises the start of every map iteration — and 4 times as fresh processes for a subset; non-trivial = every case; distinct by bytes",
		Gen:  genC03,
		Assume: []string{"map iteration order cannot be controlled in the real binary: C03 is proved for all orders in the model and sampled by repetition in the code",
			"a new `range` over a map in the modelled packages is reported as a broken obligation (the site list is part of the check)"},
	}
}
