package main

import (
	"fmt"
	"os"
	"os/exec"
	"path/filepath"
	"regexp"
	"strings"
	"time"
)

type leanResult struct {
	ok          bool
	obligations int
	discharged  int
	theorems    []string
	partial     []string
	cmd         string
	output      string
	broken      string
	wall        float64
}

var allowedAxioms = map[string]bool{"propext": true, "Classical.choice": true, "Quot.sound": true}

var theoremRe = regexp.MustCompile(`(?m)^theorem\s+([A-Za-z0-9_.'?!]+)`)
var forbiddenRe = regexp.MustCompile(`\bsorry\b|\badmit\b|(?m:^\s*axiom\s)|native_decide|bv_decide|implemented_by|\bunsafe\s|maxHeartbeats\s+0\b`)

func stripLeanComments(s string) string {
	var sb strings.Builder
	depth := 0
	for i := 0; i < len(s); i++ {
		if strings.HasPrefix(s[i:], "/-") {
			depth++
			i++
			continue
		}
		if depth > 0 && strings.HasPrefix(s[i:], "-/") {
			depth--
			i++
			continue
		}
		if depth > 0 {
			continue
		}
		if strings.HasPrefix(s[i:], "--") {
			for i < len(s) && s[i] != '\n' {
				i++
			}
			sb.WriteByte('\n')
			continue
		}
		sb.WriteByte(s[i])
	}
	return sb.String()
}

// leanCheck builds the property's theorem modules and audits the axioms of every theorem in them.
func leanCheck(pr *Property, env *Env, tier string) leanResult {
	start := time.Now()
	leanDir := filepath.Join(verifDir(), "lean")
	res := leanResult{cmd: "cd lean && lake build " + strings.Join(pr.LeanMods, " ") + " && lake env lean <generated #print axioms file> (harness/lean.go)"}
	fail := func(broken, out string) leanResult {
		res.ok = false
		res.broken = broken
		res.output = out
		res.wall = time.Since(start).Seconds()
		return res
	}
	// 1. forbidden tokens anywhere in the development
	var files []string
	_ = filepath.Walk(leanDir, func(p string, info os.FileInfo, err error) error {
		if err == nil && !info.IsDir() && strings.HasSuffix(p, ".lean") && !strings.Contains(p, "/.lake/") {
			files = append(files, p)
		}
		return nil
	})
	for _, f := range files {
		b, err := os.ReadFile(f)
		if err != nil {
			continue
		}
		if m := forbiddenRe.FindString(stripLeanComments(string(b))); m != "" {
			return fail("forbidden token "+strings.TrimSpace(m)+" in "+f, "")
		}
	}
	// 2. build
	args := append([]string{"build"}, pr.LeanMods...)
	cmd := exec.Command("lake", args...)
	cmd.Dir = leanDir
	out, err := cmd.CombinedOutput()
	if err != nil {
		broken := "lake build " + strings.Join(pr.LeanMods, " ") + " failed"
		for _, l := range strings.Split(string(out), "\n") {
			if strings.Contains(l, "error:") {
				broken += ": " + strings.TrimSpace(l)
				break
			}
		}
		return fail(broken, tail(string(out), 4000))
	}
	// 3. axiom audit of every theorem of the property modules
	var names []string
	var sb strings.Builder
	for _, m := range pr.LeanMods {
		sb.WriteString("import " + m + "\n")
	}
	sb.WriteString("open Crs Crs.Props\n")
	for _, m := range pr.LeanMods {
		b, err := os.ReadFile(filepath.Join(leanDir, strings.ReplaceAll(m, ".", "/")+".lean"))
		if err != nil {
			return fail("cannot read module "+m, err.Error())
		}
		for _, mm := range theoremRe.FindAllStringSubmatch(stripLeanComments(string(b)), -1) {
			names = append(names, mm[1])
		}
	}
	for _, n := range names {
		sb.WriteString("#print axioms " + n + "\n")
	}
	auditFile := filepath.Join(env.scratch, "Audit_"+pr.ID+".lean")
	if err := os.WriteFile(auditFile, []byte(sb.String()), 0o644); err != nil {
		return fail("cannot write audit file", err.Error())
	}
	cmd = exec.Command("lake", "env", "lean", auditFile)
	cmd.Dir = leanDir
	out, err = cmd.CombinedOutput()
	if err != nil {
		return fail("axiom audit failed to run", tail(string(out), 4000))
	}
	text := strings.ReplaceAll(string(out), "\n  ", " ")
	res.ok = true
	res.theorems = names
	res.obligations = len(names)
	for _, n := range names {
		if strings.HasSuffix(n, "_partial") {
			res.partial = append(res.partial, n)
		}
		good := false
		found := false
		for _, l := range strings.Split(text, "\n") {
			if strings.Contains(l, "'"+n+"'") || strings.Contains(l, "."+n+"'") {
				found = true
				if strings.Contains(l, "does not depend on any axioms") {
					good = true
				} else if i := strings.Index(l, "depends on axioms: ["); i >= 0 {
					list := l[i+len("depends on axioms: ["):]
					list = strings.TrimSuffix(strings.TrimSpace(list), "]")
					good = true
					for _, a := range strings.Split(list, ",") {
						if !allowedAxioms[strings.TrimSpace(a)] {
							good = false
							res.broken = fmt.Sprintf("theorem %s depends on axiom %s", n, strings.TrimSpace(a))
						}
					}
				}
				break
			}
		}
		if !found {
			res.broken = "theorem " + n + " not found by the axiom audit"
		}
		if good {
			res.discharged++
		}
	}
	if res.obligations == 0 {
		res.ok = false
		res.broken = "no theorem found in " + strings.Join(pr.LeanMods, ",")
	}
	if res.discharged != res.obligations {
		res.ok = false
		res.output = tail(string(out), 4000)
	}
	if tier == "thorough" && res.ok {
		// independent re-check of the compiled modules
		for _, m := range pr.LeanMods {
			cmd = exec.Command("lake", "env", "leanchecker", m)
			cmd.Dir = leanDir
			out, err = cmd.CombinedOutput()
			if err != nil {
				res.ok = false
				res.broken = "leanchecker rejected " + m
				res.output = tail(string(out), 4000)
			}
		}
		res.cmd += " && lake env leanchecker " + strings.Join(pr.LeanMods, " ")
	}
	res.wall = time.Since(start).Seconds()
	return res
}

func tail(s string, n int) string {
	if len(s) > n {
		return s[len(s)-n:]
	}
	return s
}
