package main

import (
	"bytes"
	"fmt"
	"math/rand"
	"os"
	"path"
	"path/filepath"
	"regexp"
	"strconv"
	"strings"

	"github.com/coreruleset/crs-toolchain/v2/cmd"
)

// ---- rules files in CRS layout ---------------------------------------------------------------

type ruleTarget struct {
	id     string
	chain  int
	line   int // index of the line (split at \n) that carries the operand
	start  int // byte offsets of the operand within that line
	end    int
	negate bool
}

type rulesFile struct {
	content string
	targets []ruleTarget
	prefix  string // NNN
}

var operandSamples = []string{" lead", "  two blanks", "\tafter tab", "trail ", " ", "old", "^foo$", `a\"b`, `x" @rx y`, `\"@rx `, "a b", `\x5c`, `(?i)sel(?:ect)?`, `[\s\x0b]+`, `a" \ b`, "", `$`, `\\x5c"`,
	// operands whose text also occurs earlier on their own line
	"ARGS", "rx", "e", "SecRule", "S", `"`, "@rx", "User-Agent"}

func genRulesFile(r *rand.Rand) rulesFile {
	prefix := fmt.Sprintf("9%02d", r.Intn(100))
	var lines []string
	var targets []ruleTarget
	eolCR := chance(r, 0.2)
	nRules := 1 + r.Intn(6)
	if chance(r, 0.04) {
		nRules = 400 // every id the formula below can make: a rules file of several buffer-fulls (10 KiB … 25 KiB)
	}
	used := map[string]bool{}
	if chance(r, 0.7) {
		lines = append(lines, "# ------------------------------------------------------------------------", "# OWASP CRS ver.4.0.0", "#", "")
	}
	for n := 0; n < nRules; n++ {
		id := prefix + fmt.Sprintf("%03d", r.Intn(8)*10+r.Intn(3)*100+r.Intn(2))
		if used[id] {
			continue
		}
		used[id] = true
		if chance(r, 0.4) {
			lines = append(lines, pick(r, []string{"# Rule " + id + " detects things", "#", "# see also " + prefix + "999", "# uses \"@rx \" operators", ""}))
		}
		chainLen := r.Intn(4)
		indent := ""
		for c := 0; c <= chainLen; c++ {
			op := pick(r, []string{"@rx", "@rx", "@rx", "!@rx", "@pm", "@streq", "@rx"})
			operand := pick(r, operandSamples)
			vars := pick(r, []string{"ARGS", "REQUEST_COOKIES|ARGS_NAMES|ARGS", "TX:foo", "REQUEST_HEADERS:User-Agent"})
			head := indent + "SecRule " + vars + " \"" + op + " "
			line := head + operand + "\" \\"
			if chance(r, 0.1) {
				line += pick(r, []string{" ", "  "})
			}
			if op == "@rx" || op == "!@rx" {
				targets = append(targets, ruleTarget{id: id, chain: c, line: len(lines), start: len(head), end: len(head) + len(operand), negate: op == "!@rx"})
			}
			lines = append(lines, line)
			acts := []string{}
			if c == 0 {
				acts = append(acts, "id:"+id+",\\", "phase:2,\\", "block,\\")
				if chance(r, 0.5) {
					acts = append(acts, "msg:'rule "+id+" matched id:"+id+"',\\")
				}
			}
			acts = append(acts, "t:none,\\")
			if c < chainLen {
				acts = append(acts, "chain\"")
			} else {
				acts = append(acts, "setvar:'tx.x=+1'\"")
			}
			for i, a := range acts {
				q := ""
				if i == 0 {
					q = "\""
				}
				lines = append(lines, indent+"    "+q+a)
			}
			indent += "    "
		}
		if chance(r, 0.6) {
			lines = append(lines, "")
		}
	}
	nl := "\n"
	if eolCR {
		nl = "\r\n"
	}
	content := strings.Join(lines, nl)
	if chance(r, 0.8) {
		content += nl
	}
	if !eolCR && chance(r, 0.12) {
		// mixed line ends: some lines of an LF file end in CR LF (a pasted rule, an editor setting): lines are still the
		// text between line feeds, a CR is the last byte of its line
		var sb strings.Builder
		for i, l := range strings.SplitAfter(content, "\n") {
			if strings.HasSuffix(l, "\n") && (chance(r, 0.3) || i == 0) {
				l = strings.TrimSuffix(l, "\n") + "\r\n"
			}
			sb.WriteString(l)
		}
		content = sb.String()
	}
	return rulesFile{content: content, targets: targets, prefix: prefix}
}

func init() {
	implOps["update.apply"] = func(a [][]byte) Result {
		_, root := workerCtx()
		p := filepath.Join(root, "rules", "upd.conf")
		if err := os.WriteFile(p, a[0], 0o644); err != nil {
			return Result{Status: "harness-error", Note: err.Error()}
		}
		cmd.VerifUpdateRegex(p, string(a[1]), uint8(len(a[2])), string(a[3]))
		out, _ := os.ReadFile(p)
		return ok(out)
	}
	implOps["update.read"] = func(a [][]byte) Result {
		_, root := workerCtx()
		p := filepath.Join(root, "rules", "upd.conf")
		if err := os.WriteFile(p, a[0], 0o644); err != nil {
			return Result{Status: "harness-error", Note: err.Error()}
		}
		return okS(cmd.VerifReadCurrentRegex(p, string(a[1]), uint8(len(a[2]))))
	}
	implOps["path.clean"] = func(a [][]byte) Result { return okS(path.Clean(string(a[0]))) }
	implOps["path.join"] = func(a [][]byte) Result {
		var es []string
		for _, x := range a {
			es = append(es, string(x))
		}
		return okS(path.Join(es...))
	}
	implOps["semver.valid"] = func(a [][]byte) Result {
		if err := cmd.VerifValidateSemver(string(a[0])); err != nil {
			return diag(err.Error())
		}
		return okS("valid")
	}
	implOps["ruleid.parse"] = func(a [][]byte) Result {
		id, file, k, err := cmd.VerifParseRuleId(string(a[0]))
		if err != nil {
			return diag(err.Error())
		}
		return okS(id, file, strconv.Itoa(int(k)))
	}
	// args: start directory, then the directories that hold a regex-assembly directory — all slash-separated and relative
	// to a fresh directory; the answer is relative to it as well
	implOps["root.find"] = func(a [][]byte) Result {
		base := os.Getenv("VERIF_WORKER_SCRATCH")
		if base == "" {
			base = os.TempDir()
		}
		d, err := os.MkdirTemp(base, "roots")
		if err != nil {
			return Result{Status: "harness", Out: [][]byte{[]byte(err.Error())}}
		}
		defer os.RemoveAll(d)
		if rd, e := filepath.EvalSymlinks(d); e == nil {
			d = rd
		}
		_ = os.MkdirAll(filepath.Join(d, string(a[0])), 0o755)
		for i, r := range a[1:] {
			if i%2 == 1 {
				// every second marker is a symbolic link to a directory kept elsewhere: it marks a root like a directory does
				_ = os.MkdirAll(filepath.Join(d, string(r)), 0o755)
				_ = os.MkdirAll(filepath.Join(d, ".markers", strconv.Itoa(i)), 0o755)
				if os.Symlink(filepath.Join(d, ".markers", strconv.Itoa(i)), filepath.Join(d, string(r), "regex-assembly")) == nil {
					continue
				}
			}
			_ = os.MkdirAll(filepath.Join(d, string(r), "regex-assembly"), 0o755)
		}
		root, err := cmd.VerifFindRootDirectory(filepath.Join(d, string(a[0])))
		if err != nil {
			return diag(err.Error())
		}
		rel, err := filepath.Rel(d, root)
		if err != nil || strings.HasPrefix(rel, "..") {
			return okS("outside:" + root)
		}
		if rel == "." {
			rel = ""
		}
		return okS(rel)
	}
	oracles["c11.frame"] = oracleC11
	oracles["c12.roundtrip"] = oracleC12
	oracles["c12.cli"] = oracleC12CLI
}

func num(b []byte) int { n, _ := strconv.Atoi(string(b)); return n }

// args: contents, id, k (length-coded), new regex, target line, operand start, operand end
func oracleC11(p *Pair, env *Env, a [][]byte) *Failure {
	contents, newRe := a[0], a[3]
	line, start, end := num(a[4]), num(a[5]), num(a[6])
	r := p.Impl(Op{"update.apply", a[0:4]}, env.timeout)
	if r.Status != "ok" {
		return &Failure{What: "update failed on a rules file in CRS layout: " + r.Status, Detail: fmt.Sprintf("file %q id %s k %d: %s", contents, a[1], len(a[2]), r.String())}
	}
	lines := bytes.Split(contents, []byte("\n"))
	want := append([]byte{}, lines[line][:start]...)
	want = append(want, newRe...)
	want = append(want, lines[line][end:]...)
	lines[line] = want
	exp := bytes.Join(lines, []byte("\n"))
	if !bytes.Equal(exp, r.Out[0]) {
		return &Failure{What: "update changed something else than the operand of the addressed rule's @rx operator",
			Detail: fmt.Sprintf("file %q\nid %s chain offset %d new regex %q\nexpected %q\ngot      %q", contents, a[1], len(a[2]), newRe, exp, r.Out[0])}
	}
	return nil
}

// args: contents, id, k, new regex  (the regex is one generate could have produced: quotes escaped, one line)
func oracleC12(p *Pair, env *Env, a [][]byte) *Failure {
	r := p.Impl(Op{"update.apply", a[0:4]}, env.timeout)
	if r.Status != "ok" {
		return nil
	}
	rd := p.Impl(Op{"update.read", [][]byte{r.Out[0], a[1], a[2]}}, env.timeout)
	if rd.Status != "ok" || !bytes.Equal(rd.Out[0], a[3]) {
		return &Failure{What: "the operand read back after update is not the regex that was written",
			Detail: fmt.Sprintf("file after update %q\nwritten %q\nread    %s", r.Out[0], a[3], rd.String())}
	}
	r2 := p.Impl(Op{"update.apply", [][]byte{r.Out[0], a[1], a[2], a[3]}}, env.timeout)
	if r2.Status != "ok" || !bytes.Equal(r2.Out[0], r.Out[0]) {
		return &Failure{What: "a second update with the same regex changes the file", Detail: fmt.Sprintf("once %q\ntwice %s", r.Out[0], r2.String())}
	}
	return nil
}

// CLI history on a real tree: update -> compare (unchanged) -> update (no-op) -> edit one byte -> compare (changed, exit != 0)
// args: rules content, id, k (decimal), assembly source, rules file name prefix
func oracleC12CLI(p *Pair, env *Env, a [][]byte) *Failure {
	content, id, k, src := a[0], string(a[1]), num(a[2]), a[3]
	sb := mkSandbox(env)
	defer os.RemoveAll(sb)
	arg := id
	if k > 0 {
		arg = fmt.Sprintf("%s-chain%d", id, k)
	}
	rulesRel := "rules/REQUEST-" + id[:3] + "-APPLICATION-ATTACK-X.conf"
	t := Tree{"regex-assembly/" + arg + ".ra": src, rulesRel: content, "regex-assembly/include/": nil, "rules/other.data": []byte("x\n"),
		// hidden entries among the assembly files: not assembly files, and no reason to stop looking for them
		"regex-assembly/.DS_Store": []byte("\x00\x01Bud1"), "regex-assembly/.gitkeep": {}, "regex-assembly/." + arg + ".ra.swp": []byte("b0VIM\n")}
	// two more rules, walked before and after the rule under test in --all runs, kept up to date
	if id[:3] != "000" && id[:3] != "999" {
		t["regex-assembly/000001.ra"] = []byte("first\n")
		t["rules/REQUEST-000-A.conf"] = []byte("SecRule ARGS \"@rx stale\" \\\n    \"id:000001\"\n")
		t["regex-assembly/999998.ra"] = []byte("last\n")
		t["rules/REQUEST-999-Z.conf"] = []byte("SecRule ARGS \"@rx stale\" \\\n    \"id:999998\"\n")
	}
	_ = t.write(sb)
	gen := runCLI(env, sb, nil, "-l", "disabled", "regex", "generate", arg)
	if gen.exit != 0 {
		return nil
	}
	if _, extra := t["regex-assembly/000001.ra"]; extra {
		runCLI(env, sb, nil, "-l", "disabled", "regex", "update", "000001")
		runCLI(env, sb, nil, "-l", "disabled", "regex", "update", "999998")
	}
	before := snapshot(sb)
	up := runCLI(env, sb, nil, "-l", "disabled", "regex", "update", arg)
	if up.exit != 0 {
		return &Failure{What: "update failed for an addressable rule", Detail: fmt.Sprintf("%s: exit %d\n%s", arg, up.exit, content)}
	}
	d := diffSnap(before, snapshot(sb))
	if len(d) > 1 || (len(d) == 1 && d[0] != "changed "+rulesRel) {
		return &Failure{What: "update touched something else than the rules file of the addressed rule", Detail: strings.Join(d, ", ")}
	}
	after1, _ := os.ReadFile(filepath.Join(sb, rulesRel))
	// stored operand equals generate's output
	rd := p.Impl(Op{"update.read", [][]byte{after1, []byte(id), bytes.Repeat([]byte{'x'}, k)}}, env.timeout)
	if rd.Status != "ok" || !bytes.Equal(rd.Out[0], gen.stdout) {
		f := &Failure{What: "the operand stored by update differs from generate's output", Detail: fmt.Sprintf("generate %q stored %s", gen.stdout, rd.String())}
		if bytes.Contains(gen.stdout, []byte(`\x5c"`)) {
			f.Finding = "D09"
		}
		return f
	}
	cmp := runCLI(env, sb, nil, "-l", "disabled", "regex", "compare", arg)
	// the verdict of single-rule compare is its exit status (the wording of the message is not part of the property)
	if cmp.exit != 0 {
		return &Failure{What: "compare reports a change right after update", Detail: fmt.Sprintf("exit %d %q", cmp.exit, cmp.stdout)}
	}
	cmpAll := runCLI(env, sb, nil, "-l", "disabled", "-o", "github", "regex", "compare", "-a")
	if cmpAll.exit != 0 {
		return &Failure{What: "compare --all (github) fails right after update", Detail: fmt.Sprintf("exit %d %q", cmpAll.exit, cmpAll.stdout)}
	}
	up2 := runCLI(env, sb, nil, "-l", "disabled", "regex", "update", arg)
	after2, _ := os.ReadFile(filepath.Join(sb, rulesRel))
	if up2.exit != 0 || !bytes.Equal(after1, after2) {
		return &Failure{What: "second update is not a no-op", Detail: fmt.Sprintf("%q vs %q", after1, after2)}
	}
	if len(gen.stdout) == 0 {
		return nil
	}
	// edit one byte of the stored operand
	lines := bytes.Split(after2, []byte("\n"))
	edited := false
	for i, l := range lines {
		if j := bytes.Index(l, gen.stdout); j >= 0 && bytes.Contains(l, []byte("@rx ")) {
			pos := j + len(gen.stdout)/2
			nl := append([]byte{}, l...)
			if nl[pos] == 'z' {
				nl[pos] = 'y'
			} else {
				nl[pos] = 'z'
			}
			// keep the line a readable operand line: do not touch the delimiters
			lines[i] = nl
			edited = true
			break
		}
	}
	if !edited {
		return nil
	}
	_ = os.WriteFile(filepath.Join(sb, rulesRel), bytes.Join(lines, []byte("\n")), 0o644)
	rd2 := p.Impl(Op{"update.read", [][]byte{bytes.Join(lines, []byte("\n")), []byte(id), bytes.Repeat([]byte{'x'}, k)}}, env.timeout)
	if rd2.Status == "ok" && bytes.Equal(rd2.Out[0], gen.stdout) {
		return nil // the edit hit another line with the same text
	}
	cmp = runCLI(env, sb, nil, "-l", "disabled", "regex", "compare", arg)
	if cmp.exit == 0 {
		return &Failure{What: "compare (single rule) exits 0 although the stored operand differs from the generated regex", Detail: fmt.Sprintf("%q", cmp.stdout)}
	}
	cmpGh := runCLI(env, sb, nil, "-l", "disabled", "-o", "github", "regex", "compare", "-a")
	if cmpGh.exit == 0 {
		return &Failure{What: "compare --all in GitHub mode exits 0 although a stored operand differs", Detail: fmt.Sprintf("%q", cmpGh.stdout)}
	}
	// other spellings of the option: whatever the tool makes of them (GitHub mode, or a refusal), a run over a tree with
	// a stale operand that was asked for GitHub output never ends with status 0
	for _, sp := range [][]string{{"-o", "GitHub"}, {"-o", "GITHUB"}, {"--output=github"}, {"-ogithub"}, {"--output", "Github"}} {
		if c := runCLI(env, sb, nil, append(append([]string{"-l", "disabled"}, sp...), "regex", "compare", "-a")...); c.exit == 0 {
			return &Failure{What: "compare --all asked for GitHub output (" + strings.Join(sp, " ") + ") exits 0 although a stored operand differs", Detail: fmt.Sprintf("%q", c.stdout)}
		}
	}
	// update repairs the edit: the file is again what the first update wrote
	rep := runCLI(env, sb, nil, "-l", "disabled", "regex", "update", arg)
	after3, _ := os.ReadFile(filepath.Join(sb, rulesRel))
	if rep.exit != 0 || !bytes.Equal(after3, after1) {
		return &Failure{What: "update does not restore the generated regex after the stored operand was edited", Detail: fmt.Sprintf("exit %d\nafter first update %q\nafter repair %q", rep.exit, after1, after3)}
	}
	// the assembly file behind a symbolic link (two rules sharing one source, a sandboxed checkout): --all brings the rule
	// up to date like the single invocation does
	{
		_ = os.WriteFile(filepath.Join(sb, rulesRel), content, 0o644)
		src2 := filepath.Join(sb, "regex-assembly", arg+".ra")
		_ = os.MkdirAll(filepath.Join(sb, "shared"), 0o755)
		if os.Rename(src2, filepath.Join(sb, "shared", "source.data")) == nil {
			_ = os.Symlink(filepath.Join("..", "shared", "source.data"), src2)
			upAll := runCLI(env, sb, nil, "-l", "disabled", "regex", "update", "-a")
			afterAll, _ := os.ReadFile(filepath.Join(sb, rulesRel))
			rdA := p.Impl(Op{"update.read", [][]byte{afterAll, []byte(id), bytes.Repeat([]byte{'x'}, k)}}, env.timeout)
			if upAll.exit == 0 && (rdA.Status != "ok" || !bytes.Equal(rdA.Out[0], gen.stdout)) && !bytes.Contains(gen.stdout, []byte(`\x5c"`)) {
				return &Failure{What: "update --all exits 0 but the rule whose assembly file is a symbolic link does not hold the generated regex", Detail: fmt.Sprintf("generate %q stored %s", gen.stdout, rdA.String())}
			}
			if !bytes.Equal(afterAll, after1) && upAll.exit == 0 && !bytes.Contains(gen.stdout, []byte(`\x5c"`)) {
				return &Failure{What: "update --all over a symlinked assembly file leaves other bytes than the single invocation", Detail: fmt.Sprintf("single %q\nall %q", after1, afterAll)}
			}
			_ = os.Remove(src2)
			_ = os.Rename(filepath.Join(sb, "shared", "source.data"), src2)
			_ = os.WriteFile(filepath.Join(sb, rulesRel), after3, 0o644)
		}
	}
	// the same with text put IN FRONT of the stored operand (the generated regex is then a suffix of what is stored)
	lines = bytes.Split(after3, []byte("\n"))
	for i, l := range lines {
		if j := bytes.Index(l, gen.stdout); j >= 0 && bytes.Contains(l, []byte("@rx ")) {
			lines[i] = append(append(append([]byte{}, l[:j]...), []byte("zq")...), l[j:]...)
			pre := bytes.Join(lines, []byte("\n"))
			rd3 := p.Impl(Op{"update.read", [][]byte{pre, []byte(id), bytes.Repeat([]byte{'x'}, k)}}, env.timeout)
			if rd3.Status != "ok" || !bytes.Equal(rd3.Out[0], append([]byte("zq"), gen.stdout...)) {
				break // the edit hit another place
			}
			_ = os.WriteFile(filepath.Join(sb, rulesRel), pre, 0o644)
			if c := runCLI(env, sb, nil, "-l", "disabled", "regex", "compare", arg); c.exit == 0 {
				return &Failure{What: "compare exits 0 although text was put in front of the stored operand", Detail: fmt.Sprintf("%q", c.stdout)}
			}
			rep = runCLI(env, sb, nil, "-l", "disabled", "regex", "update", arg)
			after4, _ := os.ReadFile(filepath.Join(sb, rulesRel))
			if rep.exit != 0 || !bytes.Equal(after4, after1) {
				return &Failure{What: "update does not restore the generated regex when the stored operand ends with it", Detail: fmt.Sprintf("exit %d\nexpected %q\ngot %q", rep.exit, after1, after4)}
			}
			break
		}
	}
	return nil
}

// a rules directory with a second file whose name matches the lookup pattern of the rule's prefix but is no rules file
// (an editor's backup, swap or auto-save file, a patch reject, a directory): update either refuses loudly and writes
// nothing, or rewrites the operand in the rules file and nothing else; compare then agrees with it.
// args: rules file content, id, chain offset (decimal), assembly source, stray file name
func oracleC11Strays(p *Pair, env *Env, a [][]byte) *Failure {
	content, id, k, src, stray := a[0], string(a[1]), num(a[2]), a[3], string(a[4])
	sb := mkSandbox(env)
	defer os.RemoveAll(sb)
	arg := id
	if k > 0 {
		arg = fmt.Sprintf("%s-chain%d", id, k)
	}
	base := "REQUEST-" + id[:3] + "-APPLICATION-ATTACK-X"
	rulesRel := "rules/" + base + ".conf"
	strayRel := "rules/" + strings.ReplaceAll(stray, "BASE", base)
	t := Tree{"regex-assembly/" + arg + ".ra": src, rulesRel: content, "regex-assembly/include/": nil}
	if strings.HasSuffix(strayRel, "/") {
		t[strayRel] = nil
	} else {
		t[strayRel] = content // a copy of the rules file: it would take an update just as well
	}
	_ = t.write(sb)
	gen := runCLI(env, sb, nil, "-l", "disabled", "regex", "generate", arg)
	if gen.exit != 0 {
		return nil
	}
	before := snapshot(sb)
	up := runCLI(env, sb, nil, "-l", "disabled", "regex", "update", arg)
	d := diffSnap(before, snapshot(sb))
	if up.exit != 0 {
		if len(d) > 0 {
			return &Failure{What: "a failing update wrote to the tree", Detail: fmt.Sprintf("stray %s: %s", strayRel, strings.Join(d, ", "))}
		}
		return nil
	}
	for _, x := range d {
		if x != "changed "+rulesRel {
			return &Failure{What: "update touched something else than the rules file of the addressed rule", Detail: fmt.Sprintf("stray %s: %s", strayRel, strings.Join(d, ", "))}
		}
	}
	after, _ := os.ReadFile(filepath.Join(sb, rulesRel))
	rd := p.Impl(Op{"update.read", [][]byte{after, []byte(id), bytes.Repeat([]byte{'x'}, k)}}, env.timeout)
	if rd.Status != "ok" || !bytes.Equal(rd.Out[0], gen.stdout) {
		if bytes.Contains(gen.stdout, []byte(`\x5c"`)) {
			return nil // D09, reported by the round-trip oracle
		}
		return &Failure{What: "update reports success but the rules file does not hold the generated regex", Detail: fmt.Sprintf("stray %s: generate %q stored %s", strayRel, gen.stdout, rd.String())}
	}
	if c := runCLI(env, sb, nil, "-l", "disabled", "regex", "compare", arg); c.exit != 0 {
		return &Failure{What: "compare reports a change right after a successful update", Detail: fmt.Sprintf("stray %s: exit %d", strayRel, c.exit)}
	}
	return nil
}

func genUpdateCases(r *rand.Rand, tier string, prop string) []Case {
	n, nCli := 300, 25
	if tier == "thorough" {
		n, nCli = 6000, 400
	}
	var cases []Case
	for i := 0; i < n; i++ {
		rf := genRulesFile(r)
		if len(rf.targets) == 0 {
			continue
		}
		tg := pick(r, rf.targets)
		newRe := pick(r, []string{"new", `name=\" \(quoted\)`, `x\" \`, `a\"b`, `x\"@rx y`, `$1${2}`, `(?i)a|b`, `[\s\x0b]`, "", `a b" \x`, `\x5c`, `^(?:sel)ect\b`, " lead", "trail ", "  two", "\tTab", " ", `\$_(?:GET|POST)\[`, `[0-9]+\$$`, "old", "ld", "d"})
		if i%40 == 13 {
			// a regex longer than any reader's default buffer (64 KiB): what update can write, compare can read
			newRe = strings.Repeat("ab|cd", 14000+r.Intn(3000)) + "z"
		}
		if i%9 == 4 {
			// the regex mentions an id (its own rule's or another one's): text inside an operand is not an id (D27)
			other := pick(r, rf.targets)
			newRe = pick(r, []string{"id:" + tg.id, "x id:" + other.id + ",y", "\\bid:" + tg.id + "\\b|SecRule"})
		}
		k := bytes.Repeat([]byte{'x'}, tg.chain)
		if prop == "C12" && i%12 == 7 && tg.chain == 0 && i >= nCli {
			// an earlier rule whose id merely begins with the addressed id (a seven-digit id): update and compare look
			// the rule up the same way, so what update wrote is what compare reads — whichever rule that is
			nl := "\n"
			if strings.Contains(rf.content, "\r\n") {
				nl = "\r\n"
			}
			rf.content = "SecRule ARGS \"@rx longer\" \\" + nl + "    \"id:" + tg.id + pick(r, []string{"1", "0", "99"}) + ",\\" + nl + "    phase:2\"" + nl + nl + rf.content
		}
		base := [][]byte{[]byte(rf.content), []byte(tg.id), k, []byte(newRe)}
		c := Case{Kind: "rules-file", Ops: []Op{{"update.apply", base}, {"update.read", base[0:3]}}}
		if prop == "C11" {
			c.Oracles = []Op{{"c11.frame", append(append([][]byte{}, base...), []byte(strconv.Itoa(tg.line)), []byte(strconv.Itoa(tg.start)), []byte(strconv.Itoa(tg.end)))}}
		} else {
			// regexes that generate can print: every quote escaped, no `" \` inside
			if !strings.Contains(strings.ReplaceAll(newRe, `\"`, ""), `" \`) {
				c.Oracles = []Op{{"c12.roundtrip", base}}
			}
		}
		if i < nCli {
			p := genProgram(r, progOpts{maxDepth: 1, maxItems: 4, exotic: 0.6, flagsPfxSf: true})
			if i%6 == 1 {
				p.Input = "id:" + tg.id + "\n" // the regex mentions the rule's own id (D27)
			}
			if i%6 == 4 {
				// the generated regex begins or ends with a blank: what update stores is what generate prints
				p.Input = pick(r, []string{"foo \n", "[ ]x\n", "union select \nunion all \n", "\\x20lead\n", "a\\x20\n"})
			}
			c.Kind = "rules-file+cli"
			c.Oracles = append(c.Oracles, Op{"c12.cli", [][]byte{[]byte(rf.content), []byte(tg.id), []byte(strconv.Itoa(tg.chain)), []byte(p.Input)}})
			stray := []string{"BASE.bak", "#BASE.conf#", ".BASE.conf.swp", "BASE.conf.orig", "BASE.conf~", "BASE.conf.rej", "BASE.d/", "0-BASE.conf.disabled", "BASE"}[i%9]
			c.Oracles = append(c.Oracles, Op{"c11.strays", [][]byte{[]byte(rf.content), []byte(tg.id), []byte(strconv.Itoa(tg.chain)), []byte(p.Input), []byte(stray)}})
		}
		cases = append(cases, c)
	}
	if prop == "C12" {
		cases = append(cases, compareViewCases(r, n/3)...)
	}
	// malformed targets: model and code must agree on the failure class
	for i := 0; i < n/5; i++ {
		rf := genRulesFile(r)
		id := pick(r, []string{"999999", rf.prefix + "000", "12345"})
		if len(rf.targets) > 0 && chance(r, 0.5) {
			id = rf.targets[0].id
		}
		k := bytes.Repeat([]byte{'x'}, r.Intn(6))
		cases = append(cases, Case{Kind: "bad-target", Ops: []Op{{"update.apply", [][]byte{[]byte(rf.content), []byte(id), k, []byte("new")}}, {"update.read", [][]byte{[]byte(rf.content), []byte(id), k}}}})
	}
	return cases
}

// compareViewCases: what compare shows for two differing expressions — lengths around the piece size of 50 and its
// multiples, the difference in the first / a middle / the last piece, one a prefix of the other, one empty, bytes
// above 0x7f (pieces are cut by bytes)
func compareViewCases(r *rand.Rand, n int) []Case {
	var cases []Case
	// the display is observed on the binary: the stored expression is the operand of a rules file (anything that can stand
	// between the quotes), the generated one is what a one-line assembly file of letters, digits and `_` compiles to: itself
	alpha := []string{"a", "b", "(?:x|y)", "[0-9]", "é", " ", "|", "%", "~", "_", "0"}
	blanks := true
	literal := false
	mk := func(l int) string {
		var sb strings.Builder
		for sb.Len() < l {
			t := pick(r, alpha)
			if literal {
				t = pick(r, []string{"a", "b", "_", "0", "z", "9"})
			}
			if t == " " && !blanks {
				t = "_"
			}
			sb.WriteString(t)
		}
		return strings.TrimSpace(sb.String()[:l])
	}
	mkGen := func(l int) string { literal = true; defer func() { literal = false }(); return mk(l) }
	for i := 0; i < n; i++ {
		blanks = i%4 == 0
		l := pick(r, []int{1, 2, 49, 50, 51, 99, 100, 101, 150, 10, 75, 120, 500, 1000})
		gen := mkGen(l)
		cur := gen
		switch i % 7 {
		case 0:
			cur = mk(pick(r, []int{1, 50, 51, 100, 149, 150, 151, 30}))
		case 1:
			at := r.Intn(l)
			cur = gen[:at] + "#" + gen[at+1:]
		case 2:
			cur = gen + mk(1+r.Intn(120))
		case 3:
			cur = gen[:r.Intn(l)]
		case 4:
			at := r.Intn(l)
			cur = gen[:at] + mk(1+r.Intn(3)) + gen[at:]
		case 5:
			cur = gen[:l-1] + "#"
		case 6:
			cur = "#" + gen[1:]
		}
		cur = strings.TrimSpace(cur)
		if gen == cur {
			cur = gen + "x"
		}
		id := pick(r, []string{"942100", "932100", "920470"})
		args := [][]byte{[]byte(id), []byte(cur), []byte(gen)}
		cases = append(cases, Case{Kind: "compare-view", Ops: []Op{{"cli.compareView", args}}, Oracles: []Op{{"c12.view", args}}})
	}
	return cases
}

var reViewRow = regexp.MustCompile(`^(current:  {6}|generated: {5})(.*?) +(~ )?\((\d+) / (\d+)\)$`)

// oracleC12View: read as a user reads it — the pieces shown for each expression, put together, are that expression;
// a piece pair is marked `~` exactly when the two pieces differ; "first difference" is shown once, directly before the
// first marked pair. (Pieces that end in blanks cannot be told from the padding: such expressions are skipped here, the
// tie with the model covers them.)
func oracleC12View(p *Pair, env *Env, a [][]byte) *Failure {
	cur, gen := string(a[1]), string(a[2])
	v := p.Impl(Op{"cli.compareView", a}, env.timeout)
	if v.Status != "ok" || !strings.Contains(string(v.Out[0]), "Regex of "+string(a[0])+" has changed") {
		// this is what C12 states; how the change is displayed (below) is what the theorems of C12View say about the
		// model of the display — checked on the real output as obligations, not as the property
		return &Failure{What: "compare does not report a change for two different expressions", Detail: fmt.Sprintf("current %q\ngenerated %q\n%s", cur, gen, v.String())}
	}
	text := string(v.Out[0])
	if strings.ContainsAny(cur+gen, " \n") {
		return nil
	}
	var shownCur, shownGen strings.Builder
	marks, firstAt, line := 0, -1, 0
	markedRows := map[string]bool{}
	firstMarked := ""
	for _, l := range strings.Split(text, "\n") {
		line++
		if l == "first difference" {
			marks++
			firstAt = line
			continue
		}
		m := reViewRow.FindStringSubmatch(strings.TrimSuffix(l, "==========="))
		if m == nil {
			continue
		}
		if strings.HasPrefix(m[1], "current") {
			shownCur.WriteString(m[2])
		} else {
			shownGen.WriteString(m[2])
		}
		if m[3] != "" {
			markedRows[m[4]] = true
			if firstMarked == "" {
				firstMarked = m[4]
				if firstAt < 0 || line-firstAt > 2 {
					return &Failure{What: "obligation: view_first_difference does not hold on the real display (the first marked pair is not the framed one)", Detail: fmt.Sprintf("current %q\ngenerated %q\noutput %q", cur, gen, text)}
				}
			}
		}
	}
	detail := fmt.Sprintf("current %q\ngenerated %q\noutput %q", cur, gen, text)
	if shownCur.String() != cur || shownGen.String() != gen {
		return &Failure{What: "obligation: view_shows_current / view_shows_generated do not hold on the real display (the pieces shown do not add up to the two expressions)", Detail: detail}
	}
	if marks != 1 {
		return &Failure{What: "obligation: view_first_difference does not hold on the real display (`first difference` is shown " + strconv.Itoa(marks) + " times)", Detail: detail}
	}
	for i := 0; i*50 < len(cur) || i*50 < len(gen); i++ {
		pc, pg := "", ""
		if i*50 < len(cur) {
			pc = cur[i*50 : min(len(cur), i*50+50)]
		}
		if i*50 < len(gen) {
			pg = gen[i*50 : min(len(gen), i*50+50)]
		}
		if (pc != pg) != markedRows[strconv.Itoa(i+1)] {
			return &Failure{What: "obligation: the marks of the real display differ from the model's (pair " + strconv.Itoa(i+1) + ")", Detail: detail}
		}
	}
	return nil
}

func init() {
	oracles["c12.view"] = oracleC12View
	oracles["c11.strays"] = oracleC11Strays
	rule := "rules files in CRS layout (1..6 rules, chains of length 0..3, neighbouring ids with a common prefix, negated and other operators, comments and msg actions mentioning ids, CRLF, missing final newline, trailing blanks after the continuation) x new regexes containing `$`, `\\\"`, `\"@rx `-like text, spaces, backslashes; the generator records the byte span of the addressed operand; " +
		"non-trivial = the file has at least two @rx operands; distinct by (file, target, regex)"
	properties["C11"] = &Property{ID: "C11", LeanMods: []string{"CrsProps.C11"}, Corr: "K7 (updateRegex, readCurrentRegex vs Crs.Update), K10 (update binary)", Rule: rule,
		Gen: func(r *rand.Rand, tier string, env *Env) []Case { return genUpdateCases(r, tier, "C11") }}
	properties["C12"] = &Property{ID: "C12", LeanMods: []string{"CrsProps.C12", "CrsProps.C12Cli", "CrsProps.C12View"}, Corr: "K7, K10 (update/compare binaries: histories update→compare, update→update, edit-one-byte→compare)", Rule: rule,
		Gen:    func(r *rand.Rand, tier string, env *Env) []Case { return genUpdateCases(r, tier, "C12") },
		Assume: []string{"known finding D09 (bare quote after an escaped backslash) makes the stored operand end early"}}
}
