package main

import (
	"bytes"
	"fmt"
	"math/rand"
	"os"
	"path/filepath"
	"regexp"
	"regexp/syntax"
	"strings"

	"github.com/coreruleset/crs-toolchain/v2/regex"
)

// c02Scan is an independent lexical reading of "can be pasted between the quotes of a SecRule line".
func c02Scan(out string, flags string) (msg string, finding string) {
	if out == "" {
		return "", ""
	}
	for i := 0; i < len(out); i++ {
		if out[i] < 0x20 || out[i] > 0x7e {
			return fmt.Sprintf("byte 0x%02x at offset %d is not printable ASCII", out[i], i), ""
		}
	}
	body := out
	if strings.HasPrefix(out, "(?") {
		// a leading flag group is allowed only as (?i) (?s) (?is)
		if m := regexp.MustCompile(`^\(\?([a-zA-Z-]+)\)`).FindStringSubmatch(out); m != nil {
			if m[1] != "i" && m[1] != "s" && m[1] != "is" {
				return "leading flag group is not a sorted subset of {i,s}: " + m[0], ""
			}
			if m[1] != flags {
				return fmt.Sprintf("leading flag group %s does not show the program's flags %q", m[0], flags), ""
			}
			body = out[len(m[0]):]
		}
	}
	if flags != "" && body == out {
		return fmt.Sprintf("program flags %q are not shown as a leading group", flags), ""
	}
	inClass := false
	for i := 0; i < len(body); i++ {
		c := body[i]
		if inClass && strings.HasPrefix(body[i:], `\t\n\f\r `) {
			return "Perl white-space class written without the vertical tab", ""
		}
		switch {
		case c == '\\':
			if i+1 >= len(body) {
				return "dangling backslash at the end", ""
			}
			n := body[i+1]
			if n == '\\' {
				return fmt.Sprintf("literal backslash written as \\\\ at offset %d (must be \\x5c)", i), ""
			}
			if n == 's' && inClass && !strings.HasPrefix(body[i+2:], `\x0b`) {
				return fmt.Sprintf("\\s in a class without \\x0b at offset %d", i), ""
			}
			i++
		case c == '"':
			f := ""
			// D09: the quote follows the \x5c that an escaped backslash was rewritten to
			if i >= 4 && body[i-4:i] == `\x5c` {
				f = "D09"
			}
			return fmt.Sprintf("unescaped double quote at offset %d", i), f
		case c == '[' && !inClass:
			inClass = true
			if strings.HasPrefix(body[i+1:], "^") {
				i++
			}
		case c == ']' && inClass:
			inClass = false
		case c == '(' && !inClass:
			if m := regexp.MustCompile(`^\(\?[-misU]+[:)]`).FindString(body[i:]); m != "" {
				return fmt.Sprintf("inline flag group %s survives at offset %d", m, i), ""
			}
		}
	}
	if _, err := syntax.Parse(out, syntax.Perl); err != nil {
		return "output does not parse as an RE2 expression: " + err.Error(), ""
	}
	// embedding after "@rx and reading back
	line := `SecRule ARGS "@rx ` + out + `" \`
	m := regex.RuleRxRegex.FindStringSubmatch(line)
	if m == nil || m[2] != out {
		return "operand is not read back from a SecRule line", ""
	}
	return "", ""
}

// args: cfg x6, input, files…
func oracleC02(p *Pair, env *Env, a [][]byte) *Failure {
	gr := p.Impl(Op{"gen.run", a}, env.timeout)
	if gr.Status != "ok" {
		return nil // not a compiling program
	}
	pr := p.Impl(Op{"parse.run", append([][]byte{a[6]}, a[7:]...)}, env.timeout)
	flags := ""
	if pr.Status == "ok" {
		flags = string(pr.Out[1])
	}
	if msg, finding := c02Scan(string(gr.Out[0]), flags); msg != "" {
		return &Failure{What: "generated regex cannot be pasted between the quotes of a SecRule line: " + msg, Finding: finding,
			Detail: fmt.Sprintf("program %q\noutput %q", a[6], gr.Out[0])}
	}
	return nil
}

// the binary: what `regex generate -` prints is the regex the operator computed, byte for byte, and it passes the same
// scan (the output path of the command — printing — is part of "the generated regex")
func oracleC02CLI(p *Pair, env *Env, a [][]byte) *Failure {
	gr := p.Impl(Op{"gen.run", a}, env.timeout)
	if gr.Status != "ok" {
		return nil
	}
	sb := mkSandbox(env)
	defer os.RemoveAll(sb)
	t := Tree{"regex-assembly/include/": nil, "regex-assembly/exclude/": nil}
	files := a[7:]
	for i := 0; i+2 < len(files); i += 3 {
		dir := "include"
		if string(files[i]) == "e" {
			dir = "exclude"
		}
		t["regex-assembly/"+dir+"/"+string(files[i+1])] = files[i+2]
	}
	if !cfgIsEmpty(a[0:6]) {
		t["regex-assembly/toolchain.yaml"] = []byte(toolchainYaml(a[0:6]))
	}
	_ = t.write(sb)
	c := runCLI(env, sb, a[6], "-l", "disabled", "regex", "generate", "-")
	if c.exit != 0 || !bytes.Equal(c.stdout, gr.Out[0]) {
		return &Failure{What: "the binary does not print the regex the assembler computed",
			Detail: fmt.Sprintf("program %q\nassembler %q\nbinary exit %d stdout %q", a[6], gr.Out[0], c.exit, c.stdout)}
	}
	pr := p.Impl(Op{"parse.run", append([][]byte{a[6]}, a[7:]...)}, env.timeout)
	flags := ""
	if pr.Status == "ok" {
		flags = string(pr.Out[1])
	}
	if msg, finding := c02Scan(string(c.stdout), flags); msg != "" {
		return &Failure{What: "printed regex cannot be pasted between the quotes of a SecRule line: " + msg, Finding: finding,
			Detail: fmt.Sprintf("program %q\nstdout %q", a[6], c.stdout)}
	}
	// the second observation point: the operand `regex update` writes into the rules file is that regex, byte for byte,
	// between the quotes it found there (and the rest of the file is as it was)
	before := "# header\n\nSecRule ARGS|REQUEST_COOKIES \"@rx old(?:operand)$\" \\\n    \"id:942100,\\\n    phase:2,\\\n    t:none\"\n"
	_ = os.MkdirAll(filepath.Join(sb, "rules"), 0o755)
	_ = os.WriteFile(filepath.Join(sb, "rules", "REQUEST-942-APPLICATION-ATTACK-SQLI.conf"), []byte(before), 0o644)
	_ = os.WriteFile(filepath.Join(sb, "regex-assembly", "942100.ra"), a[6], 0o644)
	u := runCLI(env, sb, nil, "-l", "disabled", "regex", "update", "942100")
	now, _ := os.ReadFile(filepath.Join(sb, "rules", "REQUEST-942-APPLICATION-ATTACK-SQLI.conf"))
	want := strings.Replace(before, "old(?:operand)$", string(gr.Out[0]), 1)
	if u.exit != 0 || string(now) != want {
		return &Failure{What: "the operand written by `regex update` is not the generated regex between the quotes of the SecRule line",
			Detail: fmt.Sprintf("program %q\nregex %q\nexit %d\nrules file %q\nexpected   %q", a[6], gr.Out[0], u.exit, now, want)}
	}
	return nil
}

// tokens for synthetic printer-like text: every neighbour combination matters for the passes
var passTokens = []string{`"`, `\"`, `\\`, `\x5c`, `a`, `b`, ` `, `\t\n\f\r `, `[`, `]`, `[^`, `\s`, `-`, `~`, `\-`, `(`, `)`, `(?:`, `(?i:`, `(?s:`, `(?-s:`, `(?m:`, `(?i)`, `(?m)`, `(?i-s:`, `(?m-s:`, `(?im-s:`, `(?s-i:`, `(?-s)`, `(?U:`,
	`\(`, `\)`, `\[`, `\]`, `|`, `^`, `$`, `.`, `*`, `?`, "\t", "\n", "\x01", "é", "\xff", `\x{e9}`, `\.`, `{2}`, `\t`, `\n`, `!`, `x`, `\`}

func genPassText(r *rand.Rand) string {
	n := 1 + r.Intn(9)
	var sb strings.Builder
	for i := 0; i < n; i++ {
		sb.WriteString(pick(r, passTokens))
	}
	return sb.String()
}

var passNames = []string{"useHexEscapes", "escapeDoublequotes", "useHexBackslashes", "includeVerticalTabInSpaceClass", "dontUseFlagsForMetaCharacters", "removeOutermostNonCapturingGroup", "cleanUp"}

func genC02(r *rand.Rand, tier string, env *Env) []Case {
	nProg, nSynth, nCli := 250, 500, 20
	if tier == "thorough" {
		nProg, nSynth, nCli = 5000, 20000, 300
	}
	var cases []Case
	// exhaustive token bigrams (thorough: also trigrams over a smaller alphabet)
	if tier == "thorough" {
		for _, x := range passTokens {
			for _, y := range passTokens {
				var ops []Op
				for _, n := range passNames[:4] {
					ops = append(ops, Op{"pass." + n, [][]byte{[]byte(x + y)}})
				}
				cases = append(cases, Case{Kind: "token-bigram", Ops: ops})
			}
		}
	}
	for i := 0; i < nSynth; i++ {
		t := genPassText(r)
		var ops []Op
		for _, n := range passNames {
			// balanced-group passes index into the text: only text the engine could have printed is in their domain,
			// but model and code must agree on the fault class for any text
			ops = append(ops, Op{"pass." + n, [][]byte{[]byte(t)}})
		}
		cases = append(cases, Case{Kind: "synthetic-text", Ops: ops})
	}
	for i := 0; i < nProg; i++ {
		o := wellFormedEntryOpts()
		o.exotic = 0.8
		if i%2 == 1 {
			o.inline = 0.35
		}
		p := genProgram(r, o)
		if i%8 == 5 {
			p = genGroupingCorner(r) // escaped parentheses / pipes / backslashes at the edges of the alternation
		}
		c := Case{Kind: "program", Ops: []Op{p.genOp()}, Oracles: []Op{{"c02.lexical", p.genOp().Args}}}
		if i < nCli {
			c.Kind = "program+cli"
			c.Oracles = append(c.Oracles, Op{"c02.cli", p.genOp().Args})
		}
		cases = append(cases, c)
	}
	// characters that mean something to the output path rather than to the regex: printf verbs, shell and terminal bytes
	empty := [][]byte{{}, {}, {}, {}, {}, {}}
	for _, prog := range []string{"a%\"b\n", "100%\\.\n", "%\\\\\n", "%d%s%v\n", "%!x(MISSING)\n", "%%\n100%\n", "a%\nb%\"\n", "%[1]d\n", "\\%\n", "$HOME`x`\n", "a\x1b[0mb\n", "%-5s|%+d\n",
		// … and to a replacement template: `$1`, `$name`, `${name}` after a backslash, at the end, before a quote
		"\\$1x\n", "\\$_get\n\\$_post\n", "\\$home\"\n", "a\\${1}b\n", "[\\$0-9a-z]+\n", "x\\$$\n", "\\$1\n\\$2\n", "$1\n"} {
		args := append(append([][]byte{}, empty...), []byte(prog))
		cases = append(cases, Case{Kind: "output-path", Ops: []Op{{"gen.run", args}}, Oracles: []Op{{"c02.lexical", args}, {"c02.cli", args}}})
	}
	return cases
}

// escalatePassText: a disagreement on a clean-up pass becomes whole programs made of that text
func escalatePassText(oracle ...string) func(d Disagreement) []Case {
	return func(d Disagreement) []Case {
		if !strings.HasPrefix(d.Op.Name, "pass.") || len(d.Op.Args) != 1 {
			return nil
		}
		empty := [][]byte{{}, {}, {}, {}, {}, {}}
		t := strings.NewReplacer("\n", "", "\r", "").Replace(string(d.Op.Args[0]))
		var cases []Case
		for _, prog := range []string{t + "\n", "x" + t + "\n", t + "y\n", "##!> assemble\n" + t + "\n##!=>\nz\n##!<\n"} {
			args := append(append([][]byte{}, empty...), []byte(prog))
			c := Case{Kind: "escalated-pass-text", Ops: []Op{{"gen.run", args}}}
			for _, o := range oracle {
				c.Oracles = append(c.Oracles, Op{o, args})
			}
			cases = append(cases, c)
		}
		return cases
	}
}

func init() {
	oracles["c02.lexical"] = oracleC02
	oracles["c02.cli"] = oracleC02CLI
	properties["C02"] = &Property{
		ID: "C02", LeanMods: []string{"CrsProps.C02"},
		Corr: "K3 (each clean-up pass alone and composed vs Crs.Passes, on synthetic printer-like text incl. all token bigrams in the thorough tier), K5 (Operator.Run)",
		Rule: "programs as for C01 with a high share of exotic atoms (quotes, backslashes, \\x5c, control and non-ASCII characters, \\s classes, metacharacters next to group boundaries); synthetic texts of 1..9 tokens from a 46-token alphabet; non-trivial = program compiles / text is non-empty; distinct by bytes",
		Gen:  genC02, Escalate: escalatePassText("c02.lexical"),
		Assume: []string{"control characters may appear as the letter escapes \\t \\n \\f \\r \\v \\a that Go's printer emits (pinned by the existing suite), besides hex escapes",
			"known finding D09: an escaped backslash followed by a quote (`a\\\\\"b`) is printed with a bare quote"},
	}
}
