package main

import (
	"crypto/sha256"
	"encoding/hex"
	"encoding/json"
	"fmt"
	"math/rand"
	"os"
	"path/filepath"
	"sort"
	"strings"
	"sync"
	"sync/atomic"
	"time"
)

// A Case is fully serialisable: correspondence ops (sent to implementation and model, outputs
// diffed) and oracle calls (property evaluated directly on the implementation).
type Case struct {
	Kind    string `json:"kind"`
	Ops     []Op   `json:"-"`
	Oracles []Op   `json:"-"`
	Note    string `json:"note,omitempty"`
}

type caseJSON struct {
	Kind    string     `json:"kind"`
	Note    string     `json:"note,omitempty"`
	Ops     []opJSON   `json:"ops"`
	Oracles []opJSON   `json:"oracles"`
	Text    [][]string `json:"text,omitempty"`
}

type opJSON struct {
	Name string   `json:"name"`
	Args []string `json:"args_hex"`
	Text []string `json:"args_text,omitempty"`
}

func opToJSON(o Op) opJSON {
	j := opJSON{Name: o.Name}
	for _, a := range o.Args {
		j.Args = append(j.Args, hx(a))
		t := string(a)
		if len(t) > 400 {
			t = t[:400] + fmt.Sprintf("…(%d bytes)", len(a))
		}
		j.Text = append(j.Text, fmt.Sprintf("%q", t))
	}
	return j
}

func opFromJSON(j opJSON) (Op, error) {
	o := Op{Name: j.Name}
	for _, a := range j.Args {
		b, err := unhx(a)
		if err != nil {
			return o, err
		}
		o.Args = append(o.Args, b)
	}
	return o, nil
}

// toSampleJSON: the case as shown in the evidence file — long arguments are cut (a replay file carries them whole)
func (c Case) toSampleJSON() caseJSON {
	j := c.toJSON()
	cut := func(ops []opJSON) {
		for i := range ops {
			for k, a := range ops[i].Args {
				if len(a) > 2000 {
					ops[i].Args[k] = a[:2000] + fmt.Sprintf("…(%d hex digits in all)", len(a))
				}
			}
		}
	}
	cut(j.Ops)
	cut(j.Oracles)
	return j
}

func (c Case) toJSON() caseJSON {
	j := caseJSON{Kind: c.Kind, Note: c.Note}
	for _, o := range c.Ops {
		j.Ops = append(j.Ops, opToJSON(o))
	}
	for _, o := range c.Oracles {
		j.Oracles = append(j.Oracles, opToJSON(o))
	}
	return j
}

func caseFromJSON(j caseJSON) (Case, error) {
	c := Case{Kind: j.Kind, Note: j.Note}
	for _, o := range j.Ops {
		op, err := opFromJSON(o)
		if err != nil {
			return c, err
		}
		c.Ops = append(c.Ops, op)
	}
	for _, o := range j.Oracles {
		op, err := opFromJSON(o)
		if err != nil {
			return c, err
		}
		c.Oracles = append(c.Oracles, op)
	}
	return c, nil
}

// corpusCases loads corpus/<id>/*.json ({"from": seed id, "case": caseJSON}).
func corpusCases(id string) []Case {
	files, _ := filepath.Glob(filepath.Join(verifDir(), "corpus", id, "*.json"))
	sort.Strings(files)
	var out []Case
	for _, f := range files {
		b, err := os.ReadFile(f)
		if err != nil {
			continue
		}
		var e struct {
			From string   `json:"from"`
			Case caseJSON `json:"case"`
		}
		if json.Unmarshal(b, &e) != nil {
			continue
		}
		c, err := caseFromJSON(e.Case)
		if err != nil {
			continue
		}
		c.Kind = "corpus"
		c.Note = "caught " + e.From
		out = append(out, c)
	}
	return out
}

func (c Case) hash() string {
	h := sha256.New()
	for _, o := range c.Ops {
		h.Write([]byte(o.Line() + "\n"))
	}
	h.Write([]byte("--\n"))
	for _, o := range c.Oracles {
		h.Write([]byte(o.Line() + "\n"))
	}
	return hex.EncodeToString(h.Sum(nil))[:16]
}

// Failure is a failed property oracle on the implementation.
type Failure struct {
	What    string `json:"what"`
	Finding string `json:"finding,omitempty"` // id of the listed known finding this failure falls under (narrow trigger), if any
	Detail  string `json:"detail,omitempty"`
}

// oracles: property evaluated on the real code only. nil = holds.
var oracles = map[string]func(p *Pair, env *Env, args [][]byte) *Failure{}

// Disagreement between implementation and model on one op.
type Disagreement struct {
	Op    Op
	Impl  Result
	Model Result
}

var (
	slowModel     sync.Mutex
	modelNoAnswer int64
	implRetries   int64
)

type caseOutcome struct {
	implStatus []string
	c          Case
	disagree   []Disagreement
	failures   []Failure
	harness    []string
	trivial    bool
}

func runCase(p *Pair, env *Env, c Case) caseOutcome {
	out := caseOutcome{c: c}
	for _, op := range c.Ops {
		base := op.Name
		if i := strings.Index(base, "@"); i >= 0 {
			base = base[:i] // `cli.X@variant`: the same command, the tree laid out differently on disk
		}
		if base == "cli.formatAll" && len(op.Args) > 2 && string(op.Args[1]) == "LINT" {
			// the verdict of the upper-case lint is an input of the model, computed with the real code
			t := Tree{}
			for i := 2; i+1 < len(op.Args); i += 2 {
				t[string(op.Args[i])] = op.Args[i+1]
			}
			args := append([][]byte{}, op.Args...)
			args[1] = lintPathsOf(p, env, t)
			op = Op{op.Name, args}
		}
		if base == "cli.run" && len(op.Args) > 14 {
			// inputs of the model computed with the real code: the verdict of the semantic-version library on the -v value,
			// the files on which the upper-case lint speaks
			args := append([][]byte{}, op.Args...)
			args[4] = []byte("0")
			if len(args[3]) > 1 {
				if v := p.Impl(Op{"semver.valid", [][]byte{args[3][1:]}}, env.timeout); v.Status == "ok" {
					args[4] = []byte("1")
				}
			}
			t := Tree{}
			for i := 14; i+1 < len(args); i += 2 {
				t[string(args[i])] = args[i+1]
			}
			args[6] = lintPathsOf(p, env, t)
			op = Op{op.Name, args}
			prewarmJoins(p, env, op.Args[7:13], op.Args[14:])
		}
		switch base {
		case "cli.generate", "cli.update", "cli.compare":
			prewarmJoins(p, env, op.Args[0:6], op.Args[7:])
		case "cli.compareAll", "cli.compareAllOut":
			prewarmJoins(p, env, op.Args[1:7], op.Args[7:])
		case "cli.compareOut":
			prewarmJoins(p, env, op.Args[1:7], op.Args[8:])
		case "cli.updateAll":
			prewarmJoins(p, env, op.Args[0:6], op.Args[6:])
		}
		ri := p.Impl(op, env.timeout)
		if ri.Status == "timeout" && atomic.LoadInt64(&implRetries) < 3 {
			// a time-out of the implementation is a finding (a hang) — unless the machine was merely busy: the operation is
			// asked again, alone, with five times the limit (at most three times per run: a change that makes the code hang
			// on many inputs is established after the first few)
			atomic.AddInt64(&implRetries, 1)
			slowModel.Lock()
			ri = p.Impl(op, 5*env.timeout)
			slowModel.Unlock()
		}
		rm := p.Model(op, env.timeout)
		if rm.Status == "timeout" {
			// The model is a fixed artefact: how long it takes on an input does not depend on the code under check
			// (a slow answer on a loaded machine is not a difference in behaviour). It is asked again, alone, with a long limit;
			// when it still has no answer the operation is counted as not compared (evidence: model_no_answer).
			slowModel.Lock()
			rm = p.Model(op, 30*env.timeout)
			slowModel.Unlock()
			if rm.Status == "timeout" {
				atomic.AddInt64(&modelNoAnswer, 1)
				continue
			}
		}
		if ri.Status == "harness-error" || rm.Status == "harness-error" || ri.Status == "bad-op" || rm.Status == "bad-op" || rm.Status == "bad-hex" {
			out.harness = append(out.harness, fmt.Sprintf("%s: impl=%s model=%s", op.Name, ri.String(), rm.String()))
			continue
		}
		out.implStatus = append(out.implStatus, op.Name+":"+ri.Status)
		if base == "cli.run" && rm.Status == "ok" && len(rm.Out) == 1 && string(rm.Out[0]) == "unmodelled" {
			continue // a form of the command the invocation model does not cover
		}
		if !ri.Equal(rm) {
			out.disagree = append(out.disagree, Disagreement{op, ri, rm})
		}
	}
	for _, oc := range c.Oracles {
		f, found := oracles[oc.Name]
		if !found {
			out.harness = append(out.harness, "unknown oracle "+oc.Name)
			continue
		}
		if fl := f(p, env, oc.Args); fl != nil {
			if strings.HasPrefix(fl.What, "harness:") {
				out.harness = append(out.harness, fl.What+" "+fl.Detail)
			} else {
				out.failures = append(out.failures, *fl)
			}
		}
	}
	return out
}

// Property is what a check of one property consists of.
type Property struct {
	ID       string
	LeanMods []string // Lean modules holding the property theorems (CrsProps.Cxx)
	Corr     string   // correspondence rows (documentation for evidence/replays)
	Rule     string   // how cases are generated and what makes one non-trivial
	Gen      func(rng *rand.Rand, tier string, env *Env) []Case
	Corpus   func(env *Env) []Case // fixed cases that always run first (past failures, witnesses)
	Assume   []string
	Workers  int
	// Escalate turns a model-vs-code disagreement on a component-level operation into end-to-end cases that carry
	// the property's oracles: the search for a concrete failing input starts where the correspondence broke.
	Escalate func(d Disagreement) []Case
}

var properties = map[string]*Property{}

type Evidence struct {
	PropertyID  string                 `json:"property_id"`
	Tier        string                 `json:"tier"`
	Seed        int64                  `json:"seed"`
	Level       string                 `json:"level"`
	Coverage    map[string]interface{} `json:"coverage"`
	Assumptions []string               `json:"assumptions"`
	WallS       float64                `json:"wall_s"`
	Violations  int                    `json:"violations"`
}

var trustedBase = []string{
	"Lean 4 kernel (lean 4.33.0); axioms allowed: propext, Classical.choice, Quot.sound; no sorry, no native_decide, no added axioms (audited with #print axioms on every property theorem)",
	"hand-written Lean model Crs.* — tied to /repo's current source only by the correspondence check of this run (same op lines to the real Go code and to the compiled model, byte-exact diff)",
	"models of Go standard-library functions (bufio.ScanLines, strings.*, bytes.*, regexp on the literal patterns) — cross-checked per run, not proved",
	"regex engine (rassemble-go, regexp/syntax) is a parameter of the model; the driver obtains real Join results from the pinned library",
	"harness (generators, oracles, Go regexp as reference matcher) — used for the tie and for the search of failing inputs only",
}

func writeJSON(path string, v interface{}) error {
	b, err := json.MarshalIndent(v, "", " ")
	if err != nil {
		return err
	}
	if err := os.MkdirAll(filepath.Dir(path), 0o755); err != nil {
		return err
	}
	return os.WriteFile(path, append(b, '\n'), 0o644)
}

type replayFile struct {
	Property   string         `json:"property"`
	Kind       string         `json:"violation_kind"` // failing-input | no-failing-input-found
	Seed       int64          `json:"seed"`
	Tier       string         `json:"tier"`
	What       string         `json:"what"`
	Broken     string         `json:"broken_obligation,omitempty"` // theorem or correspondence row that no longer checks
	Case       *caseJSON      `json:"case,omitempty"`
	Failures   []Failure      `json:"failures,omitempty"`
	Disagree   []disagreeJSON `json:"model_vs_code,omitempty"`
	LeanOutput string         `json:"lean_output,omitempty"`
	Replay     string         `json:"replay_cmd"`
}

type disagreeJSON struct {
	Op    opJSON `json:"op"`
	Impl  string `json:"implementation"`
	Model string `json:"model"`
}

func verifDir() string {
	if d := os.Getenv("VERIF_DIR"); d != "" {
		return d
	}
	return "/verif"
}

func writeReplay(prop string, r replayFile, key string) string {
	r.Property = prop
	name := filepath.Join(verifDir(), "replays", prop, key+".json")
	r.Replay = fmt.Sprintf("./check %s --replay %s", prop, strings.TrimPrefix(name, verifDir()+"/"))
	if err := writeJSON(name, r); err != nil {
		fmt.Fprintln(os.Stderr, "cannot write replay:", err)
	}
	return strings.TrimPrefix(name, verifDir()+"/")
}

// runProperty is the decision rule of DESIGN §6.4. Returns the process exit status.
func runProperty(pr *Property, env *Env, tier string, seed int64, lean leanResult, replayPath string) int {
	start := time.Now()
	rng := rand.New(rand.NewSource(seed))
	var cases []Case
	replayMode := replayPath != ""
	if replayMode {
		var rf replayFile
		b, err := os.ReadFile(replayPath)
		if err != nil {
			fmt.Fprintln(os.Stderr, "cannot read replay:", err)
			return 2
		}
		if err := json.Unmarshal(b, &rf); err != nil || rf.Case == nil {
			fmt.Fprintln(os.Stderr, "replay file has no case to re-run:", err)
			if rf.Broken != "" {
				fmt.Println("replay names broken obligation:", rf.Broken)
			}
			return 2
		}
		c, err := caseFromJSON(*rf.Case)
		if err != nil {
			fmt.Fprintln(os.Stderr, "bad replay:", err)
			return 2
		}
		cases = []Case{c}
	} else {
		if pr.Corpus != nil {
			cases = append(cases, pr.Corpus(env)...)
		}
		// the inputs that caught the seeded changes (corpus/<id>/, written by tools/mkcorpus.py from the stored replays):
		// they run first on every run, whatever the generators produce this time
		cases = append(cases, corpusCases(pr.ID)...)
		cases = append(cases, pr.Gen(rng, tier, env)...)
		cases = append(cases, patternWatchCases(pr, rng, tier)...)
	}

	workers := pr.Workers
	if workers == 0 {
		workers = 12
	}
	outcomes := make([]caseOutcome, len(cases))
	parallel(env, len(cases), workers, func(p *Pair, i int) {
		outcomes[i] = runCase(p, env, cases[i])
	})

	// the correspondence broke somewhere: look for a failing input around the operations it broke on
	if pr.Escalate != nil && !replayMode {
		var extra []Case
		seenX := map[string]bool{}
		for i := range outcomes {
			for _, d := range outcomes[i].disagree {
				for _, c := range pr.Escalate(d) {
					if h := c.hash(); !seenX[h] && len(extra) < 400 {
						seenX[h] = true
						extra = append(extra, c)
					}
				}
			}
		}
		if len(extra) > 0 {
			more := make([]caseOutcome, len(extra))
			parallel(env, len(extra), workers, func(p *Pair, i int) {
				more[i] = runCase(p, env, extra[i])
			})
			outcomes = append(outcomes, more...)
		}
	}

	// known-finding witnesses
	listed := listedFindings(pr.ID)
	var findingLinesOut []string
	if !replayMode {
		p := env.newPair()
		var notes []string
		findingLinesOut, notes = findingLines(pr.ID, p, env)
		p.close()
		for _, n := range notes {
			fmt.Fprintln(os.Stderr, "note:", n)
		}
	}
	findingLines := findingLinesOut
	for _, l := range findingLines {
		fmt.Println(l)
	}

	// statistics
	kinds := map[string]int{}
	opStatus := map[string]int{}
	statuses := map[string]int{}
	distinct := map[string]bool{}
	nOps, nOracles := 0, 0
	var harnessErrs []string
	var firstFail, firstDis *caseOutcome
	attributed := map[string]int{}
	brokenObligation := ""
	nFail, nDis := 0, 0
	for i := range outcomes {
		o := &outcomes[i]
		kinds[o.c.Kind]++
		for _, st := range o.implStatus {
			opStatus[st]++
		}
		nOps += len(o.c.Ops)
		nOracles += len(o.c.Oracles)
		distinct[o.c.hash()] = true
		harnessErrs = append(harnessErrs, o.harness...)
		real := 0
		for _, f := range o.failures {
			if _, isListed := listed[f.Finding]; f.Finding != "" && isListed {
				attributed[f.Finding]++
			} else if strings.HasPrefix(f.What, "obligation:") {
				// a static proof obligation that no longer holds: not a failing input by itself
				if brokenObligation == "" {
					brokenObligation = f.What + " " + f.Detail
				}
			} else {
				real++
			}
		}
		if real > 0 {
			nFail++
			if firstFail == nil {
				firstFail = o
			}
		}
		if len(o.disagree) > 0 {
			nDis++
			if firstDis == nil {
				firstDis = o
			}
			for _, d := range o.disagree {
				statuses["impl="+d.Impl.Status+"/model="+d.Model.Status]++
			}
		}
	}

	engineMu.Lock()
	if len(engineViolations) > 0 && brokenObligation == "" {
		brokenObligation = "obligation: assumption EngineShape.balanced (the engine prints balanced text) is violated by the pinned rassemble-go: " + engineViolations[0]
	}
	joinsMonitored := engineJoins
	engineMu.Unlock()
	exit := 0
	violations := 0
	var violationLines []string
	if firstFail != nil {
		// a concrete failing input on the real code
		cj := firstFail.c.toJSON()
		var fl []Failure
		for _, f := range firstFail.failures {
			if _, isListed := listed[f.Finding]; (f.Finding == "" || !isListed) && !strings.HasPrefix(f.What, "obligation:") {
				fl = append(fl, f)
			}
		}
		rf := replayFile{Kind: "failing-input", Seed: seed, Tier: tier, What: fl[0].What, Case: &cj, Failures: fl}
		for _, d := range firstFail.disagree {
			rf.Disagree = append(rf.Disagree, disagreeJSON{opToJSON(d.Op), d.Impl.String(), d.Model.String()})
		}
		path := writeReplay(pr.ID, rf, firstFail.c.hash())
		violationLines = append(violationLines, fmt.Sprintf("VIOLATION property=%s replay=%s", pr.ID, path))
		violations = nFail
		exit = 1
	} else if firstDis != nil {
		// correspondence broken, the oracles found no failing input
		cj := firstDis.c.toJSON()
		rf := replayFile{Kind: "no-failing-input-found", Seed: seed, Tier: tier,
			What:   "model and implementation differ; the property oracles hold on every explored input, so the property is no longer shown to hold",
			Broken: "correspondence " + pr.Corr + " at op " + firstDis.disagree[0].Op.Name, Case: &cj}
		for _, d := range firstDis.disagree {
			rf.Disagree = append(rf.Disagree, disagreeJSON{opToJSON(d.Op), d.Impl.String(), d.Model.String()})
		}
		path := writeReplay(pr.ID, rf, "corr-"+firstDis.c.hash())
		violationLines = append(violationLines, fmt.Sprintf("VIOLATION property=%s replay=%s no-failing-input-found", pr.ID, path))
		violations = nDis
		exit = 1
	} else if brokenObligation != "" {
		rf := replayFile{Kind: "no-failing-input-found", Seed: seed, Tier: tier,
			What:   "a proof obligation tied to the source no longer holds; no failing input was found on the implementation",
			Broken: brokenObligation}
		path := writeReplay(pr.ID, rf, "static-obligation")
		violationLines = append(violationLines, fmt.Sprintf("VIOLATION property=%s replay=%s no-failing-input-found", pr.ID, path))
		violations = 1
		exit = 1
	} else if !lean.ok && !replayMode {
		rf := replayFile{Kind: "no-failing-input-found", Seed: seed, Tier: tier,
			What:       "a proof obligation of the Lean development no longer checks; no failing input was found on the implementation",
			Broken:     lean.broken,
			LeanOutput: lean.output}
		path := writeReplay(pr.ID, rf, "lean-obligation")
		violationLines = append(violationLines, fmt.Sprintf("VIOLATION property=%s replay=%s no-failing-input-found", pr.ID, path))
		violations = 1
		exit = 1
	}
	if len(harnessErrs) > 0 && exit == 0 {
		fmt.Fprintln(os.Stderr, "harness errors (not a verdict about the property):")
		for i, h := range harnessErrs {
			if i > 10 {
				break
			}
			fmt.Fprintln(os.Stderr, "  ", h)
		}
		exit = 2
	}
	for _, l := range violationLines {
		fmt.Println(l)
	}

	// evidence
	var samples []interface{}
	seenKind := map[string]bool{}
	for i := range outcomes {
		k := outcomes[i].c.Kind
		if !seenKind[k] && len(samples) < 8 {
			seenKind[k] = true
			samples = append(samples, outcomes[i].c.toSampleJSON())
		}
	}
	if len(samples) == 0 {
		samples = append(samples, "no case was run")
	}
	nontrivial := 0
	seen := map[string]bool{}
	for i := range outcomes {
		h := outcomes[i].c.hash()
		if !seen[h] && !outcomes[i].trivial && outcomes[i].c.Kind != "trivial" {
			seen[h] = true
			nontrivial++
		}
	}
	cov := map[string]interface{}{
		"obligations":                            lean.obligations,
		"discharged":                             lean.discharged,
		"checker_cmd":                            lean.cmd,
		"trusted_base":                           trustedBase,
		"theorems":                               lean.theorems,
		"partial_theorems":                       lean.partial,
		"evaluations":                            len(outcomes),
		"distinct_nontrivial":                    nontrivial,
		"rule":                                   pr.Rule,
		"samples":                                samples,
		"programs":                               len(outcomes),
		"disagreements_checked":                  nOps,
		"oracle_evaluations":                     nOracles,
		"correspondence_rows":                    pr.Corr,
		"model_vs_code_disagreements":            nDis,
		"oracle_failures":                        nFail,
		"attributed_to_known_findings":           attributed,
		"engine_join_results_monitored_balanced": joinsMonitored,
		"input_distribution":                     kinds,
		"implementation_outcomes":                opStatus,
		"known_finding_lines":                    findingLines,
		"harness_errors":                         len(harnessErrs),
		"model_no_answer":                        atomic.LoadInt64(&modelNoAnswer),
		"implementation_timeouts_asked_again":    atomic.LoadInt64(&implRetries),
		"source_pattern_literals":                patternWatchNote,
	}
	assumptions := append([]string{
		"the theorems are about the Lean model; the model is tied to /repo's working tree by this run's correspondence (same operations on the real Go code and on the compiled model, byte-exact diff)",
		"rassemble-go / regexp/syntax are a parameter of the model (real Join results are fed to it)",
	}, pr.Assume...)
	ev := Evidence{PropertyID: pr.ID, Tier: tier, Seed: seed, Level: "proof", Coverage: cov,
		Assumptions: assumptions, WallS: time.Since(start).Seconds() + lean.wall, Violations: violations}
	if !replayMode {
		if err := writeJSON(filepath.Join(verifDir(), "evidence", pr.ID+".json"), ev); err != nil {
			fmt.Fprintln(os.Stderr, "cannot write evidence:", err)
			if exit == 0 {
				exit = 2
			}
		}
	}
	ks := make([]string, 0, len(kinds))
	for k, n := range kinds {
		ks = append(ks, fmt.Sprintf("%s=%d", k, n))
	}
	sort.Strings(ks)
	fmt.Printf("%s: tier=%s seed=%d cases=%d (distinct non-trivial %d) ops compared=%d oracle calls=%d disagreements=%d oracle failures=%d lean obligations %d/%d  [%s] %.1fs\n",
		pr.ID, tier, seed, len(outcomes), nontrivial, nOps, nOracles, nDis, nFail, lean.discharged, lean.obligations, strings.Join(ks, " "), time.Since(start).Seconds())
	return exit
}

var printMu sync.Mutex
