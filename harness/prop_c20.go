package main

import (
	"bytes"
	"encoding/json"
	"fmt"
	"math/rand"
	"os"
	"os/exec"
	"path/filepath"
	"strings"
	"sync"
)

// C20: self-update against a local fake release service (row K11).

type c20Release struct {
	Tag        string `json:"tag"`
	Draft      bool   `json:"draft"`
	Prerelease bool   `json:"prerelease"`
	Platform   string `json:"platform"` // "linux_amd64", "other", "none"
	AssetKind  string `json:"asset"`    // "raw", "corrupt-targz", "http-500"
	Checksum   string `json:"checksum"` // "ok", "mismatch", "other-file", "missing", "http-500"
}

type c20Scenario struct {
	Running  string       `json:"running"`
	Releases []c20Release `json:"releases"`
	ListFail int          `json:"list_fail"`
}

var (
	verBuildMu sync.Mutex
	fakeGhOnce sync.Once
	fakeGh     *fakeGitHub
	fakeGhErr  error
)

func buildVersioned(env *Env, version string) (string, error) {
	verBuildMu.Lock()
	defer verBuildMu.Unlock()
	out := filepath.Join(env.scratch, "crs-toolchain-"+version)
	if fileExists(out) {
		return out, nil
	}
	repo := os.Getenv("VERIF_REPO")
	if repo == "" {
		repo = "/repo"
	}
	cmd := exec.Command("go", "build", "-ldflags", "-X main.version="+version, "-o", out, ".")
	cmd.Dir = repo
	if b, err := cmd.CombinedOutput(); err != nil {
		return "", fmt.Errorf("%v: %s", err, b)
	}
	return out, nil
}

// semver-ish comparison of x.y.z[-pre] tags for the independent expectation
func parseVer(tag string) (v [3]int, pre string, ok bool) {
	t := strings.TrimPrefix(tag, "v")
	if i := strings.IndexByte(t, '-'); i >= 0 {
		pre = t[i+1:]
		t = t[:i]
	}
	parts := strings.Split(t, ".")
	if len(parts) != 3 {
		return v, "", false
	}
	for i, p := range parts {
		n := 0
		if p == "" {
			return v, "", false
		}
		for _, c := range p {
			if c < '0' || c > '9' {
				return v, "", false
			}
			n = n*10 + int(c-'0')
		}
		v[i] = n
	}
	return v, pre, true
}

func verLess(a, b string) bool {
	va, pa, _ := parseVer(a)
	vb, pb, _ := parseVer(b)
	for i := 0; i < 3; i++ {
		if va[i] != vb[i] {
			return va[i] < vb[i]
		}
	}
	if pa == pb {
		return false
	}
	if pa == "" {
		return false
	}
	if pb == "" {
		return true
	}
	return pa < pb
}

// args: scenario JSON
func oracleC20(p *Pair, env *Env, a [][]byte) *Failure {
	var sc c20Scenario
	if err := json.Unmarshal(a[0], &sc); err != nil {
		return &Failure{What: "harness: bad scenario", Detail: err.Error()}
	}
	fakeGhOnce.Do(func() { fakeGh, fakeGhErr = newFakeGitHub(env.scratch) })
	if fakeGhErr != nil {
		return &Failure{What: "harness: cannot start the fake release service", Detail: fakeGhErr.Error()}
	}
	exeSrc, err := buildVersioned(env, sc.Running)
	if err != nil {
		return &Failure{What: "harness: cannot build versioned binary", Detail: err.Error()}
	}
	// one scenario at a time: the fake service is shared
	verBuildMu.Lock()
	defer verBuildMu.Unlock()
	sb := mkSandbox(env)
	defer os.RemoveAll(sb)
	exe := filepath.Join(sb, "crs-toolchain")
	orig, _ := os.ReadFile(exeSrc)
	if err := os.WriteFile(exe, orig, 0o755); err != nil {
		return &Failure{What: "harness: copy", Detail: err.Error()}
	}
	var rels []ghRelease
	id := int64(100)
	// expectation, read from the property
	type cand struct {
		tag     string
		payload []byte
		rel     c20Release
	}
	var best *cand
	for i, r := range sc.Releases {
		id += 10
		payload := []byte(fmt.Sprintf("#!/bin/sh\necho release %s number %d\n", r.Tag, i))
		g := ghRelease{ID: id, Tag: r.Tag, Draft: r.Draft, Prerelease: r.Prerelease}
		assetName := "crs-toolchain_" + strings.TrimPrefix(r.Tag, "v") + "_linux_amd64"
		bytesToServe := payload
		switch r.AssetKind {
		case "corrupt-targz":
			assetName += ".tar.gz"
			bytesToServe = []byte("this is not a gzip stream")
		}
		switch r.Platform {
		case "linux_amd64":
			as := ghAsset{ID: id + 1, Name: assetName, Bytes: bytesToServe}
			if r.AssetKind == "http-500" {
				as.Fail = 500
			}
			g.Assets = append(g.Assets, as)
		case "other":
			g.Assets = append(g.Assets, ghAsset{ID: id + 1, Name: "crs-toolchain_" + strings.TrimPrefix(r.Tag, "v") + "_windows_arm64.zip", Bytes: []byte("PK")},
				ghAsset{ID: id + 3, Name: "crs-toolchain_" + strings.TrimPrefix(r.Tag, "v") + "_darwin_amd64", Bytes: []byte("macho")})
		}
		sums := ""
		switch r.Checksum {
		case "ok":
			sums = sha256hex(bytesToServe) + "  " + assetName + "\n" + sha256hex([]byte("x")) + "  other_file\n"
		case "mismatch":
			sums = sha256hex([]byte("something else")) + "  " + assetName + "\n"
		case "other-file":
			sums = sha256hex(bytesToServe) + "  some_other_asset\n"
		}
		if r.Checksum != "missing" {
			cs := ghAsset{ID: id + 2, Name: "crs-toolchain-checksums.txt", Bytes: []byte(sums)}
			if r.Checksum == "http-500" {
				cs.Fail = 500
			}
			g.Assets = append(g.Assets, cs)
		}
		rels = append(rels, g)
		if _, _, okv := parseVer(r.Tag); okv && !r.Draft && !r.Prerelease && r.Platform == "linux_amd64" {
			if best == nil || verLess(best.tag, r.Tag) {
				best = &cand{r.Tag, payload, r}
			}
		}
	}
	fakeGh.set(rels, sc.ListFail)
	cmd := exec.Command(exe, "self-update")
	cmd.Dir = sb
	cmd.Env = append(os.Environ(), "HTTPS_PROXY="+fakeGh.proxyURL(), "https_proxy="+fakeGh.proxyURL(), "SSL_CERT_FILE="+fakeGh.caFile, "NO_PROXY=", "no_proxy=", "GITHUB_TOKEN=")
	var out bytes.Buffer
	cmd.Stdout, cmd.Stderr = &out, &out
	runErr := cmd.Run()
	exit := 0
	if runErr != nil {
		exit = 1
		if ee, isExit := runErr.(*exec.ExitError); isExit {
			exit = ee.ExitCode()
		}
	}
	now, _ := os.ReadFile(exe)
	changed := !bytes.Equal(now, orig)
	fakeGh.mu.Lock()
	reqs := append([]string{}, fakeGh.requests...)
	fakeGh.mu.Unlock()
	if len(reqs) == 0 {
		return &Failure{What: "harness: the binary never reached the fake release service", Detail: out.String()}
	}
	detail := fmt.Sprintf("scenario %s\nexit %d, executable changed: %v\nrequests %q\noutput %s", a[0], exit, changed, reqs, tail(out.String(), 1500))
	mayInstall := sc.ListFail == 0 && best != nil && verLess(sc.Running, best.tag) && best.rel.AssetKind == "raw" && best.rel.Checksum == "ok"
	if changed && !mayInstall {
		return &Failure{What: "self-update replaced the executable although no newer, checksum-verified release for this platform exists", Detail: detail}
	}
	if changed && !bytes.Equal(now, best.payload) {
		return &Failure{What: "self-update installed other bytes than the platform asset of the newest release", Detail: detail}
	}
	if mayInstall && !changed {
		return &Failure{What: "self-update did not install the newer verified release", Detail: detail}
	}
	// failures must be reported
	upToDate := sc.ListFail == 0 && best != nil && !verLess(sc.Running, best.tag) && best.rel.Checksum != "missing"
	if !changed && !upToDate && exit == 0 {
		return &Failure{What: "self-update could not update but exits with status 0", Detail: detail}
	}
	// the Lean model of the decision (Crs.Updater.decideUpdate) on the same catalogue: row K11
	{
		verArg := func(tag string) string {
			v, pre, okv := parseVer(tag)
			if !okv {
				return "none"
			}
			p := "0"
			if pre != "" {
				p = "1"
			}
			return fmt.Sprintf("%d.%d.%d.%s", v[0], v[1], v[2], p)
		}
		b2s := func(b bool) string {
			if b {
				return "1"
			}
			return "0"
		}
		margs := [][]byte{[]byte(verArg(sc.Running)), []byte(b2s(sc.ListFail == 0))}
		var digests []string
		var relArgs [][]byte
		for _, g := range rels {
			fs := []string{verArg(g.Tag), b2s(g.Draft), b2s(g.Prerelease)}
			for _, as := range g.Assets {
				fs = append(fs, as.Name, string(as.Bytes), b2s(as.Fail == 0))
				digests = append(digests, string(as.Bytes), sha256hex(as.Bytes))
			}
			relArgs = append(relArgs, []byte(strings.Join(fs, "\x1f")))
		}
		margs = append(margs, []byte(strings.Join(digests, "\x1f")))
		margs = append(margs, relArgs...)
		mr := p.Model(Op{"updater.decide", margs}, env.timeout)
		observed := "fail"
		if changed {
			observed = "install"
		} else if exit == 0 {
			observed = "uptodate"
		}
		// a corrupt archive passes the checksum (it is the published asset) and fails while unpacking: outside the decision model
		corruptChosen := best != nil && best.rel.AssetKind == "corrupt-targz"
		if mr.Status != "ok" || len(mr.Out) == 0 {
			return &Failure{What: "harness: model driver failed on updater.decide", Detail: mr.String()}
		}
		modelSays := string(mr.Out[0])
		if !corruptChosen && (modelSays != observed || (modelSays == "install" && !bytes.Equal(mr.Out[1], now))) {
			return &Failure{What: "obligation: correspondence K11 — the model's decision differs from what the binary did", Detail: fmt.Sprintf("model %s, binary %s\n%s", mr.String(), observed, detail)}
		}
	}
	return nil
}

// sequences of invocations: a successful update from v1 to v2 (the installed file is the real v2 build), then, running
// v2, a newer release that cannot be installed (checksum mismatch / asset unreachable / no checksum file): the failure
// is reported and the executable stays the v2 build byte for byte; then an honest v3: it is installed.
// args: kind of the failing step
func oracleC20Seq(p *Pair, env *Env, a [][]byte) *Failure {
	failKind := string(a[0])
	fakeGhOnce.Do(func() { fakeGh, fakeGhErr = newFakeGitHub(env.scratch) })
	if fakeGhErr != nil {
		return &Failure{What: "harness: cannot start the fake release service", Detail: fakeGhErr.Error()}
	}
	var bins [][]byte
	for _, v := range []string{"v4.1.0", "v4.2.0", "v4.4.0"} {
		src, err := buildVersioned(env, v)
		if err != nil {
			return &Failure{What: "harness: cannot build versioned binary", Detail: err.Error()}
		}
		b, _ := os.ReadFile(src)
		bins = append(bins, b)
	}
	verBuildMu.Lock()
	defer verBuildMu.Unlock()
	sb := mkSandbox(env)
	defer os.RemoveAll(sb)
	exe := filepath.Join(sb, "crs-toolchain")
	_ = os.WriteFile(exe, bins[0], 0o755)
	rel := func(id int64, tag string, payload []byte, checksum string, fail int) ghRelease {
		name := "crs-toolchain_" + strings.TrimPrefix(tag, "v") + "_linux_amd64"
		g := ghRelease{ID: id, Tag: tag}
		as := ghAsset{ID: id + 1, Name: name, Bytes: payload, Fail: fail}
		g.Assets = append(g.Assets, as)
		switch checksum {
		case "ok":
			g.Assets = append(g.Assets, ghAsset{ID: id + 2, Name: "crs-toolchain-checksums.txt", Bytes: []byte(sha256hex(payload) + "  " + name + "\n")})
		case "mismatch":
			g.Assets = append(g.Assets, ghAsset{ID: id + 2, Name: "crs-toolchain-checksums.txt", Bytes: []byte(sha256hex([]byte("other")) + "  " + name + "\n")})
		}
		return g
	}
	run := func() (int, string) {
		cmd := exec.Command(exe, "self-update")
		cmd.Dir = sb
		cmd.Env = append(os.Environ(), "HTTPS_PROXY="+fakeGh.proxyURL(), "https_proxy="+fakeGh.proxyURL(), "SSL_CERT_FILE="+fakeGh.caFile, "NO_PROXY=", "no_proxy=", "GITHUB_TOKEN=")
		var out bytes.Buffer
		cmd.Stdout, cmd.Stderr = &out, &out
		err := cmd.Run()
		exit := 0
		if err != nil {
			exit = 1
			if ee, isExit := err.(*exec.ExitError); isExit {
				exit = ee.ExitCode()
			}
		}
		return exit, tail(out.String(), 800)
	}
	r2 := rel(110, "v4.2.0", bins[1], "ok", 0)
	fakeGh.set([]ghRelease{r2}, 0)
	if exit, out := run(); exit != 0 {
		return &Failure{What: "self-update did not install the newer verified release (first step of a sequence)", Detail: fmt.Sprintf("exit %d\n%s", exit, out)}
	}
	if now, _ := os.ReadFile(exe); !bytes.Equal(now, bins[1]) {
		return &Failure{What: "self-update installed other bytes than the platform asset of the newest release (first step of a sequence)"}
	}
	var r3 ghRelease
	switch failKind {
	case "mismatch":
		r3 = rel(120, "v4.3.0", []byte("#!/bin/sh\necho tampered\n"), "mismatch", 0)
	case "asset-unreachable":
		r3 = rel(120, "v4.3.0", []byte("x"), "ok", 404)
	default:
		r3 = rel(120, "v4.3.0", []byte("#!/bin/sh\necho unverified\n"), "none", 0)
	}
	fakeGh.set([]ghRelease{r3, r2}, 0)
	exit, out := run()
	now, _ := os.ReadFile(exe)
	if !bytes.Equal(now, bins[1]) {
		what := "other bytes"
		if bytes.Equal(now, bins[0]) {
			what = "the OLDER build that an earlier update had replaced"
		}
		return &Failure{What: "a failing self-update after an earlier successful one changed the executable: it now holds " + what,
			Detail: fmt.Sprintf("failing step: %s, exit %d\n%s", failKind, exit, out)}
	}
	if exit == 0 {
		return &Failure{What: "self-update could not update but exits with status 0 (second step of a sequence)", Detail: out}
	}
	fakeGh.set([]ghRelease{rel(130, "v4.4.0", bins[2], "ok", 0), r3, r2}, 0)
	if exit, out := run(); exit != 0 {
		return &Failure{What: "self-update did not install the newer verified release (third step of a sequence)", Detail: fmt.Sprintf("exit %d\n%s", exit, out)}
	}
	if now, _ := os.ReadFile(exe); !bytes.Equal(now, bins[2]) {
		return &Failure{What: "self-update installed other bytes than the platform asset of the newest release (third step of a sequence)"}
	}
	return nil
}

func genC20(r *rand.Rand, tier string, env *Env) []Case {
	n := 14
	if tier == "thorough" {
		n = 120
	}
	var cases []Case
	mk := func(sc c20Scenario, kind string) {
		b, _ := json.Marshal(sc)
		cases = append(cases, Case{Kind: kind, Oracles: []Op{{"c20.selfupdate", [][]byte{b}}}})
	}
	good := c20Release{Tag: "v2.1.0", Platform: "linux_amd64", AssetKind: "raw", Checksum: "ok"}
	// the named situations of the property
	mk(c20Scenario{Running: "v1.5.0", Releases: []c20Release{good}}, "newer-verified")
	mk(c20Scenario{Running: "v0.0.0-dev", Releases: []c20Release{good}}, "dev-build")
	mk(c20Scenario{Running: "v2.1.0", Releases: []c20Release{good}}, "equal-version")
	mk(c20Scenario{Running: "v3.0.0", Releases: []c20Release{good}}, "older-release")
	mk(c20Scenario{Running: "v1.5.0", Releases: []c20Release{{Tag: "v2.1.0", Platform: "linux_amd64", AssetKind: "raw", Checksum: "mismatch"}}}, "checksum-mismatch")
	mk(c20Scenario{Running: "v1.5.0", Releases: []c20Release{{Tag: "v2.1.0", Platform: "linux_amd64", AssetKind: "raw", Checksum: "other-file"}}}, "checksum-for-another-file")
	mk(c20Scenario{Running: "v1.5.0", Releases: []c20Release{{Tag: "v2.1.0", Platform: "linux_amd64", AssetKind: "raw", Checksum: "missing"}}}, "checksum-file-missing")
	mk(c20Scenario{Running: "v1.5.0", Releases: []c20Release{{Tag: "v2.1.0", Platform: "other", AssetKind: "raw", Checksum: "ok"}}}, "other-platforms-only")
	mk(c20Scenario{Running: "v1.5.0", Releases: []c20Release{{Tag: "v2.1.0", Platform: "linux_amd64", AssetKind: "corrupt-targz", Checksum: "ok"}}}, "corrupt-archive")
	mk(c20Scenario{Running: "v1.5.0", Releases: []c20Release{{Tag: "v2.1.0", Platform: "linux_amd64", AssetKind: "http-500", Checksum: "ok"}}}, "download-failure")
	mk(c20Scenario{Running: "v1.5.0", Releases: []c20Release{{Tag: "v2.1.0", Platform: "linux_amd64", AssetKind: "raw", Checksum: "http-500"}}}, "checksum-download-failure")
	// running versions that carry a pre-release tag are ordinary semantic versions: an rc NEWER than every release
	// must stay, an rc of the newest release is older than it
	mk(c20Scenario{Running: "v2.2.0-rc.1", Releases: []c20Release{good}}, "prerelease-build-newer-than-catalogue")
	mk(c20Scenario{Running: "v2.1.1-next", Releases: []c20Release{good, {Tag: "v2.0.0", Platform: "linux_amd64", AssetKind: "raw", Checksum: "ok"}}}, "snapshot-build-newer-than-catalogue")
	mk(c20Scenario{Running: "v2.1.0-rc.1", Releases: []c20Release{good}}, "prerelease-build-of-newest-release")
	mk(c20Scenario{Running: "v1.5.0", Releases: nil}, "no-releases")
	mk(c20Scenario{Running: "v1.5.0", Releases: []c20Release{good}, ListFail: 500}, "list-failure")
	// the service refuses in the shapes the real one uses: rate limit used up, secondary limit, not authorised, gone, bad gateway
	for _, code := range []int{4031, 4032, 401, 404, 429, 502} {
		mk(c20Scenario{Running: "v1.5.0", Releases: []c20Release{good}, ListFail: code}, fmt.Sprintf("list-refused-%d", code))
	}
	mk(c20Scenario{Running: "v1.5.0", Releases: []c20Release{{Tag: "v9.0.0", Prerelease: true, Platform: "linux_amd64", AssetKind: "raw", Checksum: "ok"}, {Tag: "v9.1.0", Draft: true, Platform: "linux_amd64", AssetKind: "raw", Checksum: "ok"}, good}}, "prerelease-and-draft-ignored")
	// the newest release is incomplete (no checksum file yet): nothing older, no pre-release and no draft is a substitute
	mk(c20Scenario{Running: "v2.0.0", Releases: []c20Release{{Tag: "v2.2.0", Platform: "linux_amd64", AssetKind: "raw", Checksum: "missing"}, good}}, "newest-incomplete-older-complete")
	mk(c20Scenario{Running: "v2.1.0", Releases: []c20Release{{Tag: "v2.2.0", Platform: "linux_amd64", AssetKind: "raw", Checksum: "missing"},
		{Tag: "v2.2.0-rc.1", Prerelease: true, Platform: "linux_amd64", AssetKind: "raw", Checksum: "ok"}, good}}, "newest-incomplete-prerelease-complete")
	mk(c20Scenario{Running: "v2.1.0", Releases: []c20Release{{Tag: "v2.2.0", Platform: "linux_amd64", AssetKind: "raw", Checksum: "http-500"}, good}}, "newest-checksum-unreachable-equal-complete")
	for _, k := range []string{"mismatch", "asset-unreachable", "no-checksum-file"} {
		cases = append(cases, Case{Kind: "sequence-of-updates", Oracles: []Op{{"c20.sequence", [][]byte{[]byte(k)}}}})
	}
	for i := 0; i < n; i++ {
		sc := c20Scenario{Running: pick(r, []string{"v1.5.0", "v0.0.0-dev", "v2.1.0", "v1.5.0", "v2.5.0-rc.1", "v2.0.1-next", "v1.5.1-beta"})}
		k := r.Intn(4)
		for j := 0; j < k; j++ {
			sc.Releases = append(sc.Releases, c20Release{
				Tag:        pick(r, []string{"v1.4.0", "v1.5.0", "v1.5.1", "v2.0.0", "v2.1.0", "v2.1.0-rc1", "nightly", "v3.0.0"}),
				Draft:      chance(r, 0.1),
				Prerelease: chance(r, 0.15),
				Platform:   pick(r, []string{"linux_amd64", "linux_amd64", "linux_amd64", "other", "none"}),
				AssetKind:  pick(r, []string{"raw", "raw", "raw", "corrupt-targz", "http-500"}),
				Checksum:   pick(r, []string{"ok", "ok", "ok", "mismatch", "other-file", "missing", "http-500"}),
			})
		}
		if chance(r, 0.05) {
			sc.ListFail = pick(r, []int{500, 403, 4031, 4032, 404})
		}
		mk(sc, "random-catalogue")
	}
	return cases
}

func init() {
	oracles["c20.selfupdate"] = oracleC20
	oracles["c20.sequence"] = oracleC20Seq
	properties["C20"] = &Property{ID: "C20", LeanMods: []string{"CrsProps.C20"}, Workers: 2,
		Corr: "K11 (the binary, built from the working tree with a version stamp, against a local fake release service over HTTPS: installed bytes / unchanged / error)",
		Rule: "17 named situations of the property (newer verified release, dev build, equal and older versions, checksum mismatch / for another file / missing / download failure, other platforms only, corrupt archive, HTTP errors, drafts and pre-releases) plus random catalogues of 0..3 releases x running versions; non-trivial = every scenario; distinct by scenario",
		Gen:  genC20,
		Assume: []string{"HTTP, TLS, archive decoding and the atomic replacement of the file are exercised, not modelled: the Lean model covers the decision (which release, whether to install) only",
			"a running version that is not a semantic version at all (rootCmd.Version empty → \"dev\") makes go-selfupdate's MustParse panic; builds from this repository always carry v0.0.0-dev or a release version"},
	}
}
