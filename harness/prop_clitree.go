package main

import (
	"bytes"
	"fmt"
	"math/rand"
	"os"
	"path/filepath"
	"regexp"
	"sort"
	"strings"
)

// Row K10 at tree level: the tree the Lean model of a command predicts (Crs.Cli) vs the tree the real binary
// leaves behind. Operations `cli.*` are executed by the harness itself (they need the binary, not the worker).

func componentLess(x, y string) bool {
	a, b := strings.Split(x, "/"), strings.Split(y, "/")
	for k := 0; k < len(a) && k < len(b); k++ {
		if a[k] != b[k] {
			return a[k] < b[k]
		}
	}
	return len(a) < len(b)
}

// filesInWalkOrder: regular files of the tree in filepath.WalkDir order
func filesInWalkOrder(t Tree) []string {
	var ps []string
	for p, c := range t {
		if strings.HasSuffix(p, "/") || c == nil && strings.HasSuffix(p, "/") {
			continue
		}
		ps = append(ps, p)
	}
	sort.Slice(ps, func(i, j int) bool { return componentLess(ps[i], ps[j]) })
	return ps
}

func treeArgs(t Tree) [][]byte {
	var out [][]byte
	for _, p := range filesInWalkOrder(t) {
		out = append(out, []byte(p), t[p])
	}
	return out
}

// renderInvocation spells a structured invocation (see the driver's cli.run) as an argument vector; which of the
// equivalent spellings of each option is used, and where the options stand, is derived from the invocation itself
func renderInvocation(a [][]byte) []string {
	h := 0
	for _, x := range a[:14] {
		for _, c := range x {
			h = h*31 + int(c)
		}
		h = h*7 + 3
	}
	if h < 0 {
		h = -h
	}
	next := func(n int) int { v := h % n; h = h/n + 17; return v }
	var global, flags, pos []string
	if len(a[0]) > 0 {
		v := string(a[0][1:])
		global = [][]string{{"-o", v}, {"--output", v}, {"--output=" + v}, {"-o" + v}}[next(4)]
	}
	words := map[string][]string{"generate": {"regex", "generate"}, "update": {"regex", "update"}, "compare": {"regex", "compare"}, "format": {"regex", "format"},
		"renumber": {"util", "renumber-tests"}, "copyright": {"chore", "update-copyright"}}[string(a[1])]
	all, check := bytes.Contains(a[2], []byte("a")), bytes.Contains(a[2], []byte("c"))
	switch {
	case all && check:
		flags = append(flags, [][]string{{"-a", "-c"}, {"-ca"}, {"-ac"}, {"--check", "--all"}, {"--all", "-c"}}[next(5)]...)
	case all:
		flags = append(flags, []string{"-a", "--all"}[next(2)])
	case check:
		flags = append(flags, []string{"-c", "--check"}[next(2)])
	}
	if len(a[3]) > 0 {
		v := string(a[3][1:])
		flags = append(flags, [][]string{{"-v", v}, {"--version", v}, {"--version=" + v}}[next(3)]...)
	}
	if string(a[1]) == "copyright" {
		y := string(a[5])
		flags = append(flags, [][]string{{"-y", y}, {"--year", y}, {"--year=" + y}}[next(3)]...)
	}
	for _, x := range strings.Split(string(a[13]), "\x1f")[1:] {
		pos = append(pos, x)
	}
	var argv []string
	switch next(3) {
	case 0:
		argv = append(append(append(append(argv, global...), words...), flags...), pos...)
	case 1:
		argv = append(append(append(append(argv, words...), pos...), flags...), global...)
	default:
		argv = append(append(append(append(argv, words...), global...), pos...), flags...)
	}
	return argv
}

var reCompareVerdict = regexp.MustCompile(`^Regex of (\S+) has (not )?changed!?$`)

func implCLI(env *Env, op Op) Result {
	a := op.Args
	var files [][]byte
	var argv []string
	variant := ""
	if i := strings.Index(op.Name, "@"); i >= 0 {
		op, variant = Op{op.Name[:i], op.Args}, op.Name[i+1:]
	}
	switch op.Name {
	case "cli.formatAll":
		files = a[2:]
		argv = []string{"regex", "format", "-a"}
		if string(a[0]) == "1" {
			argv = append(argv, "-c")
		}
	case "cli.renumberAll":
		files = a[1:]
		argv = []string{"util", "renumber-tests", "-a"}
		if string(a[0]) == "1" {
			argv = append(argv, "-c")
		}
	case "cli.copyrightAll":
		files = a[2:]
		argv = []string{"chore", "update-copyright", "-v", string(a[0]), "-y", string(a[1])}
	case "cli.generate":
		files = a[7:]
		argv = []string{"regex", "generate", string(a[6])}
	case "cli.update":
		files = a[7:]
		argv = []string{"regex", "update", string(a[6])}
	case "cli.updateAll":
		files = a[6:]
		argv = []string{"regex", "update", "-a"}
	case "cli.compareAll":
		files = a[7:]
		argv = []string{"regex", "compare", "-a"}
		if string(a[0]) == "1" {
			argv = append([]string{"-o", "github"}, argv...)
		}
	case "cli.compare":
		files = a[7:]
		argv = []string{"regex", "compare", string(a[6])}
	case "cli.compareView":
		// the display of compare for a stored and a generated expression, observed on the binary: a one-rule tree whose
		// assembly file is the generated expression (a literal: it compiles to itself) and whose operand is the stored one
		id := string(a[0])
		files = [][]byte{[]byte("regex-assembly/" + id + ".ra"), append(append([]byte{}, a[2]...), '\n'),
			[]byte("rules/REQUEST-" + id[:3] + "-X.conf"), []byte("SecRule ARGS \"@rx " + string(a[1]) + "\" \\\n    \"id:" + id + ",\\\n    phase:2\"\n")}
		argv = []string{"regex", "compare", id}
	case "cli.compareOut":
		files = a[8:]
		argv = []string{"regex", "compare", string(a[7])}
		if string(a[0]) == "1" {
			argv = append([]string{"-o", "github"}, argv...)
		}
	case "cli.compareAllOut":
		files = a[7:]
		argv = []string{"regex", "compare", "-a"}
		if string(a[0]) == "1" {
			argv = append([]string{"-o", "github"}, argv...)
		}
	case "cli.run":
		files = a[14:]
		argv = renderInvocation(a)
	default:
		return Result{Status: "bad-op"}
	}
	sb := mkSandbox(env)
	defer os.RemoveAll(sb)
	if variant == "dotparent" {
		// the checkout lives below directories whose names start with a dot or carry an extension (a CI cache, a
		// dot-directory in a home): where a tree is kept says nothing about its files
		sb = filepath.Join(sb, ".ci-cache", "work.ra", "checkout")
	}
	_ = os.MkdirAll(filepath.Join(sb, "regex-assembly"), 0o755)
	_ = os.MkdirAll(filepath.Join(sb, "tests", "regression", "tests"), 0o755)
	store := sb + "-store"
	if variant == "symlink" {
		_ = os.MkdirAll(store, 0o755)
		defer os.RemoveAll(store)
	}
	var stdin []byte
	for i := 0; i+1 < len(files); i += 2 {
		if string(files[i]) == "<stdin>" {
			stdin = files[i+1] // what the process finds on standard input: no file of the tree
			continue
		}
		p := filepath.Join(sb, string(files[i]))
		_ = os.MkdirAll(filepath.Dir(p), 0o755)
		var err error
		switch variant {
		case "symlink":
			// every file is a symbolic link to a file kept outside the tree (a sandboxed checkout): a file is a file
			target := filepath.Join(store, fmt.Sprintf("f%d.data", i/2))
			if err = os.WriteFile(target, files[i+1], 0o644); err == nil {
				err = os.Symlink(target, p)
			}
		case "readonly":
			err = os.WriteFile(p, files[i+1], 0o444)
		default:
			err = os.WriteFile(p, files[i+1], 0o644)
		}
		if err != nil {
			return Result{Status: "harness-error", Note: err.Error()}
		}
	}
	c := runCLI(env, sb, stdin, append([]string{"-l", "disabled"}, argv...)...)
	if c.timeout {
		return Result{Status: "timeout"}
	}
	if c.runtimeFault() {
		return Result{Status: "runtime", Note: tail(string(c.stderr), 200)}
	}
	out := [][]byte{boolB(c.exit == 0)}
	if op.Name == "cli.generate" {
		return Result{Status: "ok", Out: append(out, c.stdout)}
	}
	if op.Name == "cli.run" {
		// exit status, stdout of generate (nothing else is compared on stdout), the tree
		so := []byte{}
		if string(a[1]) != "generate" || c.exit == 0 {
			so = c.stdout // everything the command prints, whatever the status
		}
		out = append(out, so)
	}
	if op.Name == "cli.compareView" {
		if c.exit == 0 {
			return Result{Status: "diag", Note: "equal"}
		}
		return Result{Status: "ok", Out: [][]byte{c.stdout}}
	}
	if op.Name == "cli.compareOut" || op.Name == "cli.compareAllOut" {
		// everything the command prints on standard output (the side-by-side display of the two expressions included)
		return Result{Status: "ok", Out: append(out, c.stdout)}
	}
	if op.Name == "cli.compareAll" || op.Name == "cli.compare" {
		// the verdicts, in the order printed (the difference display is not part of the model)
		var same, diff []string
		for _, l := range strings.Split(string(c.stdout), "\n") {
			if m := reCompareVerdict.FindStringSubmatch(l); m != nil {
				if m[2] == "not " {
					same = append(same, m[1])
				} else {
					diff = append(diff, m[1])
				}
			}
		}
		return Result{Status: "ok", Out: append(out, []byte(strings.Join(same, ",")), []byte(strings.Join(diff, ",")))}
	}
	for i := 0; i+1 < len(files); i += 2 {
		if string(files[i]) == "<stdin>" {
			continue
		}
		now, err := os.ReadFile(filepath.Join(sb, string(files[i])))
		if err != nil {
			return Result{Status: "ok", Out: [][]byte{[]byte("file vanished: " + string(files[i]))}}
		}
		out = append(out, files[i], now)
	}
	return Result{Status: "ok", Out: out}
}

// lintPathsOf: the files on which the upper-case lint of `format --check` speaks, computed with the real code
// (the lint is an input of the model): check fails although formatting is the identity.
func lintPathsOf(p *Pair, env *Env, t Tree) []byte {
	var ls []string
	for _, path := range filesInWalkOrder(t) {
		if !strings.HasPrefix(path, "regex-assembly/") || !strings.HasSuffix(path, ".ra") {
			continue
		}
		f := p.Impl(Op{"format.file", [][]byte{t[path]}}, env.timeout)
		if f.Status != "ok" || !bytes.Equal(f.Out[0], t[path]) {
			continue
		}
		c := p.Impl(Op{"format.check", [][]byte{t[path]}}, env.timeout)
		if c.Status == "ok" && len(c.Out) == 1 && len(c.Out[0]) == 1 && c.Out[0][0] == 0 {
			ls = append(ls, path)
		}
	}
	return []byte(strings.Join(ls, "\n"))
}

// genCliTreeCases: trees with decoys, nested directories, unformatted / misnumbered / outdated targets, files the
// formatter fails on (unbalanced block) and files the parser panics on (unsupported flag), in every walk position.
func genCliTreeCases(r *rand.Rand, n int) []Case {
	var cases []Case
	for i := 0; i < n; i++ {
		ct := genCRSTree(r, 1+r.Intn(4))
		t := ct.t
		// more material for the formatter: arbitrary line material, nested directories
		for k := r.Intn(3); k > 0; k-- {
			name := pick(r, []string{"regex-assembly/zz/nested.ra", "regex-assembly/include/extra.ra", "regex-assembly/exclude/x.ra", "regex-assembly/aaa.ra", "regex-assembly/942999.ra"})
			t[name] = []byte(genRaBytes(r, 8))
		}
		if chance(r, 0.3) {
			t[pick(r, []string{"regex-assembly/000bad.ra", "regex-assembly/943000.ra", "regex-assembly/zzz.ra"})] = []byte(pick(r, []string{"##!<\nfoo\n", "homer\n  bart\n##!<\nmarge\n", "foo\n##!+ x\n", "##!> include a -- b\n", "##!> assemble\n##!<\n##!<\n"}))
		}
		// nested test directories and odd names
		if chance(r, 0.5) {
			t["tests/regression/tests/REQUEST-942-X/deeper/942300.yaml"] = []byte("  - test_id: 4\n  - test_id: 4\n")
			t["tests/regression/tests/942400.yml"] = []byte("tests:\n  - test_title: 942400-9\n")
		}
		if chance(r, 0.5) {
			t["docs/nested/more.conf"] = []byte("# OWASP CRS ver.3.3.0\n# Copyright (c) 2021-2022 CRS project. All rights reserved.\n")
			t["plugins/x.example"] = []byte("SecComponentSignature \"OWASP_CRS/3.3.0\"\n")
		}
		files := treeArgs(t)
		enc := encodeTree(t)
		_ = enc
		var ops []Op
		for _, chk := range []string{"0", "1"} {
			ops = append(ops, Op{"cli.formatAll", append([][]byte{[]byte(chk), []byte("LINT")}, files...)})
			ops = append(ops, Op{"cli.renumberAll", append([][]byte{[]byte(chk)}, files...)})
		}
		ops = append(ops, Op{"cli.copyrightAll", append([][]byte{[]byte(pick(r, []string{"4.5.0", "v4.6.0-rc1", "4.7.0+build"})), []byte("2031")}, files...)})
		if i%3 == 1 {
			// the same tree with every file behind a symbolic link (a sandboxed checkout), and with read-only files: what a
			// command does to a file does not depend on how the file is stored
			v := []string{"@symlink", "@readonly", "@dotparent"}[(i/3)%3]
			for k := range ops {
				ops[k] = Op{ops[k].Name + v, ops[k].Args}
			}
			cases = append(cases, Case{Kind: "tree:all-commands" + v, Ops: ops})
			continue
		}
		cases = append(cases, Case{Kind: "tree:all-commands", Ops: ops})
	}
	return cases
}

// invocationCases: structured invocations (command, positional arguments, which flags, option values — valid and not)
// on generated trees, rendered in varying spellings: the wiring of cmd/*.go (argument validators, PreRunE, which
// function runs with which flags) against Crs.Cli.run. Exit status, the tree afterwards, generate's stdout.
func invocationCases(r *rand.Rand, n int) []Case {
	var cases []Case
	opt := func(v string, given bool) []byte {
		if !given {
			return []byte{}
		}
		return []byte("=" + v)
	}
	for i := 0; i < n; i++ {
		ct := genCRSTree(r, 1+r.Intn(3))
		if i%5 == 4 {
			addAmbiguousRulesCopy(ct)
		}
		ra := pick(r, ct.ra)
		cfg := cfgOfTree(ct)
		files := treeArgs(ct.t)
		var ops []Op
		for k := 0; k < 10; k++ {
			cmd := pick(r, []string{"generate", "update", "compare", "format", "renumber", "copyright", "update", "compare"})
			if k == 0 {
				cmd = "generate" // one invocation per tree reads its program from standard input (below)
			}
			outGiven := chance(r, 0.5)
			outV := pick(r, []string{"text", "github", "github", "GitHub", "json", "", "TEXT", "git hub"})
			if k%3 == 1 && (cmd == "format" || cmd == "renumber" || cmd == "compare") {
				// the commands that print differently in GitHub mode, in GitHub mode
				outGiven, outV = true, "github"
			}
			flags := pick(r, []string{"", "", "a", "a", "c", "ac", "a"})
			if k%3 == 1 && (cmd == "format" || cmd == "renumber") {
				flags = pick(r, []string{"a", "ac", "ac", "c"})
			}
			var pos []string
			switch weighted(r, []int{5, 5, 1, 1}) {
			case 0:
			case 1:
				pos = []string{pick(r, []string{ra.arg, ra.arg, ra.id, ra.arg + ".ra", "999999", "94210", "-"})}
				if cmd == "format" && len(ct.incl) > 0 && chance(r, 0.4) {
					pos = []string{pick(r, []string{ct.incl[0], ct.incl[0] + ".ra", ct.incl[0] + ".txt", "nosuchinclude", ra.id + ".", ra.id + ".yaml"})}
				}
				if cmd == "format" && chance(r, 0.35) {
					// arguments with path separators: `path.Join` cleans them; they may address any file below the root
					inc := "nosuch"
					if len(ct.incl) > 0 {
						inc = ct.incl[0]
					}
					var conf string
					for path := range ct.t {
						if strings.HasPrefix(path, "rules/") && strings.HasSuffix(path, ".conf") && (conf == "" || path < conf) {
							conf = path
						}
					}
					pos = []string{pick(r, []string{"./" + inc, "sub/../" + inc + ".ra", "../include/" + inc, inc + "/", "../" + ra.arg + ".ra", "../" + ra.arg, ".//" + inc + ".ra",
						"../../" + conf, "../exclude/../include/./" + inc, ".", "..", "../..", "a/../..", "../../../outside.ra", "/" + inc, "../include"})}
				}
			case 2:
				pos = []string{ra.arg, ra.arg}
			default:
				pos = []string{""}
			}
			if cmd == "renumber" && len(pos) == 1 && chance(r, 0.8) {
				// the argument names a test file by rule id or file name, with or without (any) extension
				var tests []string
				for path := range ct.t {
					if strings.HasPrefix(path, "tests/regression/tests/") && !strings.HasSuffix(path, "/") {
						tests = append(tests, path[strings.LastIndex(path, "/")+1:])
					}
				}
				sort.Strings(tests)
				if len(tests) > 0 {
					b := pick(r, tests)
					stem := b
					if i := strings.LastIndex(b, "."); i >= 0 {
						stem = b[:i]
					}
					pos = []string{pick(r, []string{b, stem, stem + ".yml", stem + ".", stem + ".txt", stem[:len(stem)/2], ".yaml", stem + ".yaml.bak", b + ".yaml",
						// with path elements: `path.Join` cleans the pattern; what is matched must lie below the tests directory (D30)
						"./" + stem, "x/../" + stem, "../REQUEST-920-X/" + stem, "../../../../docs/942999", "../../../../docs/942999.yaml", "../../README", "..", "../..",
						"../../../../rules/README", stem + "/", "../../../../../outside/" + stem, "../*/" + stem})}
				}
			}
			var stdinEntry [][]byte
			if cmd == "generate" && (k == 0 || (len(pos) == 1 && (pos[0] == "-" || chance(r, 0.25)))) {
				// the program on standard input: an assembly file of the tree, a broken one, nothing
				pos = []string{"-"}
				prog := ct.t["regex-assembly/"+ra.arg+".ra"]
				switch r.Intn(7) {
				case 0:
					prog = []byte("##!> include nosuchfile\n")
				case 1:
					prog = nil
				case 2:
					prog = []byte("##!> assemble\nab\n##!=>\ncd\n##!<\n(unbalanced\n")
				}
				stdinEntry = [][]byte{[]byte("<stdin>"), prog}
			}
			verGiven := cmd == "copyright" && chance(r, 0.8)
			ver := pick(r, []string{"4.5.0", "v4.6.0-rc1", "4.7.0+build", "not.a.version", "", "4", "04.1", "4.5.0 "})
			year := pick(r, []string{"2031", "2031", "31", "20311", "year"})
			if cmd != "copyright" {
				verGiven = false
				if strings.Contains(flags, "c") && (cmd == "generate" || cmd == "update" || cmd == "compare") {
					flags = strings.ReplaceAll(flags, "c", "") // these commands have no --check flag: cobra's usage error is not the model's business
				}
			} else {
				flags, pos = "", nil
			}
			if cmd == "generate" {
				flags = "" // no --all either
			}
			posArg := ""
			for _, x := range pos {
				posArg += "\x1f" + x
			}
			args := [][]byte{opt(outV, outGiven), []byte(cmd), []byte(flags), opt(ver, verGiven), []byte("0"), []byte(year), []byte("LINT")}
			args = append(args, cfg...)
			args = append(args, []byte(posArg))
			args = append(args, files...)
			args = append(args, stdinEntry...)
			ops = append(ops, Op{"cli.run", args})
		}
		cases = append(cases, Case{Kind: "invocations", Ops: ops})
	}
	return cases
}

// prewarmJoins: the commands of Crs.Cli turn every fault into a failure outcome, including the driver's "I need the
// engine's answer" — so the engine table is filled first by running the model's generate on every assembly file.
func prewarmJoins(p *Pair, env *Env, cfg [][]byte, files [][]byte) {
	var triples [][]byte
	for i := 0; i+1 < len(files); i += 2 {
		path := string(files[i])
		for _, d := range []struct{ dir, tag string }{{"regex-assembly/include/", "i"}, {"regex-assembly/exclude/", "e"}} {
			if strings.HasPrefix(path, d.dir) && !strings.Contains(path[len(d.dir):], "/") {
				triples = append(triples, []byte(d.tag), []byte(path[len(d.dir):]), files[i+1])
			}
		}
	}
	for i := 0; i+1 < len(files); i += 2 {
		path := string(files[i])
		if (strings.HasPrefix(path, "regex-assembly/") && strings.HasSuffix(path, ".ra")) || path == "<stdin>" {
			args := append(append([][]byte{}, cfg...), files[i+1])
			args = append(args, triples...)
			p.Model(Op{"gen.run", args}, env.timeout)
		}
	}
}

func cfgOfTree(ct *crsTree) [][]byte {
	if ct.cfg != nil {
		return ct.cfg
	}
	return [][]byte{{}, {}, {}, {}, {}, {}}
}

// cliCmdOps: the model's prediction for generate / update / update --all on the tree (K10)
func cliCmdOps(ct *crsTree, argv []string) []Op {
	cfg := cfgOfTree(ct)
	files := treeArgs(ct.t)
	joined := strings.Join(argv, " ")
	switch {
	case len(argv) == 3 && argv[0] == "regex" && argv[1] == "generate" && argv[2] != "-":
		return []Op{{"cli.generate", append(append(append([][]byte{}, cfg...), []byte(argv[2])), files...)}}
	case len(argv) == 3 && argv[0] == "regex" && argv[1] == "update" && argv[2] != "-a":
		return []Op{{"cli.update", append(append(append([][]byte{}, cfg...), []byte(argv[2])), files...)}}
	case joined == "regex update -a":
		return []Op{{"cli.updateAll", append(append([][]byte{}, cfg...), files...)}}
	case joined == "regex compare -a":
		return []Op{{"cli.compareAll", append(append([][]byte{[]byte("0")}, cfg...), files...)},
			{"cli.compareAllOut", append(append([][]byte{[]byte("0")}, cfg...), files...)}}
	case joined == "-o github regex compare -a":
		return []Op{{"cli.compareAll", append(append([][]byte{[]byte("1")}, cfg...), files...)},
			{"cli.compareAllOut", append(append([][]byte{[]byte("1")}, cfg...), files...)}}
	case len(argv) == 3 && argv[0] == "regex" && argv[1] == "compare" && argv[2] != "-a":
		return []Op{{"cli.compare", append(append(append([][]byte{}, cfg...), []byte(argv[2])), files...)},
			{"cli.compareOut", append(append(append([][]byte{[]byte("0")}, cfg...), []byte(argv[2])), files...)},
			{"cli.compareOut", append(append(append([][]byte{[]byte("1")}, cfg...), []byte(argv[2])), files...)}}
	}
	return nil
}
