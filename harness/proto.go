package main

import (
	"bufio"
	"bytes"
	"encoding/hex"
	"errors"
	"fmt"
	"io"
	"os"
	"os/exec"
	"strings"
	"sync"
	"time"
)

// Op is one request; it is sent in the same textual form to the implementation worker
// (real Go code, in a subprocess because library code calls os.Exit) and to the model
// driver (compiled Lean).
type Op struct {
	Name string
	Args [][]byte
}

func hx(b []byte) string {
	if len(b) == 0 {
		return "-"
	}
	return hex.EncodeToString(b)
}

func unhx(s string) ([]byte, error) {
	if s == "-" {
		return []byte{}, nil
	}
	return hex.DecodeString(s)
}

func (o Op) Line() string {
	var sb strings.Builder
	sb.WriteString(o.Name)
	for _, a := range o.Args {
		sb.WriteByte(' ')
		sb.WriteString(hx(a))
	}
	return sb.String()
}

func (o Op) String() string {
	var sb strings.Builder
	sb.WriteString(o.Name)
	for _, a := range o.Args {
		sb.WriteString(fmt.Sprintf(" %q", string(a)))
	}
	return sb.String()
}

// Result is the canonical outcome of an op: Status is one of ok, diag (deliberate error:
// returned error, logger.Fatal, logger.Panic), runtime (Go runtime fault), timeout, bad-op.
type Result struct {
	Status string
	Out    [][]byte
	Note   string // not compared
}

func (r Result) Line() string {
	var sb strings.Builder
	sb.WriteString(r.Status)
	for _, a := range r.Out {
		sb.WriteByte(' ')
		sb.WriteString(hx(a))
	}
	return sb.String()
}

func (r Result) String() string {
	var sb strings.Builder
	sb.WriteString(r.Status)
	for _, a := range r.Out {
		sb.WriteString(fmt.Sprintf(" %q", string(a)))
	}
	if r.Note != "" {
		sb.WriteString(" (" + r.Note + ")")
	}
	return sb.String()
}

func (r Result) Equal(o Result) bool {
	if r.Status != o.Status || len(r.Out) != len(o.Out) {
		return false
	}
	// outputs of failed operations are not compared (messages are not modelled)
	if r.Status != "ok" {
		return true
	}
	for i := range r.Out {
		if !bytes.Equal(r.Out[i], o.Out[i]) {
			return false
		}
	}
	return true
}

func parseResult(line string) (Result, error) {
	toks := strings.Fields(line)
	if len(toks) == 0 {
		return Result{}, errors.New("empty response")
	}
	r := Result{Status: toks[0]}
	if r.Status != "ok" {
		r.Note = strings.Join(toks[1:], " ")
		return r, nil
	}
	for _, t := range toks[1:] {
		b, err := unhx(t)
		if err != nil {
			return r, fmt.Errorf("bad hex in response %q", line)
		}
		r.Out = append(r.Out, b)
	}
	return r, nil
}

// Proc is a line-oriented child process (implementation worker or model driver).
type Proc struct {
	path   string
	args   []string
	env    []string
	cmd    *exec.Cmd
	stdin  io.WriteCloser
	stdout *bufio.Reader
	stderr *bytes.Buffer
	mu     sync.Mutex
}

func newProc(path string, args []string, env []string) *Proc {
	return &Proc{path: path, args: args, env: env}
}

func (p *Proc) start() error {
	p.cmd = exec.Command(p.path, p.args...)
	p.cmd.Env = append(os.Environ(), p.env...)
	var err error
	p.stdin, err = p.cmd.StdinPipe()
	if err != nil {
		return err
	}
	out, err := p.cmd.StdoutPipe()
	if err != nil {
		return err
	}
	p.stdout = bufio.NewReaderSize(out, 1<<20)
	p.stderr = &bytes.Buffer{}
	p.cmd.Stderr = p.stderr
	return p.cmd.Start()
}

func (p *Proc) kill() {
	if p.cmd != nil && p.cmd.Process != nil {
		_ = p.stdin.Close()
		_ = p.cmd.Process.Kill()
		_ = p.cmd.Wait()
	}
	p.cmd = nil
}

// died describes a child that ended while serving a request.
type died struct {
	exit   int
	stderr string
}

func (d *died) Error() string { return fmt.Sprintf("process exited with status %d", d.exit) }

var errTimeout = errors.New("timeout")

// call sends one line and reads one line.
func (p *Proc) call(line string, timeout time.Duration) (string, error) {
	p.mu.Lock()
	defer p.mu.Unlock()
	if p.cmd == nil {
		if err := p.start(); err != nil {
			return "", err
		}
	}
	type rr struct {
		s   string
		err error
	}
	ch := make(chan rr, 1)
	stdout := p.stdout
	go func() {
		if _, err := io.WriteString(p.stdin, line+"\n"); err != nil {
			// the read below reports the death
			_ = err
		}
		s, err := stdout.ReadString('\n')
		ch <- rr{s, err}
	}()
	select {
	case r := <-ch:
		if r.err != nil {
			// child died
			cmd := p.cmd
			_ = p.stdin.Close()
			err := cmd.Wait()
			code := -1
			var ee *exec.ExitError
			if errors.As(err, &ee) {
				code = ee.ExitCode()
			} else if err == nil {
				code = 0
			}
			d := &died{exit: code, stderr: p.stderr.String()}
			p.cmd = nil
			return "", d
		}
		return strings.TrimRight(r.s, "\n"), nil
	case <-time.After(timeout):
		p.kill()
		return "", errTimeout
	}
}
