package main

import (
	"errors"
	"os"
	"strconv"
	"strings"
	"sync"
	"time"

	"github.com/itchyny/rassemble-go"
)

// Pair is one implementation worker plus one model driver; a check shards its cases over
// several pairs.
type Pair struct {
	impl  *Proc
	model *Proc
	joins int
	env   *Env
}

type Env struct {
	self    string // path of this binary (worker mode)
	driver  string // path of the compiled Lean driver
	cli     string // path of the freshly built crs-toolchain binary
	scratch string // scratch directory (outside /repo and /verif), removed by ./check
	timeout time.Duration
}

func (e *Env) newPair() *Pair {
	return &Pair{
		env:   e,
		impl:  newProc(e.self, []string{"worker"}, []string{"GOMEMLIMIT=2GiB", "VERIF_WORKER_SCRATCH=" + e.scratch}),
		model: newProc(e.driver, nil, nil),
	}
}

func (p *Pair) close() {
	p.impl.kill()
	p.model.kill()
}

// Impl runs an op on the real code.
func (p *Pair) Impl(op Op, timeout time.Duration) Result {
	if strings.HasPrefix(op.Name, "cli.") {
		return implCLI(p.env, op)
	}
	line, err := p.impl.call(op.Line(), timeout)
	if err != nil {
		var d *died
		if errors.As(err, &d) {
			// logger.Fatal => os.Exit(1); a Go panic that escaped recover => exit status 2
			if d.exit == 1 && !strings.Contains(d.stderr, "panic:") && !strings.Contains(d.stderr, "runtime error") {
				return Result{Status: "diag", Note: "exit 1"}
			}
			return Result{Status: "runtime", Note: "exit " + strconv.Itoa(d.exit) + " " + firstLine(d.stderr)}
		}
		if errors.Is(err, errTimeout) {
			return Result{Status: "timeout"}
		}
		return Result{Status: "harness-error", Note: err.Error()}
	}
	r, err := parseResult(line)
	if err != nil {
		return Result{Status: "harness-error", Note: err.Error()}
	}
	return r
}

// Model runs an op on the Lean model. The regex engine is a parameter of the model: when the
// model needs `rassemble.Join(lines)` for lines it has no answer for yet, the driver answers
// `need <lines>`; the real Join result is computed here (the rassemble-go version /repo's go.mod
// resolves), stored in the driver's table (`join.add`) and the op is run again.
func (p *Pair) Model(op Op, timeout time.Duration) Result {
	// `cli.X@variant`: the same command on the same tree laid out differently on disk (files behind symbolic links,
	// read-only files): the model knows files by path and contents only, so its prediction is the same
	if i := strings.Index(op.Name, "@"); i >= 0 {
		op = Op{op.Name[:i], op.Args}
	}
	if op.Name == "cli.compareView" {
		op = Op{"compare.view", op.Args} // the model of the display takes the two expressions as they are
	}
	if op.Name == "gen.runYaml" && len(op.Args) >= 8 {
		// the model takes the six patterns as the loader delivers them: an absent, empty or unreadable file means none
		args := append([][]byte{}, op.Args[1:]...)
		switch string(op.Args[0]) {
		case "absent", "empty-file", "malformed":
			for i := 0; i < 6; i++ {
				args[i] = []byte{}
			}
		case "alias":
			for i := 0; i < 3; i++ {
				args[i+3] = args[i]
			}
		}
		op = Op{"gen.run", args}
	}
	for iter := 0; iter < 4000; iter++ {
		line, err := p.model.call(op.Line(), timeout)
		if err != nil {
			if errors.Is(err, errTimeout) {
				return Result{Status: "timeout"}
			}
			return Result{Status: "harness-error", Note: "model driver: " + err.Error()}
		}
		if strings.HasPrefix(line, "need") {
			toks := strings.Fields(line)[1:]
			lines := make([]string, len(toks))
			for i, t := range toks {
				b, e := unhx(t)
				if e != nil {
					return Result{Status: "harness-error", Note: "bad need line"}
				}
				lines[i] = string(b)
			}
			res, jerr := rassemble.Join(lines)
			p.joins++
			monitorEngine(lines, res, jerr)
			var add Op
			if jerr != nil {
				add = Op{Name: "join.addErr", Args: bytesOf(lines)}
			} else {
				add = Op{Name: "join.addOk", Args: append([][]byte{[]byte(res)}, bytesOf(lines)...)}
			}
			if _, err := p.model.call(add.Line(), timeout); err != nil {
				return Result{Status: "harness-error", Note: "model driver: " + err.Error()}
			}
			continue
		}
		r, err := parseResult(line)
		if err != nil {
			return Result{Status: "harness-error", Note: err.Error()}
		}
		return r
	}
	return Result{Status: "harness-error", Note: "too many join rounds"}
}

func bytesOf(ss []string) [][]byte {
	out := make([][]byte, len(ss))
	for i, s := range ss {
		out[i] = []byte(s)
	}
	return out
}

func firstLine(s string) string {
	s = strings.TrimSpace(s)
	if i := strings.IndexByte(s, '\n'); i >= 0 {
		return s[:i]
	}
	return s
}

// parallel runs f(i) for i in [0,n) on `workers` pairs.
func parallel(env *Env, n int, workers int, f func(p *Pair, i int)) {
	if workers > n {
		workers = n
	}
	if workers < 1 {
		workers = 1
	}
	var wg sync.WaitGroup
	next := 0
	var mu sync.Mutex
	for w := 0; w < workers; w++ {
		wg.Add(1)
		go func() {
			defer wg.Done()
			p := env.newPair()
			defer p.close()
			for {
				mu.Lock()
				i := next
				next++
				mu.Unlock()
				if i >= n {
					return
				}
				f(p, i)
			}
		}()
	}
	wg.Wait()
}

func fileExists(p string) bool {
	_, err := os.Stat(p)
	return err == nil
}

// ---- assumption monitoring: what the theorems assume of the regex engine (EngineShape) -----------------

var (
	engineMu         sync.Mutex
	engineJoins      int
	engineViolations []string
)

// balancedText mirrors Crs.Passes.bal: every unescaped ( has its ).
func balancedText(s string) bool {
	esc := false
	depth := 0
	for i := 0; i < len(s); i++ {
		c := s[i]
		switch {
		case c == '(' && !esc:
			depth++
		case c == ')' && !esc:
			if depth == 0 {
				return false
			}
			depth--
		}
		if c == '\\' {
			esc = !esc
		} else {
			esc = false
		}
	}
	return depth == 0
}

func monitorEngine(lines []string, res string, err error) {
	engineMu.Lock()
	defer engineMu.Unlock()
	engineJoins++
	if err == nil && !balancedText(res) && len(engineViolations) < 5 {
		engineViolations = append(engineViolations, "Join("+strings.Join(lines, " , ")+") = "+res+" is not balanced")
	}
}
