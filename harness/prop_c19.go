package main

import (
	"math/rand"
)

func genC19(r *rand.Rand, tier string, env *Env) []Case {
	n := 300
	if tier == "thorough" {
		n = 6000
	}
	var cases []Case
	for i := 0; i < n; i++ {
		p := genProgram(r, progOpts{maxDepth: 2, maxItems: 5, includes: true, defs: true, cmdline: true, exotic: 0.5, malformed: 0.15, flagsPfxSf: true})
		cases = append(cases, Case{Kind: "program", Ops: []Op{p.parseOp(), p.genOp()}})
	}
	return cases
}

func init() {
	properties["C19"] = &Property{
		ID: "C19", LeanMods: []string{"CrsProps.C19"},
		Corr: "K2 (parser.Parse), K5 (Operator.Run end to end, real rassemble.Join answers fed to the model)",
		Rule: "assembly programs from a tree grammar",
		Gen:  genC19,
	}
}
