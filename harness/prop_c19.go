package main

import (
	"bytes"
	"fmt"
	"math/rand"
	"os"
	"os/exec"
	"sort"
	"strings"
	"time"
)

var fuzzTokens = []string{"##!", "##!>", "##!<", "##!=>", "##!=<", "##!+", "##!^", "##!$", " assemble", " cmdline", " unix", " windows", " include", " include-except", " define", " name", " inc1", " --", " @", " ~",
	"\n", "\n", "\n", "\r\n", " ", "\t", "(", ")", "(?:", "(?i:", "(?i)", "(?s:", "(?-s:", "(?m)", "(?i-s:", "(?im-s:", "\\(", "\\)", "\\(?i:", "\\\\(?i:", "[", "]", "[^", "\\]", "|", "*", "+", "?", "{", "}", "{2,3}", "{{", "}}", "{{name}}",
	"\\", "\\\\", "\"", "\\\"", "'", "^", "$", ".", "\\s", "\\d", "\\x5c", "\\x{e9}", "a", "b", "foo", "A", "0", "é", "\xff", "\xc3", "\x00", "\x01", "\x0b", "\x7f", "-", "a-z", "i", "s", "x",
	"\\t\\n\\f\\r ", "[\\s", "[\\t\\n\\f\\r -~]", "(?P<n>", "(?<n>", "\\Q", "\\E", "\\pL", "[[:alpha:]]", "\\b", "\\z"}

// short lines for the inside of blocks: escapes and markers at the very start and end of a line
var lineTokens = []string{"\\", "\\", "\\\\", "@", "~", "\\@", "\\~", "'", "a", "x", "foo", ".", "-", " ", "_", "\xff", "é", "(", ")", "[", "|", "{{", "}}", "\"", "?", "*"}

// genFuzzBlocks: line-structured fuzz. Most lines are well-formed block directives, so the text really is inside
// cmdline and assemble blocks (token soup almost never spells a block start); the entries are one to four tokens.
func genFuzzBlocks(r *rand.Rand, maxLines int) string {
	n := 1 + r.Intn(maxLines)
	var sb strings.Builder
	depth := 0
	for i := 0; i < n; i++ {
		switch k := r.Intn(12); {
		case k == 0:
			sb.WriteString("##!> cmdline " + pick(r, []string{"unix", "windows"}) + "\n")
			depth++
		case k == 1:
			sb.WriteString("##!> assemble\n")
			depth++
		case k == 2 && depth > 0:
			sb.WriteString("##!<\n")
			depth--
		case k == 3:
			sb.WriteString(pick(r, []string{"##!=>\n", "##!=< n\n", "##!=> n\n", "##!^ p\n", "##!$ s\n"}))
		case k == 4:
			sb.WriteString(genFuzzText(r, 6) + "\n")
		default:
			for j, m := 0, 1+r.Intn(4); j < m; j++ {
				sb.WriteString(pick(r, lineTokens))
			}
			sb.WriteString(pick(r, []string{"\n", "\n", "\n", "\r\n", ""}))
			if chance(r, 0.02) {
				return sb.String() // ends inside whatever is open, possibly without a final newline
			}
		}
	}
	for ; depth > 0 && chance(r, 0.9); depth-- {
		sb.WriteString("##!<\n")
	}
	return sb.String()
}

func genFuzzText(r *rand.Rand, maxTokens int) string {
	n := 1 + r.Intn(maxTokens)
	var sb strings.Builder
	for i := 0; i < n; i++ {
		sb.WriteString(pick(r, fuzzTokens))
	}
	return sb.String()
}

// args: cfg x6, input, files…  — generate ends with a regex or a deliberate diagnostic, promptly
func oracleC19(p *Pair, env *Env, a [][]byte) *Failure {
	g := p.Impl(Op{"gen.run", a}, env.timeout)
	if g.Status != "ok" && g.Status != "diag" {
		return &Failure{What: "generate died with " + g.Status + " instead of a regex or a diagnostic", Detail: fmt.Sprintf("input %q\nfiles %q\n%s", a[6], a[7:], g.String())}
	}
	return nil
}

// the binary on stdin
func oracleC19CLI(p *Pair, env *Env, a [][]byte) *Failure {
	sb := mkSandbox(env)
	defer os.RemoveAll(sb)
	t := Tree{"regex-assembly/include/": nil, "regex-assembly/exclude/": nil}
	files := a[7:]
	for i := 0; i+2 < len(files); i += 3 {
		dir := "include"
		if string(files[i]) == "e" {
			dir = "exclude"
		}
		t["regex-assembly/"+dir+"/"+string(files[i+1])] = files[i+2]
	}
	_ = t.write(sb)
	c := runCLI(env, sb, a[6], "regex", "generate", "-")
	if c.timeout {
		return &Failure{What: "generate hangs", Detail: fmt.Sprintf("%q", a[6])}
	}
	if strings.Contains(string(c.stderr), "runtime error") || strings.Contains(string(c.stderr), "nil pointer") || strings.Contains(string(c.stderr), "fatal error:") {
		return &Failure{What: "generate died from a runtime fault", Detail: fmt.Sprintf("input %q\nexit %d\n%s", a[6], c.exit, tail(string(c.stderr), 800))}
	}
	if c.exit != 0 && len(c.stdout) > 0 {
		return &Failure{What: "generate failed but printed output", Detail: fmt.Sprintf("%q", c.stdout)}
	}
	return nil
}

// an include file that is reached again while it is being read (directly or through another file): the command ends
// promptly with a diagnostic — today because file descriptors run out — and not with a stack overflow or a hang.
// The binary is started with a small descriptor limit so that "promptly" does not depend on the host's limit.
// args: program, then i/e name content triples
func oracleC19Cycle(p *Pair, env *Env, a [][]byte) *Failure {
	sb := mkSandbox(env)
	defer os.RemoveAll(sb)
	t := Tree{"regex-assembly/include/": nil, "regex-assembly/exclude/": nil}
	for i := 1; i+2 < len(a); i += 3 {
		dir := "include"
		if string(a[i]) == "e" {
			dir = "exclude"
		}
		t["regex-assembly/"+dir+"/"+string(a[i+1])] = a[i+2]
	}
	_ = t.write(sb)
	cmd := exec.Command("bash", "-c", `ulimit -n 256; ulimit -v 4000000; exec "$0" -l disabled regex generate -`, env.cli)
	cmd.Dir = sb
	cmd.Stdin = bytes.NewReader(a[0])
	var so, se bytes.Buffer
	cmd.Stdout, cmd.Stderr = &so, &se
	if err := cmd.Start(); err != nil {
		return nil
	}
	done := make(chan error, 1)
	go func() { done <- cmd.Wait() }()
	select {
	case <-done:
	case <-time.After(env.timeout):
		_ = cmd.Process.Kill()
		<-done
		return &Failure{What: "generate hangs on an include cycle", Detail: fmt.Sprintf("program %q files %q", a[0], a[1:])}
	}
	es := se.String()
	if strings.Contains(es, "stack overflow") || strings.Contains(es, "goroutine stack exceeds") || strings.Contains(es, "runtime error") || strings.Contains(es, "out of memory") || strings.Contains(es, "cannot allocate memory") {
		return &Failure{What: "generate dies from a runtime fault on an include cycle", Detail: fmt.Sprintf("program %q files %q\n%s", a[0], a[1:], tail(es, 400))}
	}
	if cmd.ProcessState != nil && cmd.ProcessState.ExitCode() == 0 {
		return &Failure{What: "generate succeeds on an include cycle", Detail: fmt.Sprintf("%q", so.String())}
	}
	return nil
}

func genC19(r *rand.Rand, tier string, env *Env) []Case {
	n, nFuzz, nCli, maxTok := 200, 500, 25, 40
	if tier == "thorough" {
		n, nFuzz, nCli, maxTok = 3000, 15000, 400, 600
	}
	var cases []Case
	empty := [][]byte{{}, {}, {}, {}, {}, {}}
	for _, w := range []string{"a\\(?i:foo\n", "(a\\(?i)b\n", "\\(?i:", "(?i:", "(?i:a", "x(?s:.)(?i)y\n", "((?i:a)|b)\n", "(?:a\n", "a)\n", "\\", "(?:\\)\n", "[(?i:]\n", "##!<", "##!=>", "##!=< \n", "##!> cmdline\n", "##!> include\n", "##!> include inc1 -- a\n",
		// definitions that refer to themselves, directly or in a cycle, used or not: one pass, then the text stays as it is
		"##!> define a {{a}}\nfoo{{a}}\n", "##!> define a x{{a}}y\n{{a}}\n", "##!> define a {{b}}x\n##!> define b {{a}}y\nq{{a}}\n", "##!> define a {{b}}\n##!> define b {{a}}\nz\n",
		"##!> define a {{a}}{{a}}\n{{a}}\n", "##!> define aa {{a}}\n##!> define a {{aa}}a\n{{aa}}|{{a}}\n",
		"##!> cmdline unix\n\\@\n##!<\n", "##!> cmdline windows\n\\~\n##!<\n", "##!> cmdline unix\n\\\\\n##!<\n", "##!> cmdline unix\n\\\\\\x\n##!<\n", "##!> cmdline unix\n\\\n@\n~\n'\n##!<\n"} {
		args := append(append([][]byte{}, empty...), []byte(w))
		cases = append(cases, Case{Kind: "fixed", Ops: []Op{{"gen.run", args}, {"pass.cleanUp", [][]byte{[]byte(w)}}}, Oracles: []Op{{"c19.nocrash", args}, {"c19.cli", args}}})
	}
	// an empty line made by a suffix replacement (`-- @ ""` on an entry that is exactly `@`) inside and outside cmdline blocks
	for _, prog := range []string{"##!> cmdline unix\n##!> include cmds -- @ \"\"\n##!<\n", "##!> cmdline windows\nfoo\n##!> include-except cmds none -- @ \"\"\n##!<\n",
		"##!> include cmds -- @ \"\"\nx\n", "##!> assemble\n##!> include cmds -- @ \"\"\n##!=>\ny\n##!<\n", "##!> cmdline unix\n##!> include cmds -- s \"\" @ \"\"\n##!<\n"} {
		args := append(append([][]byte{}, empty...), []byte(prog), []byte("i"), []byte("cmds.ra"), []byte("ls@\n@\ncat@\ns\n"), []byte("e"), []byte("none.ra"), []byte("zzz\n"))
		cases = append(cases, Case{Kind: "fixed", Ops: []Op{{"gen.run", args}}, Oracles: []Op{{"c19.nocrash", args}, {"c19.cli", args}}})
	}
	{
		// the same inside an include file and an exclusion file
		args := append(append([][]byte{}, empty...), []byte("##!> include cyc\n##!> include-except words cyc\nx\n"), []byte("i"), []byte("cyc.ra"), []byte("##!> define a p{{b}}\n##!> define b {{a}}q\n{{a}}\nw\n"), []byte("i"), []byte("words.ra"), []byte("w\nv\n"))
		cases = append(cases, Case{Kind: "fixed", Ops: []Op{{"gen.run", args}}, Oracles: []Op{{"c19.nocrash", args}, {"c19.cli", args}}})
	}
	{
		// include files at the edges of what a file can hold: nothing, only directives (prefix / suffix / definitions /
		// comments, no entry), a single byte, no final newline — included, nested, excluded, as exclusion files
		edge := map[string]string{"e-empty": "", "e-pfx": "##!^ pre\n", "e-sfx": "##!$ suf", "e-both": "##!^ p\n##!$ s\n", "e-defs": "##!> define x y\n", "e-comment": "##! c", "e-nl": "\n",
			"e-one": "a", "e-pfxdef": "##!^ {{x}}\n##!> define x 1\n", "e-nest": "##!> include e-pfx\n##!> include e-empty\n", "e-blank": " \t \n", "e-bothnest": "##!^ p\n##!> include e-sfx\n"}
		var files [][]byte
		var names []string
		for k := range edge {
			names = append(names, k)
		}
		sort.Strings(names)
		for _, k := range names {
			files = append(files, []byte("i"), []byte(k+".ra"), []byte(edge[k]))
		}
		for _, k := range names {
			for _, prog := range []string{"##!> include " + k + "\nfoo\n", "##!> include-except " + k + " e-one\n", "##!> include-except e-one " + k + "\nz\n",
				"##!> cmdline unix\n##!> include " + k + "\n##!<\n", "##!> include " + k + " -- @ ~\n"} {
				args := append(append(append([][]byte{}, empty...), []byte(prog)), files...)
				cases = append(cases, Case{Kind: "edge-include", Ops: []Op{{"gen.run", args}}, Oracles: []Op{{"c19.nocrash", args}}})
			}
		}
	}
	// include cycles, through the binary only (in process a runaway recursion would take the worker with it)
	for _, cyc := range [][][]byte{
		{[]byte("##!> include self\nx\n"), []byte("i"), []byte("self.ra"), []byte("##!> include self\nabc\n")},
		{[]byte("##!> include ping\n"), []byte("i"), []byte("ping.ra"), []byte("a\n##!> include pong\n"), []byte("i"), []byte("pong.ra"), []byte("##!> include ping\nb\n")},
		{[]byte("##!> include-except self none\n"), []byte("i"), []byte("self.ra"), []byte("##!> include-except self none\nabc\n"), []byte("e"), []byte("none.ra"), []byte("z\n")},
		{[]byte("##!> include-except words loop\n"), []byte("i"), []byte("words.ra"), []byte("a\nb\n"), []byte("e"), []byte("loop.ra"), []byte("##!> include loop\n")},
	} {
		cases = append(cases, Case{Kind: "include-cycle", Oracles: []Op{{"c19.cycle", cyc}}})
	}
	for i := 0; i < n; i++ {
		p := genProgram(r, progOpts{maxDepth: 2, maxItems: 5, includes: true, defs: true, cmdline: true, exotic: 0.5, malformed: 0.2, flagsPfxSf: true, inline: []float64{0, 0.3}[i%2]})
		cases = append(cases, Case{Kind: "program", Ops: []Op{p.parseOp(), p.genOp()}, Oracles: []Op{{"c19.nocrash", p.genOp().Args}}})
	}
	for i := 0; i < nFuzz; i++ {
		input := genFuzzText(r, maxTok)
		kind := "token-fuzz"
		if i%3 == 2 {
			input, kind = genFuzzBlocks(r, 4+maxTok/4), "line-fuzz"
			if chance(r, 0.3) {
				input += "##!> include inc1\n"
			}
		}
		args := append(append([][]byte{}, empty...), []byte(input))
		if chance(r, 0.4) {
			// fuzz text in an include file as well
			inc := genFuzzText(r, maxTok/2)
			if kind == "line-fuzz" {
				inc = genFuzzBlocks(r, 2+maxTok/8)
			}
			args = append(args, []byte("i"), []byte("inc1.ra"), []byte(inc))
		}
		c := Case{Kind: kind, Ops: []Op{{"gen.run", args}}, Oracles: []Op{{"c19.nocrash", args}}}
		if i < nCli {
			c.Kind = kind + "+cli"
			c.Oracles = append(c.Oracles, Op{"c19.cli", args})
		}
		// the clean-up passes alone on the same text: model and code agree on the fault class of every text
		c.Ops = append(c.Ops, Op{"pass.cleanUp", [][]byte{[]byte(strings.ReplaceAll(input, "\n", ""))}})
		cases = append(cases, c)
	}
	return cases
}

func init() {
	oracles["c19.nocrash"] = oracleC19
	oracles["c19.cli"] = oracleC19CLI
	oracles["c19.cycle"] = oracleC19Cycle
	properties["C19"] = &Property{
		ID: "C19", LeanMods: []string{"CrsProps.C19", "CrsProps.C19Update"},
		Corr: "K2 (parser.Parse), K3 (clean-up passes on arbitrary text: same fault class in model and code), K5 (Operator.Run end to end, real rassemble.Join answers fed to the model; every Join result monitored for the EngineShape assumption)",
		Rule: "token-level fuzz: 1..40 (quick) / 1..600 (thorough) tokens from directive fragments, regex metacharacters, escapes (incl. escaped parentheses before `?i:`), braces, quotes, control and non-ASCII bytes, on stdin and in an include file; every third text is line-structured (well-formed cmdline/assemble block starts and ends around entries of one to four escape/marker tokens, so that lines like a lone `\\@` occur inside blocks and include files); plus programs from the tree grammar with 20% structural faults; non-trivial = text of at least two tokens; distinct by bytes",
		Gen:  genC19, Escalate: escalatePassText("c19.nocrash", "c19.cli"),
		Assume: []string{"EngineShape (hypothesis of C19_generate_no_runtime_fault): rassemble.Join prints balanced text and answers every query — monitored on every Join result of the run",
			"termination: the model is total; fuel parameters (include depth 40, loop bounds 2·len+2) are not reached on generated inputs (a cyclic include ends with a diagnostic in the code as well: file descriptors run out)"},
	}
}
