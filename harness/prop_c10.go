package main

import (
	"bytes"
	"fmt"
	"math/rand"
	"os"
	"sort"
	"strings"
)

// args: cfg x6, input, files…  — generate gives the identical regex (or the same failure) before and after format
func oracleC10(p *Pair, env *Env, a [][]byte) *Failure {
	in := a[6]
	fr := p.Impl(Op{"format.file", [][]byte{in}}, env.timeout)
	if fr.Note == "error returned but file rewritten" {
		return &Failure{What: "format reported an error but rewrote the file", Detail: fmt.Sprintf("%q", in)}
	}
	if fr.Status != "ok" {
		return nil // format failed loudly and wrote nothing
	}
	g1 := p.Impl(Op{"gen.run", a}, env.timeout)
	a2 := append([][]byte{}, a...)
	a2[6] = fr.Out[0]
	g2 := p.Impl(Op{"gen.run", a2}, env.timeout)
	if g1.Status != g2.Status || (g1.Status == "ok" && !bytes.Equal(g1.Out[0], g2.Out[0])) {
		f := &Failure{What: "generate differs before and after format",
			Detail: fmt.Sprintf("file %q\nformatted %q\nbefore: %s\nafter:  %s", in, fr.Out[0], g1.String(), g2.String())}
		return f
	}
	// the parser's view (buffer, flags, prefixes, suffixes, definitions) is the same
	p1 := p.Impl(Op{"parse.run", append([][]byte{in}, a[7:]...)}, env.timeout)
	p2 := p.Impl(Op{"parse.run", append([][]byte{fr.Out[0]}, a[7:]...)}, env.timeout)
	// block start lines stay in the parser's buffer; format normalises their spacing: compare modulo white space in `##!` lines
	norm := func(r Result) Result {
		if r.Status != "ok" || len(r.Out) == 0 {
			return r
		}
		ls := strings.Split(string(r.Out[0]), "\n")
		for i, l := range ls {
			if strings.HasPrefix(l, "##!") {
				ls[i] = strings.Join(strings.Fields(l), "")
			}
		}
		out := append([][]byte{[]byte(strings.Join(ls, "\n"))}, r.Out[1:]...)
		return Result{Status: r.Status, Out: out}
	}
	if !norm(p1).Equal(norm(p2)) {
		// D22: lines ending in CR CR LF are scanned twice by format
		f := &Failure{What: "parsing differs before and after format", Detail: fmt.Sprintf("file %q\nformatted %q\nbefore: %s\nafter:  %s", in, fr.Out[0], p1.String(), p2.String())}
		if bytes.Contains(in, []byte("\r\r\n")) || bytes.HasSuffix(in, []byte("\r\r")) {
			f.Finding = "D22"
		}
		return f
	}
	return nil
}

func genC10(r *rand.Rand, tier string, env *Env) []Case {
	n := 300
	if tier == "thorough" {
		n = 6000
	}
	cases := patternCases(r, n/2)
	for i := 0; i < n; i++ {
		var args [][]byte
		kind := "program"
		if i%3 == 0 {
			// arbitrary line material: commented-out directives, unbalanced markers, odd spacing and arguments
			kind = "ra-bytes"
			in := genRaBytes(r, 12)
			if i%60 == 21 {
				kind, in = "big-file", genBigRa(r)
			}
			args = [][]byte{nil, nil, nil, nil, nil, nil, []byte(in), []byte("i"), []byte("foo.ra"), []byte("a\nb\n"), []byte("i"), []byte("bar.ra"), []byte("c\n")}
			for k := 0; k < 6; k++ {
				args[k] = []byte{}
			}
		} else {
			o := progOpts{maxDepth: 3, maxItems: 5, includes: true, defs: true, cmdline: true, exotic: 0.2, malformed: 0.1, flagsPfxSf: true}
			p := genProgram(r, o)
			// disturb the spacing of directives and indentation
			lines := strings.Split(p.Input, "\n")
			for k, l := range lines {
				if strings.HasPrefix(strings.TrimLeft(l, " \t"), "##!>") && chance(r, 0.5) {
					t := strings.TrimLeft(l, " \t")
					t = "##!>" + pick(r, []string{"", " ", "  ", "\t"}) + strings.TrimLeft(t[4:], " \t")
					t = strings.Replace(t, " ", pick(r, []string{" ", "  ", "\t"}), 1)
					lines[k] = pick(r, []string{"", "  ", "\t\t"}) + t + pick(r, []string{"", " ", "\t"})
				}
			}
			p.Input = strings.Join(lines, "\n")
			args = p.genOp().Args
		}
		cases = append(cases, Case{Kind: kind, Ops: []Op{{"format.file", [][]byte{args[6]}}}, Oracles: []Op{{"c10.meaning", args}, {"c09.format", [][]byte{args[6]}}}})
	}
	// a byte order mark at the start of a file (the file itself, an include file): three bytes of the first line
	for _, in := range []string{"\ufeff##! comment\nfoo\nbar[0-9]+\n", "\ufeff" + hdr + "foo\n", "\ufeff##!+ i\nfoo\nbar\n", "\ufeff##!^ pre\nfoo\n", "\ufeff##!> include foo\nx\n", "\ufefffoo\nbar\n", "\ufeff\nfoo\n"} {
		for _, incl := range []string{"a\nb\n", "\ufeff##! c\na\nb\n"} {
			args := [][]byte{{}, {}, {}, {}, {}, {}, []byte(in), []byte("i"), []byte("foo.ra"), []byte(incl), []byte("i"), []byte("bar.ra"), []byte("c\n")}
			cases = append(cases, Case{Kind: "byte-order-mark", Ops: []Op{{"format.file", [][]byte{args[6]}}, {"gen.run", args}}, Oracles: []Op{{"c10.meaning", args}, {"c09.format", [][]byte{args[6]}}}})
		}
	}
	// whole trees: after `format --all` — whether it succeeds or gives up on some file — every rule compiles to what it
	// compiled to before (files the formatter refuses come first, in the middle and last in the walk)
	nTrees := 8
	if tier == "thorough" {
		nTrees = 80
	}
	for i := 0; i < nTrees; i++ {
		ct := genCRSTree(r, 2+r.Intn(4))
		bad := []byte(pick(r, []string{"homer\n  bart\n##!<\nmarge\n", "alpha\nbeta\n##!<\n", "##!> assemble\nx\n##!<\n##!<\ny\n"}))
		switch i % 4 {
		case 0:
			ct.t["regex-assembly/000001.ra"] = bad
		case 1:
			ct.t["regex-assembly/933333.ra"] = bad
		case 2:
			ct.t["regex-assembly/999999.ra"] = bad
		}
		cases = append(cases, Case{Kind: "tree:format-all-keeps-meaning", Oracles: []Op{{"c10.treeMeaning", [][]byte{encodeTree(ct.t)}}}})
	}
	return cases
}

// args: tree. generate for every rule file before and after `regex format --all`
func oracleC10Tree(p *Pair, env *Env, a [][]byte) *Failure {
	t := decodeTree(a[0])
	sb := mkSandbox(env)
	defer os.RemoveAll(sb)
	_ = t.write(sb)
	var rules []string
	for path := range t {
		rest := strings.TrimPrefix(path, "regex-assembly/")
		if rest != path && strings.HasSuffix(rest, ".ra") && !strings.Contains(rest, "/") {
			rules = append(rules, strings.TrimSuffix(rest, ".ra"))
		}
	}
	sort.Strings(rules)
	before := map[string]cliResult{}
	for _, ru := range rules {
		before[ru] = runCLI(env, sb, nil, "-l", "disabled", "regex", "generate", ru)
	}
	fa := runCLI(env, sb, nil, "-l", "disabled", "regex", "format", "-a")
	for _, ru := range rules {
		c := runCLI(env, sb, nil, "-l", "disabled", "regex", "generate", ru)
		b := before[ru]
		if (c.exit == 0) != (b.exit == 0) || !bytes.Equal(c.stdout, b.stdout) {
			return &Failure{What: "format --all changed what a rule compiles to",
				Detail: fmt.Sprintf("rule %s: before exit %d %q\nafter format --all (exit %d): exit %d %q", ru, b.exit, b.stdout, fa.exit, c.exit, c.stdout)}
		}
	}
	return nil
}

func init() {
	oracles["c10.treeMeaning"] = oracleC10Tree
	oracles["c10.meaning"] = oracleC10
	properties["C10"] = &Property{
		ID: "C10", LeanMods: []string{"CrsProps.C10", "CrsProps.C10Gen"},
		Corr: "K1 (directive regexps vs recognisers), K6 (processLine/processFile), K2 (Parse before/after)",
		Rule: "assembly programs with disturbed directive spacing and indentation, and arbitrary line material (comment lines that look like directives, unbalanced markers, odd arguments); generate and parse compared before/after format, white-space-stripped line sequences compared; non-trivial = format changes the file; distinct by bytes",
		Gen:  genC10, Escalate: escalateFormat,
		Assume: []string{"known finding D23: a dangling `--` without replacement pairs is dropped by format (the compiled regex is unaffected)",
			"known finding D22 (CR CR LF)"},
	}
}
