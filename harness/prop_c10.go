package main

import (
	"bytes"
	"fmt"
	"math/rand"
	"strings"
)

// args: cfg x6, input, files…  — generate gives the identical regex (or the same failure) before and after format
func oracleC10(p *Pair, env *Env, a [][]byte) *Failure {
	in := a[6]
	fr := p.Impl(Op{"format.file", [][]byte{in}}, env.timeout)
	if fr.Note == "error returned but file rewritten" {
		return &Failure{What: "format reported an error but rewrote the file", Detail: fmt.Sprintf("%q", in)}
	}
	if fr.Status != "ok" {
		return nil // format failed loudly and wrote nothing
	}
	g1 := p.Impl(Op{"gen.run", a}, env.timeout)
	a2 := append([][]byte{}, a...)
	a2[6] = fr.Out[0]
	g2 := p.Impl(Op{"gen.run", a2}, env.timeout)
	if g1.Status != g2.Status || (g1.Status == "ok" && !bytes.Equal(g1.Out[0], g2.Out[0])) {
		f := &Failure{What: "generate differs before and after format",
			Detail: fmt.Sprintf("file %q\nformatted %q\nbefore: %s\nafter:  %s", in, fr.Out[0], g1.String(), g2.String())}
		return f
	}
	// the parser's view (buffer, flags, prefixes, suffixes, definitions) is the same
	p1 := p.Impl(Op{"parse.run", append([][]byte{in}, a[7:]...)}, env.timeout)
	p2 := p.Impl(Op{"parse.run", append([][]byte{fr.Out[0]}, a[7:]...)}, env.timeout)
	// block start lines stay in the parser's buffer; format normalises their spacing: compare modulo white space in `##!` lines
	norm := func(r Result) Result {
		if r.Status != "ok" || len(r.Out) == 0 {
			return r
		}
		ls := strings.Split(string(r.Out[0]), "\n")
		for i, l := range ls {
			if strings.HasPrefix(l, "##!") {
				ls[i] = strings.Join(strings.Fields(l), "")
			}
		}
		out := append([][]byte{[]byte(strings.Join(ls, "\n"))}, r.Out[1:]...)
		return Result{Status: r.Status, Out: out}
	}
	if !norm(p1).Equal(norm(p2)) {
		// D22: lines ending in CR CR LF are scanned twice by format
		f := &Failure{What: "parsing differs before and after format", Detail: fmt.Sprintf("file %q\nformatted %q\nbefore: %s\nafter:  %s", in, fr.Out[0], p1.String(), p2.String())}
		if bytes.Contains(in, []byte("\r\r\n")) || bytes.HasSuffix(in, []byte("\r\r")) {
			f.Finding = "D22"
		}
		return f
	}
	return nil
}

func genC10(r *rand.Rand, tier string, env *Env) []Case {
	n := 300
	if tier == "thorough" {
		n = 6000
	}
	cases := patternCases(r, n/2)
	for i := 0; i < n; i++ {
		var args [][]byte
		kind := "program"
		if i%3 == 0 {
			// arbitrary line material: commented-out directives, unbalanced markers, odd spacing and arguments
			kind = "ra-bytes"
			in := genRaBytes(r, 12)
			if i%60 == 21 {
				kind, in = "big-file", genBigRa(r)
			}
			args = [][]byte{nil, nil, nil, nil, nil, nil, []byte(in), []byte("i"), []byte("foo.ra"), []byte("a\nb\n"), []byte("i"), []byte("bar.ra"), []byte("c\n")}
			for k := 0; k < 6; k++ {
				args[k] = []byte{}
			}
		} else {
			o := progOpts{maxDepth: 3, maxItems: 5, includes: true, defs: true, cmdline: true, exotic: 0.2, malformed: 0.1, flagsPfxSf: true}
			p := genProgram(r, o)
			// disturb the spacing of directives and indentation
			lines := strings.Split(p.Input, "\n")
			for k, l := range lines {
				if strings.HasPrefix(strings.TrimLeft(l, " \t"), "##!>") && chance(r, 0.5) {
					t := strings.TrimLeft(l, " \t")
					t = "##!>" + pick(r, []string{"", " ", "  ", "\t"}) + strings.TrimLeft(t[4:], " \t")
					t = strings.Replace(t, " ", pick(r, []string{" ", "  ", "\t"}), 1)
					lines[k] = pick(r, []string{"", "  ", "\t\t"}) + t + pick(r, []string{"", " ", "\t"})
				}
			}
			p.Input = strings.Join(lines, "\n")
			args = p.genOp().Args
		}
		cases = append(cases, Case{Kind: kind, Ops: []Op{{"format.file", [][]byte{args[6]}}}, Oracles: []Op{{"c10.meaning", args}, {"c09.format", [][]byte{args[6]}}}})
	}
	return cases
}

func init() {
	oracles["c10.meaning"] = oracleC10
	properties["C10"] = &Property{
		ID: "C10", LeanMods: []string{"CrsProps.C10", "CrsProps.C10Gen"},
		Corr: "K1 (directive regexps vs recognisers), K6 (processLine/processFile), K2 (Parse before/after)",
		Rule: "assembly programs with disturbed directive spacing and indentation, and arbitrary line material (comment lines that look like directives, unbalanced markers, odd arguments); generate and parse compared before/after format, white-space-stripped line sequences compared; non-trivial = format changes the file; distinct by bytes",
		Gen:  genC10, Escalate: escalateFormat,
		Assume: []string{"known finding D23: a dangling `--` without replacement pairs is dropped by format (the compiled regex is unaffected)",
			"known finding D22 (CR CR LF)"},
	}
}
