package main

import (
	"bytes"
	"crypto/sha256"
	"encoding/hex"
	"fmt"
	"io"
	"math/rand"
	"os"
	"os/exec"
	"path/filepath"
	"sort"
	"strings"
	"time"
)

func pick[T any](r *rand.Rand, xs []T) T { return xs[r.Intn(len(xs))] }

func chance(r *rand.Rand, p float64) bool { return r.Float64() < p }

// weighted picks index i with probability w[i]/sum.
func weighted(r *rand.Rand, w []int) int {
	t := 0
	for _, x := range w {
		t += x
	}
	n := r.Intn(t)
	for i, x := range w {
		if n < x {
			return i
		}
		n -= x
	}
	return len(w) - 1
}

func randFrom(r *rand.Rand, alphabet string, min, max int) string {
	n := min
	if max > min {
		n += r.Intn(max - min + 1)
	}
	var sb strings.Builder
	for i := 0; i < n; i++ {
		sb.WriteByte(alphabet[r.Intn(len(alphabet))])
	}
	return sb.String()
}

var uspaces = []string{" ", "\t", "\v", "\f", "\u0085", " ", " ", " ", " ", " ", " ", "　"}

// joinLines joins lines with the given terminator style.
func joinLines(r *rand.Rand, lines []string, crlfP float64, finalNl bool) string {
	var sb strings.Builder
	crlf := chance(r, crlfP)
	for i, l := range lines {
		sb.WriteString(l)
		if i < len(lines)-1 || finalNl {
			if crlf {
				sb.WriteString("\r\n")
			} else {
				sb.WriteString("\n")
			}
		}
	}
	return sb.String()
}

// --- sandboxes for CLI-level runs -------------------------------------------------------

type Tree map[string][]byte // relative path -> contents ("dir/" with nil value = empty directory)

func (t Tree) write(root string) error {
	for p, c := range t {
		full := filepath.Join(root, p)
		if strings.HasSuffix(p, "/") {
			if err := os.MkdirAll(full, 0o755); err != nil {
				return err
			}
			continue
		}
		if err := os.MkdirAll(filepath.Dir(full), 0o755); err != nil {
			return err
		}
		if err := os.WriteFile(full, c, 0o644); err != nil {
			return err
		}
	}
	return nil
}

// snapshot returns path -> sha256:size:mode for every file and directory under root.
func snapshot(root string) map[string]string {
	out := map[string]string{}
	_ = filepath.Walk(root, func(p string, info os.FileInfo, err error) error {
		if err != nil {
			return nil
		}
		rel, _ := filepath.Rel(root, p)
		if info.IsDir() {
			out[rel+"/"] = "dir"
			return nil
		}
		b, _ := os.ReadFile(p)
		h := sha256.Sum256(b)
		out[rel] = fmt.Sprintf("%s:%d:%o", hex.EncodeToString(h[:8]), len(b), info.Mode().Perm())
		return nil
	})
	return out
}

func diffSnap(a, b map[string]string) []string {
	var d []string
	for k, v := range a {
		if w, found := b[k]; !found {
			d = append(d, "deleted "+k)
		} else if w != v {
			d = append(d, "changed "+k)
		}
	}
	for k := range b {
		if _, found := a[k]; !found {
			d = append(d, "created "+k)
		}
	}
	sort.Strings(d)
	return d
}

type cliResult struct {
	exit    int
	stdout  []byte
	stderr  []byte
	timeout bool
}

func (c cliResult) runtimeFault() bool {
	// logger.Panic (zerolog) is a deliberate diagnostic: its trace goes through rs/zerolog frames (the PNC log line is
	// absent when logging is disabled)
	deliberate := bytes.Contains(c.stderr, []byte("PNC")) || bytes.Contains(c.stderr, []byte("rs/zerolog"))
	return bytes.Contains(c.stderr, []byte("runtime error")) || bytes.Contains(c.stderr, []byte("goroutine ")) && bytes.Contains(c.stderr, []byte("panic:")) && !deliberate
}

// runCLI runs the freshly built binary.
func runCLI(env *Env, cwd string, stdin []byte, args ...string) cliResult {
	return runCLIWith(env, cwd, bytes.NewReader(stdin), env.timeout, args...)
}

// pausedReader hands out the first part of the data, waits, and hands out the rest: input that arrives slowly
// (`slow-command | crs-toolchain regex generate -`)
type pausedReader struct {
	data   []byte
	cut    int
	pause  time.Duration
	at     int
	paused bool
}

func (r *pausedReader) Read(b []byte) (int, error) {
	if r.at >= r.cut && !r.paused {
		r.paused = true
		time.Sleep(r.pause)
	}
	if r.at >= len(r.data) {
		return 0, io.EOF
	}
	end := len(r.data)
	if r.at < r.cut {
		end = r.cut
	}
	n := copy(b, r.data[r.at:end])
	r.at += n
	return n, nil
}

func runCLIWith(env *Env, cwd string, stdin io.Reader, timeout time.Duration, args ...string) cliResult {
	cmd := exec.Command(env.cli, args...)
	cmd.Dir = cwd
	cmd.Env = append(os.Environ(), "NO_COLOR=1")
	cmd.Stdin = stdin
	var so, se bytes.Buffer
	cmd.Stdout = &so
	cmd.Stderr = &se
	if err := cmd.Start(); err != nil {
		return cliResult{exit: -1, stderr: []byte(err.Error())}
	}
	done := make(chan error, 1)
	go func() { done <- cmd.Wait() }()
	select {
	case err := <-done:
		code := 0
		if ee, isExit := err.(*exec.ExitError); isExit {
			code = ee.ExitCode()
		} else if err != nil {
			code = -1
		}
		return cliResult{exit: code, stdout: so.Bytes(), stderr: se.Bytes()}
	case <-time.After(timeout):
		_ = cmd.Process.Kill()
		<-done
		return cliResult{exit: -1, timeout: true, stdout: so.Bytes(), stderr: se.Bytes()}
	}
}

func mkSandbox(env *Env) string {
	d, err := os.MkdirTemp(env.scratch, "sb")
	if err != nil {
		panic(err)
	}
	return d
}

// asciiFields splits at the directive's own white space only (the \s of the line patterns: blank, tab, newline, form
// feed, carriage return); any other white space (vertical tab, NBSP, …) is part of the key, value or name it touches
func asciiFields(s string) []string {
	return strings.FieldsFunc(s, func(c rune) bool { return c == ' ' || c == '\t' || c == '\n' || c == '\f' || c == '\r' })
}
