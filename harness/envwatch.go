package main

// Source-derived obligation of C03: which parts of /repo read something that differs between two runs on the same files.
//
// C03 says that nothing observable depends on time, process identity or the environment. The places where the current
// source can read such a thing at all are found on every run (go/ast: imports of time, math/rand, crypto/rand, os/user,
// runtime, sync and calls of os.Getenv / os.Getpid / os.Hostname / … in non-test, non-hook code) and compared with the
// places known and accounted for (envBaseline: the default year of update-copyright, the CI switch of the version
// check, the platform name in an updater message). A new place is not a violation by itself: it widens the search —
// the slow-input oracle (c03.slow) then also runs with long pauses — and, when no run differs, the property is no
// longer shown to hold (the obligation is reported with no-failing-input-found).

import (
	"go/ast"
	"go/parser"
	"go/token"
	"os"
	"path/filepath"
	"sort"
	"strconv"
	"strings"
)

var envBaseline = map[string]bool{
	"cmd/chore_update_copyright.go: import time":  true, // default of --year
	"cmd/version.go: os.Getenv":                   true, // CI=true switches the update notice off
	"internal/updater/updater.go: import runtime": true, // GOOS/GOARCH in a message
	"internal/updater/updater.go: os.Executable":  true, // the file self-update replaces
}

var envImports = map[string]bool{"time": true, "math/rand": true, "math/rand/v2": true, "crypto/rand": true, "os/user": true, "runtime": true, "sync": true, "sync/atomic": true, "os/signal": true}
var envCalls = map[string]bool{"Getenv": true, "LookupEnv": true, "Environ": true, "Getpid": true, "Getppid": true, "Hostname": true, "Getuid": true, "Geteuid": true, "Getgid": true, "UserHomeDir": true, "UserCacheDir": true, "UserConfigDir": true, "TempDir": true, "Executable": true}

// envSources lists the places of the current source that can read the clock, randomness, the process or the environment.
func envSources(repo string) []string {
	set := map[string]bool{}
	fset := token.NewFileSet()
	_ = filepath.Walk(repo, func(p string, info os.FileInfo, err error) error {
		if err != nil {
			return nil
		}
		if info.IsDir() {
			if n := info.Name(); n == ".git" || n == "vendor" || n == "testdata" {
				return filepath.SkipDir
			}
			return nil
		}
		if !strings.HasSuffix(p, ".go") || strings.HasSuffix(p, "_test.go") || strings.HasPrefix(filepath.Base(p), "verif_") {
			return nil
		}
		f, perr := parser.ParseFile(fset, p, nil, 0)
		if perr != nil {
			return nil
		}
		rel, _ := filepath.Rel(repo, p)
		osName := ""
		for _, im := range f.Imports {
			path, _ := strconv.Unquote(im.Path.Value)
			if envImports[path] {
				set[rel+": import "+path] = true
			}
			if path == "os" {
				osName = "os"
				if im.Name != nil {
					osName = im.Name.Name
				}
			}
		}
		if osName != "" {
			ast.Inspect(f, func(n ast.Node) bool {
				if sel, ok := n.(*ast.SelectorExpr); ok {
					if x, ok := sel.X.(*ast.Ident); ok && x.Name == osName && envCalls[sel.Sel.Name] {
						set[rel+": os."+sel.Sel.Name] = true
					}
				}
				return true
			})
		}
		return nil
	})
	var out []string
	for k := range set {
		out = append(out, k)
	}
	sort.Strings(out)
	return out
}

// newEnvSources: the places not accounted for in envBaseline.
func newEnvSources() []string {
	var out []string
	for _, s := range envSources(repoDir()) {
		if !envBaseline[s] {
			out = append(out, s)
		}
	}
	return out
}
