package main

import (
	"fmt"
	"math/rand"
	"sort"
	"strings"
)

// A generated CRS checkout: assembly files, include files, rules files with the addressed rules,
// regression tests, setup files, and decoys that no command may touch.
type crsTree struct {
	t       Tree
	ra      []raFile          // rule assembly files at the top of regex-assembly
	incl    []string          // include file names (without extension)
	rules   map[string]string // id prefix -> rules file path
	tests   []string          // test file paths
	confs   []string          // .conf / .example paths
	decoys  []string
	targets map[string]ruleTarget // arg (id or id-chainK) -> operand location in its rules file
	cfg     [][]byte              // the six patterns of toolchain.yaml (nil: no file)
}

type raFile struct {
	arg   string // 942100 or 942100-chain1
	id    string
	chain int
	path  string
}

func simpleRaProgram(r *rand.Rand, includes []string) string {
	var lines []string
	if chance(r, 0.5) {
		lines = append(lines, "##! Please refer to the documentation at", "##! https://coreruleset.org/docs/development/regex_assembly/.", "")
	}
	if chance(r, 0.3) {
		lines = append(lines, "##!+ "+pick(r, []string{"i", "s", "is"}))
	}
	if chance(r, 0.3) {
		lines = append(lines, "##!^ "+pick(r, []string{"\\b", "^", "(?:x|y)"}))
	}
	if chance(r, 0.3) {
		lines = append(lines, "##!> define word [a-z]+")
	}
	n := 1 + r.Intn(5)
	for i := 0; i < n; i++ {
		switch weighted(r, []int{8, 2, 2, 2, 2}) {
		case 0:
			lines = append(lines, pick(r, []string{"foo", "bar", "sel(?:ect)?", "union\\s+all", "[0-9]+", "a\"b", "x{{word}}", "c:\\\\dir", "é", "\\x5c", "1=1"}))
		case 1:
			lines = append(lines, "stored", pick(r, []string{"  ", "\t", ""})+"##!=< shared", "##!=> shared")
		case 2:
			lines = append(lines, "##!> assemble", "  a", "  ##!=>", "  b", "##!<")
		case 3:
			lines = append(lines, "##!> cmdline "+pick(r, []string{"unix", "windows"}), "  ls", "  cat@", "##!<")
		case 4:
			if len(includes) > 0 {
				lines = append(lines, "##!> include "+pick(r, includes))
			}
		}
	}
	out := strings.Join(lines, "\n")
	return out + "\n"
}

// addAmbiguousRulesCopy: a second file under the name pattern of one rules file, sorting before it (an editor's
// auto-save copy): the rules file of that prefix is ambiguous, update and compare refuse it (and write nothing)
func addAmbiguousRulesCopy(ct *crsTree) {
	if len(ct.confs) == 0 || !strings.HasPrefix(ct.confs[0], "rules/") {
		return
	}
	real := ct.confs[0]
	copyName := "rules/#" + strings.TrimPrefix(real, "rules/") + "#"
	ct.t[copyName] = ct.t[real]
	ct.decoys = append(ct.decoys, copyName)
}

func genCRSTree(r *rand.Rand, nRa int) *crsTree {
	ct := &crsTree{t: Tree{}, rules: map[string]string{}, targets: map[string]ruleTarget{}}
	nInc := r.Intn(3)
	for i := 0; i < nInc; i++ {
		name := fmt.Sprintf("words%d", i)
		ct.incl = append(ct.incl, name)
		ct.t["regex-assembly/include/"+name+".ra"] = []byte(strings.Join([]string{"alpha", "beta@", "  gamma", "##! comment", ""}[:2+r.Intn(3)], "\n") + "\n")
	}
	ct.t["regex-assembly/include/"] = nil
	if chance(r, 0.5) {
		ct.cfg = bytesOf(cfgMenu[1+r.Intn(2)])
		ct.t["regex-assembly/toolchain.yaml"] = []byte(toolchainYaml(ct.cfg))
	}
	prefixes := []string{"942", "932", "920"}
	type ruleSpec struct {
		id    string
		chain int
	}
	byPrefix := map[string][]ruleSpec{}
	seen := map[string]bool{}
	for len(ct.ra) < nRa {
		pfx := pick(r, prefixes)
		id := pfx + fmt.Sprintf("%03d", 100+10*r.Intn(9))
		chain := 0
		if chance(r, 0.3) {
			chain = 1 + r.Intn(2)
		}
		arg := id
		if chain > 0 {
			arg = fmt.Sprintf("%s-chain%d", id, chain)
		}
		if seen[arg] {
			continue
		}
		seen[arg] = true
		path := "regex-assembly/" + arg + ".ra"
		ct.t[path] = []byte(simpleRaProgram(r, ct.incl))
		ct.ra = append(ct.ra, raFile{arg: arg, id: id, chain: chain, path: path})
		byPrefix[pfx] = append(byPrefix[pfx], ruleSpec{id, chain})
	}
	// rules files: every addressed rule exists with enough chained rules
	for pfx, specs := range byPrefix {
		maxChain := map[string]int{}
		var ids []string
		for _, s := range specs {
			if _, found := maxChain[s.id]; !found {
				ids = append(ids, s.id)
			}
			if s.chain > maxChain[s.id] {
				maxChain[s.id] = s.chain
			}
		}
		sort.Strings(ids)
		var lines []string
		lines = append(lines, "# ------------------------------------------------------------------------", "# OWASP CRS ver.4.0.0", "# Copyright (c) 2021-2024 CRS project. All rights reserved.", "")
		path := "rules/REQUEST-" + pfx + "-APPLICATION-ATTACK.conf"
		for _, id := range ids {
			ind := ""
			for c := 0; c <= maxChain[id]; c++ {
				head := ind + "SecRule ARGS \"@rx "
				operand := pick(r, []string{"old", "stale\\\"x", "^$"})
				arg := id
				if c > 0 {
					arg = fmt.Sprintf("%s-chain%d", id, c)
				}
				ct.targets[arg] = ruleTarget{id: id, chain: c, line: len(lines), start: len(head), end: len(head) + len(operand)}
				lines = append(lines, head+operand+"\" \\")
				if c == 0 {
					lines = append(lines, ind+"    \"id:"+id+",\\", ind+"    phase:2,\\", ind+"    ver:'OWASP_CRS/4.0.0',\\")
				} else {
					lines = append(lines, ind+"    \"t:none,\\")
				}
				if c < maxChain[id] {
					lines = append(lines, ind+"    chain\"")
				} else {
					lines = append(lines, ind+"    severity:'CRITICAL'\"")
				}
				ind += "    "
			}
			lines = append(lines, "")
		}
		ct.t[path] = []byte(strings.Join(lines, "\n") + "\n")
		ct.rules[pfx] = path
		ct.confs = append(ct.confs, path)
		// regression tests
		for _, id := range ids {
			tp := "tests/regression/tests/REQUEST-" + pfx + "-APPLICATION-ATTACK/" + id + pick(r, []string{".yaml", ".yml"})
			ct.t[tp] = []byte("---\nmeta:\n  name: " + id + "\ntests:\n  - test_id: 5\n    desc: x\n  - test_id: 9\n  - test_title: " + id + "-7\n")
			ct.tests = append(ct.tests, tp)
		}
	}
	if chance(r, 0.5) {
		// a file nobody includes on which `format --check` has two things to say: it is untidy, and it sets the
		// ignore-case flag while using an upper-case letter in a character class (the sanity check of check mode)
		ct.t["regex-assembly/include/zz-upper-class.ra"] = []byte(pick(r, []string{"##!+ i\n  ab[A-Z]c\n", "##!+ i\n##!> define up [A-F0-9]\n    x{{up}}\n\n\n", "##!+ is\n\t[a-zQ]+\n"}))
		ct.incl = append(ct.incl, "zz-upper-class")
	}
	ct.t["crs-setup.conf.example"] = []byte("# OWASP CRS ver.4.0.0\nSecComponentSignature \"OWASP_CRS/4.0.0\"\n    setvar:tx.crs_setup_version=400\"\n")
	ct.confs = append(ct.confs, "crs-setup.conf.example")
	// decoys
	decoys := map[string]string{
		"regex-assembly/notes.txt":                              "  untidy   text\n",
		"regex-assembly/942100.ra.bak":                          "  foo  \n",
		"regex-assembly/include/readme.md":                      "##!> assemble\n",
		"rules/restricted-files.data":                           ".htaccess\n# OWASP CRS ver.3.0.0\n",
		"rules/README.md":                                       "ver:'OWASP_CRS/3.0.0'\n",
		"tests/regression/tests/REQUEST-920-X/920999":           "  - test_id: 7\n",
		"tests/regression/tests/REQUEST-920-X/9209990.yaml":     "  - test_id: 7\n",
		"tests/regression/tests/REQUEST-920-X/920998.yaml.orig": "  - test_id: 7\n",
		"tests/regression/README.md":                            "test_id: 3\n",
		// near misses of the three file-name tests: a character where the dot belongs, text after the extension
		"tests/regression/tests/REQUEST-920-X/920997-yaml":  "  - test_id: 7\n\n\n",
		"tests/regression/tests/REQUEST-920-X/920996_yml":   "  - test_id: 7\n  - test_title: 920996-9\n",
		"tests/regression/tests/REQUEST-920-X/920995.yamlx": "  - test_id: 7\n",
		"tests/regression/tests/REQUEST-920-X/920994.yml~":  "  - test_id: 7\n",
		"tests/regression/tests/REQUEST-920-X/x920993.yaml": "  - test_id: 7\n",
		"regex-assembly/942101xra":                          "  foo  \n",
		"regex-assembly/942102.rax":                         "  foo  \n",
		"regex-assembly/include/words-ra":                   "  foo  \n",
		"rules/fooconf":                                     "# OWASP CRS ver.3.0.0\n",
		"rules/bar.confx":                                   "# OWASP CRS ver.3.0.0\n",
		"rules/baz.conf.rej":                                "# OWASP CRS ver.3.0.0\n",
		"docs/crs-setup-example":                            "# OWASP CRS ver.3.0.0\n",
		"docs/conf.txt":                                     "# OWASP CRS ver.3.0.0\n",
		"docs/942999.yaml":                                  "  - test_id: 7\n  - test_id: 7\n",
		// directories whose names merely begin like the directories the commands work in
		"regex-assembly-legacy/942100.ra":                           "  legacy  \n",
		"tests/regression/tests-disabled/REQUEST-942-X/942100.yaml": "  - test_id: 7\n  - test_id: 7\n",
		"util/example.conf.disabled":                                "# OWASP CRS ver.3.0.0\n",
		// hidden entries among the assembly files (a desktop's metadata, a placeholder, an editor's swap file)
		"regex-assembly/.DS_Store":       "\x00\x00\x00\x01Bud1\n",
		"regex-assembly/.gitkeep":        "",
		"regex-assembly/.942100.ra.swp":  "b0VIM 9.0\n",
		"regex-assembly/include/.keep":   "",
		"tests/regression/tests/.hidden": "  - test_id: 7\n",
	}
	for p, c := range decoys {
		ct.t[p] = []byte(c)
		ct.decoys = append(ct.decoys, p)
	}
	sort.Strings(ct.decoys)
	return ct
}
