package main

// Source-derived tie for the regular-expression literals of /repo.
//
// The model's recognisers (Crs.Pat.*, Crs.Update, Crs.Renumber, Crs.Copyright, Crs.Passes) were written for, and are
// validated against, particular pattern literals. On every run the literals are read again from the current source
// (go/ast: every regexp.MustCompile / regexp.Compile with a string literal in non-test code). A literal that differs
// from the one recorded in patterns_baseline.json is searched for a behavioural difference: old and new pattern are
// both compiled with Go's regexp and run on strings drawn from the syntax trees of both, on mutations of those and on
// the generators' own line material. No difference found: an equivalent rewrite, nothing is reported (the evidence
// says so). A difference: the strings on which the patterns differ are turned into correspondence operations of the
// function the model models with that pattern (model vs code disagree there if the model still follows the old
// pattern; the property's escalation then looks for a failing input), and, for patterns no operation exercises
// directly, into a broken source-tied obligation.

import (
	_ "embed"
	"encoding/json"
	"fmt"
	"go/ast"
	"go/parser"
	"go/token"
	"math/rand"
	"os"
	"path/filepath"
	"regexp"
	"regexp/syntax"
	"sort"
	"strconv"
	"strings"
)

//go:embed patterns_baseline.json
var patternsBaselineJSON []byte

type srcPattern struct {
	Key     string `json:"key"`     // package directory + "." + variable, or file + ":" + function + "#" + n
	Literal string `json:"literal"` // the pattern text
}

func repoDir() string {
	if d := os.Getenv("VERIF_REPO"); d != "" {
		return d
	}
	return "/repo"
}

// extractPatterns reads every regexp literal of the non-test, non-hook Go sources below repo.
func extractPatterns(repo string) ([]srcPattern, error) {
	var out []srcPattern
	fset := token.NewFileSet()
	err := filepath.Walk(repo, func(p string, info os.FileInfo, err error) error {
		if err != nil {
			return nil
		}
		if info.IsDir() {
			if n := info.Name(); n == ".git" || n == "vendor" || n == "testdata" {
				return filepath.SkipDir
			}
			return nil
		}
		if !strings.HasSuffix(p, ".go") || strings.HasSuffix(p, "_test.go") || strings.HasPrefix(filepath.Base(p), "verif_") {
			return nil
		}
		f, perr := parser.ParseFile(fset, p, nil, 0)
		if perr != nil {
			return nil
		}
		rel, _ := filepath.Rel(repo, p)
		isCompile := func(e ast.Expr) (string, bool) {
			call, ok := e.(*ast.CallExpr)
			if !ok || len(call.Args) != 1 {
				return "", false
			}
			sel, ok := call.Fun.(*ast.SelectorExpr)
			if !ok || (sel.Sel.Name != "MustCompile" && sel.Sel.Name != "Compile") {
				return "", false
			}
			if x, ok := sel.X.(*ast.Ident); !ok || x.Name != "regexp" {
				return "", false
			}
			lit, ok := call.Args[0].(*ast.BasicLit)
			if !ok || lit.Kind != token.STRING {
				return "", false
			}
			s, uerr := strconv.Unquote(lit.Value)
			if uerr != nil {
				return "", false
			}
			return s, true
		}
		seen := map[ast.Expr]bool{}
		// package-level variables
		for _, d := range f.Decls {
			gd, ok := d.(*ast.GenDecl)
			if !ok || gd.Tok != token.VAR {
				continue
			}
			for _, sp := range gd.Specs {
				vs := sp.(*ast.ValueSpec)
				for i, v := range vs.Values {
					if s, ok := isCompile(v); ok && i < len(vs.Names) {
						out = append(out, srcPattern{Key: filepath.Dir(rel) + "." + vs.Names[i].Name, Literal: s})
						seen[v] = true
					}
				}
			}
		}
		// literals inside functions
		for _, d := range f.Decls {
			fd, ok := d.(*ast.FuncDecl)
			if !ok || fd.Body == nil {
				continue
			}
			n := 0
			ast.Inspect(fd.Body, func(x ast.Node) bool {
				if e, ok := x.(ast.Expr); ok && !seen[e] {
					if s, ok := isCompile(e); ok {
						n++
						out = append(out, srcPattern{Key: rel + ":" + fd.Name.Name + "#" + strconv.Itoa(n), Literal: s})
					}
				}
				return true
			})
		}
		return nil
	})
	sort.Slice(out, func(i, j int) bool { return out[i].Key < out[j].Key })
	return out, err
}

// which correspondence operation exercises a pattern directly (the witness string is the operation's subject)
var patternOps = map[string]func(s string) []Op{
	"regex.IncludeRegex":        func(s string) []Op { return []Op{{"pat.include", [][]byte{[]byte(s)}}} },
	"regex.IncludeExceptRegex":  func(s string) []Op { return []Op{{"pat.includeExcept", [][]byte{[]byte(s)}}} },
	"regex.DefinitionRegex":     func(s string) []Op { return []Op{{"pat.definition", [][]byte{[]byte(s)}}} },
	"regex.CommentRegex":        func(s string) []Op { return []Op{{"pat.comment", [][]byte{[]byte(s)}}} },
	"regex.FlagsRegex":          func(s string) []Op { return []Op{{"pat.flags", [][]byte{[]byte(s)}}} },
	"regex.PrefixRegex":         func(s string) []Op { return []Op{{"pat.prefix", [][]byte{[]byte(s)}}} },
	"regex.SuffixRegex":         func(s string) []Op { return []Op{{"pat.suffix", [][]byte{[]byte(s)}}} },
	"regex.ProcessorStartRegex": func(s string) []Op { return []Op{{"pat.processorStart", [][]byte{[]byte(s)}}} },
	"regex.ProcessorBlockStartRegex": func(s string) []Op {
		return []Op{{"pat.blockStart", [][]byte{[]byte(s)}}, {"format.processLine", [][]byte{[]byte(s), []byte("x")}}}
	},
	"regex.ProcessorEndRegex":   func(s string) []Op { return []Op{{"pat.blockEnd", [][]byte{[]byte(s)}}} },
	"regex.AssembleInputRegex":  func(s string) []Op { return []Op{{"pat.assembleInput", [][]byte{[]byte(s)}}} },
	"regex.AssembleOutputRegex": func(s string) []Op { return []Op{{"pat.assembleOutput", [][]byte{[]byte(s)}}} },
	"regex.RuleIdFileNameRegex": func(s string) []Op { return []Op{{"ruleid.parse", [][]byte{[]byte(s)}}} },
	"regex.TestIdRegex": func(s string) []Op {
		return []Op{{"renumber.processYaml", [][]byte{[]byte("920100"), []byte(s + "\n")}}}
	},
	"regex.TestTitleRegex": func(s string) []Op {
		return []Op{{"renumber.processYaml", [][]byte{[]byte("920100"), []byte(s + "\n")}}}
	},
	"regex.CRSVersionRegex": copyrightOp, "regex.ShortCRSVersionRegex": copyrightOp, "regex.CRSCopyrightYearRegex": copyrightOp,
	"regex.CRSYearSecRuleVerRegex": copyrightOp, "regex.CRSVersionComponentSignatureRegex": copyrightOp,
	"regex.RuleRxRegex": func(s string) []Op {
		file := []byte(s + "\n    \"id:942100,\\\n    phase:2\"\n")
		return []Op{{"update.read", [][]byte{file, []byte("942100"), {}}}, {"update.apply", [][]byte{file, []byte("942100"), {}, []byte("new")}}}
	},
	"regex.SecRuleRegex": func(s string) []Op {
		file := []byte("SecRule ARGS \"@rx a\" \\\n    \"id:942100,\\\n    chain\"\n" + s + "\n    SecRule ARGS \"@rx b\" \\\n    \"t:none\"\n")
		return []Op{{"update.read", [][]byte{file, []byte("942100"), []byte("x")}}}
	},
	"regex/parser/include_except_builder.go:replaceSuffixes#1": func(s string) []Op {
		return []Op{{"parse.replaceSuffixes", [][]byte{[]byte(s + "\nfoo@\n"), []byte("@ ~")}}}
	},
	"regex/parser.spaceRegex":                                      func(s string) []Op { return []Op{{"pat.splitArgs", [][]byte{[]byte(s)}}} },
	"regex/operators/assembler.go:dontUseFlagsForMetaCharacters#1": passOp, "regex/operators/assembler.go:dontUseFlagsForMetaCharacters#2": passOp,
	"regex/operators/assembler.go:removeOutermostNonCapturingGroup#1": passOp,
}

func copyrightOp(s string) []Op {
	return []Op{{"copyright.updateRules", [][]byte{[]byte("4.9.0-rc1"), []byte("2030"), []byte(s + "\n")}}}
}
func passOp(s string) []Op { return []Op{{"pass.cleanUp", [][]byte{[]byte(s)}}} }

// the properties whose model uses a pattern
func patternProps(key string) []string {
	switch {
	case key == "regex.ProcessorBlockStartRegex" || strings.Contains(key, "regex_format.go"):
		return []string{"C09", "C10", "C08", "C15"}
	case key == "regex.RuleRxRegex" || key == "regex.SecRuleRegex" || strings.Contains(key, "regex_update.go") || strings.Contains(key, "regex_compare.go"):
		return []string{"C11", "C12", "C08", "C16"}
	case key == "regex.RuleIdFileNameRegex":
		return []string{"C18", "C08", "C15", "C16"}
	case key == "regex.RuleIdTestFileNameRegex" || key == "regex.TestIdRegex" || key == "regex.TestTitleRegex":
		return []string{"C13", "C15", "C08"}
	case strings.HasPrefix(key, "regex.CRS") || key == "regex.ShortCRSVersionRegex" || strings.Contains(key, "update_copyright.go"):
		return []string{"C14", "C15", "C08"}
	case strings.Contains(key, "assembler.go"):
		return []string{"C01", "C02", "C19"}
	case key == "regex.DefinitionReferenceRegex":
		return nil // not used by the code paths of any property
	}
	// the directive patterns: everything that reads assembly files
	return []string{"C01", "C03", "C05", "C06", "C07", "C09", "C10", "C16", "C19"}
}

type patternChange struct {
	Key, Old, New string
	Witnesses     []string
	Tried         int
	CompileErr    string
}

// submatch behaviour of one pattern on one string, canonical
func matchSig(re *regexp.Regexp, s string, groups bool) string {
	m := re.FindAllStringSubmatchIndex(s, -1)
	if m == nil {
		return "-"
	}
	var sb strings.Builder
	for _, one := range m {
		n := len(one)
		if !groups {
			n = 2
		}
		fmt.Fprint(&sb, one[:n], ";")
	}
	return sb.String()
}

func mutations(r *rand.Rand, s string) []string {
	out := []string{s + " ", " " + s, s + "\t", s + "x", "x" + s, s + "\r", s + s}
	ins := []string{" ", "\t", "\f", "\v", "\r", " ", "-", "--", "'", "\"", "=", ".", "0", "a", "Z", "#", "\\", "(", ")", "+", "rc1", "\n"}
	for k := 0; k < 12 && len(s) > 0; k++ {
		i := r.Intn(len(s) + 1)
		switch r.Intn(4) {
		case 0:
			out = append(out, s[:i]+pick(r, ins)+s[i:])
		case 1:
			if i < len(s) {
				out = append(out, s[:i]+s[i+1:])
			}
		case 2:
			if i < len(s) {
				out = append(out, s[:i]+string(s[i])+s[i:])
			}
		default:
			if i < len(s) {
				out = append(out, s[:i]+pick(r, ins)+s[i+1:])
			}
		}
	}
	return out
}

// diffPatterns looks for strings on which the two patterns behave differently.
func diffPatterns(r *rand.Rand, oldLit, newLit string, budget int) (wit []string, tried int, cerr string) {
	oldRe, e1 := regexp.Compile(oldLit)
	newRe, e2 := regexp.Compile(newLit)
	if e1 != nil || e2 != nil {
		return nil, 0, fmt.Sprint(e1, e2)
	}
	groups := oldRe.NumSubexp() == newRe.NumSubexp()
	oldAst, _ := syntax.Parse(oldLit, syntax.Perl)
	newAst, _ := syntax.Parse(newLit, syntax.Perl)
	seen := map[string]bool{}
	try := func(s string) {
		if seen[s] || len(wit) >= 40 {
			return
		}
		seen[s] = true
		tried++
		if matchSig(oldRe, s, groups) != matchSig(newRe, s, groups) {
			wit = append(wit, s)
		}
	}
	for i := 0; i < budget && len(wit) < 40; i++ {
		var base string
		switch i % 4 {
		case 0:
			base = sampleFrom(r, oldAst, 0)
		case 1:
			base = sampleFrom(r, newAst, 0)
		case 2:
			base = genDirectiveLine(r)
		default:
			base = pick(r, []string{"SecRule ARGS \"@rx a b\" \\", "    \"id:942100,\\", "  - test_id: 7", "    test_title: 920100-3", "# OWASP CRS ver.4.0.0", "# OWASP ModSecurity Core Rule Set ver.3.3.2",
				"# Copyright (c) 2021-2024 CRS project. All rights reserved.", "    ver:'OWASP_CRS/4.0.0',\\", "    \"id:1,ver:'OWASP_CRS/4.0.0',tag:'OWASP_CRS',tag:'x'\"", "SecComponentSignature \"OWASP_CRS/4.0.0\"",
				"    setvar:tx.crs_setup_version=400\"", "942100-chain2.ra", "920100.yaml", "(?:a|b)", "(?i:a)(?s:.)\\(?i)", "foo@", "##! c", "a  b\tc"})
		}
		try(base)
		for _, m := range mutations(r, base) {
			try(m)
		}
	}
	return wit, tried, ""
}

var patternWatchNote string // for the evidence file

// patternWatchCases: the source-derived tie for property pr (see the head of this file).
func patternWatchCases(pr *Property, r *rand.Rand, tier string) []Case {
	var base []srcPattern
	if err := json.Unmarshal(patternsBaselineJSON, &base); err != nil {
		return []Case{{Kind: "pattern-literals", Oracles: []Op{{"src.patterns", [][]byte{[]byte("harness: bad baseline: " + err.Error())}}}}}
	}
	cur, err := extractPatterns(repoDir())
	if err != nil || len(cur) == 0 {
		patternWatchNote = "pattern literals: source not readable"
		return nil
	}
	old := map[string]string{}
	for _, b := range base {
		old[b.Key] = b.Literal
	}
	now := map[string]string{}
	for _, c := range cur {
		now[c.Key] = c.Literal
	}
	budget := 3000
	if tier == "thorough" {
		budget = 30000
	}
	relevant := func(key string) bool {
		for _, p := range patternProps(key) {
			if p == pr.ID {
				return true
			}
		}
		return false
	}
	var cases []Case
	var notes []string
	changedN := 0
	for key, lit := range now {
		o, known := old[key]
		if known && o == lit {
			continue
		}
		if !known {
			// a literal at a place the baseline does not know: the same text somewhere else is a moved pattern
			moved := false
			for k2, l2 := range old {
				if l2 == lit {
					if _, still := now[k2]; !still {
						moved = true
					}
				}
			}
			if moved {
				continue
			}
			// a new pattern altogether: which recogniser it replaces is not known; inline patterns of a function that had
			// one are compared with that one
			fn := key
			if i := strings.LastIndex(key, "#"); i >= 0 {
				fn = key[:i]
			}
			for k2, l2 := range old {
				if strings.HasPrefix(k2, fn+"#") {
					if _, still := now[k2]; !still {
						o, known = l2, true
					}
				}
			}
			if !known {
				continue
			}
		}
		if !relevant(key) {
			continue
		}
		changedN++
		wit, tried, cerr := diffPatterns(r, o, lit, budget)
		if cerr != "" {
			continue // the tree does not build or panics at start: the build step reports that
		}
		if len(wit) == 0 {
			notes = append(notes, fmt.Sprintf("%s: literal changed (%q -> %q), no behavioural difference on %d strings", key, o, lit, tried))
			continue
		}
		notes = append(notes, fmt.Sprintf("%s: literal changed (%q -> %q), %d differing strings, e.g. %q", key, o, lit, len(wit), wit[0]))
		mk, direct := patternOps[key]
		if direct {
			for _, w := range wit {
				if strings.Contains(w, "\n") {
					continue
				}
				cases = append(cases, Case{Kind: "pattern-changed:" + key, Ops: mk(w)})
			}
		}
		if !direct || len(cases) == 0 {
			detail := fmt.Sprintf("%s\nbaseline %q\nsource   %q\ndiffering string %q", key, o, lit, wit[0])
			cases = append(cases, Case{Kind: "pattern-literals", Oracles: []Op{{"src.patterns", [][]byte{[]byte(detail)}}}})
		}
	}
	sort.Strings(notes)
	patternWatchNote = fmt.Sprintf("pattern literals read from the source: %d, differing from the baseline and relevant here: %d. %s", len(cur), changedN, strings.Join(notes, "; "))
	return cases
}

func init() {
	oracles["src.patterns"] = func(p *Pair, env *Env, a [][]byte) *Failure {
		if len(a) == 0 {
			return nil
		}
		if strings.HasPrefix(string(a[0]), "harness:") {
			return &Failure{What: string(a[0])}
		}
		return &Failure{What: "obligation: a pattern the model's recogniser was written for changed in the source and matches differently; no operation ties this recogniser directly", Detail: string(a[0])}
	}
}

// writePatternsBaseline: `harness patterns-baseline <repo>` prints the literals of the current source as JSON
func writePatternsBaseline(repo string) {
	ps, err := extractPatterns(repo)
	if err != nil {
		fmt.Fprintln(os.Stderr, err)
		os.Exit(2)
	}
	b, _ := json.MarshalIndent(ps, "", " ")
	fmt.Println(string(b))
}
