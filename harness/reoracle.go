package main

import (
	"fmt"
	"math/rand"
	"regexp"
	"regexp/syntax"
	"sort"
	"strings"
	"unicode/utf8"
)

// Sample-based language comparison of two regular expressions, both read by Go's regexp in its
// standard (Perl) mode with the same global flags. This is a *search* for a distinguishing subject
// string, used by the oracles of C01/C04/C05/C06/C07; it is a test, not a proof.

type langCmp struct {
	a, b   *regexp.Regexp
	ta, tb string
}

func compileFull(text string, flags string) (*regexp.Regexp, error) {
	f := ""
	if flags != "" {
		f = "(?" + flags + ")"
	}
	return regexp.Compile(`\A` + f + "(?:" + text + `)\z`)
}

// sampleStrings draws strings from the language of re (approximately) by walking its syntax tree.
func sampleFrom(r *rand.Rand, re *syntax.Regexp, depth int) string {
	switch re.Op {
	case syntax.OpNoMatch:
		return ""
	case syntax.OpEmptyMatch, syntax.OpBeginLine, syntax.OpEndLine, syntax.OpBeginText, syntax.OpEndText, syntax.OpWordBoundary, syntax.OpNoWordBoundary:
		return ""
	case syntax.OpLiteral:
		s := string(re.Rune)
		if re.Flags&syntax.FoldCase != 0 && chance(r, 0.5) {
			s = strings.ToUpper(s)
		}
		return s
	case syntax.OpCharClass:
		if len(re.Rune) == 0 {
			return ""
		}
		i := r.Intn(len(re.Rune)/2) * 2
		lo, hi := re.Rune[i], re.Rune[i+1]
		if hi > lo+200 {
			hi = lo + 200
		}
		c := lo + rune(r.Intn(int(hi-lo)+1))
		if chance(r, 0.3) {
			c = lo
		}
		if chance(r, 0.2) {
			c = re.Rune[i+1]
		}
		if !utf8.ValidRune(c) {
			c = lo
		}
		return string(c)
	case syntax.OpAnyCharNotNL:
		return pick(r, []string{"a", "x", " ", "0", "Z", "é"})
	case syntax.OpAnyChar:
		return pick(r, []string{"a", "x", " ", "0", "\n", "Z"})
	case syntax.OpCapture:
		return sampleFrom(r, re.Sub[0], depth)
	case syntax.OpStar:
		n := r.Intn(3)
		var sb strings.Builder
		for i := 0; i < n; i++ {
			sb.WriteString(sampleFrom(r, re.Sub[0], depth+1))
		}
		return sb.String()
	case syntax.OpPlus:
		n := 1 + r.Intn(2)
		var sb strings.Builder
		for i := 0; i < n; i++ {
			sb.WriteString(sampleFrom(r, re.Sub[0], depth+1))
		}
		return sb.String()
	case syntax.OpQuest:
		if chance(r, 0.5) {
			return ""
		}
		return sampleFrom(r, re.Sub[0], depth+1)
	case syntax.OpRepeat:
		n := re.Min
		if re.Max > re.Min {
			n += r.Intn(re.Max - re.Min + 1)
		} else if re.Max < 0 {
			n += r.Intn(2)
		}
		var sb strings.Builder
		for i := 0; i < n; i++ {
			sb.WriteString(sampleFrom(r, re.Sub[0], depth+1))
		}
		return sb.String()
	case syntax.OpConcat:
		var sb strings.Builder
		for _, s := range re.Sub {
			sb.WriteString(sampleFrom(r, s, depth))
		}
		return sb.String()
	case syntax.OpAlternate:
		return sampleFrom(r, re.Sub[r.Intn(len(re.Sub))], depth)
	}
	return ""
}

func alphabetOf(re *syntax.Regexp, set map[rune]bool) {
	switch re.Op {
	case syntax.OpLiteral:
		for _, c := range re.Rune {
			set[c] = true
		}
	case syntax.OpCharClass:
		for i := 0; i+1 < len(re.Rune) && i < 12; i += 2 {
			set[re.Rune[i]] = true
			set[re.Rune[i+1]] = true
			if re.Rune[i] > 0 {
				set[re.Rune[i]-1] = true
			}
			if re.Rune[i+1] < 0x10FFFF {
				set[re.Rune[i+1]+1] = true
			}
		}
	}
	for _, s := range re.Sub {
		alphabetOf(s, set)
	}
}

func mutate(r *rand.Rand, s string, alpha []rune) string {
	rs := []rune(s)
	switch r.Intn(5) {
	case 0: // delete
		if len(rs) > 0 {
			i := r.Intn(len(rs))
			rs = append(rs[:i:i], rs[i+1:]...)
		}
	case 1: // insert
		i := r.Intn(len(rs) + 1)
		c := alpha[r.Intn(len(alpha))]
		rs = append(rs[:i:i], append([]rune{c}, rs[i:]...)...)
	case 2: // replace
		if len(rs) > 0 {
			rs[r.Intn(len(rs))] = alpha[r.Intn(len(alpha))]
		}
	case 3: // swap
		if len(rs) > 1 {
			i := r.Intn(len(rs) - 1)
			rs[i], rs[i+1] = rs[i+1], rs[i]
		}
	case 4: // duplicate a char
		if len(rs) > 0 {
			i := r.Intn(len(rs))
			rs = append(rs[:i:i], append([]rune{rs[i]}, rs[i:]...)...)
		}
	}
	return string(rs)
}

type langDiff struct {
	subject string
	inA     bool
	inB     bool
}

// compareLanguages searches for a subject string on which the two expressions (full match, same
// global flags) disagree. excluded runes never occur in subjects. Returns nil when none was found.
func compareLanguages(seed int64, textA, textB, flags string, excluded string, budget int) (*langDiff, error) {
	ra, err := compileFull(textA, flags)
	if err != nil {
		return nil, fmt.Errorf("A does not compile: %v", err)
	}
	rb, err := compileFull(textB, flags)
	if err != nil {
		return nil, fmt.Errorf("B does not compile: %v", err)
	}
	pflags := syntax.Perl
	if strings.Contains(flags, "i") {
		pflags |= syntax.FoldCase
	}
	if strings.Contains(flags, "s") {
		pflags |= syntax.DotNL
	}
	sa, err := syntax.Parse(textA, pflags)
	if err != nil {
		return nil, err
	}
	sb, err := syntax.Parse(textB, pflags)
	if err != nil {
		return nil, err
	}
	r := rand.New(rand.NewSource(seed))
	set := map[rune]bool{'a': true, 'b': true, ' ': true, '\n': true, '0': true, 'Z': true, '"': true, '\\': true, '\t': true, 0x0c: true, '!': true, '~': true, 0x1f: true, 0x0e: true}
	alphabetOf(sa, set)
	alphabetOf(sb, set)
	var alpha []rune
	for c := range set {
		if !strings.ContainsRune(excluded, c) && utf8.ValidRune(c) {
			alpha = append(alpha, c)
		}
	}
	sort.Slice(alpha, func(i, j int) bool { return alpha[i] < alpha[j] })
	tried := map[string]bool{}
	check := func(s string) *langDiff {
		if strings.ContainsAny(s, excluded) && excluded != "" {
			return nil
		}
		if tried[s] {
			return nil
		}
		tried[s] = true
		ia, ib := ra.MatchString(s), rb.MatchString(s)
		if ia != ib {
			return &langDiff{s, ia, ib}
		}
		return nil
	}
	if d := check(""); d != nil {
		return d, nil
	}
	// short strings over a small alphabet, exhaustively up to length 2 (3 when the alphabet is small)
	small := alpha
	if len(small) > 14 {
		small = small[:14]
	}
	for _, c := range alpha {
		if d := check(string(c)); d != nil {
			return d, nil
		}
	}
	for _, c := range small {
		for _, e := range small {
			if d := check(string([]rune{c, e})); d != nil {
				return d, nil
			}
		}
	}
	for i := 0; i < budget; i++ {
		var s string
		if i%2 == 0 {
			s = sampleFrom(r, sa, 0)
		} else {
			s = sampleFrom(r, sb, 0)
		}
		if d := check(s); d != nil {
			return d, nil
		}
		m := s
		for k := 0; k < 3; k++ {
			m = mutate(r, m, alpha)
			if d := check(m); d != nil {
				return d, nil
			}
		}
	}
	return nil, nil
}
