package main

import (
	"bytes"
	"fmt"
	"math/rand"
	"os"
	"path/filepath"
	"regexp"
	"regexp/syntax"
	"strings"
)

func sampleOfPattern(r *rand.Rand, pat string) (string, bool) {
	if pat == "" {
		return "", true
	}
	re, err := syntax.Parse(pat, syntax.Perl)
	if err != nil {
		return "", false
	}
	return sampleFrom(r, re, 0), true
}

// args: shell ("unix"/"windows"), word, wrapKind, cfg x6
func oracleC04(p *Pair, env *Env, a [][]byte) *Failure { return oracleC04Styled(p, env, "", a) }

// the same membership question with the configuration file written in another spelling (args: style, then as above)
func oracleC04Yaml(p *Pair, env *Env, a [][]byte) *Failure {
	return oracleC04Styled(p, env, string(a[0]), a[1:])
}

func oracleC04Styled(p *Pair, env *Env, style string, a [][]byte) *Failure {
	shell, word, wrap := string(a[0]), string(a[1]), string(a[2])
	cfg := a[3:9]
	fileCfg := cfg
	switch style {
	case "absent", "empty-file", "malformed":
		// "a missing or unreadable file, where nothing is inserted"
		cfg = [][]byte{{}, {}, {}, {}, {}, {}}
	case "alias":
		// the file writes each windows pattern as an alias of the unix one
		cfg = [][]byte{cfg[0], cfg[1], cfg[2], cfg[0], cfg[1], cfg[2]}
	}
	ev, suf, ns := string(cfg[0]), string(cfg[1]), string(cfg[2])
	if shell == "windows" {
		ev, suf, ns = string(cfg[3]), string(cfg[4]), string(cfg[5])
	}
	var prog string
	switch wrap {
	case "alone":
		prog = "##!> cmdline " + shell + "\n" + word + "\n##!<\n"
	case "mixed":
		prog = "##!> cmdline " + shell + "\nzzz\n" + word + "\nqq@\n##!<\nother\n"
	default: // nested in an assemble block with a following segment
		prog = "##!> assemble\n##!> cmdline " + shell + "\n" + word + "\nzz\n##!<\n##!=>\n;\n##!<\n"
	}
	args := append(append([][]byte{}, cfg...), []byte(prog))
	g := Result{}
	if style == "" {
		g = p.Impl(Op{"gen.run", args}, env.timeout)
	} else {
		g = p.Impl(Op{"gen.runYaml", append(append([][]byte{[]byte(style)}, fileCfg...), []byte(prog))}, env.timeout)
	}
	if g.Status != "ok" {
		return &Failure{What: "cmdline block with a listed command word does not compile", Detail: fmt.Sprintf("%q cfg %q: %s", prog, cfg, g.String())}
	}
	re, err := regexp.Compile(`\A(?:` + string(g.Out[0]) + `)\z`)
	if err != nil {
		return &Failure{What: "output does not compile", Detail: err.Error()}
	}
	tail := ""
	if wrap == "nested" {
		tail = ";"
	}
	r := rand.New(rand.NewSource(int64(len(word))*31 + int64(len(g.Out[0]))))
	// decompose the word as the property describes it
	w := word
	if strings.HasPrefix(w, "'") {
		// "a leading `'` passes the rest of the line through untouched": alone in its block, the line compiles to what
		// the rest of the line compiles to as an ordinary entry (other embeddings: C01's language oracle)
		if wrap != "alone" || len(w) < 2 {
			return nil
		}
		plain := p.Impl(Op{"gen.run", append(append([][]byte{}, cfg...), []byte(w[1:]+"\n"))}, env.timeout)
		if plain.Status == "ok" && !bytes.Equal(plain.Out[0], g.Out[0]) {
			return &Failure{What: "a verbatim cmdline line (leading `'`) is not passed through untouched",
				Detail: fmt.Sprintf("block %q gives %q; the entry %q alone gives %q", prog, g.Out[0], w[1:], plain.Out[0])}
		}
		return nil
	}
	demand := ""
	if len(w) >= 2 {
		last := w[len(w)-1]
		nb := 0
		for i := len(w) - 2; i >= 0 && w[i] == '\\'; i-- {
			nb++
		}
		if nb%2 == 1 {
			w = w[:len(w)-2] + string(last)
		} else if last == '@' {
			w, demand = w[:len(w)-1], suf
		} else if last == '~' {
			w, demand = w[:len(w)-1], ns
		}
	}
	for trial := 0; trial < 12; trial++ {
		var sb strings.Builder
		for i := 0; i < len(w); i++ {
			if i > 0 && trial > 0 {
				e, okE := sampleOfPattern(r, ev)
				if !okE {
					return nil
				}
				sb.WriteString(e)
			}
			if w[i] == ' ' {
				sb.WriteString(pick(r, []string{" ", "  ", "\t", " \t"}))
			} else {
				sb.WriteByte(w[i])
			}
		}
		if demand != "" {
			if trial > 0 {
				e, _ := sampleOfPattern(r, ev)
				sb.WriteString(e)
			}
			s, okS := sampleOfPattern(r, demand)
			if !okS {
				return nil
			}
			sb.WriteString(s)
		}
		variant := sb.String() + tail
		if strings.ContainsAny(variant, "\n") {
			continue
		}
		// trial 0 is the word itself; it is accepted when the evasion pattern accepts the empty string
		if trial == 0 && ev != "" {
			if m, _ := regexp.MatchString(`\A(?:`+ev+`)\z`, ""); !m {
				continue
			}
		}
		if !re.MatchString(variant) {
			return &Failure{What: "generated regex does not match a listed command (with anti-evasion text interleaved)",
				Detail: fmt.Sprintf("block %q\nconfiguration %q\noutput %q\nvariant %q is not matched", prog, cfg, g.Out[0], variant)}
		}
	}
	return nil
}

// the configuration file is the one named by -f / --configuration (relative to regex-assembly), toolchain.yaml by
// default, and a name that does not exist means no patterns. args: cfg A x6, cfg B x6, program
func oracleC04CfgFlag(p *Pair, env *Env, a [][]byte) *Failure {
	cfgA, cfgB, prog := a[0:6], a[6:12], a[12]
	none := [][]byte{{}, {}, {}, {}, {}, {}}
	sb := mkSandbox(env)
	defer os.RemoveAll(sb)
	t := Tree{"regex-assembly/include/": nil, "regex-assembly/exclude/": nil,
		"regex-assembly/toolchain.yaml": []byte(toolchainYaml(cfgA)), "regex-assembly/other.yaml": []byte(toolchainYaml(cfgB)), "conf/third.yaml": []byte(toolchainYaml(cfgB))}
	_ = t.write(sb)
	// a configuration file behind a symbolic link (relative and absolute) is the file it points to
	_ = os.Symlink(filepath.Join("..", "conf", "third.yaml"), filepath.Join(sb, "regex-assembly", "linked.yaml"))
	_ = os.Symlink(filepath.Join(sb, "conf", "third.yaml"), filepath.Join(sb, "regex-assembly", "abslinked.yaml"))
	for _, v := range []struct {
		flags []string
		cfg   [][]byte
	}{{nil, cfgA}, {[]string{"-f", "linked.yaml"}, cfgB}, {[]string{"-f", "abslinked.yaml"}, cfgB}, {[]string{"-f", "other.yaml"}, cfgB}, {[]string{"--configuration", "other.yaml"}, cfgB}, {[]string{"-f", "../conf/third.yaml"}, cfgB},
		{[]string{"-f", "toolchain.yaml"}, cfgA}, {[]string{"-f", "nosuch.yaml"}, none}} {
		want := p.Impl(Op{"gen.run", append(append([][]byte{}, v.cfg...), prog)}, env.timeout)
		if want.Status != "ok" {
			continue
		}
		args := append(append([]string{"-l", "disabled"}, v.flags...), "regex", "generate", "-")
		c := runCLI(env, sb, prog, args...)
		if c.exit != 0 || !bytes.Equal(c.stdout, want.Out[0]) {
			return &Failure{What: "generate does not use the patterns of the configuration file it was pointed to",
				Detail: fmt.Sprintf("flags %v\nprogram %q\nexpected (patterns %q) %q\nbinary exit %d %q", v.flags, prog, v.cfg, want.Out[0], c.exit, c.stdout)}
		}
	}
	return nil
}

func genC04(r *rand.Rand, tier string, env *Env) []Case {
	n := 300
	if tier == "thorough" {
		n = 6000
	}
	var cases []Case
	for i := 0; i < n; i++ {
		shell := pick(r, []string{"unix", "windows"})
		w := randFrom(r, "abcxyz019._- ", 1, 7)
		w = strings.TrimSpace(w)
		if w == "" {
			w = "ls"
		}
		switch weighted(r, []int{8, 3, 3, 2, 2}) {
		case 1:
			w += "@"
		case 2:
			w += "~"
		case 3:
			w += "\\@"
		case 4:
			w += "\\~"
		}
		if chance(r, 0.3) {
			w = genCmdWord(r)
		}
		cfg := pick(r, cfgMenu)
		var cb [][]byte
		for _, c := range cfg {
			cb = append(cb, []byte(c))
		}
		pat := cfg[0:3]
		if shell == "windows" {
			pat = cfg[3:6]
		}
		sh := "u"
		if shell == "windows" {
			sh = "w"
		}
		if i%25 == 7 {
			// outside the property's alphabet, inside the tie's: the code re-encodes every byte ≥ 0x80 as a code point
			nw := pick(r, []string{"é", "\xff", "\u0085", "\u00a0", "ü", "\xc3"}) + w + pick(r, []string{"", "é", "\x80@", "\u2003~"})
			cases = append(cases, Case{Kind: "cmd-word-nonascii", Ops: []Op{{"cmdline.regexpStr", [][]byte{[]byte(sh), []byte(pat[0]), []byte(pat[1]), []byte(pat[2]), []byte(nw)}}}})
		}
		args := append([][]byte{[]byte(shell), []byte(w), []byte(pick(r, []string{"alone", "mixed", "nested"}))}, cb...)
		cases = append(cases, Case{Kind: "cmd-word",
			Ops:     []Op{{"cmdline.regexpStr", [][]byte{[]byte(sh), []byte(pat[0]), []byte(pat[1]), []byte(pat[2]), []byte(w)}}},
			Oracles: []Op{{"c04.member", args}}})
	}
	// verbatim lines, fixed: the marker is ONE leading apostrophe, whatever follows it (more apostrophes, the other
	// markers, blanks, escapes) is the entry
	for _, rest := range []string{"ls", "'ls", "''?cat", "'", "'+id", "'@", "' x", "@", "~", "\\@", "a b", "a ", "\\'", "'\\''", "x'", "[']+"} {
		for _, shell := range []string{"unix", "windows"} {
			cfg := cfgMenu[(len(rest)+len(shell))%len(cfgMenu)]
			var cb [][]byte
			for _, c := range cfg {
				cb = append(cb, []byte(c))
			}
			pat, sh := cfg[0:3], "u"
			if shell == "windows" {
				pat, sh = cfg[3:6], "w"
			}
			w := "'" + rest
			args := append([][]byte{[]byte(shell), []byte(w), []byte("alone")}, cb...)
			cases = append(cases, Case{Kind: "verbatim-line",
				Ops:     []Op{{"cmdline.regexpStr", [][]byte{[]byte(sh), []byte(pat[0]), []byte(pat[1]), []byte(pat[2]), []byte(w)}}},
				Oracles: []Op{{"c04.member", args}}})
		}
	}
	// every configuration of the menu (incl. those with exactly one pattern of a shell defined) with every marker kind
	for _, cfg := range cfgMenu {
		for _, shell := range []string{"unix", "windows"} {
			var cb [][]byte
			for _, c := range cfg {
				cb = append(cb, []byte(c))
			}
			pat, sh := cfg[0:3], "u"
			if shell == "windows" {
				pat, sh = cfg[3:6], "w"
			}
			for _, w := range []string{"python@", "more~", "nc -l", "x\\@", "y\\~"} {
				args := append([][]byte{[]byte(shell), []byte(w), []byte("alone")}, cb...)
				cases = append(cases, Case{Kind: "cmd-word-each-config",
					Ops:     []Op{{"cmdline.regexpStr", [][]byte{[]byte(sh), []byte(pat[0]), []byte(pat[1]), []byte(pat[2]), []byte(w)}}},
					Oracles: []Op{{"c04.member", args}}})
			}
		}
	}
	// whole programs with cmdline blocks: language equality with the plain reading (shared with C01)
	m := n / 3
	for i := 0; i < m; i++ {
		o := wellFormedEntryOpts()
		o.includes, o.defs = false, false
		p := genProgram(r, o)
		if p.Kinds["cmdline-block"] == 0 {
			continue
		}
		cases = append(cases, Case{Kind: "program-with-cmdline", Ops: []Op{p.genOp()}, Oracles: []Op{{"c04.language", p.genOp().Args}}})
	}
	// the configuration file in other spellings (partial, padded, empty, malformed, absent): the loader's side of
	// "whatever patterns toolchain.yaml defines, including a missing or unreadable file"
	nY := 30
	if tier == "thorough" {
		nY = 400
	}
	for i := 0; i < nY; i++ {
		cfg := pick(r, cfgMenu)
		var cb [][]byte
		for _, c := range cfg {
			cb = append(cb, []byte(c))
		}
		style := []string{"omit-empty", "padded", "empty-file", "malformed", "absent", "case-keys", "alias", "case-keys", "alias", "padded"}[i%10]
		shell := pick(r, []string{"unix", "windows"})
		w := genCmdWord(r)
		prog := "##!> cmdline " + shell + "\n" + w + "\n" + pick(r, []string{"ls@", "cat~", "a b", "x.y-z"}) + "\n##!<\n"
		args := append(append([][]byte{[]byte(style)}, cb...), []byte(prog))
		margs := append([][]byte{[]byte(style), []byte(shell), []byte(w), []byte(pick(r, []string{"alone", "mixed", "nested"}))}, cb...)
		cases = append(cases, Case{Kind: "yaml-style:" + style, Ops: []Op{{"gen.runYaml", args}}, Oracles: []Op{{"c04.memberYaml", margs}}})
	}
	// which file is the configuration file: -f / --configuration, default, missing
	nF := 4
	if tier == "thorough" {
		nF = 40
	}
	for i := 0; i < nF; i++ {
		var ab [][]byte
		ca, cb := pick(r, cfgMenu), pick(r, cfgMenu)
		for _, c := range ca {
			ab = append(ab, []byte(c))
		}
		for _, c := range cb {
			ab = append(ab, []byte(c))
		}
		prog := "##!> cmdline " + pick(r, []string{"unix", "windows"}) + "\n" + genCmdWord(r) + "\nls@\ncat~\n##!<\n"
		cases = append(cases, Case{Kind: "configuration-flag", Oracles: []Op{{"c04.cfgflag", append(ab, []byte(prog))}}})
	}
	return cases
}

func init() {
	oracles["c04.cfgflag"] = oracleC04CfgFlag
	oracles["c04.member"] = oracleC04
	oracles["c04.memberYaml"] = oracleC04Yaml
	// language equality with the plain reading; failures that fall under a finding recorded for C01 (engine
	// defects unrelated to cmdline blocks) are C01's business and are not counted here
	oracles["c04.language"] = func(p *Pair, env *Env, a [][]byte) *Failure {
		f := oracleC01(p, env, a)
		if f != nil && f.Finding != "" {
			if _, listed := listedFindings("C01")[f.Finding]; listed {
				return nil
			}
		}
		return f
	}
	properties["C04"] = &Property{
		ID: "C04", LeanMods: []string{"CrsProps.C04"},
		Corr:   "K4 (CmdLine.regexpStr/computeSuffix vs Crs.Asm.regexpStr, four configuration classes incl. absent file), K5",
		Rule:   "command words over letters, digits, `.`, `-`, `_`, space with optional @, ~, \\@, \\~ in unix and windows blocks, alone / mixed with other words / nested in an assemble block, five configurations (absent, CRS-like, partial); for each word the word itself and 11 variants with evasion strings drawn from the configured pattern's own syntax tree must be matched; plus programs with cmdline blocks compared with the plain reading; non-trivial = every word; distinct by (word, shell, configuration, placement)",
		Gen:    genC04,
		Assume: []string{"configured patterns are closed expressions (no top-level alternation, no inline flags): they are pasted as text by design"},
	}
}
