package main

import (
	"fmt"
	"math/rand"
	"strings"
)

// genDirectiveLine produces lines around the directive grammar: members, near-misses and
// boundary mutants of every pattern in regex/definitions.go (pattern-directed generation).
func genDirectiveLine(r *rand.Rand) string {
	ws := func() string {
		return pick(r, []string{" ", " ", " ", "  ", "\t", "", "", " \t ", "\f", "\r", "\v", " ", "   "})
	}
	ws1 := func() string {
		return pick(r, []string{" ", " ", "  ", "\t", " \t", "\f", "", "   ", "    ", "     ", " \t  \t "})
	}
	token := func() string {
		return pick(r, []string{"foo", "bar", "a--b", "--", "-", "x.ra", "unix-shell", "x_y-z", "é", "a--", "--a", "a---b", "{{x}}", "\"\"", "@", "~", "b", "i", "s", "is", "x", "unix", "windows",
			"[a-z]+", "(?:a|b)", "\\s", "name1", "v",
			// text that means something to a printf-style formatter and nothing to a directive
			"%20", "(?:%20|\\s)", "%s", "%2[0f]", "%%", "100%", "%!d(x)", "%v%d"})
	}
	tokens := func(n int) string {
		var sb strings.Builder
		for i := 0; i < n; i++ {
			if i > 0 {
				sb.WriteString(ws1())
			}
			sb.WriteString(token())
		}
		return sb.String()
	}
	lead := pick(r, []string{"", "", "", "", " ", "\t", "  ", "\r", "\f", " ", "", "", " ", "\v", "\u00a0", " \f", "\t\v", "\u3000", "\u0085", "  \u00a0 "})
	switch weighted(r, []int{6, 6, 5, 5, 6, 4, 4, 4, 6, 5, 4}) {
	case 0: // include
		s := lead + "##!>" + ws() + pick(r, []string{"include", "include", "include", "includes", "incl", "Include"}) + ws1() + tokens(1+r.Intn(2))
		if chance(r, 0.6) {
			s += ws() + pick(r, []string{"--", "--", "-", "---", "-- --"}) + ws() + tokens(r.Intn(5))
		}
		return s + ws()
	case 1: // include-except
		s := lead + "##!>" + ws() + pick(r, []string{"include-except", "include-except", "include-excep", "include-exceptx", "include -except"}) + ws1() + tokens(r.Intn(4))
		if chance(r, 0.5) {
			s += ws() + pick(r, []string{"--", "--", "-", "---"}) + ws() + tokens(r.Intn(5))
		}
		return s + ws()
	case 2: // define
		return lead + "##!>" + ws() + pick(r, []string{"define", "define", "defines", "defin"}) + ws1() + pick(r, []string{"name", "a-b_c", "N1", "bad.name", "é", ""}) + ws1() + tokens(r.Intn(3)) + ws()
	case 3: // block start
		return lead + "##!>" + ws() + pick(r, []string{"assemble", "cmdline", "assemble", "cmdline", "assemblefoo", "cmdlines", "assembl", "other"}) + pick(r, []string{"", "", ws1() + tokens(1), ws1() + tokens(2), ws1()}) + ws()
	case 4: // flags / prefix / suffix
		return lead + "##!" + pick(r, []string{"+", "^", "$", "+", "^", "$"}) + ws() + pick(r, []string{"i", "s", "is", "si", "i s", "x", "", tokens(1), tokens(2), "a  b", "I"}) + ws()
	case 5: // block end
		return lead + "##!<" + pick(r, []string{"", "", " ", " foo", "<", "\r"})
	case 6: // assemble input/output
		return lead + pick(r, []string{"##!=>", "##!=<", "##!=>", "##!=<", "##!=", "##! =>"}) + ws() + pick(r, []string{"", "name", "name ", "a b", "  x", tokens(1)})
	case 7: // comments and comment look-alikes
		return lead + "##!" + pick(r, []string{"", " comment", " ##!> include foo", "! x", "-", "\t", " ##!+ i", "#", " x ##!> include-except a b"})
	case 8: // plain entries
		return lead + pick(r, []string{tokens(1), tokens(2), "foo@", "bar~", "a\\@", "ls", "cat /etc/passwd", "'verbatim", "##", "#!", "##!x", "x ##!> include y", "a|b", "(?i)x", "[A-Z]", "\\(?i:x"})
	case 9: // blank-ish
		return pick(r, []string{"", " ", "\t", "  \t ", " ", "\v", "\f", "\r", "　", "\x85", "\xc2\x85"})
	default: // the standard header and pieces of it
		return pick(r, []string{"##! Please refer to the documentation at", "##! https://coreruleset.org/docs/development/regex_assembly/.",
			"##! Please refer to the documentation at ", " ##! https://coreruleset.org/docs/development/regex_assembly/."})
	}
}

// genRaBytes produces the contents of a regex-assembly file as arbitrary line material.
func genRaBytes(r *rand.Rand, maxLines int) string {
	n := r.Intn(maxLines + 1)
	var lines []string
	if chance(r, 0.35) {
		lines = append(lines, "##! Please refer to the documentation at", "##! https://coreruleset.org/docs/development/regex_assembly/.")
		if chance(r, 0.8) {
			lines = append(lines, "")
		}
	}
	for i := 0; i < n; i++ {
		lines = append(lines, genDirectiveLine(r))
	}
	if chance(r, 0.3) {
		for k := r.Intn(3); k >= 0; k-- {
			lines = append(lines, pick(r, []string{"", "", " ", "\t"}))
		}
	}
	out := joinLines(r, lines, 0.15, chance(r, 0.8))
	if chance(r, 0.06) {
		out = "\ufeff" + out // a byte order mark: three bytes of the first line, for the compiler and the formatter alike
	}
	return out
}

// genBigRa: a well-formed but untidy assembly file of 5 KiB … 80 KiB — more than one buffer-full of every reader and
// writer on the way (bufio's 4096 bytes, the scanner's initial buffer) — made of top-level comments and entries with a
// few balanced blocks in between; size-dependent faults (a slice of a reused buffer kept, a write into the array still
// being read) need nothing else to show.
func genBigRa(r *rand.Rand) string {
	n := 300 + r.Intn(1500)
	var lines []string
	if chance(r, 0.5) {
		lines = append(lines, "##! Please refer to the documentation at", "##! https://coreruleset.org/docs/development/regex_assembly/.", "")
	}
	for i := 0; i < n; i++ {
		switch r.Intn(12) {
		case 0:
			lines = append(lines, indent(r)+"##!> assemble", indent(r)+fmt.Sprintf("inner%d", i), indent(r)+"##!=>", indent(r)+fmt.Sprintf("tail%d[a-z]+", i), indent(r)+"##!<")
		case 1:
			lines = append(lines, indent(r)+fmt.Sprintf("##! note %d about the next entry", i))
		case 2:
			lines = append(lines, indent(r)+"##!>   include   words"+fmt.Sprint(i%7)+pick(r, []string{"", "  --  @  ~", " -- a b   c d", " -- @ (?:%20|\\s) ~ %2[0f]"}))
		case 3:
			lines = append(lines, "")
		default:
			lines = append(lines, indent(r)+fmt.Sprintf("entry%d%s", i, pick(r, []string{"", "\\s+x", "(?:a|b)", "[0-9]{2,3}", "  ", "\t"})))
		}
	}
	return joinLines(r, lines, 0.1, chance(r, 0.85))
}
