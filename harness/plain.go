package main

import (
	"errors"
	"regexp"
	"strings"
)

// The plain reading of a (parsed, flat) regex-assembly program: the naive, unoptimised regular
// expression the file describes (C01/C04). Written independently of the toolchain's processors:
// no Join, no group surgery — alternation of entries, concatenation at markers, stored
// expressions substituted, nested blocks as single units, command words interleaved.

type plainEval struct {
	alts  [][]string // every list of alternatives that the program alternates (for engine-defect attribution)
	stash map[string]string
	cfg   [][]byte // unix: ev, suffix, nospace; windows: ev, suffix, nospace
	lines []string
	pos   int
}

var (
	reBlockStart = regexp.MustCompile(`^##!>\s*([a-z]+)(?:\s+([a-z]+))?`)
	reStore      = regexp.MustCompile(`^\s*##!=<\s*(.*)$`)
	reMark       = regexp.MustCompile(`^\s*##!=>\s*(.*)$`)
)

func group(s string) string { return "(?:" + s + ")" }

func (pe *plainEval) assembleBlock(top bool) (string, bool, error) {
	acc := ""
	var cur []string
	flush := func() {
		if len(cur) > 0 {
			acc += group(strings.Join(cur, "|"))
			pe.alts = append(pe.alts, cur)
			cur = nil
		}
	}
	for pe.pos < len(pe.lines) {
		l := pe.lines[pe.pos]
		pe.pos++
		if m := reBlockStart.FindStringSubmatch(l); m != nil {
			switch m[1] {
			case "assemble":
				res, has, err := pe.assembleBlock(false)
				if err != nil {
					return "", false, err
				}
				if has {
					cur = append(cur, res)
				}
			case "cmdline":
				res, err := pe.cmdlineBlock(m[2])
				if err != nil {
					return "", false, err
				}
				cur = append(cur, res)
			default:
				return "", false, errors.New("unknown processor")
			}
			continue
		}
		if strings.HasPrefix(l, "##!<") {
			if top {
				return "", false, errors.New("unbalanced end marker")
			}
			flush()
			return group(acc), acc != "", nil
		}
		if m := reStore.FindStringSubmatch(l); m != nil {
			if m[1] == "" {
				return "", false, errors.New("store without name")
			}
			flush()
			pe.stash[m[1]] = acc
			acc = ""
			continue
		}
		if m := reMark.FindStringSubmatch(l); m != nil {
			flush()
			if m[1] != "" {
				st, found := pe.stash[m[1]]
				if !found {
					return "", false, errors.New("unknown stored name")
				}
				acc += st
			}
			continue
		}
		cur = append(cur, l)
	}
	if !top {
		return "", false, errors.New("missing end marker")
	}
	flush()
	return group(acc), acc != "", nil
}

func (pe *plainEval) cmdlineBlock(shell string) (string, error) {
	var ev, suf, ns string
	switch shell {
	case "unix":
		ev, suf, ns = string(pe.cfg[0]), string(pe.cfg[1]), string(pe.cfg[2])
	case "windows":
		ev, suf, ns = string(pe.cfg[3]), string(pe.cfg[4]), string(pe.cfg[5])
	default:
		return "", errors.New("bad cmdline type")
	}
	var alts []string
	for pe.pos < len(pe.lines) {
		l := pe.lines[pe.pos]
		pe.pos++
		if m := reBlockStart.FindStringSubmatch(l); m != nil {
			switch m[1] {
			case "assemble":
				res, has, err := pe.assembleBlock(false)
				if err != nil {
					return "", err
				}
				if has {
					alts = append(alts, res)
				}
			case "cmdline":
				res, err := pe.cmdlineBlock(m[2])
				if err != nil {
					return "", err
				}
				alts = append(alts, res)
			default:
				return "", errors.New("unknown processor")
			}
			continue
		}
		if strings.HasPrefix(l, "##!<") {
			pe.alts = append(pe.alts, alts)
			return group(strings.Join(alts, "|")), nil
		}
		if l == "" {
			continue
		}
		alts = append(alts, plainWord(l, ev, suf, ns))
	}
	return "", errors.New("missing end marker")
}

// plainWord: c1 E c2 E … cn [E S], written with explicit groups around the configured patterns.
func plainWord(w, ev, suf, ns string) string {
	if strings.HasPrefix(w, "'") {
		return w[1:]
	}
	suffix := ""
	if len(w) >= 2 {
		last := w[len(w)-1]
		// escaped marker: odd number of backslashes before the last character
		n := 0
		for i := len(w) - 2; i >= 0 && w[i] == '\\'; i-- {
			n++
		}
		if n%2 == 1 {
			w = w[:len(w)-2] + string(last)
		} else if last == '@' {
			suffix, w = suf, w[:len(w)-1]
			if suffix == "" {
				suffix = "\x00none"
			}
		} else if last == '~' {
			suffix, w = ns, w[:len(w)-1]
			if suffix == "" {
				suffix = "\x00none"
			}
		}
	}
	var sb strings.Builder
	for i := 0; i < len(w); i++ {
		if i > 0 && ev != "" {
			sb.WriteString(group(ev))
		}
		switch w[i] {
		case '.':
			sb.WriteString(`\.`)
		case '-':
			sb.WriteString(`\-`)
		case ' ':
			sb.WriteString(`\s+`)
		default:
			sb.WriteByte(w[i])
		}
	}
	if suffix != "" && suffix != "\x00none" {
		if ev != "" {
			sb.WriteString(group(ev))
		}
		sb.WriteString(group(suffix))
	}
	return sb.String()
}

// plainReading returns the naive regular expression of the flat program.
func plainReading(flat string, prefixes, suffixes []string, cfg [][]byte) (string, error) {
	t, _, err := plainReadingAlts(flat, prefixes, suffixes, cfg)
	return t, err
}

func plainReadingAlts(flat string, prefixes, suffixes []string, cfg [][]byte) (string, [][]string, error) {
	lines := strings.Split(strings.TrimSuffix(flat, "\n"), "\n")
	if flat == "" {
		lines = nil
	}
	pe := &plainEval{stash: map[string]string{}, cfg: cfg, lines: lines}
	body, has, err := pe.assembleBlock(true)
	if err != nil {
		return "", nil, err
	}
	if !has {
		body = ""
	}
	text := strings.Join(prefixes, "") + body + strings.Join(suffixes, "")
	return text, pe.alts, nil
}
