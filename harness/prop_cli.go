package main

import (
	"bytes"
	"encoding/json"
	"fmt"
	"math/rand"
	"os"
	"path/filepath"
	"regexp"
	"sort"
	"strings"
)

// CLI-level properties (C08, C15, C16, C17, C18): the freshly built binary on generated CRS trees.
// A tree travels through the oracle interface as JSON (path -> bytes).

func encodeTree(t Tree) []byte {
	m := map[string]string{}
	for k, v := range t {
		m[k] = string(v)
	}
	b, _ := json.Marshal(m)
	return b
}

func decodeTree(b []byte) Tree {
	m := map[string]string{}
	_ = json.Unmarshal(b, &m)
	t := Tree{}
	for k, v := range m {
		if strings.HasSuffix(k, "/") {
			t[k] = nil
		} else {
			t[k] = []byte(v)
		}
	}
	return t
}

func fields(b []byte) []string { return strings.Split(string(b), "\x00") }

// ---- C15: who may write what ---------------------------------------------------------------

var reTestFile = regexp.MustCompile(`^tests/regression/tests/.*/\d{6}\.ya?ml$`)
var reRaFile = regexp.MustCompile(`^regex-assembly/.*\.ra$`)
var reConf = regexp.MustCompile(`\.(conf|example)$`)

// allowed(path) for a command line
func writeSetOf(argv []string) func(path string) bool {
	joined := strings.Join(argv, " ")
	check := strings.Contains(joined, " -c") || strings.Contains(joined, "--check")
	switch {
	case strings.Contains(joined, "regex format") && !check:
		return func(p string) bool { return reRaFile.MatchString(p) }
	case strings.Contains(joined, "regex update"):
		return func(p string) bool { return strings.HasPrefix(p, "rules/REQUEST-") && strings.HasSuffix(p, ".conf") }
	case strings.Contains(joined, "renumber-tests") && !check:
		return func(p string) bool { return reTestFile.MatchString(p) }
	case strings.Contains(joined, "update-copyright"):
		return func(p string) bool { return reConf.MatchString(p) }
	}
	return func(string) bool { return false }
}

// args: tree JSON, argv (NUL separated), cwd mode
func oracleC15(p *Pair, env *Env, a [][]byte) *Failure {
	t := decodeTree(a[0])
	argv := fields(a[1])
	mode := string(a[2])
	sb := mkSandbox(env)
	defer os.RemoveAll(sb)
	rootRel := filepath.Join("outer", "crs")
	if strings.HasSuffix(mode, "+glob") {
		// the root directory has a name that is also a pattern (`cr[s]` matches the name `crs`), and a directory of the
		// matching name with the same tree lies beside it: the name of the root is a name, not a pattern (D31)
		mode = strings.TrimSuffix(mode, "+glob")
		rootRel = filepath.Join("outer", "cr[s]")
		_ = t.write(filepath.Join(sb, "outer", "crs"))
	}
	root := filepath.Join(sb, rootRel)
	_ = t.write(root)
	// things outside the root
	outside := Tree{"outer/other.conf": []byte("# OWASP CRS ver.1.0.0\n"), "outer/x.ra": []byte("  a  \n"), "outer/tests/regression/tests/R/920100.yaml": []byte("  - test_id: 9\n"), "beside/rules/REQUEST-942-X.conf": []byte("SecRule ARGS \"@rx z\" \\\n \"id:942100\"\n"),
		"beside/tests/regression/tests/R/942100.yaml": []byte("  - test_id: 5\n  - test_id: 5\n"), "beside/crs-setup.conf.example": []byte("# OWASP CRS ver.1.0.0\n# Copyright (c) 2021-2022 CRS project. All rights reserved.\n")}
	_ = outside.write(sb)
	if strings.HasSuffix(mode, "+ro") {
		// every file of the tree is read-only (a checkout made so on purpose): a command that only inspects leaves the
		// modes alone as well
		mode = strings.TrimSuffix(mode, "+ro")
		_ = filepath.Walk(root, func(p string, info os.FileInfo, err error) error {
			if err == nil && info.Mode().IsRegular() {
				_ = os.Chmod(p, 0o444)
			}
			return nil
		})
	}
	cwd := root
	full := append([]string{"-l", "disabled"}, argv...)
	switch mode {
	case "d-root":
		cwd = sb
		full = append([]string{"-l", "disabled", "-d", root}, argv...)
	case "d-sub":
		cwd = sb
		full = append([]string{"-l", "disabled", "-d", filepath.Join(root, "regex-assembly", "include")}, argv...)
	case "d-rel":
		cwd = filepath.Join(sb, "outer")
		full = append([]string{"-l", "disabled", "-d", "crs/rules"}, argv...)
	case "d-parent":
		// -d names a directory that is not inside any CRS root (the parent of one): no root resolves, nothing is touched
		cwd = sb
		full = append([]string{"-l", "disabled", "-d", filepath.Join(sb, "outer")}, argv...)
	case "d-beside":
		// … or a sibling with rule and test files of its own
		cwd = root
		full = append([]string{"-l", "disabled", "-d", "../../beside"}, argv...)
	}
	before := snapshot(sb)
	c := runCLI(env, cwd, []byte("foo\nbar\n"), full...)
	if c.timeout {
		return &Failure{What: "command timed out", Detail: strings.Join(full, " ")}
	}
	allowed := writeSetOf(argv)
	for _, d := range diffSnap(before, snapshot(sb)) {
		parts := strings.SplitN(d, " ", 2)
		path := parts[1]
		rel, err := filepath.Rel(rootRel, path)
		if err != nil || strings.HasPrefix(rel, "..") {
			return &Failure{What: "a command touched something outside the resolved CRS root", Detail: fmt.Sprintf("%s: %s", strings.Join(full, " "), d)}
		}
		if parts[0] != "changed" || !allowed(rel) {
			return &Failure{What: "a command wrote outside its target set", Detail: fmt.Sprintf("%s: %s (exit %d)", strings.Join(full, " "), d, c.exit)}
		}
	}
	return nil
}

func genC15(r *rand.Rand, tier string, env *Env) []Case {
	n := 14
	if tier == "thorough" {
		n = 150
	}
	var cases []Case
	for i := 0; i < n; i++ {
		ct := genCRSTree(r, 1+r.Intn(4))
		if i%4 == 3 {
			addAmbiguousRulesCopy(ct)
		}
		ra := pick(r, ct.ra)
		// give the formatter and the renumberer something to change
		cmds := [][]string{
			{"regex", "generate", ra.arg}, {"regex", "generate", "-"}, {"regex", "compare", ra.arg}, {"regex", "compare", "-a"}, {"-o", "github", "regex", "compare", "-a"},
			{"regex", "format", "-c", ra.arg}, {"regex", "format", "-c", "-a"}, {"-o", "github", "regex", "format", "-a", "-c"},
			{"util", "renumber-tests", "-c", ra.id}, {"util", "renumber-tests", "-c", "-a"}, {"--version"}, {"completion", "bash"},
			{"regex", "format", ra.arg}, {"regex", "format", "-a"}, {"regex", "update", ra.arg}, {"regex", "update", "-a"},
			{"util", "renumber-tests", ra.id}, {"util", "renumber-tests", "-a"}, {"chore", "update-copyright", "-v", "4.5.0", "-y", "2031"},
		}
		if len(ct.incl) > 0 {
			cmds = append(cmds, []string{"regex", "format", ct.incl[0]})
		}
		// arguments with path elements: format stays with .ra files under regex-assembly, inside the root (D29)
		var conf string
		for path := range ct.t {
			if strings.HasPrefix(path, "rules/") && strings.HasSuffix(path, ".conf") && (conf == "" || path < conf) {
				conf = path
			}
		}
		cmds = append(cmds, []string{"regex", "format", "../../../x.ra"}, []string{"regex", "format", "../../" + conf}, []string{"regex", "format", "../notes.txt"},
			[]string{"regex", "format", "readme.md"}, []string{"regex", "format", "../" + ra.arg + ".ra"}, []string{"regex", "format", "-c", "../../../x.ra"})
		// … and renumber-tests with the test files of its tests directory (D30): the sandbox has misnumbered test files
		// outside the root (`beside/tests/regression/tests/R/942100.yaml`, reached with five `..` from the `*` of the
		// pattern) and the tree may have one elsewhere below the root
		cmds = append(cmds, []string{"util", "renumber-tests", "../../../../../../beside/tests/regression/tests/R/942100"},
			[]string{"util", "renumber-tests", "../../../../../tests/regression/tests/R/920100.yaml"},
			[]string{"util", "renumber-tests", "../../../../docs/942999"},
			// a neighbour whose name begins like the directory is not below it
			[]string{"regex", "format", "../../regex-assembly-legacy/942100"}, []string{"regex", "format", "../../regex-assembly-legacy/942100.ra"},
			[]string{"util", "renumber-tests", "../../tests-disabled/REQUEST-942-X/942100"})
		// targets that do not exist: nothing may be created for them
		cmds = append(cmds, []string{"regex", "format", "-c", "999999"}, []string{"regex", "format", "999999"}, []string{"regex", "format", "-c", "nosuchinclude"},
			[]string{"regex", "generate", "999999"}, []string{"regex", "update", "999999"}, []string{"regex", "compare", "999999"},
			[]string{"util", "renumber-tests", "-c", "999999"}, []string{"util", "renumber-tests", "999999"})
		for _, c := range cmds {
			mode := pick(r, []string{"cwd", "cwd", "d-root", "d-sub", "d-rel", "d-parent", "d-beside", "cwd+ro", "d-root+ro", "d-sub+ro", "cwd+glob", "d-root+glob"})
			kind := regexp.MustCompile(`\d{6}(-chain\d+)?|words\d+`).ReplaceAllString(strings.Join(c, " "), "TARGET")
			cases = append(cases, Case{Kind: "cmd:" + kind,
				Oracles: []Op{{"c15.writeset", [][]byte{encodeTree(ct.t), []byte(strings.Join(c, "\x00")), []byte(mode)}}}})
		}
	}
	// the model's predicted tree vs the binary's (K10)
	nt := 10
	if tier == "thorough" {
		nt = 150
	}
	cases = append(cases, genCliTreeCases(r, nt)...)
	cases = append(cases, invocationCases(r, nt/2)...)
	return cases
}

func minInt(a, b int) int {
	if a < b {
		return a
	}
	return b
}

// ---- C16: failures are loud ----------------------------------------------------------------

type fault struct {
	name  string
	apply func(ct *crsTree, ra raFile) // mutate the tree
	cmds  func(ra raFile) [][]string   // commands that must fail
}

// path of the assembly file that carries the fault when it is not the chosen file itself
var faultyPathOf = map[string]func(ra raFile) string{
	"stored-name-of-another-file": func(ra raFile) string { return "LAST" },
	"chain-offset-not-found":      func(ra raFile) string { return "regex-assembly/" + ra.id + "-chain9.ra" },
	"chain-offset-beyond-255":     func(ra raFile) string { return "regex-assembly/" + ra.id + "-chain256.ra" },
}

func faultList() []fault {
	setRa := func(f func(src string) string) func(ct *crsTree, ra raFile) {
		return func(ct *crsTree, ra raFile) { ct.t[ra.path] = []byte(f(string(ct.t[ra.path]))) }
	}
	genCmds := func(ra raFile) [][]string {
		return [][]string{{"regex", "generate", ra.arg}, {"regex", "update", ra.arg}, {"regex", "compare", ra.arg}, {"regex", "update", "-a"}, {"regex", "compare", "-a"}}
	}
	return []fault{
		{"missing-include", setRa(func(s string) string { return s + "##!> include nosuchfile\n" }), genCmds},
		{"missing-include-in-block", setRa(func(s string) string { return s + "##!> assemble\n##!> include nosuchfile\n##!<\n" }), genCmds},
		{"missing-exclusion-file", func(ct *crsTree, ra raFile) {
			ct.t["regex-assembly/include/exwords.ra"] = []byte("foo\nbar\nbaz\n")
			ct.t["regex-assembly/exclude/exskip.ra"] = []byte("bar\n")
			ct.t[ra.path] = append(ct.t[ra.path], []byte("##!> include-except exwords exskip nosuchfile\n")...)
		}, genCmds},
		{"missing-exclusion-file-first", func(ct *crsTree, ra raFile) {
			ct.t["regex-assembly/include/exwords.ra"] = []byte("foo\nbar\nbaz\n")
			ct.t[ra.path] = append(ct.t[ra.path], []byte("##!> assemble\n##!> include-except exwords nosuchfile\n##!<\n")...)
		}, genCmds},
		{"missing-include-except-file", setRa(func(s string) string { return s + "##!> include-except nosuchfile alsonot\n" }), genCmds},
		{"malformed-entry", setRa(func(s string) string { return "a(b\n" + s }), genCmds},
		{"malformed-entry-in-include", func(ct *crsTree, ra raFile) {
			ct.t["regex-assembly/include/broken.ra"] = []byte("x(\n")
			ct.t[ra.path] = append(ct.t[ra.path], []byte("##!> include broken\n")...)
		}, genCmds},
		{"unknown-processor", setRa(func(s string) string { return s + "##!> frobnicate\nx\n##!<\n" }), genCmds},
		{"unknown-cmdline-type", setRa(func(s string) string { return s + "##!> cmdline bsd\nls\n##!<\n" }), genCmds},
		{"cmdline-type-not-lowercase", setRa(func(s string) string { return s + "##!> cmdline Unix\nls\n##!<\n" }), genCmds},
		{"cmdline-type-uppercase", setRa(func(s string) string { return s + "##!> assemble\n##!> cmdline WINDOWS\nls\n##!<\n##!<\n" }), genCmds},
		{"cmdline-type-missing", setRa(func(s string) string { return s + "##!> cmdline\nls\n##!<\n" }), genCmds},
		{"cmdline-type-not-a-word", setRa(func(s string) string { return s + "##!> cmdline 2\nls\n##!<\n##!> cmdline -unix\nls\n##!<\n" }), genCmds},
		{"unbalanced-end", setRa(func(s string) string { return s + "##!<\n" }), func(ra raFile) [][]string {
			return append(genCmds(ra), []string{"regex", "format", ra.arg}, []string{"regex", "format", "-a"}, []string{"regex", "format", "-c", ra.arg})
		}},
		{"missing-end", setRa(func(s string) string { return s + "##!> assemble\nq\n" }), genCmds},
		{"unknown-stored-name", setRa(func(s string) string { return s + "##!=> neverstored\n" }), genCmds},
		{"stored-name-of-another-file", func(ct *crsTree, ra raFile) {
			// the name is stored by the first file of the walk and recalled, without being stored, by the last one
			ras := append([]raFile{}, ct.ra...)
			sort.Slice(ras, func(i, j int) bool { return ras[i].path < ras[j].path })
			first, last := ras[0], ras[len(ras)-1]
			ct.t[first.path] = append(ct.t[first.path], []byte("zz\n##!=< othersname\n##!=> othersname\n")...)
			ct.t[last.path] = append(ct.t[last.path], []byte("##!=> othersname\n")...)
		}, func(ra raFile) [][]string { return [][]string{{"regex", "update", "-a"}, {"regex", "compare", "-a"}} }},
		{"store-without-name", setRa(func(s string) string { return s + "q\n##!=<\n" }), genCmds},
		{"unsupported-flag", setRa(func(s string) string { return "##!+ x\n" + s }), func(ra raFile) [][]string {
			return append(genCmds(ra), []string{"regex", "format", ra.arg})
		}},
		{"unsupported-flag-uppercase", setRa(func(s string) string { return "##!+ I\n" + s }), genCmds},
		{"unsupported-flag-digit", setRa(func(s string) string { return s + "##!+ 1\n" }), genCmds},
		{"unsupported-flag-list", setRa(func(s string) string { return "##!+ i,s\n" + s }), genCmds},
		{"unsupported-flag-among-good", setRa(func(s string) string { return "##!+ iXs\n" + s }), genCmds},
		{"odd-replacement-list", func(ct *crsTree, ra raFile) {
			ct.t["regex-assembly/include/w.ra"] = []byte("a@\n")
			ct.t[ra.path] = append(ct.t[ra.path], []byte("##!> include w -- @\n")...)
		}, func(ra raFile) [][]string { return append(genCmds(ra), []string{"regex", "format", ra.arg}) }},
		{"flags-in-include", func(ct *crsTree, ra raFile) {
			ct.t["regex-assembly/include/fl.ra"] = []byte("##!+ i\na\n")
			ct.t[ra.path] = append(ct.t[ra.path], []byte("##!> include fl\n")...)
		}, genCmds},
		{"rule-id-not-in-rules-file", func(ct *crsTree, ra raFile) {
			p := ct.rules[ra.id[:3]]
			ct.t[p] = bytes.ReplaceAll(ct.t[p], []byte("id:"+ra.id), []byte("id:111111"))
		}, func(ra raFile) [][]string {
			return [][]string{{"regex", "update", ra.arg}, {"regex", "compare", ra.arg}, {"regex", "update", "-a"}, {"regex", "compare", "-a"}}
		}},
		{"chain-offset-not-found", func(ct *crsTree, ra raFile) {
			ct.t["regex-assembly/"+ra.id+"-chain9.ra"] = []byte("x\n")
		}, func(ra raFile) [][]string {
			return [][]string{{"regex", "update", ra.id + "-chain9"}, {"regex", "compare", ra.id + "-chain9"}, {"regex", "update", "-a"}, {"regex", "compare", "-a"}}
		}},
		{"chain-offset-beyond-255", func(ct *crsTree, ra raFile) {
			// the files exist, the offsets do not fit the grammar (0..255): nothing may be read as offset 0 or 1
			ct.t["regex-assembly/"+ra.id+"-chain256.ra"] = []byte("wrapped\n")
			ct.t["regex-assembly/"+ra.id+"-chain257.ra"] = []byte("wrappedtoo\n")
		}, func(ra raFile) [][]string {
			return [][]string{{"regex", "update", ra.id + "-chain256"}, {"regex", "compare", ra.id + "-chain256"}, {"regex", "update", ra.id + "-chain257.ra"}, {"regex", "compare", ra.id + "-chain257"},
				{"regex", "generate", ra.id + "-chain256"}, {"regex", "format", ra.id + "-chain512"}}
		}},
		{"rules-file-missing", func(ct *crsTree, ra raFile) { delete(ct.t, ct.rules[ra.id[:3]]) }, func(ra raFile) [][]string {
			return [][]string{{"regex", "update", ra.arg}, {"regex", "compare", ra.arg}, {"regex", "update", "-a"}, {"regex", "compare", "-a"}}
		}},
		{"rules-file-ambiguous", func(ct *crsTree, ra raFile) {
			p := ct.rules[ra.id[:3]]
			ct.t[strings.Replace(p, "APPLICATION", "SECOND", 1)] = ct.t[p]
		}, func(ra raFile) [][]string {
			return [][]string{{"regex", "update", ra.arg}, {"regex", "compare", ra.arg}, {"regex", "update", "-a"}, {"regex", "compare", "-a"}}
		}},
		{"operand-line-without-rx", func(ct *crsTree, ra raFile) {
			p := ct.rules[ra.id[:3]]
			ct.t[p] = bytes.ReplaceAll(ct.t[p], []byte("\"@rx "), []byte("\"@pm "))
		}, func(ra raFile) [][]string {
			return [][]string{{"regex", "update", ra.arg}, {"regex", "compare", ra.arg}}
		}},
		{"invalid-version", func(ct *crsTree, ra raFile) {}, func(ra raFile) [][]string {
			return [][]string{{"chore", "update-copyright", "-v", "not.a.version", "-y", "2030"}, {"chore", "update-copyright", "-y", "2030"}, {"chore", "update-copyright", "-v", "", "-y", "2030"}}
		}},
		{"invalid-rule-argument", func(ct *crsTree, ra raFile) {}, func(ra raFile) [][]string {
			return [][]string{{"regex", "generate", "94210"}, {"regex", "update", ra.id + "-chain256"}, {"regex", "update", ra.id + "-chainx"}, {"regex", "compare", "9421000"}, {"regex", "generate", ra.id + ".raa"},
				{"regex", "generate"}, {"regex", "update"}, {"regex", "update", ra.arg, "-a"}, {"regex", "format"}, {"regex", "format", "-"}, {"util", "renumber-tests"}, {"util", "renumber-tests", "000000"}}
		}},
		{"assembly-file-missing", func(ct *crsTree, ra raFile) { delete(ct.t, ra.path) }, func(ra raFile) [][]string {
			return [][]string{{"regex", "generate", ra.arg}, {"regex", "update", ra.arg}, {"regex", "compare", ra.arg}, {"regex", "format", ra.arg}}
		}},
	}
}

var reLooksLikeRegex = regexp.MustCompile(`\S`)

// linkAssemblyFiles moves every *.ra file below regex-assembly to <sandbox>-linked/ (beside the tree, so that snapshots of
// the tree see the files through their links only) and leaves a symbolic link in its place
func linkAssemblyFiles(sb string) {
	n := 0
	_ = os.MkdirAll(sb+"-linked", 0o755)
	_ = filepath.Walk(filepath.Join(sb, "regex-assembly"), func(p string, info os.FileInfo, err error) error {
		if err != nil || !info.Mode().IsRegular() || !strings.HasSuffix(p, ".ra") {
			return nil
		}
		n++
		target := filepath.Join(sb+"-linked", fmt.Sprintf("%d.data", n))
		if os.Rename(p, target) == nil {
			_ = os.Symlink(target, p)
		}
		return nil
	})
}

// args: tree JSON (already faulty), argv, names of assembly files in walk order (NUL separated), faulty file path
func oracleC16(p *Pair, env *Env, a [][]byte) *Failure {
	t := decodeTree(a[0])
	argv := fields(a[1])
	faulty := string(a[3])
	sb := mkSandbox(env)
	defer os.RemoveAll(sb)
	_ = t.write(sb)
	if len(a) > 4 && string(a[4]) == "symlink" {
		// every assembly file is a symbolic link to a file kept elsewhere in the checkout: a fault in it is a fault still
		linkAssemblyFiles(sb)
		defer os.RemoveAll(sb + "-linked")
	}
	before := snapshot(sb)
	full := append([]string{"-l", "disabled"}, argv...)
	c := runCLI(env, sb, nil, full...)
	cmdline := strings.Join(argv, " ")
	if c.timeout {
		return &Failure{What: "command hangs on a faulty input", Detail: cmdline}
	}
	if c.exit == 0 {
		return &Failure{What: "a command that could not do what was asked exits with status 0", Detail: fmt.Sprintf("%s\nstdout %q", cmdline, c.stdout)}
	}
	if strings.Contains(cmdline, "generate") && reLooksLikeRegex.Match(c.stdout) {
		return &Failure{What: "generate printed output although it failed", Detail: fmt.Sprintf("%s: %q", cmdline, c.stdout)}
	}
	diff := diffSnap(before, snapshot(sb))
	if len(diff) == 0 {
		return nil
	}
	f := &Failure{What: "a failing command modified files", Detail: fmt.Sprintf("%s (exit %d): %s", cmdline, c.exit, strings.Join(diff, ", "))}
	// D19: --all runs are not atomic: targets of files that precede the faulty one in walk order are already rewritten
	if strings.Contains(cmdline, " -a") && (strings.Contains(cmdline, "regex update") || strings.Contains(cmdline, "regex format")) {
		walk := fields(a[2])
		precede := map[string]bool{}
		for _, w := range walk {
			if w == faulty {
				break
			}
			precede[w] = true
		}
		only := true
		for _, d := range diff {
			path := strings.SplitN(d, " ", 2)[1]
			if !strings.HasPrefix(d, "changed ") {
				only = false
			}
			if strings.Contains(cmdline, "regex format") {
				// format -a keeps going after a failure: any other .ra file may be rewritten, never the faulty one
				if path == faulty || !reRaFile.MatchString(path) {
					only = false
				}
			} else if !(strings.HasPrefix(path, "rules/REQUEST-") && len(precede) > 0) {
				only = false
			}
		}
		if only {
			f.Finding = "D19"
		}
	}
	return f
}

func walkOrder(t Tree) []string {
	var ra []string
	for p := range t {
		if strings.HasPrefix(p, "regex-assembly/") && strings.HasSuffix(p, ".ra") {
			ra = append(ra, p)
		}
	}
	// filepath.WalkDir visits entries of a directory in lexical order, directories depth-first
	sort.Slice(ra, func(i, j int) bool {
		a, b := strings.Split(ra[i], "/"), strings.Split(ra[j], "/")
		for k := 0; k < len(a) && k < len(b); k++ {
			if a[k] != b[k] {
				return a[k] < b[k]
			}
		}
		return len(a) < len(b)
	})
	return ra
}

func genC16(r *rand.Rand, tier string, env *Env) []Case {
	rounds := 1
	if tier == "thorough" {
		rounds = 12
	}
	var cases []Case
	for round := 0; round < rounds; round++ {
		for _, f := range faultList() {
			ct := genCRSTree(r, 2+r.Intn(3))
			// fault in the first / middle / last file of an --all run
			sort.Slice(ct.ra, func(i, j int) bool { return ct.ra[i].arg < ct.ra[j].arg })
			ra := ct.ra[[]int{0, len(ct.ra) / 2, len(ct.ra) - 1}[r.Intn(3)]]
			f.apply(ct, ra)
			faultyPath := ra.path
			if fp, found := faultyPathOf[f.name]; found {
				faultyPath = fp(ra)
				if faultyPath == "LAST" {
					wo := walkOrder(ct.t)
					var top []string
					for _, w := range wo {
						if !strings.Contains(w[len("regex-assembly/"):], "/") {
							top = append(top, w)
						}
					}
					faultyPath = top[len(top)-1]
				}
			}
			for _, c := range f.cmds(ra) {
				cases = append(cases, Case{Kind: "fault:" + f.name, Ops: cliCmdOps(ct, c),
					Oracles: []Op{{"c16.loud", [][]byte{encodeTree(ct.t), []byte(strings.Join(c, "\x00")), []byte(strings.Join(walkOrder(ct.t), "\x00")), []byte(faultyPath)}}}})
				if _, stillThere := ct.t[ra.path]; stillThere && chance(r, 0.5) {
					cases = append(cases, Case{Kind: "fault:" + f.name + "@symlink",
						Oracles: []Op{{"c16.loud", [][]byte{encodeTree(ct.t), []byte(strings.Join(c, "\x00")), []byte(strings.Join(walkOrder(ct.t), "\x00")), []byte(faultyPath), []byte("symlink")}}}})
				}
				if chance(r, 0.35) {
					// the other output mode reports through other code: a failure is a failure there too
					g := append([]string{"-o", "github"}, c...)
					cases = append(cases, Case{Kind: "fault:" + f.name,
						Oracles: []Op{{"c16.loud", [][]byte{encodeTree(ct.t), []byte(strings.Join(g, "\x00")), []byte(strings.Join(walkOrder(ct.t), "\x00")), []byte(faultyPath)}}}})
				}
			}
		}
	}
	// the same commands on fault-free trees: the model predicts stdout / tree / exit status of success as well
	nOk := 6
	if tier == "thorough" {
		nOk = 80
	}
	for i := 0; i < nOk; i++ {
		ct := genCRSTree(r, 1+r.Intn(4))
		ra := pick(r, ct.ra)
		var ops []Op
		for _, c := range [][]string{{"regex", "generate", ra.arg}, {"regex", "update", ra.arg}, {"regex", "update", "-a"}, {"regex", "generate", ra.arg + ".ra"},
			{"regex", "compare", ra.arg}, {"regex", "compare", "-a"}, {"-o", "github", "regex", "compare", "-a"}} {
			ops = append(ops, cliCmdOps(ct, c)...)
		}
		cases = append(cases, Case{Kind: "no-fault", Ops: ops})
	}
	nInv := 6
	if tier == "thorough" {
		nInv = 80
	}
	cases = append(cases, invocationCases(r, nInv)...)
	return cases
}

// ---- C08: --all equals each file on its own, in any order ---------------------------------------

// args: tree JSON, command ("update"/"format"/"compare"), order of single invocations (NUL separated args)
func oracleC08(p *Pair, env *Env, a [][]byte) *Failure {
	t := decodeTree(a[0])
	cmd := string(a[1])
	order := fields(a[2])
	sbAll, sbOne := mkSandbox(env), mkSandbox(env)
	defer os.RemoveAll(sbAll)
	defer os.RemoveAll(sbOne)
	if len(a) > 3 && string(a[3]) == "dotparent" {
		// the checkout is kept below directories whose names start with a dot or end in .ra (a CI cache, a
		// dot-directory of a home): where a tree is kept says nothing about its files
		sbAll = filepath.Join(sbAll, ".ci-cache", "work.ra", "checkout")
		sbOne = filepath.Join(sbOne, ".ci-cache", "work.ra", "checkout")
		_ = os.MkdirAll(sbAll, 0o755)
		_ = os.MkdirAll(sbOne, 0o755)
	}
	_ = t.write(sbAll)
	_ = t.write(sbOne)
	if len(a) > 3 && string(a[3]) == "symlink" {
		// one rule's assembly file is a symbolic link to a file kept elsewhere in the checkout: a file is a file for
		// --all as for the single invocation
		for _, arg := range order {
			if len(arg) < 6 || arg[0] < '0' || arg[0] > '9' {
				continue
			}
			for _, sb := range []string{sbAll, sbOne} {
				src := filepath.Join(sb, "regex-assembly", arg+".ra")
				_ = os.MkdirAll(filepath.Join(sb, "linked"), 0o755)
				if err := os.Rename(src, filepath.Join(sb, "linked", arg+".data")); err == nil {
					_ = os.Symlink(filepath.Join("..", "linked", arg+".data"), src)
				}
			}
			break
		}
	}
	all := runCLI(env, sbAll, nil, "-l", "disabled", "regex", cmd, "-a")
	var singles [][]byte
	exitOne := 0
	for _, arg := range order {
		c := runCLI(env, sbOne, nil, "-l", "disabled", "regex", cmd, arg)
		singles = append(singles, c.stdout)
		if c.exit != 0 {
			exitOne = c.exit
		}
	}
	if d := diffSnap(snapshot(sbAll), snapshot(sbOne)); len(d) > 0 {
		return &Failure{What: "regex " + cmd + " --all leaves other bytes than the single invocations (in the order " + strings.Join(order, ",") + ")",
			Detail: strings.Join(d, ", ")}
	}
	if cmd == "compare" {
		norm := func(bs ...[]byte) string {
			var ls []string
			for _, b := range bs {
				for _, l := range strings.Split(string(b), "\n") {
					if strings.HasPrefix(l, "Regex of") {
						ls = append(ls, l)
					}
				}
			}
			sort.Strings(ls)
			return strings.Join(ls, "\n")
		}
		if norm(all.stdout) != norm(singles...) {
			return &Failure{What: "compare --all reports other verdicts than the single invocations", Detail: fmt.Sprintf("all %q\nsingles %q", norm(all.stdout), norm(singles...))}
		}
		// not only the verdicts: every line a single invocation prints about its rule (the difference display
		// included) is printed by --all as well, and nothing else
		allLines := func(bs ...[]byte) string {
			var ls []string
			for _, b := range bs {
				for _, l := range strings.Split(string(b), "\n") {
					if l != "" {
						ls = append(ls, l)
					}
				}
			}
			sort.Strings(ls)
			return strings.Join(ls, "\n")
		}
		if all.exit == 0 && exitOne == 0 || all.exit != 0 && exitOne != 0 {
			if x, y := allLines(all.stdout), allLines(singles...); x != y {
				return &Failure{What: "compare --all prints other lines about the rules than the single invocations", Detail: fmt.Sprintf("all:\n%s\nsingles:\n%s", x, y)}
			}
		}
		// the same in the other output mode: every rule is still reported, by --all as by the single invocations
		normG := func(bs ...[]byte) string {
			var ls []string
			for _, b := range bs {
				for _, l := range strings.Split(string(b), "\n") {
					if strings.Contains(l, "Regex of") && !strings.HasPrefix(l, "::error::") {
						ls = append(ls, l)
					}
				}
			}
			sort.Strings(ls)
			return strings.Join(ls, "\n")
		}
		// mixed state first: every second rule (in walk order) is brought up to date in both sandboxes, so that
		// up-to-date rules come after out-of-date ones
		sorted := append([]string{}, order...)
		sort.Strings(sorted)
		for i, arg := range sorted {
			if i%2 == 1 {
				runCLI(env, sbAll, nil, "-l", "disabled", "regex", "update", arg)
				runCLI(env, sbOne, nil, "-l", "disabled", "regex", "update", arg)
			}
		}
		allG := runCLI(env, sbAll, nil, "-l", "disabled", "-o", "github", "regex", "compare", "-a")
		var singlesG [][]byte
		exitG := 0
		for _, arg := range order {
			c := runCLI(env, sbOne, nil, "-l", "disabled", "-o", "github", "regex", "compare", arg)
			singlesG = append(singlesG, c.stdout)
			if c.exit != 0 {
				exitG = c.exit
			}
		}
		if normG(allG.stdout) != normG(singlesG...) || (allG.exit == 0) != (exitG == 0) {
			return &Failure{What: "compare --all -o github reports other verdicts than the single invocations",
				Detail: fmt.Sprintf("all (exit %d) %q\nsingles (exit %d) %q", allG.exit, normG(allG.stdout), exitG, normG(singlesG...))}
		}
	} else if (all.exit == 0) != (exitOne == 0) {
		return &Failure{What: "exit status of --all differs from the single invocations", Detail: fmt.Sprintf("all %d singles %d", all.exit, exitOne)}
	}
	return nil
}

// addLeakScenario rewrites two assembly files so that state computed for an earlier file (in walk order) would
// matter to a later one if anything leaked: a stored expression recalled without being stored, a definition used
// without being defined, a flag, an unclosed block. A file that fails on its own is the LAST one of the walk, because
// a fatal error ends an --all run.
func addLeakScenario(r *rand.Rand, ct *crsTree, kind int) {
	if len(ct.ra) < 2 {
		return
	}
	ras := append([]raFile{}, ct.ra...)
	sort.Slice(ras, func(i, j int) bool { return ras[i].path < ras[j].path })
	last := ras[len(ras)-1]
	early := ras[r.Intn(len(ras)-1)]
	switch kind {
	case 0: // stash
		ct.t[early.path] = append(ct.t[early.path], []byte("a+b\n##!=< leak\n##!=> leak\nfoo\n")...)
		ct.t[last.path] = []byte("##!=> leak\nqux\n")
	case 1: // definition
		ct.t[early.path] = append([]byte("##!> define leakdef [0-9]+\n"), ct.t[early.path]...)
		later := ras[len(ras)-1-r.Intn(len(ras)-1)]
		if later.path != early.path {
			ct.t[later.path] = append(ct.t[later.path], []byte("x{{leakdef}}y\n")...)
		}
	case 2: // flags, prefix, suffix
		ct.t[early.path] = append([]byte("##!+ is\n##!^ pre\n##!$ suf\n"), ct.t[early.path]...)
	case 3: // the last file leaves a block open (fails alone and in --all)
		ct.t[last.path] = append(ct.t[last.path], []byte("##!> assemble\nopen\n")...)
	case 4: // what an include or exclusion file expands to depends on who includes it: nothing may be remembered per path
		ct.t["regex-assembly/include/leak-a.ra"] = []byte("##!> define kw select\n{{kw}}ion\n{{kw}}or\nunion\n")
		ct.t["regex-assembly/include/leak-b.ra"] = []byte("##!> define kw insert\n{{kw}}ion\n{{kw}}or\nunion\n")
		ct.t["regex-assembly/include/leak-x.ra"] = []byte("{{kw}}or\n")
		ct.t["regex-assembly/include/leak-w.ra"] = []byte("w1@\nw2\n")
		ct.t[early.path] = append(ct.t[early.path], []byte("##!> include-except leak-a leak-x\n##!> include leak-w -- @ x\n")...)
		ct.t[last.path] = append(ct.t[last.path], []byte("##!> include-except leak-b leak-x\n##!> include leak-w\n")...)
		ct.incl = append(ct.incl, "leak-a", "leak-b", "leak-x", "leak-w")
	case 5: // an early file the formatter gives up on half way (a block end nothing opened, after some lines): what it
		// had collected so far must not reach the files formatted after it (format --all carries on after a failure)
		ct.t[early.path] = []byte("homer\n  bart  \n##!<\nmarge\n")
	}
}

func genC08(r *rand.Rand, tier string, env *Env) []Case {
	n, orders := 12, 2
	if tier == "thorough" {
		n, orders = 120, 6
	}
	var cases []Case
	for i := 0; i < n; i++ {
		nRa := 1 + r.Intn(5)
		if i%2 == 1 && nRa < 2 {
			nRa = 2 + r.Intn(3)
		}
		ct := genCRSTree(r, nRa)
		cmds := []string{"update", "format", "compare"}
		if i%2 == 1 {
			addLeakScenario(r, ct, (i/2)%6)
			if (i/2)%6 == 5 {
				cmds = []string{"format"} // update and compare end at the first failing file: not comparable with singles
			}
		}
		for _, cmd := range cmds {
			var args []string
			for _, ra := range ct.ra {
				args = append(args, ra.arg)
			}
			if cmd == "format" {
				args = append(args, ct.incl...)
			}
			for o := 0; o < orders; o++ {
				perm := append([]string{}, args...)
				r.Shuffle(len(perm), func(i, j int) { perm[i], perm[j] = perm[j], perm[i] })
				oargs := [][]byte{encodeTree(ct.t), []byte(cmd), []byte(strings.Join(perm, "\x00"))}
				kindC := "all-vs-singles:" + cmd
				if (i+o)%4 == 3 {
					oargs = append(oargs, []byte("symlink"))
					kindC += "+symlink"
				} else if (i+o)%4 == 1 {
					oargs = append(oargs, []byte("dotparent"))
					kindC += "+dotparent"
				}
				cases = append(cases, Case{Kind: kindC, Oracles: []Op{{"c08.all", oargs}}})
			}
		}
	}
	// the model's --all against the binary's (K10)
	nt := 6
	if tier == "thorough" {
		nt = 80
	}
	for i := 0; i < nt; i++ {
		ct := genCRSTree(r, 2+r.Intn(4))
		if i%2 == 1 {
			addLeakScenario(r, ct, (i/2)%6)
		}
		files := treeArgs(ct.t)
		ops := cliCmdOps(ct, []string{"regex", "update", "-a"})
		ops = append(ops, cliCmdOps(ct, []string{"regex", "compare", "-a"})...)
		ops = append(ops, cliCmdOps(ct, []string{"-o", "github", "regex", "compare", "-a"})...)
		ops = append(ops, Op{"cli.formatAll", append([][]byte{[]byte("0"), []byte("LINT")}, files...)})
		cases = append(cases, Case{Kind: "tree:update-all+format-all", Ops: ops})
	}
	return cases
}

// ---- C18: argument and root resolution ---------------------------------------------------------

// args: tree JSON, argument, expected file (relative, or "" when the argument must be rejected)
func oracleC18Arg(p *Pair, env *Env, a [][]byte) *Failure {
	t := decodeTree(a[0])
	arg, wantFile := string(a[1]), string(a[2])
	sb := mkSandbox(env)
	defer os.RemoveAll(sb)
	_ = t.write(sb)
	before := snapshot(sb)
	g := runCLI(env, sb, nil, "-l", "disabled", "regex", "generate", arg)
	if wantFile == "" {
		u := runCLI(env, sb, nil, "-l", "disabled", "regex", "update", arg)
		cm := runCLI(env, sb, nil, "-l", "disabled", "regex", "compare", arg)
		// (format is not asked: what is no rule argument is an include name there, resolved below regex-assembly/include)
		if g.exit == 0 || u.exit == 0 || cm.exit == 0 || len(g.stdout) > 0 || len(cm.stdout) > 0 {
			return &Failure{What: "an argument outside the accepted grammar is not rejected", Detail: fmt.Sprintf("%q: generate exit %d %q, update exit %d, compare exit %d %q", arg, g.exit, g.stdout, u.exit, cm.exit, cm.stdout)}
		}
		if d := diffSnap(before, snapshot(sb)); len(d) > 0 {
			return &Failure{What: "a rejected argument still modified files", Detail: fmt.Sprintf("%q: %s", arg, strings.Join(d, ","))}
		}
		return nil
	}
	src, found := t[wantFile]
	if !found {
		// a well-formed argument whose file regex-assembly/NNNNNN[-chainK].ra does not exist: the argument names that file
		// and no other (copies of the same name elsewhere below regex-assembly are not it) — every command fails, prints no
		// expression and leaves the tree alone
		u := runCLI(env, sb, nil, "-l", "disabled", "regex", "update", arg)
		cm := runCLI(env, sb, nil, "-l", "disabled", "regex", "compare", arg)
		if g.exit == 0 || u.exit == 0 || cm.exit == 0 || len(g.stdout) > 0 || len(cm.stdout) > 0 {
			return &Failure{What: "an argument whose assembly file does not exist is resolved to some other file", Detail: fmt.Sprintf("%q (file %s absent): generate exit %d %q, update exit %d, compare exit %d %q", arg, wantFile, g.exit, g.stdout, u.exit, cm.exit, cm.stdout)}
		}
		if d := diffSnap(before, snapshot(sb)); len(d) > 0 {
			return &Failure{What: "an argument whose assembly file does not exist still modified files", Detail: fmt.Sprintf("%q: %s", arg, strings.Join(d, ","))}
		}
		return nil
	}
	viaStdin := runCLI(env, sb, src, "-l", "disabled", "regex", "generate", "-")
	if g.exit != viaStdin.exit || !bytes.Equal(g.stdout, viaStdin.stdout) {
		return &Failure{What: "generate ARG differs from generate - with the bytes of the file the argument must resolve to",
			Detail: fmt.Sprintf("arg %q file %s: exit %d %q vs stdin exit %d %q", arg, wantFile, g.exit, g.stdout, viaStdin.exit, viaStdin.stdout)}
	}
	return nil
}

// --all derives id and offset from file names with the same grammar: a file whose offset does not fit (…-chain256.ra,
// …-chain257.ra) is never read as offset 0 or 1 — its text must not reach any rule
func oracleC18All(p *Pair, env *Env, a [][]byte) *Failure {
	t := decodeTree(a[0])
	for _, cmd := range []string{"update", "compare"} {
		sb := mkSandbox(env)
		_ = t.write(sb)
		c := runCLI(env, sb, nil, "-l", "disabled", "regex", cmd, "--all")
		rules, _ := os.ReadFile(filepath.Join(sb, "rules/REQUEST-942-X.conf"))
		os.RemoveAll(sb)
		if bytes.Contains(rules, []byte("toolarge")) || bytes.Contains(rules, []byte("wraps")) {
			return &Failure{What: "regex " + cmd + " --all wrote the text of a file with an out-of-range chain offset into a rule", Detail: fmt.Sprintf("exit %d\n%s", c.exit, rules)}
		}
		if c.exit == 0 {
			return &Failure{What: "regex " + cmd + " --all succeeds on a tree with an assembly file whose chain offset is out of range", Detail: fmt.Sprintf("stdout %q", c.stdout)}
		}
	}
	return nil
}

// args: tree JSON (root content), start dir relative to sandbox, expected marker, layout name
func oracleC18Root(p *Pair, env *Env, a [][]byte) *Failure {
	t := decodeTree(a[0])
	start, want := string(a[1]), string(a[2])
	sb := mkSandbox(env)
	defer os.RemoveAll(sb)
	_ = t.write(sb)
	_ = os.MkdirAll(filepath.Join(sb, start), 0o755)
	if len(a) > 4 && string(a[4]) == "linked-markers" {
		// every regex-assembly directory is a symbolic link to a directory kept elsewhere: it marks a root all the same
		var markers []string
		_ = filepath.Walk(sb, func(p string, info os.FileInfo, err error) error {
			if err == nil && info.IsDir() && filepath.Base(p) == "regex-assembly" {
				markers = append(markers, p)
				return filepath.SkipDir
			}
			return nil
		})
		for i, m := range markers {
			real := filepath.Join(sb, fmt.Sprintf(".real-assembly-%d", i))
			if os.Rename(m, real) == nil {
				_ = os.Symlink(real, m)
			}
		}
	}
	// absolute -d, relative -d from the sandbox, and no -d with that working directory
	for _, mode := range []string{"abs", "rel", "cwd", "abs-slash", "abs-dotdot", "rel-slash", "dot-from-start", "abs-from-start", "sibling-name-from-start"} {
		var c cliResult
		switch mode {
		case "dot-from-start":
			// started inside the directory and pointed at it: still the nearest ancestor-or-self with regex-assembly
			c = runCLI(env, filepath.Join(sb, start), nil, "-l", "disabled", "-d", ".", "regex", "generate", "942100")
		case "abs-from-start":
			c = runCLI(env, filepath.Join(sb, start), nil, "-l", "disabled", "-d", filepath.Join(sb, start), "regex", "generate", "942100")
		case "sibling-name-from-start":
			c = runCLI(env, filepath.Join(sb, start), nil, "-l", "disabled", "-d", "../"+filepath.Base(start), "regex", "generate", "942100")
		case "abs-slash":
			c = runCLI(env, sb, nil, "-l", "disabled", "-d", filepath.Join(sb, start)+"/", "regex", "generate", "942100")
		case "abs-dotdot":
			// <start>/zzsub/.. names <start> itself
			_ = os.MkdirAll(filepath.Join(sb, start, "zzsub"), 0o755)
			c = runCLI(env, sb, nil, "-l", "disabled", "-d", filepath.Join(sb, start)+"/zzsub/..", "regex", "generate", "942100")
		case "rel-slash":
			c = runCLI(env, sb, nil, "-l", "disabled", "-d", "./"+start+"/", "regex", "generate", "942100")
		case "abs":
			c = runCLI(env, sb, nil, "-l", "disabled", "-d", filepath.Join(sb, start), "regex", "generate", "942100")
		case "rel":
			c = runCLI(env, sb, nil, "-l", "disabled", "-d", "./"+start, "regex", "generate", "942100")
		case "cwd":
			c = runCLI(env, filepath.Join(sb, start), nil, "-l", "disabled", "regex", "generate", "942100")
		}
		exp := want
		if mode == "cwd" {
			// without -d the working directory itself is the root
			exp = string(a[3])
		}
		got := string(c.stdout)
		if exp == "" {
			if c.exit == 0 {
				return &Failure{What: "a root was found where none exists", Detail: fmt.Sprintf("%s start %s: %q", mode, start, got)}
			}
			continue
		}
		if c.exit != 0 || got != exp {
			return &Failure{What: "the CRS root is not the nearest ancestor-or-self containing regex-assembly",
				Detail: fmt.Sprintf("mode %s, start %s: expected the root whose 942100.ra generates %q, got exit %d %q", mode, start, exp, c.exit, got)}
		}
	}
	return nil
}

func genC18(r *rand.Rand, tier string, env *Env) []Case {
	n := 200
	if tier == "thorough" {
		n = 4000
	}
	var cases []Case
	// K9: the grammar, model vs code
	digits := func(k int) string { return randFrom(r, "0123456789", k, k) }
	for i := 0; i < n; i++ {
		id := digits(6)
		var arg string
		switch weighted(r, []int{4, 4, 6, 6, 3, 3, 3, 3, 3}) {
		case 0:
			arg = id
		case 1:
			arg = id + ".ra"
		case 2:
			arg = id + "-chain" + fmt.Sprint(r.Intn(300))
		case 3:
			arg = id + "-chain" + fmt.Sprint(r.Intn(300)) + ".ra"
		case 4:
			arg = digits(pick(r, []int{0, 1, 5, 7, 12}))
		case 5:
			arg = id + "-chain" + pick(r, []string{"", "x", "-1", "256", "255", "0", "007", "99999999999999999999999", "1.5", "٣",
				// decimal, whatever the leading zeros: 08 and 09 are 8 and 9, 010 is ten, 0377 is above 255
				"08", "09", "010", "0012", "00011", "0256", "0300", "0377", "0255", "00255"})
		case 6:
			arg = id + pick(r, []string{".raa", ".r", ".ra.ra", "-chain1.raX", " ", "-chain1-chain2", ".RA", "-Chain1", "x", "xra", "-ra", "7ra", "-chain2-ra", "-chain25ra", "-chain2xra", "ra", ".ra\n"})
		case 7:
			arg = pick(r, []string{"", "-", "foo", "unix-shell", " 942100", "942100 ", "942100\n", "94210a", "x/942100", "942100/", "./942100.ra", "../942100-chain1"})
		case 8:
			arg = id + "-chain" + fmt.Sprint(250+r.Intn(12)) + pick(r, []string{"", ".ra"})
		}
		cases = append(cases, Case{Kind: "argument", Ops: []Op{{"ruleid.parse", [][]byte{[]byte(arg)}}}})
	}
	// resolution through the binary
	m := 35
	if tier == "thorough" {
		m = 160
	}
	c18Tree := func(extra ...string) Tree {
		t := Tree{"regex-assembly/942100.ra": []byte("plain\n"), "regex-assembly/942100-chain1.ra": []byte("chainone\n"), "regex-assembly/942100-chain255.ra": []byte("last\n"),
			"regex-assembly/942100-chain256.ra": []byte("toolarge\n"), "regex-assembly/94210.ra": []byte("short\n"), "regex-assembly/9421000.ra": []byte("long\n"),
			// (contents whose first and last bytes are white space that belongs to an entry: the same bytes on stdin mean the same)
			"regex-assembly/942100-chain01.ra": []byte("leadingzero\nselect \n"), "regex-assembly/942100-chain007.ra": []byte("\fbond\ndelta\n"), "regex-assembly/942100-chain7.ra": []byte("seven\nunion\t"),
			"regex-assembly/942100-chain0.ra": []byte("zero\nlast\u00a0\n\n"), "regex-assembly/942100-chain19.ra": []byte("\u2003nineteen\nx \n \n"),
			"regex-assembly/942100-chain08.ra": []byte("eight\n"), "regex-assembly/942100-chain010.ra": []byte("ten\n"), "regex-assembly/942100-chain0377.ra": []byte("toolarge377\n"),
			"regex-assembly/942100xra.ra": []byte("junkx\n"), "regex-assembly/942100-ra.ra": []byte("junkdash\n"), "regex-assembly/9421007ra.ra": []byte("junk7\n"),
			"regex-assembly/942100-chain1-ra.ra": []byte("junkc\n"), "regex-assembly/942100-chain25ra.ra": []byte("junk25\n"), "regex-assembly/942100-chain1xra.ra": []byte("junk1x\n"),
			"rules/REQUEST-942-X.conf": []byte("SecRule ARGS \"@rx a\" \\\n    \"id:942100,\\\n    chain\"\n    SecRule ARGS \"@rx b\" \\\n    \"t:none\"\n")}
		for _, e := range extra {
			t[e] = []byte("extra" + e + "\n")
		}
		return t
	}
	type ex struct{ arg, file string }
	exs := []ex{{"942100", "regex-assembly/942100.ra"}, {"942100.ra", "regex-assembly/942100.ra"}, {"942100-chain1", "regex-assembly/942100-chain1.ra"},
		{"942100-chain1.ra", "regex-assembly/942100-chain1.ra"}, {"942100-chain255", "regex-assembly/942100-chain255.ra"}, {"942100-chain01", "regex-assembly/942100-chain01.ra"},
		{"942100-chain007.ra", "regex-assembly/942100-chain007.ra"}, {"942100-chain7", "regex-assembly/942100-chain7.ra"}, {"942100-chain0", "regex-assembly/942100-chain0.ra"},
		{"942100-chain19.ra", "regex-assembly/942100-chain19.ra"}, {"942100-chain08", "regex-assembly/942100-chain08.ra"}, {"942100-chain010.ra", "regex-assembly/942100-chain010.ra"},
		{"942100-chain0377", ""}, {"942100-chain0256.ra", ""},
		{"942100-chain256", ""}, {"942100-chain256.ra", ""}, {"94210", ""}, {"9421000", ""}, {"942100-chain", ""}, {"942100.raa", ""}, {"942100-chain300", ""}, {"942100-chain99999999999999999999", ""},
		// path-like arguments: the argument is a rule id, never a path to the assembly file
		{"x/942100.ra", ""}, {"../942100-chain1", ""}, {"942100/", ""}, {"999999/942100", ""}, {"/tmp/elsewhere/942100.ra", ""}, {"./942100", ""},
		{"regex-assembly/942100.ra", ""}, {"942100.ra/", ""}, {"regex-assembly/942100-chain1", ""}, {"942100-chain257", ""}, {"942100-chain511.ra", ""},
		// a character where the dot of the extension belongs
		{"942100xra", ""}, {"942100-ra", ""}, {"9421007ra", ""}, {"942100-chain1-ra", ""}, {"942100-chain25ra", ""}, {"942100-chain1xra", ""}}
	for i := 0; i < m; i++ {
		e := exs[i%len(exs)]
		if i >= len(exs) {
			e = pick(r, exs)
		}
		cases = append(cases, Case{Kind: "resolve-argument", Oracles: []Op{{"c18.arg", [][]byte{encodeTree(c18Tree()), []byte(e.arg), []byte(e.file)}}}})
	}
	// the addressed file is absent, files of the same name lie elsewhere below regex-assembly (an archive, the include and
	// exclude directories): the argument names regex-assembly/NAME and nothing else
	for _, e := range []ex{{"942100", "regex-assembly/942100.ra"}, {"942100.ra", "regex-assembly/942100.ra"}, {"942100-chain1", "regex-assembly/942100-chain1.ra"}, {"942100-chain1.ra", "regex-assembly/942100-chain1.ra"}} {
		t := c18Tree()
		base := strings.TrimPrefix(e.file, "regex-assembly/")
		delete(t, e.file)
		for _, d := range []string{"archive/2023/", "include/", "exclude/", "zz/"} {
			t["regex-assembly/"+d+base] = []byte("decoy" + strings.TrimSuffix(d, "/") + "\n")
		}
		cases = append(cases, Case{Kind: "resolve-argument-file-absent", Oracles: []Op{{"c18.arg", [][]byte{encodeTree(t), []byte(e.arg), []byte(e.file)}}}})
	}
	// --all on trees with oversized offsets in file names (only well-formed names otherwise)
	for _, big := range []string{"256", "257", "511", "65536", "4294967296"} {
		t := Tree{"regex-assembly/942100.ra": []byte("plain\n"), "regex-assembly/942100-chain1.ra": []byte("chainone\n"), "regex-assembly/942100-chain" + big + ".ra": []byte("wraps\n"),
			"rules/REQUEST-942-X.conf": []byte("SecRule ARGS \"@rx plain\" \\\n    \"id:942100,\\\n    chain\"\n    SecRule ARGS \"@rx chainone\" \\\n    \"t:none\"\n")}
		cases = append(cases, Case{Kind: "all-oversized-offset", Oracles: []Op{{"c18.all", [][]byte{encodeTree(t)}}}})
	}
	// roots: nested roots, start directories at depth 0..4 below or beside a root
	layout := Tree{
		"a/regex-assembly/942100.ra": []byte("outerroot\n"), "a/rules/": nil, "a/x/y/": nil,
		"a/x/inner/regex-assembly/942100.ra": []byte("innerroot\n"), "a/x/inner/deep/er/": nil, "a/x/inner/regex-assembly/include/": nil,
		"b/plain/dir/": nil,
	}
	type rootCase struct{ start, want, cwdWant string }
	rcs := []rootCase{
		{"a", "outerroot", "outerroot"}, {"a/rules", "outerroot", ""}, {"a/x/y", "outerroot", ""}, {"a/regex-assembly", "outerroot", ""},
		{"a/x/inner", "innerroot", "innerroot"}, {"a/x/inner/deep/er", "innerroot", ""}, {"a/x/inner/regex-assembly/include", "innerroot", ""}, {"a/x", "outerroot", ""},
		{"b/plain/dir", "", ""}, {"b", "", ""},
	}
	// the search itself, model vs code: start directories 1..5 levels deep, roots at any subset of the levels (and in
	// side branches, which never count)
	nRoot := 40
	if tier == "thorough" {
		nRoot = 600
	}
	for i := 0; i < nRoot; i++ {
		comps := []string{"a", "b", "regex-assembly", "rules", "x.y", "in ner", "crs", "regex-assembly-old", "c"}
		depth := 1 + r.Intn(5)
		var path []string
		for k := 0; k < depth; k++ {
			path = append(path, pick(r, comps))
		}
		args := [][]byte{[]byte(strings.Join(path, "/"))}
		for k := 1; k <= depth; k++ {
			if chance(r, 0.3) {
				args = append(args, []byte(strings.Join(path[:k], "/")))
			}
		}
		if chance(r, 0.4) {
			// a root in a side branch or below the start directory
			args = append(args, []byte(strings.Join(append(append([]string{}, path[:r.Intn(depth+1)]...), "side"), "/")))
		}
		if chance(r, 0.2) {
			args = append(args, []byte(strings.Join(append(append([]string{}, path...), "below"), "/")))
		}
		cases = append(cases, Case{Kind: "root-search", Ops: []Op{{"root.find", args}}})
	}
	// the lexical path functions the commands apply to arguments: every path over {a, b, ., /} up to length 5 (quick) / 7
	// (thorough), batched, plus longer random ones and joins of up to three elements
	cases = append(cases, pathCases(r, tier)...)
	for _, rc := range rcs {
		if !strings.HasPrefix(rc.start, "a/x/inner/regex-assembly") && !strings.HasPrefix(rc.start, "a/regex-assembly") {
			cases = append(cases, Case{Kind: "root-resolution-linked-markers", Oracles: []Op{{"c18.root", [][]byte{encodeTree(layout), []byte(rc.start), []byte(rc.want), []byte(rc.cwdWant), []byte("linked-markers")}}}})
		}
		cases = append(cases, Case{Kind: "root-resolution", Oracles: []Op{{"c18.root", [][]byte{encodeTree(layout), []byte(rc.start), []byte(rc.want), []byte(rc.cwdWant)}}}})
	}
	return cases
}

func pathCases(r *rand.Rand, tier string) []Case {
	maxLen := 5
	if tier == "thorough" {
		maxLen = 7
	}
	alpha := []byte{'a', 'b', '.', '/'}
	var all []string
	var rec func(cur []byte)
	rec = func(cur []byte) {
		all = append(all, string(cur))
		if len(cur) == maxLen {
			return
		}
		for _, c := range alpha {
			rec(append(append([]byte{}, cur...), c))
		}
	}
	rec(nil)
	var cases []Case
	for i := 0; i < len(all); i += 64 {
		var ops []Op
		for _, p := range all[i:min(len(all), i+64)] {
			ops = append(ops, Op{"path.clean", [][]byte{[]byte(p)}})
		}
		cases = append(cases, Case{Kind: "path-clean-exhaustive", Ops: ops})
	}
	elems := []string{"", "a", "..", ".", "/", "a/b", "../x", "regex-assembly", "include", "x.ra", "a//b/", "/abs", "./rel", "é", "..."}
	for i := 0; i < 40; i++ {
		var ops []Op
		for k := 0; k < 10; k++ {
			n := 1 + r.Intn(3)
			var es [][]byte
			for j := 0; j < n; j++ {
				es = append(es, []byte(pick(r, elems)))
			}
			ops = append(ops, Op{"path.join", es})
			var sb strings.Builder
			for j := 0; j < 2+r.Intn(8); j++ {
				sb.WriteString(pick(r, elems))
				if chance(r, 0.6) {
					sb.WriteString("/")
				}
			}
			ops = append(ops, Op{"path.clean", [][]byte{[]byte(sb.String())}})
		}
		cases = append(cases, Case{Kind: "path-join", Ops: ops})
	}
	return cases
}

// ---- C17: no silent truncation -------------------------------------------------------------------

// args: site, length (decimal), position ("first"/"middle"/"last"), final newline ("1"/"0")
// longLine: n letters, not all the same — every 4096-byte stretch has its own letter and every 64 KiB stretch starts
// with a capital, so that a stretch copied over another one shows
func longLine(n int) string {
	b := make([]byte, n)
	for i := range b {
		b[i] = byte('a' + (i/4096)%26)
		if i%65536 == 0 {
			b[i] = byte('A' + (i/65536)%26)
		}
	}
	return string(b)
}

// companions: the other lines of the file that must be carried through — none when the long line is the whole file
func companions(ws []string, pos string) []string {
	if pos == "only" {
		return nil
	}
	return ws
}

func oracleC17(p *Pair, env *Env, a [][]byte) *Failure {
	site, n, pos, nl := string(a[0]), num(a[1]), string(a[2]), string(a[3]) == "1"
	long := longLine(n)
	place := func(lines []string, l string) []string {
		switch pos {
		case "only":
			return []string{l} // the long line is the whole file
		case "first":
			return append([]string{l}, lines...)
		case "last":
			return append(lines, l)
		}
		mid := len(lines) / 2
		return append(append(append([]string{}, lines[:mid]...), l), lines[mid:]...)
	}
	join := func(ls []string) []byte {
		s := strings.Join(ls, "\n")
		if nl {
			s += "\n"
		}
		return []byte(s)
	}
	fail := func(what string, detail string) *Failure {
		return &Failure{What: fmt.Sprintf("silent truncation at %s: %s (line of %d bytes, position %s)", site, what, n, pos), Detail: detail}
	}
	empty := [][]byte{{}, {}, {}, {}, {}, {}}
	switch site {
	case "generate", "generate-defined", "generate-include-defined", "generate-include-twice", "generate-include", "generate-include-prefixed", "generate-include-suffixed", "generate-nested-include", "generate-replace-suffixes", "generate-include-except", "generate-exclude-file":
		// the entries `zzq1` and `zzq2` must both be alternatives of the result
		var args [][]byte
		switch site {
		case "generate":
			args = append(append([][]byte{}, empty...), join(place([]string{"zzq1", "zzq2"}, long)))
		case "generate-defined":
			// a file with definitions goes through the expansion step as well (and only such a file does)
			args = append(append([][]byte{}, empty...), join(place([]string{"##!> define zzword q1", "zz{{zzword}}", "zzq2"}, long)))
		case "generate-include-defined":
			args = append(append([][]byte{}, empty...), []byte("##!> include big\n"), []byte("i"), []byte("big.ra"), join(place([]string{"##!> define zzword q1", "zz{{zzword}}", "zzq2"}, long)))
		case "generate-include":
			args = append(append([][]byte{}, empty...), []byte("##!> include big\n"), []byte("i"), []byte("big.ra"), join(place([]string{"zzq1", "zzq2"}, long)))
		case "generate-include-twice":
			// the same file referred to twice, first through the line-by-line rewriting of suffixes, then plainly: both
			// references carry every line (entries end in `@`; the first reference turns that into `~`)
			args = append(append([][]byte{}, empty...), []byte("##!> include big -- @ ~\n##!> include big\n"), []byte("i"), []byte("big.ra"), join(place([]string{"zzq1@", "zzq2@"}, long+"@")))
		case "generate-include-prefixed":
			// a file with its own prefix is re-written as a local block by the parser
			args = append(append([][]byte{}, empty...), []byte("##!> include big\n"), []byte("i"), []byte("big.ra"), append([]byte("##!^ pp\n"), join(place([]string{"zzq1", "zzq2"}, long))...))
		case "generate-include-suffixed":
			args = append(append([][]byte{}, empty...), []byte("##!> include big\n"), []byte("i"), []byte("big.ra"), append([]byte("##!$ ss\n"), join(place([]string{"zzq1", "zzq2"}, long))...))
		case "generate-nested-include":
			args = append(append([][]byte{}, empty...), []byte("##!> include outer\n"), []byte("i"), []byte("outer.ra"), []byte("##!> include big\n"), []byte("i"), []byte("big.ra"), join(place([]string{"zzq1", "zzq2"}, long)))
		case "generate-replace-suffixes":
			args = append(append([][]byte{}, empty...), []byte("##!> include big -- @ x\n"), []byte("i"), []byte("big.ra"), join(place([]string{"zzq1", "zzq2"}, long)))
		case "generate-include-except":
			args = append(append([][]byte{}, empty...), []byte("##!> include-except big small\n"), []byte("i"), []byte("big.ra"), join(place([]string{"zzq1", "zzq2"}, long)), []byte("i"), []byte("small.ra"), []byte("nothing\n"))
		case "generate-exclude-file":
			// everything after the long line of the exclusion file must still be excluded
			args = append(append([][]byte{}, empty...), []byte("##!> include-except words excl\n"), []byte("i"), []byte("words.ra"), []byte("zzq1\nzzq2\ngone1\ngone2\n"), []byte("i"), []byte("excl.ra"), join(place([]string{"gone1", "gone2"}, long)))
		}
		if n > 140000 {
			// the engine is quadratic on very long literals: above that size the line scanners are exercised through
			// the parser alone (every scanner site of generate except the assembler's line loop lives there)
			pr := p.Impl(Op{"parse.run", args[6:]}, env.timeout)
			if pr.Status != "ok" {
				return nil
			}
			buf := "\n" + string(pr.Out[0])
			if site == "generate-include-twice" {
				for _, w := range append(companions([]string{"zzq1", "zzq2"}, pos), long) {
					for _, end := range []string{"@", "~"} {
						if !strings.Contains(buf, "\n"+w+end+"\n") {
							return fail("entry "+w[:minInt(len(w), 12)]+end+" is missing from the parsed text", fmt.Sprintf("parsed text of %d bytes", len(pr.Out[0])))
						}
					}
				}
				return nil
			}
			for _, w := range companions([]string{"zzq1", "zzq2"}, pos) {
				if !strings.Contains(buf, "\n"+w+"\n") {
					return fail("entry "+w+" is missing from the parsed text", fmt.Sprintf("parsed text of %d bytes", len(pr.Out[0])))
				}
			}
			if site == "generate-exclude-file" {
				for _, w := range companions([]string{"gone1", "gone2"}, pos) {
					if strings.Contains(buf, "\n"+w+"\n") {
						return fail("excluded entry "+w+" survived", "")
					}
				}
			} else if !strings.Contains(buf, "\n"+long+"\n") {
				return fail("the long entry itself is missing from the parsed text", "")
			}
			return nil
		}
		g := p.Impl(Op{"gen.run", args}, env.timeout)
		if g.Status != "ok" {
			return nil // loud failure is acceptable
		}
		re, err := regexp.Compile(`\A(?:` + string(g.Out[0]) + `)\z`)
		if err != nil {
			return fail("output does not compile", err.Error())
		}
		pre, suf := "", ""
		switch site {
		case "generate-include-prefixed":
			pre = "pp"
		case "generate-include-suffixed":
			suf = "ss"
		case "generate-include-twice":
			suf = "@"
			for _, w := range append(companions([]string{"zzq1", "zzq2"}, pos), long) {
				if !re.MatchString(w + "~") {
					return fail("entry "+w[:minInt(len(w), 12)]+"~ (first reference) is missing from the generated alternation", "")
				}
			}
		}
		for _, w := range companions([]string{"zzq1", "zzq2"}, pos) {
			if !re.MatchString(pre + w + suf) {
				return fail("entry "+w+" is missing from the generated alternation", fmt.Sprintf("output of %d bytes", len(g.Out[0])))
			}
		}
		if site == "generate-exclude-file" {
			for _, w := range companions([]string{"gone1", "gone2"}, pos) {
				if re.MatchString(w) {
					return fail("excluded entry "+w+" survived", "")
				}
			}
		} else if !re.MatchString(pre + long + suf) {
			return fail("the long entry itself is missing", "")
		}
	case "stdin-total":
		// the whole input counts, not only its longest line: an assembly of n bytes made of ordinary lines (comments, for
		// the most part), on stdin and as a file, carries its first and its last entries
		var sb2 strings.Builder
		sb2.WriteString("zzq0\n")
		for k := 0; sb2.Len() < n; k++ {
			fmt.Fprintf(&sb2, "##! note %07d %s\n", k, strings.Repeat("-", 70))
		}
		sb2.WriteString("zzq1\nzzq2\n")
		input := []byte(sb2.String())
		sbx := mkSandbox(env)
		defer os.RemoveAll(sbx)
		_ = Tree{"regex-assembly/942100.ra": input, "regex-assembly/include/": nil}.write(sbx)
		for _, how := range []string{"stdin", "file"} {
			var c cliResult
			if how == "stdin" {
				c = runCLI(env, sbx, input, "-l", "disabled", "regex", "generate", "-")
			} else {
				c = runCLI(env, sbx, nil, "-l", "disabled", "regex", "generate", "942100")
			}
			if c.exit != 0 {
				continue // loud failure is acceptable
			}
			re, err := regexp.Compile(`\A(?:` + string(c.stdout) + `)\z`)
			if err != nil {
				return fail("output does not compile ("+how+")", err.Error())
			}
			for _, w := range []string{"zzq0", "zzq1", "zzq2"} {
				if !re.MatchString(w) {
					return fail("entry "+w+" is missing from the generated alternation (input on "+how+", "+fmt.Sprint(len(input))+" bytes in all)", string(c.stdout))
				}
			}
		}
	case "rules-file":
		// update and compare read the rules file: a rule whose operand line is long, before / after / instead of the
		// addressed one
		rule := func(id, operand string) []string {
			return []string{"SecRule ARGS \"@rx " + operand + "\" \\", "    \"id:" + id + ",\\", "    phase:2\""}
		}
		var ls []string
		switch pos {
		case "only":
			ls = rule("942100", long)
		case "first":
			ls = append(rule("942100", long), rule("942110", "zzq1")...)
		case "last":
			ls = append(rule("942110", "zzq1"), rule("942100", long)...)
		default:
			ls = append(append(rule("942120", "zzq0"), rule("942100", long)...), rule("942110", "zzq1")...)
		}
		content := join(ls)
		rd := p.Impl(Op{"update.read", [][]byte{content, []byte("942100"), {}}}, env.timeout)
		if rd.Status != "ok" || string(rd.Out[0]) != long {
			return fail("compare does not read the long operand back", rd.Status)
		}
		if pos != "only" {
			rd = p.Impl(Op{"update.read", [][]byte{content, []byte("942110"), {}}}, env.timeout)
			if rd.Status != "ok" || string(rd.Out[0]) != "zzq1" {
				return fail("compare does not find the rule next to the long line", rd.String())
			}
			up := p.Impl(Op{"update.apply", [][]byte{content, []byte("942110"), {}, []byte("zzq2")}}, env.timeout)
			if up.Status != "ok" || !bytes.Contains(up.Out[0], []byte(long)) || !bytes.Contains(up.Out[0], []byte("\"@rx zzq2\"")) {
				return fail("update of the rule next to the long line loses text", up.Status)
			}
		}
		up := p.Impl(Op{"update.apply", [][]byte{content, []byte("942100"), {}, []byte(long + "b")}}, env.timeout)
		if up.Status != "ok" {
			return fail("update of the long operand fails", up.Status)
		}
		rd = p.Impl(Op{"update.read", [][]byte{up.Out[0], []byte("942100"), {}}}, env.timeout)
		if rd.Status != "ok" || string(rd.Out[0]) != long+"b" {
			return fail("compare after update does not read the long operand back", rd.Status)
		}
	case "format-after-header":
		// the standard header directly followed by content (no empty line between): every content line is carried through
		in := join(append([]string{"##! Please refer to the documentation at", "##! https://coreruleset.org/docs/development/regex_assembly/."}, place([]string{"zzq1", "##!> assemble", "  zzq3", "##!<", "zzq2"}, long)...))
		f := p.Impl(Op{"format.file", [][]byte{in}}, env.timeout)
		if f.Status != "ok" {
			return nil
		}
		for _, w := range append(companions([]string{"zzq1", "zzq2", "zzq3", "##!<"}, pos), long) {
			if !bytes.Contains(f.Out[0], []byte(w)) {
				return fail("line "+w[:minInt(len(w), 12)]+" is missing from the formatted file (header without an empty line after it)", "")
			}
		}
	case "format":
		in := join(place([]string{"##!> assemble", "  zzq1", "##!<", "zzq2"}, long))
		f := p.Impl(Op{"format.file", [][]byte{in}}, env.timeout)
		if f.Status != "ok" {
			return nil
		}
		for _, w := range append(companions([]string{"zzq1", "zzq2", "##!<"}, pos), long) {
			if !bytes.Contains(f.Out[0], []byte(w)) {
				return fail("line "+w[:minInt(len(w), 12)]+" is missing from the formatted file", "")
			}
		}
	case "renumber":
		in := join(place([]string{"  - test_id: 7", "    zzq1: x", "  - test_id: 9", "    zzq2: y"}, "    data: "+long))
		f := p.Impl(Op{"renumber.processYaml", [][]byte{[]byte("920100"), in}}, env.timeout)
		if f.Status != "ok" {
			return nil
		}
		for _, w := range append(companions([]string{"zzq1", "zzq2", "test_id: 2"}, pos), long) {
			if !bytes.Contains(f.Out[0], []byte(w)) {
				return fail("line with "+w[:minInt(len(w), 12)]+" is missing from the rewritten test file", "")
			}
		}
	case "copyright":
		in := join(place([]string{"# OWASP CRS ver.4.0.0", "zzq1", "SecComponentSignature \"OWASP_CRS/4.0.0\"", "zzq2"}, "SecRule ARGS \"@rx "+long+"\" \\"))
		f := p.Impl(Op{"copyright.updateRules", [][]byte{[]byte("4.9.0"), []byte("2030"), in}}, env.timeout)
		if f.Status != "ok" {
			return nil
		}
		for _, w := range append(companions([]string{"zzq1", "zzq2", "OWASP_CRS/4.9.0", "ver.4.9.0"}, pos), long) {
			if !bytes.Contains(f.Out[0], []byte(w)) {
				return fail("line with "+w[:minInt(len(w), 12)]+" is missing from the rewritten file", "")
			}
		}
	}
	return nil
}

func genC17(r *rand.Rand, tier string, env *Env) []Case {
	lengths := []int{65535, 65536, 65537, 70000, 262143, 262144, 1048577}
	if tier == "thorough" {
		lengths = []int{1, 4095, 4096, 65534, 65535, 65536, 65537, 65538, 100000, 131072, 131073, 262143, 262144, 262145, 300000, 524288, 1048576, 1048577, 4194305}
	}
	var cases []Case
	sites := []string{"format-after-header", "generate", "generate-defined", "generate-include-defined", "generate-include-twice", "generate-include", "generate-include-prefixed", "generate-include-suffixed", "generate-nested-include", "generate-replace-suffixes", "generate-include-except", "generate-exclude-file", "format", "renumber", "copyright", "rules-file"}
	for _, total := range []int{1<<20 - 4096, 1<<20 + 4096, 3 << 20} {
		cases = append(cases, Case{Kind: "input-total-size", Oracles: []Op{{"c17.carry", [][]byte{[]byte("stdin-total"), []byte(fmt.Sprint(total)), []byte("middle"), []byte("1")}}}})
	}
	for _, site := range sites {
		for _, n := range lengths {
			if (site == "generate" || site == "generate-defined") && n > 140000 && n != 262144 {
				continue // the assembler's own line loop needs the engine, which is quadratic on very long literals
			}
			for _, pos := range []string{"first", "middle", "last", "only"} {
				if pos == "only" && (site == "generate-exclude-file" || site == "generate-defined" || site == "generate-include-defined") {
					continue // these sites need their other lines (definition, excluded words)
				}
				nl := pick(r, []string{"1", "0"})
				if pos == "only" {
					nl = "0" // a single line without final newline: the token fills the whole input
				}
				c := Case{Kind: "long-line:" + site, Oracles: []Op{{"c17.carry", [][]byte{[]byte(site), []byte(fmt.Sprint(n)), []byte(pos), []byte(nl)}}}}
				// the same input through model and code (the model's scanner has no limit)
				long := longLine(n)
				switch site {
				case "renumber":
					c.Ops = []Op{{"renumber.processYaml", [][]byte{[]byte("920100"), []byte("  - test_id: 7\n    data: " + long + "\n  - test_id: 9\n")}}}
				case "copyright":
					c.Ops = []Op{{"copyright.updateRules", [][]byte{[]byte("4.9.0"), []byte("2030"), []byte("# OWASP CRS ver.4.0.0\n# " + long + "\nSecComponentSignature \"OWASP_CRS/4.0.0\"\n")}}}
				case "format":
					c.Ops = []Op{{"format.file", [][]byte{[]byte("##!> assemble\n" + long + "\n##!<\nzz\n")}}}
				case "generate":
					if n <= 70000 {
						c.Ops = []Op{{"parse.run", [][]byte{[]byte("a\n" + long + "\nb\n")}}}
					}
				}
				cases = append(cases, c)
			}
		}
	}
	return cases
}

func init() {
	oracles["c15.writeset"] = oracleC15
	oracles["c16.loud"] = oracleC16
	oracles["c08.all"] = oracleC08
	oracles["c18.arg"] = oracleC18Arg
	oracles["c18.root"] = oracleC18Root
	oracles["c18.all"] = oracleC18All
	oracles["c17.carry"] = oracleC17
	treeRule := "generated CRS checkouts (1..5 rule assembly files incl. chain offsets, include files, toolchain.yaml or none, rules files with the addressed rules and chains, regression tests, setup example) with decoys (other extensions, similar names, nested directories, files outside the root); "
	properties["C15"] = &Property{ID: "C15", LeanMods: []string{"CrsProps.C15", "CrsProps.CliRun", "CrsProps.C18Path"}, Corr: "K10 (binary on sandbox trees, recursive snapshot path/size/sha256/mode before and after)", Workers: 8,
		Rule: treeRule + "19-20 command lines per tree (inspecting and rewriting commands, single target / --all / --check / -o github), run from the root, with -d root, -d subdirectory, relative -d; non-trivial = every run; distinct by (tree, command, mode)", Gen: genC15}
	properties["C16"] = &Property{ID: "C16", LeanMods: []string{"CrsProps.C16", "CrsProps.C12Cli", "CrsProps.CliRun"}, Corr: "K10 (exit status, stdout, tree snapshot under single injected faults)", Workers: 8,
		Rule: treeRule + "one fault of 30 classes injected into the first/middle/last assembly file (or the rules file / argument / version), every command the fault concerns; non-trivial = every run; distinct by (tree, fault, command)", Gen: genC16,
		Assume: []string{"known finding D19: update --all / format --all are not atomic — targets of assembly files preceding the faulty one (format: any other file) are already rewritten when the run fails"}}
	properties["C08"] = &Property{ID: "C08", LeanMods: []string{"CrsProps.C08", "CrsProps.C12Cli"}, Corr: "K10 (tree after --all vs tree after the single invocations in a random order; compare verdict lines)", Workers: 8,
		Rule: treeRule + "update/format/compare --all against the sequence of single invocations in 2 (quick) / 6 (thorough) random orders; assembly files share stored names and definition names; non-trivial = trees with at least two assembly files; distinct by (tree, command, order)", Gen: genC08}
	properties["C18"] = &Property{ID: "C18", LeanMods: []string{"CrsProps.C18", "CrsProps.CliRun", "CrsProps.C18Path"}, Corr: "K9 (parseRuleId vs Crs.Update.parseRuleId), K10 (generate ARG vs generate -, nested roots)", Workers: 8,
		Rule: "argument strings around the grammar NNNNNN[-chainK][.ra] (other digit counts, K in 0..300 and beyond uint8/uint64, extra suffixes, leading zeros, non-ASCII digits); trees with files for accepted and rejected spellings; nested CRS roots with start directories at depth 0..4 below or beside a root, absolute and relative -d, and no -d; non-trivial = every case; distinct by argument / start directory", Gen: genC18,
		Assume: []string{"the root search never tests `/` itself (noted limit of findRootDirectory)"}}
	properties["C17"] = &Property{ID: "C17", LeanMods: []string{"CrsProps.C17"}, Corr: "K2, K5, K6, K8 with one line of 64 KiB ± 1 … 1 MiB at every scanner site", Workers: 6,
		Rule: "one line of length L ∈ {65535, 65536, 65537, 70000} (quick) / {1 … 1 MiB, 13 values} (thorough) at the first/middle/last position of the input of every scanner site (Parse, assemble, include, replaceSuffixes, include-except, exclusion file, format, renumber-tests, update-copyright), with and without final newline; every line after it must be carried through; non-trivial = L ≥ 65536; distinct by (site, L, position)", Gen: genC17}
}
