package main

import (
	"bytes"
	"fmt"
	"math/rand"
	"os"
	"path/filepath"
	"regexp"
	"strconv"
	"strings"

	"github.com/coreruleset/crs-toolchain/v2/util"
)

func init() {
	implOps["renumber.processYaml"] = func(a [][]byte) Result {
		out, err := util.NewTestRenumberer().VerifProcessYaml(string(a[0]), a[1])
		if err != nil {
			return diag(err.Error())
		}
		return ok(out)
	}
	oracles["c13.inproc"] = oracleC13InProc
	oracles["c13.cli"] = oracleC13CLI
	oracles["c13.all"] = oracleC13All
	properties["C13"] = &Property{
		ID:       "C13",
		LeanMods: []string{"CrsProps.C13", "CrsProps.CliRun"},
		Corr:     "K8 (util.processYaml vs Crs.Renumber.processYaml), K10 (renumber-tests binary on a sandbox tree)",
		Rule: "YAML test files generated from a line grammar (meta block, tests with test_id and/or legacy test_title in several spellings, " +
			"near-miss keys, other lines, trailing blank/white-space/Unicode-space lines, CRLF, missing final newline); a case is non-trivial when the file " +
			"contains at least one id or title line or trailing blank material; distinct = distinct (rule id, bytes)",
		Gen: genC13,
		Assume: []string{
			"lines that carry both keys (`test_title: … test_id: …` on one line) are outside the property's quantifier; they are compared model-vs-code but excluded from the idempotence oracle",
			"line content excludes the terminator: CRLF is rewritten to LF and a missing final newline is added (bufio.ScanLines), stated in theorem C13_frame",
		},
	}
}

// independent reading of "n-th test_id is n, n-th test_title is <rule>-n, everything else untouched"
func c13Expected(ruleId string, contents []byte) (want []string, mixed bool) {
	text := string(contents)
	lines := strings.Split(text, "\n")
	if len(lines) > 0 && lines[len(lines)-1] == "" {
		lines = lines[:len(lines)-1]
	}
	ids, titles := 0, 0
	isWs := func(c byte) bool { return c == ' ' || c == '\t' || c == '\r' || c == '\f' }
	lastKey := func(l, key string) int {
		for i := len(l) - len(key) - 1; i >= 0; i-- {
			if strings.HasPrefix(l[i:], key) && isWs(l[i+len(key)]) {
				return i
			}
		}
		return -1
	}
	for _, l := range lines {
		l = strings.TrimSuffix(l, "\r")
		i := lastKey(l, "test_id:")
		j := lastKey(l, "test_title:")
		switch {
		case i >= 0 && j >= 0:
			mixed = true
			want = append(want, "?")
		case i >= 0:
			ids++
			want = append(want, l[:i+len("test_id:")]+" "+strconv.Itoa(ids))
		case j >= 0:
			titles++
			want = append(want, l[:j+len("test_title:")]+" "+ruleId+"-"+strconv.Itoa(titles))
		default:
			want = append(want, l)
		}
	}
	// trailing lines that are white space only are dropped
	for len(want) > 0 && len(bytes.TrimSpace([]byte(want[len(want)-1]))) == 0 {
		want = want[:len(want)-1]
	}
	return want, mixed
}

func c13CheckOutput(ruleId string, in, out []byte) *Failure {
	want, mixed := c13Expected(ruleId, in)
	if mixed {
		return nil
	}
	var exp string
	if len(want) > 0 {
		exp = strings.Join(want, "\n") + "\n"
	}
	if string(out) != exp {
		return &Failure{What: "renumbered file is not: n-th test_id = n, n-th test_title = <rule>-n, other lines untouched, exactly one final newline",
			Detail: fmt.Sprintf("input %q\nwant  %q\ngot   %q", in, exp, out)}
	}
	return nil
}

func oracleC13InProc(p *Pair, env *Env, a [][]byte) *Failure {
	ruleId, in := string(a[0]), a[1]
	r1 := p.Impl(Op{"renumber.processYaml", [][]byte{a[0], in}}, env.timeout)
	if r1.Status != "ok" {
		return &Failure{What: "processYaml failed on a plain text file", Detail: r1.String()}
	}
	if f := c13CheckOutput(ruleId, in, r1.Out[0]); f != nil {
		return f
	}
	if _, mixed := c13Expected(ruleId, in); mixed {
		return nil
	}
	r2 := p.Impl(Op{"renumber.processYaml", [][]byte{a[0], r1.Out[0]}}, env.timeout)
	if r2.Status != "ok" || !bytes.Equal(r2.Out[0], r1.Out[0]) {
		f := &Failure{What: "renumber-tests is not idempotent", Detail: fmt.Sprintf("input %q\nonce  %q\ntwice %s", in, r1.Out[0], r2.String())}
		// D22: a line that ends in CR CR LF loses one CR per run; attributed only when the two results
		// differ by carriage returns alone
		if (bytes.Contains(in, []byte("\r\r\n")) || bytes.HasSuffix(in, []byte("\r\r"))) && r2.Status == "ok" &&
			bytes.Equal(bytes.ReplaceAll(r2.Out[0], []byte("\r"), nil), bytes.ReplaceAll(r1.Out[0], []byte("\r"), nil)) {
			f.Finding = "D22"
		}
		return f
	}
	return nil
}

// CLI level: single-file mode, --check before/after, bytes on disk.
func oracleC13CLI(p *Pair, env *Env, a [][]byte) *Failure {
	ruleId, ext, in := string(a[0]), string(a[1]), a[2]
	if _, mixed := c13Expected(ruleId, in); mixed {
		return nil
	}
	sb := mkSandbox(env)
	defer os.RemoveAll(sb)
	rel := filepath.Join("tests/regression/tests/REQUEST-"+ruleId[:3]+"-X", ruleId+ext)
	tree := Tree{"regex-assembly/": nil, rel: in}
	if err := tree.write(sb); err != nil {
		return &Failure{What: "harness: cannot write sandbox", Detail: err.Error()}
	}
	file := filepath.Join(sb, rel)
	want1 := p.Impl(Op{"renumber.processYaml", [][]byte{a[0], in}}, env.timeout)
	if want1.Status != "ok" {
		return &Failure{What: "processYaml failed", Detail: want1.String()}
	}
	changed := !bytes.Equal(want1.Out[0], in)
	before := snapshot(sb)
	c := runCLI(env, sb, nil, "-l", "disabled", "util", "renumber-tests", "-c", ruleId)
	if d := diffSnap(before, snapshot(sb)); len(d) > 0 {
		return &Failure{What: "renumber-tests --check wrote to the tree", Detail: strings.Join(d, ", ")}
	}
	if (c.exit != 0) != changed {
		return &Failure{What: "renumber-tests --check verdict differs from 'a rewrite would change the file'", Detail: fmt.Sprintf("exit %d, would change: %v, input %q", c.exit, changed, in)}
	}
	// the same in --all mode, text and github output
	for _, out := range []string{"text", "github"} {
		c = runCLI(env, sb, nil, "-l", "disabled", "-o", out, "util", "renumber-tests", "-c", "-a")
		if d := diffSnap(before, snapshot(sb)); len(d) > 0 {
			return &Failure{What: "renumber-tests --check --all (-o " + out + ") wrote to the tree", Detail: strings.Join(d, ", ")}
		}
		if (c.exit != 0) != changed {
			return &Failure{What: "renumber-tests --check --all verdict differs from 'a rewrite would change the file'", Detail: fmt.Sprintf("-o %s exit %d, would change: %v, input %q", out, c.exit, changed, in)}
		}
	}
	// (the output format is no write mode: with -o github or -o text the file is renumbered all the same)
	outOpt := [][]string{{}, {"-o", "github"}, {"-o", "text"}, {"--output", "github"}}[len(in)%4]
	c = runCLI(env, sb, nil, append(append([]string{"-l", "disabled"}, outOpt...), "util", "renumber-tests", ruleId)...)
	if c.exit != 0 {
		return &Failure{What: "renumber-tests failed on a plain file", Detail: fmt.Sprintf("exit %d %s", c.exit, c.stderr)}
	}
	got, _ := os.ReadFile(file)
	if f := c13CheckOutput(ruleId, in, got); f != nil {
		return f
	}
	{
		// the argument in its file-name form, given from a working directory that holds a file of that very name (a copy,
		// another checkout): the file below the root is the one addressed, the other one is not touched
		sb3 := mkSandbox(env)
		defer os.RemoveAll(sb3)
		_ = tree.write(sb3)
		elsewhere := filepath.Join(sb3, "elsewhere")
		_ = os.MkdirAll(elsewhere, 0o755)
		decoy := append([]byte("  - test_id: 41\n  - test_id: 41\n"), in...)
		_ = os.WriteFile(filepath.Join(elsewhere, ruleId+ext), decoy, 0o644)
		c3 := runCLI(env, elsewhere, nil, "-l", "disabled", "-d", sb3, "util", "renumber-tests", ruleId+ext)
		got3, _ := os.ReadFile(filepath.Join(sb3, rel))
		dec3, _ := os.ReadFile(filepath.Join(elsewhere, ruleId+ext))
		if !bytes.Equal(dec3, decoy) {
			return &Failure{What: "renumber-tests rewrote a file of the same name in the working directory, outside the tests directory of the root", Detail: fmt.Sprintf("exit %d", c3.exit)}
		}
		if c3.exit == 0 {
			if f := c13CheckOutput(ruleId, in, got3); f != nil {
				f.What = "renumber-tests " + ruleId + ext + " from another working directory: " + f.What
				return f
			}
		}
	}
	c = runCLI(env, sb, nil, "-l", "disabled", "util", "renumber-tests", "-c", ruleId)
	if c.exit != 0 {
		return &Failure{What: "renumber-tests --check fails right after renumber-tests", Detail: fmt.Sprintf("file %q", got)}
	}
	c = runCLI(env, sb, nil, "-l", "disabled", "util", "renumber-tests", "-a")
	got2, _ := os.ReadFile(file)
	if c.exit != 0 || !bytes.Equal(got, got2) {
		return &Failure{What: "second renumber-tests (--all) changed the file or failed", Detail: fmt.Sprintf("exit %d once %q twice %q", c.exit, got, got2)}
	}
	return nil
}

func genYamlTestFile(r *rand.Rand, ruleId string) (string, bool) {
	var lines []string
	nontrivial := false
	if chance(r, 0.8) {
		lines = append(lines, "---", "meta:", "  author: \"someone\"", "  enabled: true", "  name: "+ruleId+".yaml", "tests:")
	}
	nTests := r.Intn(7)
	style := r.Intn(4) // 0 ids, 1 titles, 2 both per test, 3 heterogeneous
	for t := 0; t < nTests; t++ {
		useID := style == 0 || style == 2 || (style == 3 && chance(r, 0.5))
		useTitle := style == 1 || style == 2 || (style == 3 && !useID)
		indent := pick(r, []string{"  - ", "    - ", "- ", "  -   ", "\t- ", "  - ", "    - ", "  # 100% ", "  - note: 50%% of %d -- ", "  # was %s: "})
		val := pick(r, []string{"1", "7", "42", ruleId + "-3", "\"x\"", "abc", "0", "999999999999"})
		sep := pick(r, []string{" ", "  ", "\t", " \t "})
		first := true
		emit := func(key string) {
			pre := "    "
			if first {
				pre = indent
			}
			first = false
			lines = append(lines, pre+key+sep+val)
			nontrivial = true
		}
		if useID {
			emit("test_id:")
		}
		if useTitle {
			emit("test_title:")
		}
		nOther := r.Intn(4)
		for k := 0; k < nOther; k++ {
			lines = append(lines, pick(r, []string{
				"    desc: \"some test\"", "    stages:", "      - input:", "          uri: \"/get?test_id=1\"",
				"          data: \"test_id:5\"", "        output:", "          log:", "            expect_ids: [" + ruleId + "]",
				"    # test_id:", "    test_id:", "    test_ids: 4", "    test_title:x", "", "   ", "\t", "    desc: test_id:\tin the middle", "    note: a test_title: inside text",
				"    x: \" \"", " ", "    bytes: \xff\xfe",
			}))
		}
	}
	if chance(r, 0.1) {
		lines = append(lines, "  - test_title: a test_id: 5") // both keys on one line: outside the quantifier
	}
	if chance(r, 0.15) {
		// the last line with text ends in white space: that white space is content, only blank LINES after it go
		lines = append(lines, pick(r, []string{"    desc: \"last\" ", "      last body line\t", "    v: 1\u00a0", "  - test_id: 3  "}))
		nontrivial = true
	}
	// trailing material
	nTrail := r.Intn(4)
	for k := 0; k < nTrail; k++ {
		lines = append(lines, pick(r, []string{"", " ", "\t", "  \t ", " ", "  ", "\v", "\f"}))
		nontrivial = true
	}
	return joinLines(r, lines, 0.2, chance(r, 0.8)), nontrivial
}

// --all on trees of several test files, some already numbered, some not, in every walk position: each file must come
// out as if it had been renumbered alone (no state carried from file to file), --check must write nothing and fail
// iff some file would change, and a second run must change nothing.
// args: check ("0"/"1"), then path, content pairs (walk order)
var reC13TestFile = regexp.MustCompile(`^[0-9]{6}\.ya?ml$`)

func oracleC13All(p *Pair, env *Env, a [][]byte) *Failure {
	files := a
	sb := mkSandbox(env)
	defer os.RemoveAll(sb)
	t := Tree{"regex-assembly/": nil}
	anyChange := false
	want := map[string][]byte{}
	for i := 0; i+1 < len(files); i += 2 {
		path := string(files[i])
		t[path] = files[i+1]
		base := filepath.Base(path)
		if !reC13TestFile.MatchString(base) {
			// not a test file by its name (NNNNNN.yaml / NNNNNN.yml): left alone, and no reason for --check to fail
			want[path] = files[i+1]
			continue
		}
		id := base[:6]
		exp, mixed := c13Expected(id, files[i+1])
		if mixed {
			return nil
		}
		w := []byte(strings.Join(exp, "\n") + "\n")
		want[path] = w
		if !bytes.Equal(w, files[i+1]) {
			anyChange = true
		}
	}
	if err := t.write(sb); err != nil {
		return &Failure{What: "harness: cannot write sandbox", Detail: err.Error()}
	}
	before := snapshot(sb)
	c := runCLI(env, sb, nil, "-l", "disabled", "util", "renumber-tests", "-c", "-a")
	if d := diffSnap(before, snapshot(sb)); len(d) > 0 {
		return &Failure{What: "renumber-tests --check --all wrote to the tree", Detail: strings.Join(d, ", ")}
	}
	if (c.exit != 0) != anyChange {
		return &Failure{What: "renumber-tests --check --all verdict differs from 'some file would change'", Detail: fmt.Sprintf("exit %d, would change: %v", c.exit, anyChange)}
	}
	outOpt := [][]string{{"-o", "github"}, {}, {"-o", "text"}}[len(files)%3]
	c = runCLI(env, sb, nil, append(append([]string{"-l", "disabled"}, outOpt...), "util", "renumber-tests", "-a")...)
	if c.exit != 0 {
		return &Failure{What: "renumber-tests --all failed on plain files", Detail: fmt.Sprintf("exit %d %s", c.exit, tail(string(c.stderr), 300))}
	}
	for path, w := range want {
		got, _ := os.ReadFile(filepath.Join(sb, path))
		if !bytes.Equal(got, w) {
			return &Failure{What: "renumber-tests --all does not number a file as it would on its own", Detail: fmt.Sprintf("%s: got %q want %q", path, got, w)}
		}
	}
	c = runCLI(env, sb, nil, "-l", "disabled", "util", "renumber-tests", "-c", "-a")
	if c.exit != 0 {
		return &Failure{What: "renumber-tests --check --all fails right after renumber-tests --all", Detail: fmt.Sprintf("exit %d", c.exit)}
	}
	after1 := snapshot(sb)
	c = runCLI(env, sb, nil, "-l", "disabled", "util", "renumber-tests", "-a")
	if d := diffSnap(after1, snapshot(sb)); len(d) > 0 || c.exit != 0 {
		return &Failure{What: "a second renumber-tests --all changes files or fails", Detail: fmt.Sprintf("exit %d %s", c.exit, strings.Join(d, ", "))}
	}
	return nil
}

func genC13Trees(r *rand.Rand, n int) []Case {
	var cases []Case
	for i := 0; i < n; i++ {
		t := Tree{}
		k := 2 + r.Intn(3)
		for j := 0; j < k; j++ {
			id := fmt.Sprintf("92%04d", 100+10*j+r.Intn(9))
			if j == 1 && i%2 == 1 {
				id = pick(r, []string{"012345", "000007", "000000"})
			}
			nt := 1 + r.Intn(4)
			var lines []string
			lines = append(lines, "---", "tests:")
			correct := chance(r, 0.5)
			for q := 1; q <= nt; q++ {
				v := q
				if !correct {
					v = 3 + 2*q
				}
				if chance(r, 0.3) {
					lines = append(lines, fmt.Sprintf("  - test_title: %s-%d", id, v))
				} else {
					lines = append(lines, fmt.Sprintf("  - test_id: %d", v), "    desc: x")
				}
			}
			t["tests/regression/tests/REQUEST-920-X/"+id+pick(r, []string{".yaml", ".yml"})] = []byte(strings.Join(lines, "\n") + "\n")
		}
		// bystanders whose names nearly are test file names, misnumbered inside
		for _, nm := range []string{"920100-yaml", "920101_yml", "920102.yamlx", "920103.yaml.bak", "920104.yml~", "x920105.yaml", "9201060.yaml", "92010.yml", "920107.YAML"} {
			if chance(r, 0.4) {
				t["tests/regression/tests/REQUEST-920-X/"+nm] = []byte("  - test_id: 7\n  - test_title: 920100-9\n\n\n")
			}
		}
		// hidden entries next to the test files and above them (an editor's swap file, a desktop's metadata, a placeholder,
		// an IDE's directory): they are no test files and take nothing away from the ones that are
		for _, nm := range []string{"REQUEST-920-X/.920100.yaml.swp", "REQUEST-920-X/.DS_Store", ".gitkeep", ".idea/workspace.xml", "REQUEST-920-X/.hidden/920199.yaml"} {
			if chance(r, 0.5) {
				t["tests/regression/tests/"+nm] = []byte("  - test_id: 7\n  - test_id: 7\n")
			}
		}
		files := treeArgs(t)
		ops := []Op{{"cli.renumberAll", append([][]byte{[]byte("0")}, files...)}, {"cli.renumberAll", append([][]byte{[]byte("1")}, files...)}}
		// the same through the invocation model: --all with and without --check under every output format (the format is
		// no write mode), and invocations the command refuses
		for _, inv := range [][3]string{{"", "a", ""}, {"=github", "a", ""}, {"=text", "a", ""}, {"=github", "ac", ""}, {"", "ac", ""}, {"=GitHub", "a", ""}, {"", "", ""}, {"", "a", "\x1f920100"}, {"", "", "\x1f-"}} {
			args := [][]byte{[]byte(inv[0]), []byte("renumber"), []byte(inv[1]), {}, []byte("0"), []byte("2031"), []byte("LINT"), {}, {}, {}, {}, {}, {}, []byte(inv[2])}
			ops = append(ops, Op{"cli.run", append(args, files...)})
		}
		cases = append(cases, Case{Kind: "tree:renumber-all", Ops: ops, Oracles: []Op{{"c13.all", files}}})
	}
	return cases
}

func genC13(r *rand.Rand, tier string, env *Env) []Case {
	n, nCli := 400, 40
	if tier == "thorough" {
		n, nCli = 6000, 400
	}
	var cases []Case
	fixed := []string{"", "\n", "\n\n", " \n", "test_id: 1", "test_id: 1\n", "- test_id: 5\r\n- test_id: 5\r\n", "a\r", "test_id:\t9\n\n\n", "x\n \n", "  test_title: t\n  test_id: 3\n  test_title: t\n"}
	for _, f := range fixed {
		cases = append(cases, Case{Kind: "fixed", Ops: []Op{{"renumber.processYaml", [][]byte{[]byte("920100"), []byte(f)}}},
			Oracles: []Op{{"c13.inproc", [][]byte{[]byte("920100"), []byte(f)}}}})
	}
	{
		// one line of more than a mebibyte (a request body in a test): every line after it is still there
		long := "          data: \"" + strings.Repeat("A", 1<<20+r.Intn(4096)) + "\""
		content := "---\ntests:\n  - test_id: 4\n    stages:\n" + long + "\n  - test_id: 9\n    desc: after the long line\n  - test_title: 920100-7\n"
		cases = append(cases, Case{Kind: "line-over-1MiB", Ops: []Op{{"renumber.processYaml", [][]byte{[]byte("920100"), []byte(content)}}},
			Oracles: []Op{{"c13.inproc", [][]byte{[]byte("920100"), []byte(content)}}, {"c13.cli", [][]byte{[]byte("920100"), []byte(".yaml"), []byte(content)}}}})
	}
	for i := 0; i < n; i++ {
		ruleId := fmt.Sprintf("9%05d", r.Intn(100000))
		if i%7 == 3 {
			// ids are six digits, whatever digits: leading zeros, all zeros, all nines
			ruleId = pick(r, []string{"012345", "000007", "000000", "001000", "099999", "999999"})
		}
		content, nontrivial := genYamlTestFile(r, ruleId)
		kind := "yaml"
		if !nontrivial {
			kind = "trivial"
		}
		if i%25 == 11 {
			// a file of several buffer-fulls (5 KiB … 70 KiB, hundreds of tests; sometimes one single line)
			for len(content) < 5000+r.Intn(65000) {
				more, _ := genYamlTestFile(r, ruleId)
				content += more
			}
			if chance(r, 0.15) {
				content = strings.ReplaceAll(strings.ReplaceAll(content, "\n", " "), "\r", " ")
			}
			kind = "big-file"
		}
		c := Case{Kind: kind, Ops: []Op{{"renumber.processYaml", [][]byte{[]byte(ruleId), []byte(content)}}},
			Oracles: []Op{{"c13.inproc", [][]byte{[]byte(ruleId), []byte(content)}}}}
		if i < nCli || kind == "big-file" {
			c.Kind = kind + "+cli"
			c.Oracles = append(c.Oracles, Op{"c13.cli", [][]byte{[]byte(ruleId), []byte(pick(r, []string{".yaml", ".yml"})), []byte(content)}})
		}
		cases = append(cases, c)
	}
	nTrees := 12
	if tier == "thorough" {
		nTrees = 150
	}
	cases = append(cases, genC13Trees(r, nTrees)...)
	return cases
}
