package main

import (
	"flag"
	"fmt"
	"os"
	"strconv"
	"time"
)

func main() {
	if len(os.Args) >= 2 && os.Args[1] == "worker" {
		workerMain()
		return
	}
	if len(os.Args) >= 3 && os.Args[1] == "patterns-baseline" {
		writePatternsBaseline(os.Args[2])
		return
	}
	fs := flag.NewFlagSet("harness", flag.ExitOnError)
	prop := fs.String("prop", "", "property id")
	tier := fs.String("tier", "quick", "quick|thorough")
	replay := fs.String("replay", "", "replay file")
	driver := fs.String("driver", "", "path of the compiled Lean driver")
	cli := fs.String("cli", "", "path of the crs-toolchain binary built from /repo's working tree")
	scratch := fs.String("scratch", "", "scratch directory")
	_ = fs.Parse(os.Args[1:])
	seed := int64(1)
	if s := os.Getenv("VERIF_SEED"); s != "" {
		if v, err := strconv.ParseInt(s, 10, 64); err == nil {
			seed = v
		}
	}
	pr, found := properties[*prop]
	if !found {
		fmt.Fprintln(os.Stderr, "unknown property", *prop)
		os.Exit(2)
	}
	self, _ := os.Executable()
	env := &Env{self: self, driver: *driver, cli: *cli, scratch: *scratch, timeout: 20 * time.Second}
	lean := leanCheck(pr, env, *tier)
	if !lean.ok {
		fmt.Fprintln(os.Stderr, "lean obligation broken:", lean.broken)
	}
	os.Exit(runProperty(pr, env, *tier, seed, lean, *replay))
}
