package main

import (
	"bytes"
	"fmt"
	"math/rand"
	"os"
	"regexp/syntax"
	"strings"

	"github.com/itchyny/rassemble-go"
)

func splitLinesField(b []byte) []string {
	s := strings.TrimSuffix(string(b), "\n")
	if s == "" {
		return nil
	}
	return strings.Split(s, "\n")
}

// oracleC01: generate's output accepts exactly the strings of the plain reading.
// args: cfg x6, input, files…
func oracleC01(p *Pair, env *Env, a [][]byte) *Failure {
	f := oracleC01Once(p, env, a)
	if f == nil || f.Finding != "" || strings.HasPrefix(f.What, "harness:") {
		return f
	}
	// shrink the program line by line (delta debugging) and judge the minimal failing program: a small
	// program has a single cause, which keeps the attribution to known findings narrow and the replay readable
	cur := a
	lines := strings.Split(string(a[6]), "\n")
	for changed := true; changed; {
		changed = false
		for i := 0; i < len(lines); i++ {
			cand := append(append([]string{}, lines[:i]...), lines[i+1:]...)
			args := append([][]byte{}, cur...)
			args[6] = []byte(strings.Join(cand, "\n"))
			if g := oracleC01Once(p, env, args); g != nil && !strings.HasPrefix(g.What, "harness:") {
				lines, cur, f, changed = cand, args, g, true
				i--
			}
		}
	}
	f.Detail = "(shrunk from a larger generated program)\n" + f.Detail
	return f
}

func oracleC01Once(p *Pair, env *Env, a [][]byte) *Failure {
	cfg := a[0:6]
	pr := p.Impl(Op{"parse.run", append([][]byte{a[6]}, a[7:]...)}, env.timeout)
	if pr.Status != "ok" {
		return &Failure{What: "a well-formed program does not parse", Detail: fmt.Sprintf("%q: %s", a[6], pr.String())}
	}
	flat, flags := string(pr.Out[0]), string(pr.Out[1])
	prefixes, suffixes := splitLinesField(pr.Out[2]), splitLinesField(pr.Out[3])
	// the plain reading starts from an independent reading of includes and definitions (the by-hand reading of
	// C05–C07) whenever that reading covers the program: a parser defect then shows as a language difference here too
	if hl, err := inlineLinesByHand(filesFromTriples(a[7:]), handLines(string(a[6])), 0); err == nil {
		if hl, err = expandDefsByHand(hl); err == nil {
			var fl []string
			var pre, suf []string
			for _, l := range hl {
				switch {
				case hFlags.MatchString(l):
				case hPrefix.MatchString(l):
					pre = append(pre, hPrefix.FindStringSubmatch(l)[1])
				case hSuffix.MatchString(l):
					suf = append(suf, hSuffix.FindStringSubmatch(l)[1])
				case strings.TrimSpace(l) == "" || hComment.MatchString(l):
				default:
					fl = append(fl, l)
				}
			}
			handFlat := ""
			if len(fl) > 0 {
				handFlat = strings.Join(fl, "\n") + "\n"
			}
			if !strings.Contains(handFlat, emptiedEntry) {
				flat, prefixes, suffixes = handFlat, pre, suf
			}
		}
	}
	plain, altLists, err := plainReadingAlts(flat, prefixes, suffixes, cfg)
	if err != nil {
		return &Failure{What: "harness: generated program is not well-formed: " + err.Error(), Detail: fmt.Sprintf("%q", a[6])}
	}
	gr := p.Impl(Op{"gen.run", a}, env.timeout)
	if plain == "" {
		if gr.Status == "ok" && len(gr.Out[0]) == 0 {
			return nil
		}
		return &Failure{What: "a program without entries must generate nothing", Detail: fmt.Sprintf("%q: %s", a[6], gr.String())}
	}
	if _, err := syntax.Parse(plain, syntax.Perl); err != nil {
		// the plain reading itself is not a regular expression (e.g. prefix/suffix fragments that do not close): outside the quantifier
		return nil
	}
	if gr.Status != "ok" {
		f := &Failure{What: "a well-formed program does not compile: " + gr.Status, Detail: fmt.Sprintf("program %q\nplain reading %q\n%s", a[6], plain, gr.String())}
		// D26: rassemble-go leaves adjacent ranges unmerged (`a` and `\W`), Go prints the complement with an
		// inverted gap (`[^0-9A-Z_a-`b-z]`) and the next Join cannot read it. Attributed only when the engine alone,
		// given one of the program's own lists of alternatives, returns text that it cannot parse again.
		if gr.Status == "diag" && engineOutputUnparsable(altLists) {
			f.Finding = "D26"
		}
		return f
	}
	out := string(gr.Out[0])
	// both texts are read by the same engine with the same global flags; the output carries its own (?flags) prefix
	body := out
	if flags != "" && out != "" {
		pfx := "(?" + flags + ")"
		if !strings.HasPrefix(out, pfx) {
			return &Failure{What: "flags of the program are not applied as the leading (?flags) group", Detail: fmt.Sprintf("program %q flags %q output %q", a[6], flags, out)}
		}
		body = out[len(pfx):]
	}
	seed := int64(len(out))*7919 + int64(len(plain))
	d, err := compareLanguages(seed, body, plain, flags, "\v", 300)
	if err != nil {
		return &Failure{What: "generated regex does not parse as a regular expression: " + err.Error(), Detail: fmt.Sprintf("program %q\noutput %q\nplain %q", a[6], out, plain)}
	}
	if d == nil {
		return nil
	}
	f := &Failure{What: "generated regex and plain reading accept different strings",
		Detail: fmt.Sprintf("program %q\nfiles %q\noutput        %q\nplain reading %q\nsubject %q: output accepts=%v, plain reading accepts=%v", a[6], a[7:], out, plain, d.subject, d.inA, d.inB)}
	// D17: the engine merges e.g. [^a]|a into (?s:.), the toolchain strips the flag: `.` no longer matches \n
	// without the s flag. Attributed only when excluding \n from the alphabet leaves no difference.
	if strings.Contains(d.subject, "\n") && !strings.Contains(flags, "s") {
		d2, _ := compareLanguages(seed, body, plain, flags, "\v\n", 300)
		if d2 == nil {
			f.Finding = "D17"
		}
	}
	// D24: Go prints a class such as [Aa] as (?i:A); dontUseFlagsForMetaCharacters strips that group too, so
	// without the i flag one letter case is lost. Attributed only when the program has no i flag, the engine's
	// own rendering of the plain reading contains a case-folding flag group, and the two expressions are
	// equal once case is ignored.
	if f.Finding == "" && !strings.Contains(flags, "i") {
		js, jerr := rassemble.Join([]string{plain})
		if jerr == nil {
			// the fold flag appears when the engine re-reads its own output, as `complete` makes it do
			js, jerr = rassemble.Join([]string{js})
		}
		if jerr == nil && strings.Contains(js, "(?i") {
			if d3, _ := compareLanguages(seed, body, plain, flags+"i", "\v", 300); d3 == nil {
				f.Finding = "D24"
			}
		}
	}
	// D25: under the i flag a negated class that the engine built by merging (e.g. `\W` and `c` into
	// `[^0-9A-Z_abd-z]`) is case-folded before it is negated and loses the merged letter. Attributed only
	// when the program has the i flag and the two expressions are equal when read case-sensitively.
	if f.Finding == "" && strings.Contains(flags, "i") {
		if d4, _ := compareLanguages(seed, body, plain, strings.ReplaceAll(flags, "i", ""), "\v", 300); d4 == nil {
			f.Finding = "D25"
		}
	}
	return f
}

func engineOutputUnparsable(altLists [][]string) bool {
	for _, alts := range altLists {
		js, err := rassemble.Join(alts)
		if err != nil {
			continue
		}
		if _, perr := syntax.Parse(js, syntax.PerlX|syntax.ClassNL); perr != nil {
			return true
		}
	}
	return false
}

func wellFormedEntryOpts() progOpts {
	return progOpts{maxDepth: 3, maxItems: 5, includes: true, defs: true, cmdline: true, exotic: 0.3, malformed: 0, flagsPfxSf: true}
}

// genGroupingCorner: small programs around the places where an alternation must be grouped before something is put
// next to it (prefix, suffix, a following segment, a stored expression): entries that end in an escaped backslash or
// contain escaped pipes, escaped parentheses, pipes inside classes — whatever a textual "does this need a group?"
// test could get wrong.
func genGroupingCorner(r *rand.Rand) *Program {
	p := &Program{Kinds: map[string]int{"grouping-corner": 1}}
	corner := []string{"a\\x5c", "b\\\\", "c", "d\\|e", "f|g", "(?:h|i)j", "k\\(", "\\)l", "m[|]", "n\\x7c", "o\\x5c\\x5c", "p\\\\\\|q", "(r)", "s\\x5c|t", "foo\\)", "bar\\)", "u\\)", "\\(v", "w\\\\\\)"}
	var lines []string
	if chance(r, 0.2) {
		lines = append(lines, "##!+ "+pick(r, []string{"s", "i"}))
	}
	if chance(r, 0.7) {
		lines = append(lines, "##!^ "+pick(r, []string{"x", "\\b", "x\\x5c", "(?:x|y)"}))
	}
	if chance(r, 0.5) {
		lines = append(lines, "##!$ "+pick(r, []string{"z", "\\b", "[0-9]"}))
	}
	entries := func(k int) []string {
		var es []string
		for i := 0; i < k; i++ {
			es = append(es, pick(r, corner))
		}
		return es
	}
	switch r.Intn(4) {
	case 0:
		lines = append(lines, entries(2+r.Intn(2))...)
	case 1:
		lines = append(lines, entries(2)...)
		lines = append(lines, "##!=>")
		lines = append(lines, entries(1+r.Intn(2))...)
	case 2:
		lines = append(lines, "##!> assemble")
		lines = append(lines, entries(2)...)
		lines = append(lines, "##!<", pick(r, corner))
	default:
		lines = append(lines, entries(2)...)
		lines = append(lines, "##!=< st1", "w", "##!=> st1")
	}
	p.Input = strings.Join(lines, "\n") + "\n"
	for range [6]int{} {
		p.Cfg = append(p.Cfg, []byte{})
	}
	return p
}

func genC01(r *rand.Rand, tier string, env *Env) []Case {
	n := 250
	if tier == "thorough" {
		n = 5000
	}
	var cases []Case
	for i := 0; i < n; i++ {
		o := wellFormedEntryOpts()
		if i%5 == 0 {
			o.maxDepth = 4
		}
		p := genProgram(r, o)
		if i%8 == 3 {
			p = genGroupingCorner(r)
		}
		cases = append(cases, Case{Kind: "program", Ops: []Op{p.parseOp(), p.genOp()}, Oracles: []Op{{"c01.language", p.genOp().Args}}})
	}
	// the same kind of thing twice in one file: two blocks of one type at different places of the expression, the same
	// entries on both sides of a mark, a stored expression used twice — nothing of the first may show in the second
	empty := [][]byte{{}, {}, {}, {}, {}, {}}
	for _, prog := range []string{
		"##!> cmdline unix\ncurl\nwget\n##!<\n##!=>\n##!> cmdline unix\nsh\nbash\n##!<\n",
		"##!> cmdline windows\ndir\n##!<\n##!=< first\n##!> cmdline windows\ntype\n##!<\n##!=> first\n",
		"##!> assemble\n##!> cmdline unix\nls\n##!<\n##!<\n##!=>\n##!> assemble\n##!> cmdline unix\ncat\n##!<\n##!<\n",
		"##!> cmdline unix\nls\n##!<\n##!=>\n##!> cmdline windows\ndir\n##!<\n##!=>\n##!> cmdline unix\nps\n##!<\n",
		"a\nb\n##!=>\na\nc\n",
		"ab\ncd\n##!=< t\n##!=> t\n-\n##!=>\nab\ncd\n",
		"##!> assemble\na\nb\n##!<\n##!=>\nq\n##!=>\n##!> assemble\na\nb\n##!<\n",
		"x\ny\n##!=< t\n##!=> t\n##!=> t\n",
	} {
		args := append(append([][]byte{}, empty...), []byte(prog))
		cases = append(cases, Case{Kind: "same-thing-twice", Ops: []Op{{"parse.run", args[6:]}, {"gen.run", args}}, Oracles: []Op{{"c01.language", args}}})
	}
	cases = append(cases, sharedDefinitionCases("c01.language")...)
	// "the regex printed by `regex generate`": what the binary prints has the language of what the assembler computed.
	// Entries with characters that mean something to an output path (format verbs, template and shell characters).
	for _, prog := range []string{"%2f\n%5c\n", "100%\n50%\n", "a%sb\n", "%d+\n", "x%\ny\n", "%%\n", "a%20b\nc\n", "\\$1\n", "${x}\n"} {
		args := append(append([][]byte{}, empty...), []byte(prog))
		cases = append(cases, Case{Kind: "printed", Ops: []Op{{"gen.run", args}}, Oracles: []Op{{"c01.language", args}, {"c01.printed", args}}})
	}
	nPrinted := 10
	if tier == "thorough" {
		nPrinted = 120
	}
	for i := 0; i < nPrinted; i++ {
		o := wellFormedEntryOpts()
		o.exotic = 0.4
		p := genProgram(r, o)
		cases = append(cases, Case{Kind: "printed", Ops: []Op{p.genOp()}, Oracles: []Op{{"c01.printed", p.genOp().Args}}})
	}
	return cases
}

// oracleC01Printed: the text `regex generate -` prints accepts the strings the assembler's result accepts
func oracleC01Printed(p *Pair, env *Env, a [][]byte) *Failure {
	gr := p.Impl(Op{"gen.run", a}, env.timeout)
	if gr.Status != "ok" {
		return nil
	}
	sb := mkSandbox(env)
	defer os.RemoveAll(sb)
	t := Tree{"regex-assembly/include/": nil, "regex-assembly/exclude/": nil}
	files := a[7:]
	for i := 0; i+2 < len(files); i += 3 {
		dir := "include"
		if string(files[i]) == "e" {
			dir = "exclude"
		}
		t["regex-assembly/"+dir+"/"+string(files[i+1])] = files[i+2]
	}
	if !cfgIsEmpty(a[0:6]) {
		t["regex-assembly/toolchain.yaml"] = []byte(toolchainYaml(a[0:6]))
	}
	_ = t.write(sb)
	c := runCLI(env, sb, a[6], "-l", "disabled", "regex", "generate", "-")
	if c.exit == 0 && bytes.Equal(c.stdout, gr.Out[0]) {
		return nil
	}
	detail := fmt.Sprintf("program %q\nassembler %q\nbinary exit %d stdout %q", a[6], gr.Out[0], c.exit, c.stdout)
	if c.exit != 0 {
		return &Failure{What: "a well-formed program compiles in the assembler and fails in the binary", Detail: detail}
	}
	d, err := compareLanguages(int64(len(c.stdout)), string(c.stdout), string(gr.Out[0]), "", "\v", 300)
	if err != nil {
		return &Failure{What: "the printed regex does not parse as a regular expression: " + err.Error(), Detail: detail}
	}
	if d != nil {
		return &Failure{What: "the printed regex and the assembler's result accept different strings",
			Detail: fmt.Sprintf("%s\nsubject %q: printed accepts=%v, result accepts=%v", detail, d.subject, d.inA, d.inB)}
	}
	return nil
}

// sharedDefinitionCases: include-except whose include file defines names — nested, in either alphabetical order of the
// referring and the referred-to name — and whose exclusion files spell the entries to remove with those names, with
// and without definitions of their own; the same for an include file included by a file with definitions.
func sharedDefinitionCases(oracle string) []Case {
	empty := [][]byte{{}, {}, {}, {}, {}, {}}
	var cases []Case
	for _, names := range [][2]string{{"sep", "word"}, {"zsep", "aword"}, {"a", "b"}, {"b", "a"}} {
		sep, word := names[0], names[1]
		inc := "##!> define " + sep + " [-_]\n##!> define " + word + " foo{{" + sep + "}}bar\n{{" + word + "}}1\n{{" + word + "}}2\nplain\n"
		inc2 := "##!> define " + word + " foo{{" + sep + "}}bar\n##!> define " + sep + " [-_]\n{{" + word + "}}1\n{{" + word + "}}2\nplain\n"
		for vi, incText := range []string{inc, inc2} {
			for xi, exc := range []string{"{{" + word + "}}1\n", "##! no definitions here\n\n{{" + word + "}}1\n", "##!> define other q\n{{" + word + "}}1\n", "foo{{" + sep + "}}bar1\n", "foo[-_]bar1\n",
				// an exclusion file that defines a name the include file has defined: the definition made first stays
				"##!> define " + sep + " QQ\n{{" + word + "}}1\n", "##!> define " + word + " other\n{{" + word + "}}1\n"} {
				files := [][]byte{[]byte("i"), []byte("words.ra"), []byte(incText), []byte("e"), []byte("notone.ra"), []byte(exc), []byte("e"), []byte("nothing.ra"), []byte("##! nothing\n"),
					[]byte("e"), []byte("redef.ra"), []byte("##!> define " + sep + " ZZ\n##!> define " + word + " zz{{" + sep + "}}\nnotinthefile\n")}
				for pi, prog := range []string{"##!> include-except words notone\nlast\n", "##!> include-except words nothing notone\n", "##!> assemble\n##!> include-except words notone nothing\n##!=>\nz\n##!<\n",
					"##!> include-except words redef notone\n"} {
					if (vi+xi+pi)%2 == 1 && xi > 1 {
						continue
					}
					args := append(append(append([][]byte{}, empty...), []byte(prog)), files...)
					cases = append(cases, Case{Kind: "shared-definitions", Ops: []Op{{"gen.run", args}}, Oracles: []Op{{oracle, args}}})
				}
			}
		}
	}
	return cases
}

func init() {
	oracles["c01.language"] = oracleC01
	oracles["c01.printed"] = oracleC01Printed
	properties["C01"] = &Property{
		ID: "C01", LeanMods: []string{"CrsProps.C01"},
		Corr: "K2 (parser.Parse), K5 (Operator.Run end to end; the model's engine answers come from the real rassemble.Join)",
		Rule: "well-formed assembly programs from a tree grammar (entries from a regex grammar, nested assemble/cmdline blocks to depth 3-4, markers, store/recall, includes with prefixes/suffixes, include-except, suffix replacements, definitions incl. nested and late ones, flag/prefix/suffix lines, five configurations); " +
			"non-trivial = the program has at least two entries; distinct by (program, files, configuration)",
		Gen: genC01,
		Assume: []string{
			"language comparison is sample-based (strings drawn from both expressions' syntax trees, mutants, all strings of length ≤ 2 over the expressions' own alphabet); it is the search for a failing input, not the proof",
			"both expressions are read by Go's regexp with the same global flags; U+000B is outside the compared alphabet",
			"known finding D17: `.` obtained from (?s:.) no longer matches a line feed when the s flag is not set",
		},
	}
}
