package main

import (
	"bufio"
	"fmt"
	"os"
	"runtime"
	"strings"

	"github.com/rs/zerolog"
)

// implOps is the table of operations served by the implementation worker: every entry calls
// the real code of /repo (through the verif hooks where the function is unexported).
var implOps = map[string]func(args [][]byte) Result{}

func ok(out ...[]byte) Result { return Result{Status: "ok", Out: out} }
func okS(out ...string) Result {
	r := Result{Status: "ok"}
	for _, s := range out {
		r.Out = append(r.Out, []byte(s))
	}
	return r
}
func diag(note string) Result { return Result{Status: "diag", Note: note} }
func boolB(b bool) []byte {
	if b {
		return []byte{1}
	}
	return []byte{0}
}

func runImplOp(name string, args [][]byte) (res Result) {
	f, found := implOps[name]
	if !found {
		return Result{Status: "bad-op"}
	}
	defer func() {
		if r := recover(); r != nil {
			if re, isRuntime := r.(runtime.Error); isRuntime {
				res = Result{Status: "runtime", Note: strings.ReplaceAll(re.Error(), "\n", " ")}
			} else {
				// logger.Panic() of zerolog panics with the message: a deliberate diagnostic
				res = Result{Status: "diag", Note: strings.ReplaceAll(fmt.Sprint(r), "\n", " ")}
			}
		}
	}()
	return f(args)
}

// workerMain serves ops on stdin/stdout until EOF. logger.Fatal() inside /repo's code ends the
// process with status 1; the orchestrator maps that to "diag" and restarts the worker.
func workerMain() {
	zerolog.SetGlobalLevel(zerolog.Disabled)
	in := bufio.NewReaderSize(os.Stdin, 1<<20)
	out := bufio.NewWriter(os.Stdout)
	for {
		line, err := in.ReadString('\n')
		if line == "" && err != nil {
			return
		}
		toks := strings.Fields(line)
		if len(toks) == 0 {
			fmt.Fprintln(out, "bad-op")
			out.Flush()
			continue
		}
		args := make([][]byte, 0, len(toks)-1)
		bad := false
		for _, t := range toks[1:] {
			b, e := unhx(t)
			if e != nil {
				bad = true
				break
			}
			args = append(args, b)
		}
		if bad {
			fmt.Fprintln(out, "bad-hex")
		} else {
			fmt.Fprintln(out, runImplOp(toks[0], args).Line())
		}
		out.Flush()
	}
}
