package main

import (
	"bytes"
	"fmt"
	"math/rand"
	"regexp"
	"sort"
	"strings"
)

// ---- an independent, naive reading of include / include-except / definitions (C05, C06, C07) ----

var (
	hIncl    = regexp.MustCompile(`^##!>\s*include\s+(\S+)\s*(?:--\s*(.*?))?\s*$`)
	hInclEx  = regexp.MustCompile(`^##!>\s*include-except\s+(\S+)\s+(.*?)\s*(?:--\s*(.*?))?\s*$`)
	hDefine  = regexp.MustCompile(`^##!>\s*define\s+([a-zA-Z0-9_-]+)\s+(\S+)\s*$`)
	hPrefix  = regexp.MustCompile(`^##!\^\s*(.*\S)\s*$`)
	hSuffix  = regexp.MustCompile(`^##!\$\s*(.*\S)\s*$`)
	hFlags   = regexp.MustCompile(`^##!\+`)
	hComment = regexp.MustCompile(`^\s*##!(?:[^^$+><=]|$)`) // the marker may stand behind white space of any ASCII kind (form feed, CR), not only the indentation
)

// marks an entry that a suffix replacement emptied (see rewriteSuffixByHand)
const emptiedEntry = "\x00emptied-entry\x00"

type handFiles map[string]string

func filesFromTriples(t [][]byte) handFiles {
	m := handFiles{}
	// include directory wins over exclude directory
	for pass := 0; pass < 2; pass++ {
		for i := 0; i+2 < len(t); i += 3 {
			isInc := string(t[i]) == "i"
			if (pass == 0) != isInc {
				continue
			}
			name := strings.TrimSuffix(string(t[i+1]), ".ra")
			if _, dup := m[name]; !dup {
				m[name] = string(t[i+2])
			}
		}
	}
	return m
}

func handLines(s string) []string {
	s = strings.ReplaceAll(s, "\r\n", "\n")
	s = strings.TrimSuffix(s, "\n")
	if s == "" {
		return nil
	}
	out := strings.Split(s, "\n")
	for i := range out {
		out[i] = strings.TrimLeft(strings.TrimSuffix(out[i], "\r"), " \t")
	}
	return out
}

// expandDefsByHand: full (acyclic) expansion of `{{name}}` by the first definition of each name.
func expandDefsByHand(lines []string) ([]string, error) {
	rest, _, err := expandDefsByHandWith(lines, nil)
	return rest, err
}

// handDefs: definitions in the order made (the first definition of a name wins)
type handDefs struct {
	val   map[string]string
	order []string
}

// expandDefsByHandWith: the same with definitions handed down from another file (they were made first, so they win);
// returns the definitions the text ended up with as well
func expandDefsByHandWith(lines []string, inherited *handDefs) ([]string, *handDefs, error) {
	defs := map[string]string{}
	var order []string
	if inherited != nil {
		for _, n := range inherited.order {
			defs[n] = inherited.val[n]
			order = append(order, n)
		}
	}
	var rest []string
	for _, l := range lines {
		if m := hDefine.FindStringSubmatch(l); m != nil {
			if _, dup := defs[m[1]]; !dup {
				defs[m[1]] = m[2]
				order = append(order, m[1])
			}
			continue
		}
		rest = append(rest, l)
	}
	var expand func(s string, depth int) (string, error)
	ref := regexp.MustCompile(`\{\{([a-zA-Z0-9_-]+)\}\}`)
	expand = func(s string, depth int) (string, error) {
		if depth > 20 {
			return "", fmt.Errorf("cyclic definitions")
		}
		var err error
		out := ref.ReplaceAllStringFunc(s, func(m string) string {
			name := m[2 : len(m)-2]
			v, found := defs[name]
			if !found {
				return m
			}
			e, e2 := expand(v, depth+1)
			if e2 != nil {
				err = e2
			}
			return e
		})
		return out, err
	}
	for i, l := range rest {
		e, err := expand(l, 0)
		if err != nil {
			return nil, nil, err
		}
		rest[i] = e
	}
	return rest, &handDefs{val: defs, order: order}, nil
}

func rewriteSuffixByHand(lines []string, pairText string) []string {
	fs := asciiFields(pairText)
	if len(fs) == 0 {
		return lines
	}
	out := make([]string, len(lines))
	for i, l := range lines {
		out[i] = l
		if strings.HasPrefix(l, "##!") || strings.TrimSpace(l) == "" {
			continue
		}
		for k := 0; k+1 < len(fs); k += 2 {
			if strings.HasSuffix(l, fs[k]) {
				repl := fs[k+1]
				if repl == `""` {
					repl = ""
				}
				out[i] = strings.TrimSuffix(l, fs[k]) + repl
				if out[i] == "" || strings.TrimSpace(out[i]) != out[i] {
					// an entry rewritten to nothing reaches the assembler as an EMPTY entry; typed in place an empty
					// line is a blank line and is skipped: the by-hand reading cannot spell this case. The same holds for
					// an entry that now begins or ends with white space of any kind (typed in place it would be trimmed).
					out[i] = emptiedEntry
				}
				break
			}
		}
	}
	return out
}

// inlineFileByHand: the lines an include of `name` stands for.
func inlineFileByHand(files handFiles, name string, depth int) ([]string, error) {
	ls, _, err := inlineFileByHandWith(files, name, depth, nil)
	return ls, err
}

// inlineFileByHandWith: the same for a file that is read with definitions handed down to it (the exclusion files of an
// include-except are read with the definitions of the include file, and of the exclusion files before them)
func inlineFileByHandWith(files handFiles, name string, depth int, inherited *handDefs) ([]string, *handDefs, error) {
	ls, defs, err := inlineFileByHandWith0(files, name, depth, inherited)
	return ls, defs, err
}

func inlineFileByHandWith0(files handFiles, name string, depth int, inherited *handDefs) ([]string, *handDefs, error) {
	if depth > 200 {
		return nil, nil, fmt.Errorf("include depth")
	}
	content, found := files[strings.TrimSuffix(name, ".ra")]
	if !found {
		return nil, nil, fmt.Errorf("no such include file %s", name)
	}
	lines, err := inlineLinesByHand(files, handLines(content), depth)
	if err != nil {
		return nil, nil, err
	}
	// the file's own definitions are applied to its own text and do not leave it
	lines, defsOut, err := expandDefsByHandWith(lines, inherited)
	if err != nil {
		return nil, nil, err
	}
	var pre, suf, body []string
	for _, l := range lines {
		if hFlags.MatchString(l) {
			return nil, nil, fmt.Errorf("flags in include file")
		}
		if m := hPrefix.FindStringSubmatch(l); m != nil {
			pre = append(pre, m[1])
		} else if m := hSuffix.FindStringSubmatch(l); m != nil {
			suf = append(suf, m[1])
		} else if strings.TrimSpace(l) == "" || hComment.MatchString(l) {
			continue
		} else {
			body = append(body, l)
		}
	}
	if len(pre) == 0 && len(suf) == 0 {
		return body, defsOut, nil
	}
	// prefixes and suffixes bind the file's own entries only: a local block
	out := []string{"##!> assemble"}
	for _, p := range pre {
		out = append(out, p, "##!=>")
	}
	out = append(out, body...)
	if len(suf) > 0 {
		out = append(out, "##!=>")
	}
	for _, s := range suf {
		out = append(out, s, "##!=>")
	}
	return append(out, "##!<"), defsOut, nil
}

func inlineLinesByHand(files handFiles, lines []string, depth int) ([]string, error) {
	var out []string
	for _, l := range lines {
		if m := hInclEx.FindStringSubmatch(l); m != nil {
			inc, shared, err := inlineFileByHandWith(files, m[1], depth+1, nil)
			if err != nil {
				return nil, err
			}
			excluded := map[string]bool{}
			for _, x := range asciiFields(m[2]) {
				var xs []string
				xs, shared, err = inlineFileByHandWith(files, x, depth+1, shared)
				if err != nil {
					return nil, err
				}
				for _, e := range xs {
					excluded[e] = true
				}
			}
			// survivors keep the file's relative order; a duplicated entry survives once, at its last position
			last := map[string]int{}
			for i, e := range inc {
				last[e] = i
			}
			var kept []string
			for i, e := range inc {
				if last[e] == i && !excluded[e] {
					kept = append(kept, e)
				}
			}
			out = append(out, rewriteSuffixByHand(kept, m[3])...)
			continue
		}
		if m := hIncl.FindStringSubmatch(l); m != nil {
			inc, err := inlineFileByHand(files, m[1], depth+1)
			if err != nil {
				return nil, err
			}
			out = append(out, rewriteSuffixByHand(inc, m[2])...)
			continue
		}
		out = append(out, l)
	}
	return out, nil
}

// oracleInline: generate(program with includes) == generate(program inlined and expanded by hand, no files)
// args: cfg x6, input, files…
func oracleInline(p *Pair, env *Env, a [][]byte) *Failure {
	files := filesFromTriples(a[7:])
	lines, err := inlineLinesByHand(files, handLines(string(a[6])), 0)
	if err != nil {
		if err.Error() == "flags in include file" {
			// C05: an include file that sets flags is rejected, never merged
			if g := p.Impl(Op{"gen.run", a}, env.timeout); g.Status == "ok" {
				return &Failure{What: "an include file with a flags line is accepted instead of rejected",
					Detail: fmt.Sprintf("program %q\nfiles %q\n%s", a[6], a[7:], g.String())}
			}
		}
		return nil // not a program this reading covers (missing file): covered by C16
	}
	lines, err = expandDefsByHand(lines)
	if err != nil {
		return nil
	}
	byHand := strings.Join(lines, "\n") + "\n"
	if strings.Contains(byHand, emptiedEntry) {
		return nil
	}
	g1 := p.Impl(Op{"gen.run", a}, env.timeout)
	args2 := append(append([][]byte{}, a[0:6]...), []byte(byHand))
	g2 := p.Impl(Op{"gen.run", args2}, env.timeout)
	if g1.Status != g2.Status || (g1.Status == "ok" && !bytes.Equal(g1.Out[0], g2.Out[0])) {
		return &Failure{What: "generate differs between the program with includes/definitions and the same program inlined and expanded by hand",
			Detail: fmt.Sprintf("program %q\nfiles %q\nby hand %q\noriginal: %s\nby hand:  %s", a[6], a[7:], byHand, g1.String(), g2.String())}
	}
	return nil
}

// oracleDefPermutations: permuting definition lines (distinct names) never changes generate's output.
// args: count (length-coded), cfg x6, input, files…
func oracleDefPermutations(p *Pair, env *Env, a [][]byte) *Failure {
	n := len(a[0])
	args := a[1:]
	lines := strings.Split(string(args[6]), "\n")
	var defIdx []int
	names := map[string]bool{}
	for i, l := range lines {
		if m := hDefine.FindStringSubmatch(strings.TrimLeft(l, " \t")); m != nil {
			if names[m[1]] {
				return nil // duplicate names: the first one wins, order matters by design
			}
			names[m[1]] = true
			defIdx = append(defIdx, i)
		}
	}
	if len(defIdx) < 2 {
		return nil
	}
	base := p.Impl(Op{"gen.run", args}, env.timeout)
	r := rand.New(rand.NewSource(int64(len(args[6]))))
	perms := [][]int{}
	if len(defIdx) <= 4 {
		var gen func(cur []int, rest []int)
		gen = func(cur []int, rest []int) {
			if len(rest) == 0 {
				perms = append(perms, append([]int{}, cur...))
				return
			}
			for i := range rest {
				nr := append(append([]int{}, rest[:i]...), rest[i+1:]...)
				gen(append(cur, rest[i]), nr)
			}
		}
		gen(nil, defIdx)
	} else {
		for k := 0; k < n; k++ {
			pm := append([]int{}, defIdx...)
			r.Shuffle(len(pm), func(i, j int) { pm[i], pm[j] = pm[j], pm[i] })
			perms = append(perms, pm)
		}
	}
	for _, pm := range perms {
		nl := append([]string{}, lines...)
		for k, idx := range defIdx {
			nl[idx] = lines[pm[k]]
		}
		args2 := append([][]byte{}, args...)
		args2[6] = []byte(strings.Join(nl, "\n"))
		g := p.Impl(Op{"gen.run", args2}, env.timeout)
		if g.Status != base.Status || (g.Status == "ok" && !bytes.Equal(g.Out[0], base.Out[0])) {
			return &Failure{What: "generate depends on the order of definition lines",
				Detail: fmt.Sprintf("program %q\npermuted %q\n%s\n%s", args[6], args2[6], base.String(), g.String())}
		}
	}
	return nil
}

// ---- generators ----------------------------------------------------------------------------

func parserProgram(r *rand.Rand, focus string) *Program {
	o := progOpts{maxDepth: 2, maxItems: 5, includes: true, defs: true, cmdline: true, exotic: 0.1, malformed: 0, flagsPfxSf: true}
	if focus == "include" {
		o.includeFlags = 0.06
	}
	p := genProgram(r, o)
	return p
}

// addNestedDefs inserts 2..5 definitions at arbitrary positions, nested acyclically (chains of any depth up to the
// number of definitions), and three uses.
func addNestedDefs(r *rand.Rand, p *Program) {
	var defs []string
	k := 2 + r.Intn(4)
	names := []string{"alpha", "beta", "gamma", "delta-1", "eps_2", "z"}
	r.Shuffle(len(names), func(i, j int) { names[i], names[j] = names[j], names[i] })
	for d := 0; d < k; d++ {
		val := pick(r, []string{"[a-z]+", "x{2,3}", "(?:a|b)", "\\s*", "y", "{3}", "a{{", "}}b",
			// text that means something to a replacement template, a printf or a shell, and nothing to a definition
			"[$_a-z]", "p$1q", "k${v1}z", "[$$]", "^end$", "\\$[a-z]+", "100%d", "%s", "a\\1b", "$0",
			// white space that is none for the definition pattern (`\S+` is ASCII): part of the value, at either end
			"\u00a0", "\u3000|,", "x\u0085", "y\x0b", "\x0bz", "\u2003w\u2003"})
		if d > 0 && chance(r, 0.6) {
			ref := "{{" + names[r.Intn(d)] + "}}"
			val = pick(r, []string{"", "p", "(?:"}) + ref + pick(r, []string{"", "", "-" + ref, ref}) + pick(r, []string{"", "q", ")?"})
			if strings.HasPrefix(val, "(?:") && !strings.HasSuffix(val, ")?") {
				val += ")"
			}
		}
		defs = append(defs, "##!> define "+names[d]+" "+val)
	}
	lines := strings.Split(p.Input, "\n")
	for _, d := range defs {
		at := r.Intn(len(lines) + 1)
		lines = append(lines[:at:at], append([]string{indent(r) + d}, lines[at:]...)...)
	}
	if chance(r, 0.3) {
		// the same name defined twice with different values: the definition written first wins
		at := r.Intn(len(lines) + 1)
		lines = append(lines[:at:at], append([]string{indent(r) + "##!> define " + names[r.Intn(k)] + " " + pick(r, []string{"DUP", "[0-9]+", "dup{2}"})}, lines[at:]...)...)
	}
	for u := 0; u < 3; u++ {
		at := r.Intn(len(lines) + 1)
		lines = append(lines[:at:at], append([]string{"use{{" + names[r.Intn(k)] + "}}" + pick(r, []string{"", "{{undefined}}", "{{" + names[r.Intn(k)] + "}}"})}, lines[at:]...)...)
	}
	p.Input = strings.Join(lines, "\n")
}

// genExceptScenario: include-except programs built around the corners of the set difference — duplicated entries
// followed by new ones (positions in the line map), exclusion files that contribute nothing (empty, comments only,
// definitions only) before ones that do, entries excluded by the last file only, exclusion files longer than the
// include file, with and without a suffix replacement.
func genExceptScenario(r *rand.Rand) *Program {
	p := &Program{Kinds: map[string]int{}}
	words := []string{"curl", "wget", "nc", "python", "perl", "ruby", "bash", "sh"}
	r.Shuffle(len(words), func(i, j int) { words[i], words[j] = words[j], words[i] })
	n := 3 + r.Intn(4)
	inc := append([]string{}, words[:n]...)
	// duplicates, at least one new entry after the second occurrence
	if chance(r, 0.7) {
		at := 1 + r.Intn(len(inc)-1)
		inc = append(inc[:at:at], append([]string{inc[r.Intn(at)]}, inc[at:]...)...)
	}
	if chance(r, 0.3) {
		inc = append(inc, inc[0], "zsh")
	}
	if chance(r, 0.3) {
		inc = append(inc, "##! a comment", "")
	}
	p.addFile("i", "words.ra", strings.Join(inc, "\n")+"\n")
	nothing := pick(r, []string{"", "\n", "##! nothing here\n\n", "##!> define unused x\n", "  \n##! c\n"})
	ex1 := words[r.Intn(n)]
	ex2 := words[r.Intn(n)]
	var names []string
	switch r.Intn(5) {
	case 0:
		p.addFile("e", "x1.ra", nothing)
		p.addFile("e", "x2.ra", ex1+"\n"+ex2+"\n")
		names = []string{"x1", "x2"}
	case 1:
		p.addFile("e", "x1.ra", ex1+"\n")
		p.addFile("e", "x2.ra", nothing)
		p.addFile("e", "x3.ra", ex2+"\nnotthere\n")
		names = []string{"x1", "x2", "x3"}
	case 2:
		p.addFile("e", "x1.ra", ex1+"\n")
		names = []string{"x1"}
	case 3:
		p.addFile("e", "x1.ra", nothing)
		names = []string{"x1"}
	default:
		p.addFile("e", "x1.ra", strings.Join(words, "\n")+"\nextra1\nextra2\n")
		p.addFile("i", "x2.ra", ex1+"\n")
		names = []string{"x2", "x1"}
	}
	line := "##!> include-except words " + strings.Join(names, " ")
	if chance(r, 0.3) {
		line += " -- l L"
	}
	p.Input = pick(r, []string{"", "first\n", "##!> assemble\n"}) + line + "\n"
	if strings.HasPrefix(p.Input, "##!> assemble") {
		p.Input += "##!<\n"
	}
	p.Input += pick(r, []string{"", "last\n"})
	for range [6]int{} {
		p.Cfg = append(p.Cfg, []byte{})
	}
	p.Kinds["except-scenario"]++
	return p
}

// an entry that a pair `K ""` rewrites to nothing is an entry still — the empty one: the generated regex accepts the
// empty string (next to the other entries) and not the key. args: a gen.run argument vector
func oracleEmptiedEntry(p *Pair, env *Env, a [][]byte) *Failure {
	g := p.Impl(Op{"gen.run", a}, env.timeout)
	if g.Status != "ok" {
		return &Failure{What: "a program with an entry rewritten to nothing does not compile", Detail: fmt.Sprintf("%q: %s", a[6], g.String())}
	}
	re, err := regexp.Compile(`\A(?:` + string(g.Out[0]) + `)\z`)
	if err != nil {
		return nil
	}
	for _, w := range []string{"", "foo", "baz"} {
		if !re.MatchString(w) {
			return &Failure{What: "suffix replacement lost an entry: the entry rewritten to the empty string is no longer an alternative", Detail: fmt.Sprintf("program %q files %q\noutput %q does not match %q", a[6], a[7:], g.Out[0], w)}
		}
	}
	for _, w := range []string{"@", "foo@"} {
		if re.MatchString(w) {
			return &Failure{What: "suffix replacement kept the replaced key", Detail: fmt.Sprintf("output %q matches %q", g.Out[0], w)}
		}
	}
	return nil
}

func genParserCases(focus string) func(r *rand.Rand, tier string, env *Env) []Case {
	return func(r *rand.Rand, tier string, env *Env) []Case {
		n := 250
		if tier == "thorough" {
			n = 5000
		}
		var cases []Case
		if focus == "include" || focus == "except" {
			// include files that produce no text of their own: only directives (flags must still be refused, a prefix or
			// suffix must still reach the output), only comments, nothing at all — directly, nested, and as the
			// subject of include-except
			empty := [][]byte{{}, {}, {}, {}, {}, {}}
			inc := map[string]string{"only-flags": "##! shared flags\n##!+ i\n", "only-prefix": "##!^ pre\n", "only-suffix": "##!$ suf\n", "only-both": "##!^ p\n##!$ s\n",
				"only-comment": "##! nothing here\n\n", "nothing": "", "sfx-blank": "##!$ x\nfoo\nbar \n", "pfx-tab": "##!^ p\nfoo\nbar\t\n", "affix-ff": "##!^ p\n##!$ s\n\fbar\nbaz\u00a0\n", "outer-flags": "##!> include only-flags\n", "outer-prefix": "##!> include only-prefix\n", "only-define": "##!> define k v\n"}
			var files [][]byte
			var names []string
			for k := range inc {
				names = append(names, k)
			}
			sort.Strings(names)
			for _, k := range names {
				files = append(files, []byte("i"), []byte(k+".ra"), []byte(inc[k]))
			}
			files = append(files, []byte("e"), []byte("none.ra"), []byte("zzz\n"))
			{
				// one name in both directories: the include directory is looked at first — for an include, for the
				// file of an include-except and for its exclusion files alike
				both := append(append([][]byte{}, files...), []byte("i"), []byte("twice.ra"), []byte("alpha\nbeta\n"), []byte("e"), []byte("twice.ra"), []byte("gamma\ndelta\n"),
					[]byte("i"), []byte("greek.ra"), []byte("alpha\nbeta\ngamma\ndelta\n"))
				for _, prog := range []string{"##!> include twice\nx\n", "##!> include twice.ra\n", "##!> include-except greek twice\n", "##!> include-except twice none\n##!> assemble\n##!> include twice\n##!<\n"} {
					args := append(append(append([][]byte{}, empty...), []byte(prog)), both...)
					cases = append(cases, Case{Kind: "name-in-both-directories", Ops: []Op{{"parse.run", args[6:]}, {"gen.run", args}}, Oracles: []Op{{"parser.inline", args}}})
				}
			}
			{
				// word lists of several buffer-fulls (20 KiB … 30 KiB): every reader on the way sees more than one chunk
				var big, skip strings.Builder
				for w := 0; w < 2500+r.Intn(1000); w++ {
					fmt.Fprintf(&big, "%sw%05dx%d\n", pick(r, []string{"", "", " ", "\t"}), w*7919%100000, w%13)
					if w%3 == 0 {
						fmt.Fprintf(&skip, "w%05dx%d\n", w*7919%100000, w%13)
					}
				}
				bf := append(append([][]byte{}, files...), []byte("i"), []byte("bigwords.ra"), []byte(big.String()), []byte("e"), []byte("bigskip.ra"), []byte(skip.String()))
				prog := "first\n##!> include bigwords\nlast\n"
				if focus == "except" {
					prog = "first\n##!> include-except bigwords bigskip\nlast\n"
				}
				args := append(append(append([][]byte{}, empty...), []byte(prog)), bf...)
				cases = append(cases, Case{Kind: "big-include", Ops: []Op{{"parse.run", args[6:]}}, Oracles: []Op{{"parser.inline", args}}})
				// … and one above 64 KiB (the default token limit of bufio.Scanner, the size of more than one default buffer of
				// everything else), included at the top level and through another file
				var huge strings.Builder
				for w := 0; huge.Len() < 66000+r.Intn(9000); w++ {
					fmt.Fprintf(&huge, "h%05dq%d\n", w*7919%100000, w%11)
				}
				hf := append(append([][]byte{}, files...), []byte("i"), []byte("hugewords.ra"), []byte(huge.String()), []byte("i"), []byte("viahuge.ra"), []byte("pre\n##!> include hugewords\npost\n"),
					[]byte("e"), []byte("bigskip.ra"), []byte(skip.String()))
				hprog := pick(r, []string{"first\n##!> include hugewords\nlast\n", "##!> include viahuge\n"})
				if focus == "except" {
					hprog = "first\n##!> include-except hugewords bigskip\nlast\n"
				}
				hargs := append(append(append([][]byte{}, empty...), []byte(hprog)), hf...)
				cases = append(cases, Case{Kind: "include-above-64KiB", Ops: []Op{{"parse.run", hargs[6:]}}, Oracles: []Op{{"parser.inline", hargs}}})
			}
			{
				// a big include file (two or more buffer-fulls) that itself includes other files before its own end:
				// the outer file is still being read while the inner files are opened, read and closed
				var outer strings.Builder
				nW := 700 + r.Intn(500)
				for w := 0; w < nW; w++ {
					fmt.Fprintf(&outer, "o%05dy%d\n", w*104729%100000, w%7)
					if w == 3 || w == nW/2 {
						outer.WriteString("##!> include innerlist\n")
					}
					if w == nW/3 {
						outer.WriteString("##!> include innerbig\n")
					}
				}
				var innerBig strings.Builder
				for w := 0; w < 900; w++ {
					fmt.Fprintf(&innerBig, "i%05dz\n", w*7919%100000)
				}
				nf := append(append([][]byte{}, files...), []byte("i"), []byte("outerbig.ra"), []byte(outer.String()), []byte("i"), []byte("innerlist.ra"), []byte("in1\nin2\n"),
					[]byte("i"), []byte("innerbig.ra"), []byte(innerBig.String()))
				progs := []string{"first\n##!> include outerbig\nlast\n", "##!> assemble\n##!> include outerbig\n##!<\n"}
				if focus == "except" {
					progs = []string{"first\n##!> include-except outerbig none\nlast\n"}
				}
				for _, prog := range progs {
					args := append(append(append([][]byte{}, empty...), []byte(prog)), nf...)
					cases = append(cases, Case{Kind: "big-nested-include", Ops: []Op{{"parse.run", args[6:]}}, Oracles: []Op{{"parser.inline", args}}})
				}
			}
			for _, depth := range []int{17, 20, 33} {
				// include chains far deeper than any real tree: every level contributes its own entry
				cf := append([][]byte{}, files...)
				for d := 1; d <= depth; d++ {
					body := fmt.Sprintf("level%02d\n", d)
					if d < depth {
						body += fmt.Sprintf("##!> include chain%02d%s\n", d+1, []string{"", ".ra"}[d%2])
					}
					cf = append(cf, []byte([]string{"i", "e"}[d%3/2]), []byte(fmt.Sprintf("chain%02d.ra", d)), []byte(body))
				}
				prog := "top\n##!> include chain01\nend\n"
				if focus == "except" {
					prog = "##!> include-except chain01 none\n"
				}
				args := append(append(append([][]byte{}, empty...), []byte(prog)), cf...)
				cases = append(cases, Case{Kind: "deep-include-chain", Ops: []Op{{"parse.run", args[6:]}, {"gen.run", args}}, Oracles: []Op{{"parser.inline", args}}})
			}
			for _, k := range names {
				progs := []string{"a\n##!> include " + k + "\nb\n", "##!> include " + k + "\n", "##!> assemble\nx\n##!> include " + k + "\n##!=>\ny\n##!<\n"}
				if focus == "except" {
					progs = []string{"a\n##!> include-except " + k + " none\nb\n", "##!> include-except " + k + " none -- a b\n"}
				}
				for _, prog := range progs {
					args := append(append(append([][]byte{}, empty...), []byte(prog)), files...)
					cases = append(cases, Case{Kind: "textless-include", Ops: []Op{{"parse.run", args[6:]}, {"gen.run", args}}, Oracles: []Op{{"parser.inline", args}}})
				}
			}
		}
		if focus == "except" || focus == "include" {
			empty := [][]byte{{}, {}, {}, {}, {}, {}}
			files := [][]byte{[]byte("i"), []byte("keys.ra"), []byte("foo\n@\nbaz\n"), []byte("e"), []byte("nil.ra"), []byte("zzz\n")}
			for _, prog := range []string{"##!> include keys -- @ \"\"\n", "##!> include-except keys nil -- @ \"\"\n", "##!> assemble\n##!> include keys -- @ \"\"\n##!<\n"} {
				args := append(append(append([][]byte{}, empty...), []byte(prog)), files...)
				cases = append(cases, Case{Kind: "entry-rewritten-to-nothing", Ops: []Op{{"gen.run", args}}, Oracles: []Op{{"c06.emptied", args}}})
			}
			// an extension-less sibling of an include file (a directory or a file): the name still means NAME.ra
			sib := [][]byte{[]byte("i"), []byte("cmds.ra"), []byte("curl\nwget\n"), []byte("i"), []byte("=cmds"), []byte("notes-to-self\n"), []byte("e"), []byte("nil.ra"), []byte("zzz\n")}
			for _, prog := range []string{"##!> include cmds\nomega\n", "##!> include-except cmds nil\nomega\n"} {
				args := append(append(append([][]byte{}, empty...), []byte(prog)), sib...)
				cases = append(cases, Case{Kind: "extension-less-sibling", Ops: []Op{{"parse.run", args[6:]}, {"gen.run", args}}, Oracles: []Op{{"parser.inline", args}}})
			}
		}
		if focus == "except" {
			cases = append(cases, sharedDefinitionCases("parser.inline")...)
		}
		if focus == "defs" {
			// a value that mentions the same definition more than once, itself mentioned by a third definition (chains of
			// three and four levels, every alphabetical order of the names)
			empty := [][]byte{{}, {}, {}, {}, {}, {}}
			for _, nm := range [][3]string{{"q", "quoted", "wrapped"}, {"c", "b", "a"}, {"a", "b", "c"}, {"m", "z", "k"}} {
				for _, prog := range []string{
					"##!> define " + nm[0] + " [0-9]\n##!> define " + nm[1] + " {{" + nm[0] + "}}[a-z]+{{" + nm[0] + "}}\n##!> define " + nm[2] + " <{{" + nm[1] + "}}>\nx{{" + nm[2] + "}}y\n",
					"##!> define " + nm[2] + " <{{" + nm[1] + "}}{{" + nm[1] + "}}>\n##!> define " + nm[1] + " {{" + nm[0] + "}}-{{" + nm[0] + "}}-{{" + nm[0] + "}}\n##!> define " + nm[0] + " v\n{{" + nm[2] + "}}|{{" + nm[1] + "}}\n",
					"##!> define " + nm[0] + " 1\n##!> define " + nm[1] + " {{" + nm[0] + "}}{{" + nm[0] + "}}\n##!> define " + nm[2] + " {{" + nm[1] + "}}{{" + nm[0] + "}}{{" + nm[1] + "}}\n##!> define top ({{" + nm[2] + "}})\n{{top}}\n",
				} {
					args := append(append([][]byte{}, empty...), []byte(prog))
					cases = append(cases, Case{Kind: "repeated-reference", Ops: []Op{{"parse.run", args[6:]}, {"gen.run", args}},
						Oracles: []Op{{"parser.inline", args}, {"parser.defperm", append([][]byte{bytes.Repeat([]byte{'x'}, 6)}, args...)}}})
				}
			}
		}
		if focus == "defs" || focus == "include" {
			// definitions of the including file reach the text of included files — also when the including file has
			// no reference on its own lines, and when the only references are to names nobody defines
			empty := [][]byte{{}, {}, {}, {}, {}, {}}
			files := [][]byte{[]byte("i"), []byte("usesouter.ra"), []byte("foo{{num}}\nbar{{word}}{{num}}\n"), []byte("i"), []byte("deeper.ra"), []byte("##!> include usesouter\nqux{{word}}\n"),
				[]byte("e"), []byte("skip.ra"), []byte("bar{{word}}{{num}}\n")}
			for _, prog := range []string{
				"##!> define num [0-9]+\n##!> define word [a-z]{2,3}\n##!> include usesouter\nbaz\n",
				"##!> include usesouter\n##!> define num [0-9]+\n##!> define word [a-z]{2,3}\n",
				"##!> define num 7\n##!> define word w\n##!> include deeper\n",
				"##!> define num 7\n##!> define word w\n##!> assemble\n##!> include usesouter\n##!=>\nz\n##!<\n",
				"##!> define num 7\n##!> define word w\n##!> include-except usesouter skip\n",
				"##!> define num 7\n##!> include usesouter\nliteral{{nosuch}}\n",
				"##!> define unused 1\n##!> include usesouter\nplain\n",
			} {
				args := append(append(append([][]byte{}, empty...), []byte(prog)), files...)
				c := Case{Kind: "outer-definitions-in-include", Ops: []Op{{"parse.run", args[6:]}, {"gen.run", args}}, Oracles: []Op{{"parser.inline", args}}}
				cases = append(cases, c)
			}
		}
		for i := 0; i < n; i++ {
			p := parserProgram(r, focus)
			if focus == "defs" {
				addNestedDefs(r, p)
			}
			if focus == "except" && i%4 == 1 {
				p = genExceptScenario(r)
			}
			gargs := p.genOp().Args
			c := Case{Kind: "program", Ops: []Op{p.parseOp(), p.genOp()}, Oracles: []Op{{"parser.inline", gargs}}}
			if focus == "defs" {
				c.Oracles = append(c.Oracles, Op{"parser.defperm", append([][]byte{bytes.Repeat([]byte{'x'}, 6)}, gargs...)})
			}
			// sub-functions on their own
			if focus == "except" && i%3 == 0 {
				content := strings.Join([]string{"foo@", "bar~", "##! c", "", "baz", "  x@", "foo@"}[:2+r.Intn(5)], "\n") + "\n"
				if i%6 == 3 {
					// entries in which the characters before the ending are characters of the key as well
					content = "beta@@\ngrub\\b\naab\nx~~\n@\n~@~\nab\n"
				}
				if i%6 == 0 {
					// … and entries in which backslashes (one, two, three) stand before the ending: the ending is an ending
					content = "user\\@\nodd\\\\\\@\neven\\\\@\ntail\\~\nplain@\n\\@\n"
				}
				pairs := pick(r, []string{"@ ~", "~ @ @ x", "@ \"\"", "oo 00", "@ ~ ~ x", "a", "@ ~ x", " ", "@  ~\t~  y", "\u00a0@ ~", "@ x\v", "\v@ y\u00a0", "o \u2003", "@ X", "ab C", "\\b [\\s<>]", "~ Y @ Z"})
				c.Ops = append(c.Ops, Op{"parse.replaceSuffixes", [][]byte{[]byte(content), []byte(pairs)}})
			}
			if focus == "defs" && i%3 == 0 {
				kv := [][]byte{[]byte("a{{x}}b{{y}}{{z}}\n{{y}}{{y}}\n")}
				vals := []string{"1", "{{y}}2", "3{{z}}", "{{q}}", "{3}"}
				names := []string{"x", "y", "z"}
				sort.Strings(names)
				for _, nme := range names {
					kv = append(kv, []byte(nme), []byte(pick(r, vals[:3])))
				}
				// acyclic by construction: x may use y,z; y may use z; z uses nothing
				kv[2], kv[4], kv[6] = []byte(pick(r, []string{"1", "{{y}}2", "{{z}}{{y}}"})), []byte(pick(r, []string{"3{{z}}", "4"})), []byte(pick(r, []string{"5", "{3}", "{{q}}"}))
				if i%9 == 3 {
					// computed names (outside C07's quantifier, inside the tie's): the visiting order is the sorted one
					kv[0] = []byte("{{x}}y}}|{{x}}z}}|{{z}}\n")
					kv[2], kv[4], kv[6] = []byte("{{"), []byte(pick(r, []string{"Y", "{{z"})), []byte(pick(r, []string{"Z", "}}"}))
				}
				c.Ops = append(c.Ops, Op{"parse.expand", kv})
			}
			cases = append(cases, c)
		}
		return cases
	}
}

// escalateParser: a component-level disagreement becomes whole programs with the by-hand oracle.
func escalateParser(d Disagreement) []Case {
	empty := [][]byte{{}, {}, {}, {}, {}, {}}
	mk := func(kind, input string, files ...[]byte) Case {
		args := append(append([][]byte{}, empty...), []byte(input))
		args = append(args, files...)
		c := Case{Kind: "escalated-" + kind, Ops: []Op{{"gen.run", args}}, Oracles: []Op{{"parser.inline", args}}}
		if kind == "expand" {
			c.Oracles = append(c.Oracles, Op{"parser.defperm", append([][]byte{bytes.Repeat([]byte{'x'}, 6)}, args...)})
		}
		return c
	}
	switch d.Op.Name {
	case "parse.replaceSuffixes":
		if len(d.Op.Args) != 2 {
			return nil
		}
		content, pairs := d.Op.Args[0], strings.Join(asciiFields(string(d.Op.Args[1])), " ")
		if len(asciiFields(pairs))%2 != 0 || len(asciiFields(pairs)) == 0 {
			return nil // an odd list is rejected (C16), not rewritten
		}
		return []Case{
			mk("replaceSuffixes", "##!> include escf -- "+pairs+"\n", []byte("i"), []byte("escf.ra"), content),
			mk("replaceSuffixes", "##!> include-except escf escx -- "+pairs+"\n", []byte("i"), []byte("escf.ra"), content, []byte("e"), []byte("escx.ra"), []byte("nothing-in-common\n")),
		}
	case "parse.expand":
		if len(d.Op.Args) < 3 {
			return nil
		}
		var lines []string
		for i := 1; i+1 < len(d.Op.Args); i += 2 {
			lines = append(lines, "##!> define "+string(d.Op.Args[i])+" "+string(d.Op.Args[i+1]))
		}
		return []Case{mk("expand", strings.Join(lines, "\n")+"\n"+string(d.Op.Args[0]))}
	}
	return nil
}

func init() {
	oracles["parser.inline"] = oracleInline
	oracles["parser.defperm"] = oracleDefPermutations
	rule := "programs from the tree grammar with include files (plain lists, lists with comments/blank lines/indentation, files with prefixes and/or suffixes, own definitions, nested includes, include vs exclude directory, with/without .ra), include-except with 1-2 exclusion files, suffix replacement lists incl. chained pairs, definitions; " +
		"compared with the same program inlined/expanded by an independent naive reading in the harness; non-trivial = at least one include or definition; distinct by bytes"
	properties["C05"] = &Property{ID: "C05", LeanMods: []string{"CrsProps.C05", "CrsProps.C05Gen"}, Corr: "K2 (parser.Parse buffer/flags/prefixes/suffixes/variables), K5", Rule: rule, Gen: genParserCases("include"), Escalate: escalateParser}
	oracles["c06.emptied"] = oracleEmptiedEntry
	properties["C06"] = &Property{ID: "C06", LeanMods: []string{"CrsProps.C06"}, Corr: "K2 (parser.Parse; replaceSuffixes/buildPairMap alone), K5", Rule: rule, Gen: genParserCases("except"), Escalate: escalateParser}
	properties["C07"] = &Property{ID: "C07", LeanMods: []string{"CrsProps.C07", "CrsProps.C07Gen"}, Corr: "K2 (parser.Parse; expandDefinitions alone, Go's own random map order varies across calls), K5", Rule: rule + "; definition lines permuted (all permutations up to 4 definitions, sampled beyond)", Gen: genParserCases("defs"), Escalate: escalateParser,
		Assume: []string{"no computed names: no reference comes into existence only through a substitution (generator produces values whose chunks do not end in a proper prefix of a reference)"}}
}
