package main

import (
	"bufio"
	"crypto/ecdsa"
	"crypto/elliptic"
	crand "crypto/rand"
	"crypto/sha256"
	"crypto/tls"
	"crypto/x509"
	"crypto/x509/pkix"
	"encoding/hex"
	"encoding/json"
	"encoding/pem"
	"fmt"
	"math/big"
	"net"
	"net/http"
	"os"
	"path/filepath"
	"strings"
	"sync"
	"time"
)

// A local stand-in for GitHub (api.github.com + download hosts) reached through an HTTP CONNECT proxy
// that terminates TLS itself with a throw-away CA. The binary under test is pointed at it with
// HTTPS_PROXY and SSL_CERT_FILE only: no code change redirects it.

type ghAsset struct {
	ID    int64
	Name  string
	Bytes []byte
	Fail  int // HTTP status to answer with instead of the bytes (0 = serve)
}

type ghRelease struct {
	ID         int64
	Tag        string
	Draft      bool
	Prerelease bool
	Assets     []ghAsset
}

type fakeGitHub struct {
	mu       sync.Mutex
	releases []ghRelease
	listFail int
	requests []string
	ln       net.Listener
	caFile   string
	tlsConf  *tls.Config
}

func newFakeGitHub(dir string) (*fakeGitHub, error) {
	caKey, err := ecdsa.GenerateKey(elliptic.P256(), crand.Reader)
	if err != nil {
		return nil, err
	}
	caTmpl := &x509.Certificate{SerialNumber: big.NewInt(1), Subject: pkix.Name{CommonName: "verif throw-away CA"},
		NotBefore: time.Now().Add(-time.Hour), NotAfter: time.Now().Add(24 * time.Hour), IsCA: true,
		KeyUsage: x509.KeyUsageCertSign | x509.KeyUsageDigitalSignature, BasicConstraintsValid: true}
	caDER, err := x509.CreateCertificate(crand.Reader, caTmpl, caTmpl, &caKey.PublicKey, caKey)
	if err != nil {
		return nil, err
	}
	caCert, _ := x509.ParseCertificate(caDER)
	leafKey, err := ecdsa.GenerateKey(elliptic.P256(), crand.Reader)
	if err != nil {
		return nil, err
	}
	leafTmpl := &x509.Certificate{SerialNumber: big.NewInt(2), Subject: pkix.Name{CommonName: "api.github.com"},
		DNSNames:  []string{"api.github.com", "github.com", "objects.githubusercontent.com", "uploads.github.com"},
		NotBefore: time.Now().Add(-time.Hour), NotAfter: time.Now().Add(24 * time.Hour),
		KeyUsage: x509.KeyUsageDigitalSignature, ExtKeyUsage: []x509.ExtKeyUsage{x509.ExtKeyUsageServerAuth}}
	leafDER, err := x509.CreateCertificate(crand.Reader, leafTmpl, caCert, &leafKey.PublicKey, caKey)
	if err != nil {
		return nil, err
	}
	caFile := filepath.Join(dir, "fakegh-ca.pem")
	if err := os.WriteFile(caFile, pem.EncodeToMemory(&pem.Block{Type: "CERTIFICATE", Bytes: caDER}), 0o644); err != nil {
		return nil, err
	}
	g := &fakeGitHub{caFile: caFile}
	g.tlsConf = &tls.Config{Certificates: []tls.Certificate{{Certificate: [][]byte{leafDER}, PrivateKey: leafKey}}}
	g.ln, err = net.Listen("tcp", "127.0.0.1:0")
	if err != nil {
		return nil, err
	}
	go g.serveProxy()
	return g, nil
}

func (g *fakeGitHub) proxyURL() string { return "http://" + g.ln.Addr().String() }

func (g *fakeGitHub) close() { _ = g.ln.Close() }

func (g *fakeGitHub) set(rels []ghRelease, listFail int) {
	g.mu.Lock()
	defer g.mu.Unlock()
	g.releases, g.listFail, g.requests = rels, listFail, nil
}

func (g *fakeGitHub) serveProxy() {
	for {
		c, err := g.ln.Accept()
		if err != nil {
			return
		}
		go func(c net.Conn) {
			defer c.Close()
			br := bufio.NewReader(c)
			req, err := http.ReadRequest(br)
			if err != nil || req.Method != http.MethodConnect {
				fmt.Fprint(c, "HTTP/1.1 405 Method Not Allowed\r\n\r\n")
				return
			}
			fmt.Fprint(c, "HTTP/1.1 200 Connection established\r\n\r\n")
			tc := tls.Server(c, g.tlsConf)
			if err := tc.Handshake(); err != nil {
				return
			}
			defer tc.Close()
			tbr := bufio.NewReader(tc)
			for {
				r, err := http.ReadRequest(tbr)
				if err != nil {
					return
				}
				g.handle(tc, r, req.Host)
			}
		}(c)
	}
}

func writeResp(c net.Conn, status int, ctype string, body []byte) {
	fmt.Fprintf(c, "HTTP/1.1 %d %s\r\nContent-Type: %s\r\nContent-Length: %d\r\nConnection: keep-alive\r\n\r\n", status, http.StatusText(status), ctype, len(body))
	_, _ = c.Write(body)
}

func (g *fakeGitHub) handle(c net.Conn, r *http.Request, host string) {
	g.mu.Lock()
	g.requests = append(g.requests, r.Method+" "+host+" "+r.URL.Path)
	rels, listFail := g.releases, g.listFail
	g.mu.Unlock()
	path := r.URL.Path
	switch {
	case strings.HasSuffix(path, "/repos/coreruleset/crs-toolchain/releases"):
		if listFail != 0 {
			// the shapes in which the real service refuses: 4031 = the hourly limit of anonymous requests is used up
			// (403 with X-RateLimit-Remaining: 0), 4032 = secondary ("abuse") limit with Retry-After
			switch listFail {
			case 4031:
				body := []byte(`{"message":"API rate limit exceeded for 203.0.113.7.","documentation_url":"https://docs.github.com/rest/overview/resources-in-the-rest-api#rate-limiting"}`)
				fmt.Fprintf(c, "HTTP/1.1 403 Forbidden\r\nContent-Type: application/json\r\nX-RateLimit-Limit: 60\r\nX-RateLimit-Remaining: 0\r\nX-RateLimit-Reset: 1893456000\r\nContent-Length: %d\r\nConnection: keep-alive\r\n\r\n", len(body))
				_, _ = c.Write(body)
			case 4032:
				body := []byte(`{"message":"You have triggered an abuse detection mechanism. Please wait a few minutes before you try again.","documentation_url":"https://developer.github.com/v3/#abuse-rate-limits"}`)
				fmt.Fprintf(c, "HTTP/1.1 403 Forbidden\r\nContent-Type: application/json\r\nRetry-After: 1\r\nContent-Length: %d\r\nConnection: keep-alive\r\n\r\n", len(body))
				_, _ = c.Write(body)
			default:
				writeResp(c, listFail, "application/json", []byte(`{"message":"failure injected"}`))
			}
			return
		}
		type asset struct {
			ID   int64  `json:"id"`
			Name string `json:"name"`
			URL  string `json:"url"`
			DL   string `json:"browser_download_url"`
			Size int    `json:"size"`
		}
		type rel struct {
			ID         int64   `json:"id"`
			Tag        string  `json:"tag_name"`
			Name       string  `json:"name"`
			Draft      bool    `json:"draft"`
			Prerelease bool    `json:"prerelease"`
			HTML       string  `json:"html_url"`
			Published  string  `json:"published_at"`
			Assets     []asset `json:"assets"`
		}
		var out []rel
		for _, x := range rels {
			rr := rel{ID: x.ID, Tag: x.Tag, Name: x.Tag, Draft: x.Draft, Prerelease: x.Prerelease, HTML: "https://github.com/coreruleset/crs-toolchain/releases/tag/" + x.Tag, Published: "2026-01-01T00:00:00Z"}
			for _, a := range x.Assets {
				rr.Assets = append(rr.Assets, asset{ID: a.ID, Name: a.Name, URL: fmt.Sprintf("https://api.github.com/repos/coreruleset/crs-toolchain/releases/assets/%d", a.ID),
					DL: fmt.Sprintf("https://github.com/coreruleset/crs-toolchain/releases/download/%s/%s", x.Tag, a.Name), Size: len(a.Bytes)})
			}
			out = append(out, rr)
		}
		b, _ := json.Marshal(out)
		if out == nil {
			b = []byte("[]")
		}
		writeResp(c, 200, "application/json", b)
	case strings.Contains(path, "/releases/assets/") || strings.Contains(path, "/releases/download/"):
		for _, x := range rels {
			for _, a := range x.Assets {
				if strings.HasSuffix(path, fmt.Sprintf("/releases/assets/%d", a.ID)) || strings.HasSuffix(path, "/releases/download/"+x.Tag+"/"+a.Name) {
					if a.Fail != 0 {
						writeResp(c, a.Fail, "text/plain", []byte("failure injected"))
						return
					}
					writeResp(c, 200, "application/octet-stream", a.Bytes)
					return
				}
			}
		}
		writeResp(c, 404, "text/plain", []byte("not found"))
	default:
		writeResp(c, 404, "application/json", []byte(`{"message":"Not Found"}`))
	}
}

func sha256hex(b []byte) string {
	h := sha256.Sum256(b)
	return hex.EncodeToString(h[:])
}
