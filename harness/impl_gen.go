package main

import (
	"bytes"
	"fmt"
	"os"
	"path/filepath"
	"sort"
	"strings"

	"github.com/coreruleset/crs-toolchain/v2/context"
	"github.com/coreruleset/crs-toolchain/v2/regex/operators"
	"github.com/coreruleset/crs-toolchain/v2/regex/parser"
	"github.com/coreruleset/crs-toolchain/v2/regex/processors"
)

// installFiles rewrites regex-assembly/{include,exclude} of the worker root from `tag name content` triples
// and toolchain.yaml from the six configuration strings (nil = no file).
func installFiles(cfg [][]byte, files [][]byte) (*processors.Context, error) {
	_, root := workerCtx()
	for _, d := range []string{"include", "exclude"} {
		dir := filepath.Join(root, "regex-assembly", d)
		_ = os.RemoveAll(dir)
		if err := os.MkdirAll(dir, 0o755); err != nil {
			return nil, err
		}
	}
	for i := 0; i+2 < len(files); i += 3 {
		dir := "include"
		if string(files[i]) == "e" {
			dir = "exclude"
		}
		name := string(files[i+1])
		if strings.HasPrefix(name, "=") {
			name = name[1:] // a literal file name (an extension-less sibling of an include file)
		} else if !strings.HasSuffix(name, ".ra") {
			name += ".ra"
		}
		p := filepath.Join(root, "regex-assembly", dir, name)
		_ = os.MkdirAll(filepath.Dir(p), 0o755)
		if err := os.WriteFile(p, files[i+2], 0o644); err != nil {
			return nil, err
		}
	}
	yamlPath := filepath.Join(root, "regex-assembly", "toolchain.yaml")
	_ = os.Remove(yamlPath)
	if yamlStyle != "" {
		full := cfg
		if full == nil {
			full = [][]byte{{}, {}, {}, {}, {}, {}}
		}
		content, write := toolchainYamlStyled(yamlStyle, full)
		yamlStyle = ""
		if write {
			if err := os.WriteFile(yamlPath, []byte(content), 0o644); err != nil {
				return nil, err
			}
		}
	} else if cfg != nil {
		if err := os.WriteFile(yamlPath, []byte(toolchainYaml(cfg)), 0o644); err != nil {
			return nil, err
		}
	}
	return processors.NewContext(context.New(root, "toolchain.yaml")), nil
}

// yamlStyle selects how the next toolchain.yaml is written (see toolchainYamlStyled); reset after each use
var yamlStyle = ""

// toolchainYamlStyled: the same six patterns in other spellings of the file the loader has to cope with
func toolchainYamlStyled(style string, cfg [][]byte) (content string, write bool) {
	switch style {
	case "absent":
		return "", false
	case "empty-file":
		return "", true
	case "malformed":
		return "patterns:\n  anti_evasion: [unclosed\n    unix: |\n   x\n", true
	case "omit-empty":
		// keys whose pattern is empty are left out altogether (a partial file)
		var sb strings.Builder
		sb.WriteString("patterns:\n")
		names := []string{"anti_evasion", "anti_evasion_suffix", "anti_evasion_no_space_suffix"}
		for i, n := range names {
			if len(cfg[i]) == 0 && len(cfg[i+3]) == 0 {
				continue
			}
			sb.WriteString("  " + n + ":\n")
			if len(cfg[i]) > 0 {
				sb.WriteString("    unix:" + yamlBlock("      ", cfg[i]))
			}
			if len(cfg[i+3]) > 0 {
				sb.WriteString("    windows:" + yamlBlock("      ", cfg[i+3]))
			}
		}
		return sb.String(), true
	case "case-keys":
		// keys that differ from the real ones only in case are other keys: the loader ignores them
		var sb strings.Builder
		sb.WriteString("Patterns:\n  anti_evasion:\n    unix: \"[q]*\"\n    windows: \"[q]*\"\npatterns:\n")
		names := []string{"anti_evasion", "anti_evasion_suffix", "anti_evasion_no_space_suffix"}
		for i, n := range names {
			sb.WriteString("  " + strings.ToUpper(n[:1]) + n[1:] + ":\n    unix: \"[k]*\"\n")
			sb.WriteString("  " + n + ":\n")
			sb.WriteString("    Unix: \"[y]*\"\n    unix:" + yamlBlock("      ", cfg[i]) + "    UNIX: \"[z]*\"\n")
			sb.WriteString("    Windows: \"[y]*\"\n    windows:" + yamlBlock("      ", cfg[i+3]) + "    WINDOWS: \"[z]*\"\n")
		}
		return sb.String(), true
	case "alias":
		// the windows pattern is written as an alias of the unix one (YAML anchors): the same six patterns, windows = unix
		var sb strings.Builder
		sb.WriteString("patterns:\n")
		names := []string{"anti_evasion", "anti_evasion_suffix", "anti_evasion_no_space_suffix"}
		for i, n := range names {
			sb.WriteString("  " + n + ":\n")
			if len(cfg[i]) == 0 {
				sb.WriteString(fmt.Sprintf("    unix: &p%d \"\"\n", i))
			} else {
				sb.WriteString(fmt.Sprintf("    unix: &p%d |\n      %s\n", i, cfg[i]))
			}
			sb.WriteString(fmt.Sprintf("    windows: *p%d\n", i))
		}
		return sb.String(), true
	case "padded":
		// patterns surrounded by blank lines and spaces inside the block scalar: the loader trims them
		var sb strings.Builder
		sb.WriteString("# a comment\npatterns:\n")
		names := []string{"anti_evasion", "anti_evasion_suffix", "anti_evasion_no_space_suffix"}
		for i, n := range names {
			sb.WriteString("  " + n + ":\n    note: not a pattern\n")
			for _, kv := range []struct {
				k string
				v []byte
			}{{"unix", cfg[i]}, {"windows", cfg[i+3]}} {
				if len(kv.v) == 0 {
					sb.WriteString("    " + kv.k + ": \"  \"\n")
				} else {
					sb.WriteString("    " + kv.k + ": |\n\n      " + string(kv.v) + "   \n\n")
				}
			}
		}
		sb.WriteString("other_key: 1\n")
		return sb.String(), true
	}
	return toolchainYaml(cfg), true
}

func yamlBlock(indent string, s []byte) string {
	if len(s) == 0 {
		return " \"\"\n"
	}
	return " |\n" + indent + string(s) + "\n"
}

// toolchainYaml renders the six patterns (unix/windows x evasion, suffix, no-space suffix).
func toolchainYaml(cfg [][]byte) string {
	var sb strings.Builder
	sb.WriteString("patterns:\n")
	names := []string{"anti_evasion", "anti_evasion_suffix", "anti_evasion_no_space_suffix"}
	for i, n := range names {
		sb.WriteString("  " + n + ":\n")
		sb.WriteString("    unix:" + yamlBlock("      ", cfg[i]))
		sb.WriteString("    windows:" + yamlBlock("      ", cfg[i+3]))
	}
	return sb.String()
}

func cfgIsEmpty(cfg [][]byte) bool {
	for _, c := range cfg {
		if len(c) > 0 {
			return false
		}
	}
	return true
}

func init() {
	for _, name := range []string{"useHexEscapes", "escapeDoublequotes", "useHexBackslashes", "includeVerticalTabInSpaceClass", "dontUseFlagsForMetaCharacters", "removeOutermostNonCapturingGroup"} {
		n := name
		implOps["pass."+n] = func(a [][]byte) Result {
			ctxt, _ := workerCtx()
			return okS(operators.NewAssembler(ctxt).VerifPass(n, string(a[0])))
		}
	}
	implOps["pass.cleanUp"] = func(a [][]byte) Result {
		ctxt, _ := workerCtx()
		o := operators.NewAssembler(ctxt)
		s := string(a[0])
		for _, n := range []string{"useHexEscapes", "escapeDoublequotes", "useHexBackslashes", "includeVerticalTabInSpaceClass", "dontUseFlagsForMetaCharacters", "removeOutermostNonCapturingGroup"} {
			s = o.VerifPass(n, s)
		}
		return okS(s)
	}
	implOps["pass.findGroupBodyEnd"] = func(a [][]byte) Result {
		ctxt, _ := workerCtx()
		e, alt := operators.NewAssembler(ctxt).VerifFindGroupBodyEnd(string(a[0]), len(a[1]))
		return ok([]byte(fmt.Sprint(e)), boolB(alt))
	}
	implOps["cmdline.regexpStr"] = func(a [][]byte) Result {
		cfg := [][]byte{a[1], a[2], a[3], a[1], a[2], a[3]}
		var c [][]byte
		if !cfgIsEmpty(cfg) {
			c = cfg
		}
		ctxt, err := installFiles(c, nil)
		if err != nil {
			return Result{Status: "harness-error", Note: err.Error()}
		}
		t := processors.CmdLineUnix
		if string(a[0]) == "w" {
			t = processors.CmdLineWindows
		}
		return okS(processors.NewCmdLine(ctxt, t).VerifRegexpStr(string(a[4])))
	}
	implOps["parse.run"] = func(a [][]byte) Result {
		ctxt, err := installFiles(nil, a[1:])
		if err != nil {
			return Result{Status: "harness-error", Note: err.Error()}
		}
		p := parser.NewParser(ctxt, bytes.NewReader(a[0]))
		out, _ := p.Parse(false)
		flags := ""
		for _, f := range []rune{'i', 's'} {
			if p.Flags[f] {
				flags += string(f)
			}
		}
		for f := range p.Flags {
			if f != 'i' && f != 's' {
				flags += string(f)
			}
		}
		vars := p.VerifVariables()
		keys := make([]string, 0, len(vars))
		for k := range vars {
			keys = append(keys, k)
		}
		sort.Strings(keys)
		var vb strings.Builder
		for _, k := range keys {
			vb.WriteString(k + "=" + vars[k] + "\n")
		}
		unl := func(xs []string) string {
			var sb strings.Builder
			for _, x := range xs {
				sb.WriteString(x + "\n")
			}
			return sb.String()
		}
		return okS(out.String(), flags, unl(p.Prefixes), unl(p.Suffixes), vb.String())
	}
	implOps["parse.expand"] = func(a [][]byte) Result {
		vars := map[string]string{}
		for i := 1; i+1 < len(a); i += 2 {
			if _, dup := vars[string(a[i])]; !dup {
				vars[string(a[i])] = string(a[i+1])
			}
		}
		out := parser.VerifExpandDefinitions(a[0], vars)
		keys := make([]string, 0, len(vars))
		for k := range vars {
			keys = append(keys, k)
		}
		sort.Strings(keys)
		var vb strings.Builder
		for _, k := range keys {
			vb.WriteString(k + "=" + vars[k] + "\n")
		}
		return okS(string(out), vb.String())
	}
	implOps["parse.replaceSuffixes"] = func(a [][]byte) Result {
		out, err := parser.VerifReplaceSuffixes(a[0], string(a[1]))
		if err != nil {
			return diag(err.Error())
		}
		return okS(out)
	}
	// gen.runYaml: style, then the arguments of gen.run — the configuration file is written in that style
	implOps["gen.runYaml"] = func(a [][]byte) Result {
		yamlStyle = string(a[0])
		return implOps["gen.run"](a[1:])
	}
	implOps["gen.run"] = func(a [][]byte) Result {
		cfg := a[0:6]
		var c [][]byte
		if !cfgIsEmpty(cfg) {
			c = cfg
		}
		ctxt, err := installFiles(c, a[7:])
		if err != nil {
			return Result{Status: "harness-error", Note: err.Error()}
		}
		out, err := operators.NewAssembler(ctxt).Run(string(a[6]))
		if err != nil {
			return diag(err.Error())
		}
		return okS(out)
	}
}
