package main

import (
	"fmt"
	"math/rand"
	"strings"
)

// ---- regex entries -------------------------------------------------------------------------

type entryOpts struct {
	lowerOnly bool // sources under the i flag are lower case
	exotic    float64
	inline    float64 // share of atoms that are inline flag groups next to metacharacters and escapes (C02, C19)
}

func genAtom(r *rand.Rand, depth int, o entryOpts) string {
	lit := func() string {
		if o.lowerOnly {
			return pick(r, []string{"a", "b", "c", "d", "x", "y", "foo", "bar", "ab", "0", "1", "_", "-", "/", ":", " "})
		}
		// upper-case letters are drawn from letters that never occur in lower case anywhere in the grammar, so that
		// a class of both cases of one letter (known finding D24) does not arise by accident
		return pick(r, []string{"a", "b", "c", "d", "x", "y", "foo", "bar", "ab", "0", "1", "_", "-", "/", ":", " ", "V", "J", "VJ"})
	}
	if o.inline > 0 && chance(r, o.inline) {
		// inline flag groups: the engine prints them back wherever the flag matters; neighbours with escapes and
		// literal parentheses are what the flag-removal loops have to tell apart
		return pick(r, []string{"(?s:.)", "(?s:.)", "(?i:a)", "(?i:f)", "(?i:ab)", "(?-s:.)", "(?s:.).", ".(?s:.)", "(?i:a)b(?i:c)", "\\.", "\\(", "\\)", "\\(?i:", "\\\\(?i:a)",
			"(?i:a|b)", "(?s:.*)", "(?is:a.)", "(?m:^a)", "(?i:x)\\.", "\\.bcde", "abcd", "bcdefg", "(?s:a.b)"})
	}
	switch weighted(r, []int{30, 8, 8, 6, 4, 3, 3, 6, 6}) {
	case 0:
		return lit()
	case 1:
		return pick(r, []string{"[a-c]", "[abc]", "[^x]", "[0-9]", "[a-z0-9_]", "[^a-z]", "[\\s]", "[\\s\\d]", "[^\\s]", "[\\sx-z]", "[ -~]", "[\\s!-~]", "[\\t ]", "[-a]",
			// white space next to members that sort before the tab, after the blank, and on both sides
			"[\\x00\\s]", "[\\a\\s]", "[\\x00-\\x06\\s<>]", "[\\x01\\s!-~]", "[^\\x00\\s]", "[\\x08\\s\\x0e]"})
	case 2:
		return pick(r, []string{"\\s", "\\d", "\\w", "\\S", "\\W", "\\b", "\\.", "\\-", "\\(", "\\)", "\\[", "\\|", "\\*", "\\?", "\\+", "\\$", "\\^", "\\/"})
	case 3:
		return pick(r, []string{".", "^", "$", ".*", ".+", "^a", "b$"})
	case 4:
		if chance(r, o.exotic) {
			return pick(r, []string{"\"", "\\\"", "\\\\", "\\x5c", "\\x22", "\\x00", "\\x0b", "\\v", "\\n", "\\t", "\\r", "\\f", "é", "\\x{e9}", "€", "\\x7f", "\x7f", "\\\\\"", "'", "`", "@", "~", "{{", "}}", "#", "\\x{fffd}", "\uFFFD", "[\\x{fff0}-\\x{fffd}]", "\\x{10ffff}", "\\x{d7ff}"})
		}
		return lit()
	case 5:
		return pick(r, []string{"a?", "b*", "c+", "x{2}", "y{1,3}", "z{2,}", "(?:ab)?", "[ab]+", "a*?", "b+?"})
	case 6:
		return pick(r, []string{"(?:a|b)", "(?:ab|cd)", "(a)", "(?:x)", "(a|b)c", "(?:a|bc|d)e", "(?:)"})
	case 7:
		if depth > 0 {
			return "(?:" + genEntryBody(r, depth-1, o, true) + ")"
		}
		return lit()
	default:
		if depth > 0 {
			return "(?:" + genEntryBody(r, depth-1, o, true) + ")" + pick(r, []string{"", "?", "*", "+"})
		}
		return lit() + lit()
	}
}

func genEntryBody(r *rand.Rand, depth int, o entryOpts, allowAlt bool) string {
	n := 1 + r.Intn(4)
	var sb strings.Builder
	for i := 0; i < n; i++ {
		sb.WriteString(genAtom(r, depth, o))
	}
	if allowAlt && chance(r, 0.2) {
		sb.WriteString("|")
		sb.WriteString(genEntryBody(r, depth, o, false))
	}
	return sb.String()
}

func genEntry(r *rand.Rand, o entryOpts) string {
	e := genEntryBody(r, 2, o, true)
	e = strings.TrimLeft(e, " \t")
	if e == "" || strings.HasPrefix(e, "##!") {
		return "x"
	}
	return e
}

func genCmdWord(r *rand.Rand) string {
	w := pick(r, []string{"ls", "cat", "python3", "nc", "wget", "curl", "ping6", "sh", "7z", "a.out", "apt-get", "x_y", "ls -la", "cat /etc", "c", "ab c.d-e"})
	switch weighted(r, []int{10, 4, 4, 2, 2, 2}) {
	case 1:
		w += "@"
	case 2:
		w += "~"
	case 3:
		w += "\\@"
	case 4:
		w += "\\~"
	case 5:
		w = "'" + pick(r, []string{"a|b", "(?:x)", "[a-z]+", "foo@", "ls", "git@", "home~", "ls\\s", "v\\d", "a\\@", "x\\~", "@", "~", "sudo ", "su\t",
			// the rest of the line begins with the marker character itself (only ONE apostrophe is the marker)
			"'ls", "''?cat", "'", "'+id", "'@", "' x"})
	}
	if chance(r, 0.04) && !strings.Contains(w, "\\") && !strings.HasPrefix(w, "'") {
		w += pick(r, []string{" ", "\t"}) // a trailing blank is part of the word (one or more white-space characters must follow)
	}
	return w
}

// ---- programs ------------------------------------------------------------------------------

type progOpts struct {
	maxDepth     int
	maxItems     int
	includes     bool
	defs         bool
	cmdline      bool
	exotic       float64
	inline       float64
	includeFlags float64 // probability that an include file carries a flags line (must be rejected)
	malformed    float64 // probability of injecting a structural fault
	flagsPfxSf   bool
}

type Program struct {
	Input string
	Files [][]byte // tag, name, content triples
	Cfg   [][]byte // six strings
	Kinds map[string]int
}

var cfgMenu = [][]string{
	{"", "", "", "", "", ""},
	{`[\x5c'\"\[]*`, `(?:\s|<|>).*`, `(?:<|>).*`, `[\"\^]*`, `(?:[\s,;]|\.|/|<|>).*`, `(?:[,;]|\.|/|<|>).*`},
	{`[\x5c'\"]*(?:\$[a-z0-9_@?!#{*-]*)?(?:\x5c)?`, `[\s<>&|),]*`, `[<>&|),]*`, `[\"\^]*`, `[\s,;./<>]*`, `[,;./<>]*`},
	{`x*`, "", "", "", `y+`, ""},
	{"", `\s+`, `z`, `q?`, "", ""},
	// exactly one of the three patterns of a shell is configured
	{"", "", `[<>|]`, "", "", `[,;]`},
	{"", `[\s<>]`, "", "", `[\s,;]`, ""},
	{`['\x5c]*`, "", "", `[\^"]*`, "", ""},
}

func (p *Program) addFile(tag, name, content string) {
	p.Files = append(p.Files, []byte(tag), []byte(name), []byte(content))
}

func indent(r *rand.Rand) string {
	return pick(r, []string{"", "", "", "  ", "    ", "\t", " "})
}

type progGen struct {
	inCmd, underCmd       bool
	madeCmd, madeWordsCmd []string
	r                     *rand.Rand
	o                     progOpts
	p                     *Program
	stored                []string
	nFile                 int
	eo                    entryOpts
	defs                  []string
	// names defined inside include files only: the including file may mention them, they stay unexpanded there
	fileDefs []string
	// include files created so far (reused: the same file included several times, by different kinds of include)
	made      []string
	madeWords []string
}

func (g *progGen) count(k string) { g.p.Kinds[k]++ }

func (g *progGen) entry() string {
	e := genEntry(g.r, g.eo)
	if g.o.defs && len(g.defs) > 0 && chance(g.r, 0.25) {
		e += "{{" + pick(g.r, g.defs) + "}}"
		g.count("reference")
	}
	if g.o.defs && !g.inCmd && len(g.fileDefs) > 0 && chance(g.r, 0.1) {
		e += "{{" + pick(g.r, g.fileDefs) + "}}"
		g.count("reference-to-include-local-name")
	}
	return e
}

func (g *progGen) includeFile(depth int, wordList bool) string {
	g.nFile++
	name := fmt.Sprintf("inc%d", g.nFile)
	var lines []string
	n := 1 + g.r.Intn(5)
	if !wordList && chance(g.r, 0.25) {
		lines = append(lines, "##!^ "+genEntry(g.r, g.eo))
		g.count("include-prefix")
	}
	if !wordList && chance(g.r, 0.2) {
		lines = append(lines, "##!$ "+genEntry(g.r, g.eo))
		g.count("include-suffix")
	}
	if g.o.includeFlags > 0 && chance(g.r, g.o.includeFlags) {
		// an include file must not set flags: the whole program is rejected (with or without prefix/suffix lines)
		lines = append(lines, "##!+ "+pick(g.r, []string{"i", "s", "is"}))
		g.count("include-with-flags")
	}
	if !g.inCmd && chance(g.r, 0.25) {
		// a file's own definitions: sometimes under a name the including file has defined already (before this
		// line), which must not matter to the file's text
		dn := "incdef" + fmt.Sprint(g.nFile)
		if !wordList && len(g.defs) > 0 && chance(g.r, 0.5) {
			dn = pick(g.r, g.defs)
			g.count("include-redefines-outer-name")
		} else if !wordList {
			g.fileDefs = append(g.fileDefs, dn)
		}
		lines = append(lines, "##!> define "+dn+" "+pick(g.r, []string{"[a-z]+", "x", "\\d{2}", "[0-9]+"}))
		lines = append(lines, "q{{"+dn+"}}")
		g.count("include-own-definition")
	}
	for i := 0; i < n; i++ {
		switch weighted(g.r, []int{10, 2, 2, 1}) {
		case 0:
			if chance(g.r, 0.06) {
				// an entry that consists of a replacement key only: `-- @ ""` turns it into an empty line
				lines = append(lines, pick(g.r, []string{"@", "~", "oo", "ar"}))
				g.count("entry-is-a-suffix-key")
			} else {
				lines = append(lines, indent(g.r)+pick(g.r, []string{"foo", "bar", "baz@", "qux~", "w1", "w2", "dup", "dup", "x-y", "ab"})+pick(g.r, []string{"", "", "@", "~"}))
			}
		case 1:
			lines = append(lines, "##! comment in include")
		case 2:
			lines = append(lines, "")
		case 3:
			if depth > 0 {
				lines = append(lines, "##!> include "+g.includeFile(depth-1, wordList))
				g.count("nested-include")
			}
		}
	}
	tag := "i"
	if chance(g.r, 0.15) {
		tag = "e"
	}
	g.p.addFile(tag, name+".ra", strings.Join(lines, "\n")+pick(g.r, []string{"\n", "\n", ""}))
	if chance(g.r, 0.3) {
		return name + ".ra"
	}
	return name
}

func (g *progGen) items(depth int, inCmd bool) []string {
	var lines []string
	saved, savedUnder := g.inCmd, g.underCmd
	g.inCmd = inCmd
	g.underCmd = g.underCmd || inCmd // some enclosing block is a cmdline block
	defer func() { g.inCmd, g.underCmd = saved, savedUnder }()
	n := 1 + g.r.Intn(g.o.maxItems)
	for i := 0; i < n; i++ {
		ind := indent(g.r)
		w := []int{30, 6, 3, 3, 6, 5, 4, 3, 3}
		if inCmd {
			w = []int{30, 0, 0, 0, 3, 3, 3, 2, 2}
		}
		switch weighted(g.r, w) {
		case 0:
			if inCmd {
				lines = append(lines, ind+genCmdWord(g.r))
				g.count("cmd-word")
			} else {
				lines = append(lines, ind+g.entry())
				g.count("entry")
			}
		case 1:
			lines = append(lines, ind+"##!=>"+pick(g.r, []string{"", " ", "  "}))
			g.count("mark")
		case 2:
			// names are the rest of the line: dots, blanks and shared beginnings belong to them
			name := pick(g.r, []string{"st1", "st2", "st3", "st1", "st2", "grp.1", "grp.2", "part one", "part two", "a-b", "a-b.c", "é1", "é2"})
			lines = append(lines, ind+"##!=< "+name)
			g.stored = append(g.stored, name)
			g.count("store")
		case 3:
			if len(g.stored) > 0 {
				lines = append(lines, ind+"##!=> "+pick(g.r, g.stored))
				g.count("recall")
			}
		case 4:
			if depth > 0 {
				lines = append(lines, ind+"##!> assemble")
				lines = append(lines, g.items(depth-1, false)...)
				lines = append(lines, ind+"##!<")
				g.count("assemble-block")
			}
		case 5:
			if depth > 0 && g.o.cmdline {
				lines = append(lines, ind+"##!> cmdline "+pick(g.r, []string{"unix", "windows"}))
				lines = append(lines, g.items(depth-1, true)...)
				lines = append(lines, ind+"##!<")
				g.count("cmdline-block")
			}
		case 6:
			if g.o.includes {
				kind := weighted(g.r, []int{5, 3, 3})
				// include-except works on word lists (C06): its files carry no prefix/suffix lines
				var f string
				// a file is reused only in the kind of place it was made for: files made outside cmdline blocks may carry
				// definitions and regex entries, which are no command words (outside C04's and C01's quantifier)
				made, madeWords := &g.made, &g.madeWords
				if g.inCmd {
					made, madeWords = &g.madeCmd, &g.madeWordsCmd
				}
				switch {
				case kind == 2 && len(*madeWords) > 0 && chance(g.r, 0.35):
					f = pick(g.r, *madeWords)
					g.count("include-file-reused")
				case kind != 2 && len(*made) > 0 && chance(g.r, 0.35):
					f = pick(g.r, *made)
					g.count("include-file-reused")
				default:
					f = g.includeFile(1, kind == 2)
					*made = append(*made, f)
					if kind == 2 {
						*madeWords = append(*madeWords, f)
					}
				}
				switch kind {
				case 0:
					lines = append(lines, ind+"##!> include "+f)
					g.count("include")
				case 1:
					pairLists := []string{"@ ~", "~ @", "@ \"\"", "@ ~ ~ x", "oo 00 ar AR", "@ x @ y", "> ]", "e E", "=> X", "< L s S", "x X e \"\""}
					if !g.underCmd {
						// white space that is not the directive's white space belongs to the key or value it touches.
						// (Not inside cmdline blocks: command words are ASCII in C04's and C01's quantifier — the code
						// re-encodes every byte ≥ 0x80 of a command word, which the model reproduces and the plain reading does not.)
						pairLists = append(pairLists, "\u00a0@ ~", "@ X\v", "\v@ y\u00a0", "~ \u2003", "@ \u0085x e E\u00a0")
					}
					lines = append(lines, ind+"##!> include "+f+" -- "+pick(g.r, pairLists))
					g.count("include-suffix-replacement")
				case 2:
					x1 := g.includeFile(0, true)
					ex := x1
					if chance(g.r, 0.4) {
						ex += " " + g.includeFile(0, true)
					}
					l := ind + "##!> include-except " + f + " " + ex
					if chance(g.r, 0.3) {
						l += " -- @ ~"
					}
					lines = append(lines, l)
					g.count("include-except")
				}
			}
		case 7:
			lines = append(lines, pick(g.r, []string{"", "   ", "##! a comment", ind + "##! another ##!> include x", "\f##! a comment behind a form feed", " \r##! a comment behind a carriage return", "\t##!   comment"}))
			g.count("comment-or-blank")
		case 8:
			if g.o.defs {
				name := fmt.Sprintf("d%d", len(g.defs)+1)
				val := pick(g.r, []string{"[a-z]+", "x{2,3}", "(?:a|b)", "\\s*", "y"})
				if len(g.defs) > 0 && chance(g.r, 0.4) {
					val += "{{" + pick(g.r, g.defs) + "}}"
					g.count("nested-definition")
				}
				g.defs = append(g.defs, name)
				lines = append(lines, ind+"##!> define "+name+" "+val)
				g.count("definition")
			}
		}
	}
	return lines
}

func genProgram(r *rand.Rand, o progOpts) *Program {
	p := &Program{Kinds: map[string]int{}}
	g := &progGen{r: r, o: o, p: p}
	g.eo = entryOpts{exotic: o.exotic, inline: o.inline}
	var head []string
	if o.flagsPfxSf {
		if chance(r, 0.3) {
			fl := pick(r, []string{"i", "s", "is", "si"})
			head = append(head, "##!+ "+fl)
			if strings.Contains(fl, "i") {
				g.eo.lowerOnly = true
			}
			g.count("flags")
		}
		if chance(r, 0.25) {
			head = append(head, "##!^ "+genEntry(r, g.eo))
			g.count("prefix")
		}
		if chance(r, 0.25) {
			head = append(head, "##!$ "+genEntry(r, g.eo))
			g.count("suffix")
		}
	}
	body := g.items(o.maxDepth, false)
	// definitions may be written after their use: shuffle definition lines to arbitrary positions
	lines := append(head, body...)
	if chance(r, o.malformed) {
		g.count("malformed")
		switch r.Intn(6) {
		case 0:
			lines = append(lines, "##!<")
		case 1:
			lines = append([]string{"##!> assemble"}, lines...)
		case 2:
			lines = append(lines, "##!=> nosuchname")
		case 3:
			lines = append(lines, "##!> cmdline bsd", "x", "##!<")
		case 4:
			lines = append(lines, "(unbalanced")
		case 5:
			lines = append(lines, "##!> include nosuchfile")
		}
	}
	p.Input = strings.Join(lines, "\n") + pick(r, []string{"\n", "\n", "", "\r\n"})
	cfg := pick(r, cfgMenu)
	for _, c := range cfg {
		p.Cfg = append(p.Cfg, []byte(c))
	}
	return p
}

func (p *Program) genOp() Op {
	args := append([][]byte{}, p.Cfg...)
	args = append(args, []byte(p.Input))
	args = append(args, p.Files...)
	return Op{"gen.run", args}
}

func (p *Program) parseOp() Op {
	args := [][]byte{[]byte(p.Input)}
	args = append(args, p.Files...)
	return Op{"parse.run", args}
}
