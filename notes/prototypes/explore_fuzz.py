import random, re, subprocess, itertools, sys
B='/tmp/crs/crs-fixed'; ROOT='/tmp/crs/t1'
rnd=random.Random(int(sys.argv[1]) if len(sys.argv)>1 else 1)
ALPH='abc'
def atom(d):
    r=rnd.random()
    if r<0.45: return rnd.choice(ALPH)
    if r<0.6: return '['+''.join(sorted(set(rnd.choice(ALPH) for _ in range(rnd.randint(1,3)))))+']'
    if r<0.7: return '[^'+rnd.choice(ALPH)+']'
    if r<0.75: return '.'
    if d>2: return rnd.choice(ALPH)
    return '(?:'+alt(d+1)+')'
def piece(d):
    a=atom(d); r=rnd.random()
    if r<0.12: return a+'*'
    if r<0.24: return a+'+'
    if r<0.36: return a+'?'
    if r<0.40: return a+'{1,2}'
    return a
def cat(d): return ''.join(piece(d) for _ in range(rnd.randint(1,4)))
def alt(d): return '|'.join(cat(d) for _ in range(rnd.randint(1,2)))
def entry(): return alt(0) if rnd.random()<0.25 else cat(0)
def block(d):
    # returns (lines, naive regex text)
    segs=[]; lines=[]
    nseg=rnd.randint(1,3)
    for s in range(nseg):
        ents=[]
        for _ in range(rnd.randint(1,4)):
            if d<2 and rnd.random()<0.2:
                bl,bn=block(d+1); lines+=['##!> assemble']+bl+['##!<']; ents.append(bn)
            else:
                e=entry(); lines.append(e); ents.append(e)
        segs.append('(?:'+'|'.join('(?:'+e+')' for e in ents)+')')
        if s<nseg-1: lines.append('##!=>')
    return lines, ''.join(segs)
strings=[''.join(t) for n in range(0,6) for t in itertools.product(ALPH,repeat=n)]
bad=0
for it in range(int(sys.argv[2]) if len(sys.argv)>2 else 300):
    lines,naive=block(0)
    pre=suf=''
    if rnd.random()<0.3: pre=cat(0); lines=['##!^ '+pre]+lines
    if rnd.random()<0.3: suf=cat(0); lines=['##!$ '+suf]+lines
    naive=pre+'(?:'+naive+')'+suf
    src='\n'.join(lines)+'\n'
    p=subprocess.run([B,'-d',ROOT,'regex','generate','-'],input=src.encode(),capture_output=True)
    out=p.stdout.decode()
    if p.returncode!=0: print('FAIL rc',p.returncode,repr(src)); bad+=1; continue
    try:
        r1=re.compile(out); r2=re.compile(naive)
    except re.error as e:
        print('REERR',e,repr(out),repr(naive)); continue
    for s in strings:
        if bool(r1.fullmatch(s))!=bool(r2.fullmatch(s)):
            print('DIFF on',repr(s),'\n src=',repr(src),'\n out=',out,'\n naive=',naive); bad+=1; break
print('done bad=',bad)
