/-! prototype: n-ary regex AST in the shape of Go's regexp/syntax, with relational semantics -/
namespace Proto

inductive Re where
  | noMatch
  | eps
  | lit (c : Char)
  | cls (rs : List (Char × Char))      -- ranges
  | star (r : Re)
  | plus (r : Re)
  | quest (r : Re)
  | concat (rs : List Re)
  | alt (rs : List Re)
deriving Repr

def inRanges (rs : List (Char × Char)) (c : Char) : Bool :=
  rs.any fun (lo, hi) => lo ≤ c && c ≤ hi

mutual
inductive M : Re → List Char → Prop
  | eps : M .eps []
  | lit (c) : M (.lit c) [c]
  | cls (rs c) : inRanges rs c = true → M (.cls rs) [c]
  | star_nil (r) : M (.star r) []
  | star_cons (r s t) : M r s → M (.star r) t → M (.star r) (s ++ t)
  | plus (r s t) : M r s → M (.star r) t → M (.plus r) (s ++ t)
  | quest_none (r) : M (.quest r) []
  | quest_some (r s) : M r s → M (.quest r) s
  | concat (rs s) : MC rs s → M (.concat rs) s
  | alt (rs r s) : r ∈ rs → M r s → M (.alt rs) s
inductive MC : List Re → List Char → Prop
  | nil : MC [] []
  | cons (r rs s t) : M r s → MC rs t → MC (r :: rs) (s ++ t)
end

/-- rassemble.quest -/
def quest : Re → Re
  | .quest r => .quest r
  | .star r => .star r
  | .plus r => .star r
  | r => .quest r          -- (the alternate special-case omitted in this prototype)

theorem star_of_plus {r s} : M (.plus r) s → M (.star r) s := by
  intro h; cases h with | plus _ s t h1 h2 => exact M.star_cons _ _ _ h1 h2

theorem quest_sem (r : Re) (s : List Char) : M (quest r) s ↔ M (.quest r) s := by
  cases r <;> simp only [quest]
  case quest r =>
    constructor
    · intro h; exact M.quest_some _ _ h
    · intro h; cases h with
      | quest_none => exact M.quest_none _
      | quest_some _ _ h => exact h
  case star r =>
    constructor
    · intro h; exact M.quest_some _ _ h
    · intro h; cases h with
      | quest_none => exact M.star_nil _
      | quest_some _ _ h => exact h
  case plus r =>
    constructor
    · intro h
      cases h with
      | star_nil => exact M.quest_none _
      | star_cons _ s t h1 h2 => exact M.quest_some _ _ (M.plus _ _ _ h1 h2)
    · intro h; cases h with
      | quest_none => exact M.star_nil _
      | quest_some _ _ h => exact star_of_plus h

end Proto
