namespace Proto

inductive Tok where
  | plain (c : Char)
  | esc (c : Char)
  | dangling
deriving DecidableEq, Repr

/-- lexical view of regex text: a backslash consumes the next character -/
def toks : List Char → List Tok
  | [] => []
  | ['\\'] => [.dangling]
  | '\\' :: c :: cs => .esc c :: toks cs
  | c :: cs => .plain c :: toks cs

/-- strings.ReplaceAll(s, `\\`, `\x5c`): leftmost, non-overlapping -/
def hexBs : List Char → List Char
  | '\\' :: '\\' :: cs => '\\' :: 'x' :: '5' :: 'c' :: hexBs cs
  | c :: cs => c :: hexBs cs
  | [] => []

def respell : Tok → List Tok
  | .esc '\\' => [.esc 'x', .plain '5', .plain 'c']
  | t => [t]

theorem hexBs_cons_ne (c : Char) (cs : List Char) (h : c ≠ '\\') :
    hexBs (c :: cs) = c :: hexBs cs := by
  cases cs <;> simp [hexBs, h]

theorem hexBs_bs_ne (d : Char) (cs : List Char) (h : d ≠ '\\') :
    hexBs ('\\' :: d :: cs) = '\\' :: d :: hexBs cs := by
  rw [hexBs]
  · rw [hexBs_cons_ne d cs h]
  · intro cs' h1 h2
    simp_all

theorem toks_cons_ne (c : Char) (cs : List Char) (h : c ≠ '\\') :
    toks (c :: cs) = .plain c :: toks cs := by
  cases cs <;> simp [toks, h]

/-- alignment: the byte-level ReplaceAll acts token-wise on every text -/
theorem toks_hexBs : ∀ s : List Char, toks (hexBs s) = (toks s).flatMap respell
  | [] => by simp [toks, hexBs]
  | [c] => by
    by_cases hc : c = '\\'
    · subst hc; simp [toks, hexBs, respell]
    · simp [hexBs_cons_ne, toks_cons_ne, hc, hexBs, toks, respell]
  | c :: d :: cs => by
    have ih1 := toks_hexBs cs
    have ih2 := toks_hexBs (d :: cs)
    by_cases hc : c = '\\'
    · subst hc
      by_cases hd : d = '\\'
      · subst hd; simp [toks, hexBs, respell, ih1]
      · rw [hexBs_bs_ne d cs hd]
        simp only [toks, List.flatMap_cons, ih1]
        have : respell (.esc d) = [.esc d] := by
          unfold respell; split <;> simp_all
        simp [this]
    · rw [hexBs_cons_ne c _ hc, toks_cons_ne c _ hc, toks_cons_ne c _ hc, ih2]
      simp [respell]

/-- consequence: after the pass no token is an escaped backslash -/
theorem no_esc_bs (s : List Char) : Tok.esc '\\' ∉ toks (hexBs s) := by
  rw [toks_hexBs]
  intro h
  rw [List.mem_flatMap] at h
  obtain ⟨t, _, ht⟩ := h
  unfold respell at ht
  split at ht <;> simp_all

end Proto
