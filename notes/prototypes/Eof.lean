namespace Proto

/-- cmd/regex_format.go: formatEndOfFile on the list of lines (to be joined by "\n") -/
def dropTrailingEmpty : List String → List String
  | [] => []
  | l :: ls =>
    match dropTrailingEmpty ls with
    | [] => if l = "" then [] else [l]
    | r => l :: r

def formatEndOfFile (lines : List String) : List String :=
  if lines = [] then ["", ""] else dropTrailingEmpty lines ++ [""]

theorem dropTrailingEmpty_idem (ls : List String) :
    dropTrailingEmpty (dropTrailingEmpty ls) = dropTrailingEmpty ls := by
  induction ls with
  | nil => rfl
  | cons l ls ih =>
    simp only [dropTrailingEmpty]
    split
    · rename_i h
      split
      · rfl
      · rename_i hl; simp [dropTrailingEmpty, hl]
    · rename_i r hr
      cases hd : dropTrailingEmpty ls with
      | nil => exact absurd hd (by simpa using hr)
      | cons a as =>
        rw [hd] at ih
        show dropTrailingEmpty (l :: a :: as) = l :: a :: as
        rw [dropTrailingEmpty, ih]

/-- escapeDoublequotes, byte-level model -/
def escQ : Option Char → List Char → List Char
  | _, [] => []
  | prev, c :: cs =>
    if c = '"' ∧ prev ≠ some '\\' then '\\' :: '"' :: escQ (some c) cs
    else c :: escQ (some c) cs

/-- every quote in the output is preceded by a backslash -/
def quotesPreceded : Option Char → List Char → Prop
  | _, [] => True
  | prev, c :: cs => (c = '"' → prev = some '\\') ∧ quotesPreceded (some c) cs

theorem escQ_ok (prev : Option Char) (s : List Char) : quotesPreceded prev (escQ prev s) := by
  induction s generalizing prev with
  | nil => simp [escQ, quotesPreceded]
  | cons c cs ih =>
    unfold escQ
    split
    · rename_i h
      obtain ⟨hc, _⟩ := h
      subst hc
      refine ⟨fun h => absurd h (by decide), fun _ => rfl, ih _⟩
    · rename_i h
      refine ⟨?_, ih _⟩
      intro hc
      by_cases hp : prev = some '\\'
      · exact hp
      · exact absurd ⟨hc, hp⟩ h

end Proto
