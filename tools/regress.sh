#!/bin/bash
# usage: regress.sh <workers>  — every seeded change against its own property's quick check, each worker in its own
# scratch worktree of /repo (VERIF_REPO), so that /repo itself stays as it is. One line per seed: id property exit verdict.
cd "$(dirname "$(readlink -f "$0")")/.."
N=${1:-4}
V=$PWD
worker() {
  i=$1
  W=/var/tmp/verif-scratch/regress-$$-$i
  git -C /repo worktree add --detach "$W" HEAD >/dev/null 2>&1 || { echo "worker $i: no worktree"; return; }
  k=0
  for d in "$V"/seeded/*/; do
    sid=$(basename "$d")
    [ -f "$d/patch.diff" ] && [ -f "$d/meta.json" ] || continue
    k=$((k+1)); [ $((k % N)) -eq $i ] || continue
    prop=$(python3 -c "import json;print(json.load(open('$d/meta.json')).get('property',''))" 2>/dev/null)
    [ -n "$prop" ] || continue
    git -C "$W" apply "$d/patch.diff" 2>/dev/null || { echo "$sid $prop patch-does-not-apply"; continue; }
    OUT=$(cd "$V" && VERIF_REPO="$W" ./check "$prop" --tier quick 2>&1); RC=$?
    echo "$sid $prop rc=$RC $(echo "$OUT" | grep -m1 '^VIOLATION' | sed 's/replay=[^ ]*//')"
    git -C "$W" checkout -- . ; git -C "$W" clean -fdq
  done
  git -C /repo worktree remove --force "$W"
}
for i in $(seq 0 $((N-1))); do worker $i & done
wait
