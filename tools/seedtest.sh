#!/bin/bash
# usage: seedtest.sh <seed-id> <out-dir> <prop> [<prop> ...]
# 1. confirm in a scratch worktree: patch applies, builds (guard on and off), baseline passes, demo fails with
#    the patch and passes without.  2. store under /verif/seeded/<seed-id>.  3. apply to /repo, run checks, undo.
set -u
export GOFLAGS=-mod=mod GOPROXY=off GOSUMDB=off GOTOOLCHAIN=local
SID=$1; OUT=$2; shift 2
# the checks are run from CHECKDIR (default: the checkout this script lives in, so that under `vp run` it is the
# committed snapshot and edits to the live /verif/harness cannot leak into a running batch)
CHECKDIR=${CHECKDIR:-$(cd "$(dirname "$(readlink -f "$0")")/.." && pwd)}
DEST=/verif/seeded/$SID
W=/var/tmp/verif-scratch/seedconfirm-$SID
mkdir -p /var/tmp/verif-scratch "$DEST"
cp "$OUT"/patch.diff "$DEST"/patch.diff
for f in demo.sh demo_test.go README.md; do [ -f "$OUT/$f" ] && [ ! -f "$DEST/$f" ] && cp "$OUT/$f" "$DEST/$f"; done

git -C /repo status --porcelain | grep -q . && { echo "/repo dirty"; exit 2; }
if [ "${SKIP_CONFIRM:-0}" != 1 ]; then
rm -rf "$W"; git -C /repo worktree add --detach "$W" HEAD >/dev/null 2>&1 || exit 2
RES="$DEST/confirm.log"; : > "$RES"
demo() { # $1 tree
  if [ -f "$DEST/demo.sh" ]; then (cd "$DEST" && timeout 900 bash ./demo.sh "$1") >>"$RES" 2>&1; echo $?; else echo na; fi
}
echo "== demo on unchanged tree" >>"$RES"; D0=$(demo "$W")
git -C "$W" apply "$DEST/patch.diff" >>"$RES" 2>&1 || { echo "patch does not apply"; git -C /repo worktree remove --force "$W"; exit 2; }
(cd "$W" && go build ./... && go build -tags verif ./...) >>"$RES" 2>&1; B=$?
echo "== baseline on patched tree" >>"$RES"
python3 /verif/tools/baseline.py "$W" >>"$RES" 2>&1; BL=$?
echo "== demo on patched tree" >>"$RES"; D1=$(demo "$W")
git -C /repo worktree remove --force "$W"; rm -rf "$W"
echo "confirm: build=$B baseline=$BL demo_unchanged=$D0 demo_patched=$D1"
echo "confirm: build=$B baseline=$BL demo_unchanged=$D0 demo_patched=$D1" >>"$RES"
[ "$B" = 0 ] && [ "$BL" = 0 ] || { echo "NOT CONFIRMED"; exit 1; }
fi
# run the checks against the patched /repo
git -C /repo apply "$DEST/patch.diff" || exit 2
: > "$DEST/checks.log"
for P in "$@"; do
  for T in quick thorough; do
    OUTP=$(cd "$CHECKDIR" && ./check "$P" --tier $T 2>&1); RC=$?
    echo "--- $P $T rc=$RC" >>"$DEST/checks.log"; echo "$OUTP" | tail -15 >>"$DEST/checks.log"
    V=$(echo "$OUTP" | grep -m1 '^VIOLATION')
    echo "check $P $T rc=$RC ${V}"
    if [ $RC = 1 ] && [ -n "$V" ]; then
      R=$(echo "$V" | sed -n 's/.*replay=\([^ ]*\).*/\1/p'); [ -f "$CHECKDIR/$R" ] && cp "$CHECKDIR/$R" "$DEST/replay-$P-$T.json"
      echo "$V" | grep -q no-failing-input-found || break
    fi
  done
done
git -C /repo checkout -- . ; git -C /repo status --porcelain | grep -q . && echo "WARNING /repo still dirty"
