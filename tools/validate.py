#!/usr/bin/env python3-vt
import json, sys, glob, jsonschema
ok = True
m = json.load(open('/verif/MANIFEST.json'))
jsonschema.validate(m, json.load(open('/root/.vp/MANIFEST.schema.json')))
props = [json.loads(l)['id'] for l in open('/verif/properties.jsonl')]
claimed = [c['property_id'] for c in m['checks']]
na = [c['property_id'] for c in m.get('not_applicable', [])]
for p in props:
    if (p in claimed) == (p in na):
        print('property', p, 'must be in exactly one of checks / not_applicable'); ok = False
es = json.load(open('/root/.vp/EVIDENCE.schema.json'))
for f in sorted(glob.glob('/verif/evidence/*.json')):
    try:
        jsonschema.validate(json.load(open(f)), es)
    except Exception as e:
        print('INVALID', f, str(e)[:300]); ok = False
print('manifest ok; claimed', claimed, 'n/a', na)
sys.exit(0 if ok else 1)
