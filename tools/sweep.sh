#!/bin/bash
# usage: sweep.sh "<props>" "<seeds>" [tier]  — runs the checks on the current /repo tree and prints one line per run
cd "$(dirname "$(readlink -f "$0")")/.."
TIER=${3:-thorough}
for s in $2; do for p in $1; do
  OUT=$(VERIF_SEED=$s ./check $p --tier $TIER 2>&1); RC=$?
  echo "seed=$s $p rc=$RC $(echo "$OUT" | grep -m1 '^VIOLATION') | $(echo "$OUT" | tail -1 | cut -c1-160)"
done; done
