#!/usr/bin/env python3
"""corpus/<property>/<seed>.json from the stored replays of the seeded changes (the case that caught each of them).
The corpus runs first on every run of the property's check (harness/check.go corpusCases)."""
import json, glob, os, re
n = skipped = 0
for f in sorted(glob.glob('/verif/seeded/*/replay-*.json')):
    m = re.search(r'seeded/([^/]+)/replay-(C\d\d)-(quick|thorough)\.json', f)
    if not m:
        continue
    sid, prop, tier = m.groups()
    try:
        d = json.load(open(f))
    except Exception:
        continue
    if d.get('violation_kind') != 'failing-input' or not d.get('case'):
        continue
    out = {'from': sid, 'what': d.get('what', ''), 'case': d['case']}
    for o in (out['case'].get('ops') or []) + (out['case'].get('oracles') or []):
        o.pop('args_text', None)
    b = json.dumps(out)
    if len(b) > 150_000:
        skipped += 1
        continue
    os.makedirs(f'/verif/corpus/{prop}', exist_ok=True)
    p = f'/verif/corpus/{prop}/{sid}.json'
    if os.path.exists(p) and tier == 'thorough':
        continue
    open(p, 'w').write(b)
    n += 1
print(n, 'corpus cases;', skipped, 'too big')
