#!/bin/bash
# usage: tryseed.sh <seed-id> <prop> [<prop>...]  — apply the stored patch to /repo, run the quick checks, undo
cd "$(dirname "$(readlink -f "$0")")/.."
SID=$1; shift
git -C /repo status --porcelain | grep -q . && { echo "/repo dirty"; exit 2; }
git -C /repo apply "$PWD/seeded/$SID/patch.diff" || exit 2
for P in "$@"; do
  OUT=$(./check "$P" --tier ${TIER:-quick} 2>&1); RC=$?
  echo "$SID $P rc=$RC $(echo "$OUT" | grep -m1 '^VIOLATION')"
  R=$(echo "$OUT" | grep -m1 '^VIOLATION' | grep -v no-failing-input-found | sed -n 's/.*replay=\([^ ]*\).*/\1/p')
  [ -n "$R" ] && [ -f "$R" ] && cp "$R" "seeded/$SID/replay-$P-${TIER:-quick}.json"
done
git -C /repo checkout -- . ; git -C /repo status --porcelain | grep -q . && echo "WARNING /repo still dirty"
