#!/usr/bin/env python3
import json,glob,os,sys
prop=sys.argv[1]
fs=sorted(glob.glob(f'/verif/replays/{prop}/*.json'),key=os.path.getmtime)
r=json.load(open(fs[-1]))
print(fs[-1], r.get('violation_kind'), r.get('what'))
for f in r.get('failures',[]):
    print('FAILURE:',f['what'], f.get('finding','')); print(f.get('detail','')[:3000])
for d in r.get('model_vs_code',[]):
    print('DISAGREE', d['op']['name']); print('  args', d['op'].get('args_text')); print('  impl ', d['implementation'][:1500]); print('  model', d['model'][:1500])
