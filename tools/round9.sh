#!/bin/bash
# usage: round9.sh <seed-id>:<prop> ...   — confirm and first-pass check of freshly produced seeded changes, in parallel,
# each in its own scratch worktree of /repo (VERIF_REPO); out-dir = /tmp/seed/<Hnn>-out
cd "$(dirname "$(readlink -f "$0")")/.."
V=$PWD
export GOFLAGS=-mod=mod GOPROXY=off GOSUMDB=off GOTOOLCHAIN=local
one() {
  spec=$1; sid=${spec%%:*}; prop=${spec#*:}; g=${sid%%-*}
  OUT=/tmp/seed/$g-out; DEST=/verif/seeded/$sid
  mkdir -p "$DEST"; cp "$OUT/patch.diff" "$DEST/"; for f in demo.sh README.md; do [ -f "$OUT/$f" ] && cp "$OUT/$f" "$DEST/$f"; done
  W=/var/tmp/verif-scratch/r9-$$-$g
  git -C /repo worktree add --detach "$W" HEAD >/dev/null 2>&1 || { echo "$sid no worktree"; return; }
  RES="$DEST/confirm.log"; : > "$RES"
  D0=$( (cd "$DEST" && timeout 900 bash ./demo.sh "$W") >>"$RES" 2>&1; echo $?)
  git -C "$W" apply "$DEST/patch.diff" >>"$RES" 2>&1 || { echo "$sid patch does not apply"; git -C /repo worktree remove --force "$W"; return; }
  (cd "$W" && go build ./... && go build -tags verif ./...) >>"$RES" 2>&1; B=$?
  python3 /verif/tools/baseline.py "$W" >>"$RES" 2>&1; BL=$?
  D1=$( (cd "$DEST" && timeout 900 bash ./demo.sh "$W") >>"$RES" 2>&1; echo $?)
  echo "confirm: build=$B baseline=$BL demo_unchanged=$D0 demo_patched=$D1" >>"$RES"
  line="$sid confirm: build=$B baseline=$BL demo_unchanged=$D0 demo_patched=$D1 |"
  for T in quick thorough; do
    O=$(cd "$V" && VERIF_REPO="$W" ./check "$prop" --tier $T 2>&1); RC=$?
    Vl=$(echo "$O" | grep -m1 '^VIOLATION')
    line="$line $prop $T rc=$RC $(echo "$Vl" | sed 's/replay=[^ ]*//') |"
    if [ $RC = 1 ] && [ -n "$Vl" ]; then
      R=$(echo "$Vl" | sed -n 's/.*replay=\([^ ]*\).*/\1/p'); [ -f "$V/$R" ] && cp "$V/$R" "$DEST/replay-$prop-$T.json"
      echo "$Vl" | grep -q no-failing-input-found || break
    fi
  done
  echo "$line"
  git -C "$W" checkout -- . ; git -C /repo worktree remove --force "$W"
}
n=0
for spec in "$@"; do
  one "$spec" &
  n=$((n+1)); [ $((n % 5)) -eq 0 ] && wait
done
wait
