#!/usr/bin/env python3
"""Regenerates /verif/MANIFEST.json from the table below (run after adding a check)."""
import json, subprocess

HOOK_COMMITS = subprocess.run(["git", "-C", "/repo", "log", "--format=%H", "--grep=^verif hooks"], capture_output=True, text=True).stdout.split()

NOTE = ("Trusted: Lean 4.33 kernel; axioms propext, Classical.choice, Quot.sound only (audited by #print axioms on every theorem of the property module at each run); "
        "the hand-written model Crs.* as far as this run's correspondence exercised it; models of Go stdlib functions and of the regexp literals (cross-checked, not proved); "
        "rassemble-go/regexp/syntax as a parameter of the model. Not verified: OS, cobra, zerolog.")

CHECKS = {
 "C13": dict(
   text="Lean theorems over all file contents: numbering+frame (C13_numbering_frame), end of file (C13_eof), idempotence (C13_idempotent; hypotheses: digits-only rule id, no line with both keys, no CR CR LF — the last is known finding D22 with a decide-proved witness), --check (C13_check_iff). "
        "Tie: util.processYaml (real code, in-process via verif hook) vs the compiled model on generated YAML files, byte-exact; renumber-tests binary on sandbox trees for check/write behaviour.",
   design="§7 C13", technique="Lean 4 proof (list induction) on a hand-written model + differential correspondence with the Go code"),
 "C14": dict(
   text="Lean theorems: for every marker pattern on its own and for all lines, the last invocation wins (C14_header_last_wins, C14_year_last_wins, C14_secrule_ver_last_wins, C14_signature_last_wins); lines without marker characters are unchanged (C14_frame); per-line laws lift to whole files (updateRules_last_wins_of_line, hypothesis: no CR CR LF = D22). "
        "Not yet proved: the setup-version pattern alone and the composition of the five patterns on lines carrying several marker kinds — those are covered by the correspondence and the sequence oracle only. "
        "Tie: chore.updateRules and every marker regexp alone vs the compiled model, byte-exact; update-copyright binary on sandbox trees, sequences of 1..3 runs vs the last run alone.",
   design="§7 C14", technique="Lean 4 proof (per-pattern last-wins laws, list induction) + differential correspondence with the Go code"),
}

NOT_YET = "check not built yet (work in progress in this round; planned per DESIGN.md §7)"

props = [json.loads(l)["id"] for l in open("/verif/properties.jsonl")]
m = {
 "version": 1,
 "setup_cmd": "./setup.sh",
 "hooks": {
   "guard": "verif",
   "enable": "go build -tags verif — ./check copies harness/ to a scratch dir, points its `replace` at /repo and builds it with -tags verif, so the hooks of /repo's current working tree are compiled in",
   "baseline_off_cmd": "cd /repo && GOFLAGS=-mod=mod GOPROXY=off GOSUMDB=off GOTOOLCHAIN=local go test -vet=off -count=1 ./...",
   "source_commits": HOOK_COMMITS,
   "add_only": True,
 },
 "engines": [
   {"name": "lean", "path": "lean/", "serves_properties": sorted(CHECKS), "kind_free_text": "Lean 4 model (Crs), lemmas (CrsProofs), property theorems (CrsProps), compiled driver (Main.lean)"},
   {"name": "harness", "path": "harness/", "serves_properties": sorted(CHECKS), "kind_free_text": "Go: generators, implementation worker (real /repo code), model driver client, oracles, decision rule, evidence"},
 ],
 "checks": [],
 "not_applicable": [],
 "notes": "Every check is `./check <id>`; VERIF_SEED and VERIF_TIER are honoured. Known findings: known_findings.jsonl.",
}
for p in props:
    if p in CHECKS:
        c = CHECKS[p]
        m["checks"].append({
          "property_id": p,
          "quick_cmd": f"./check {p} --tier quick",
          "thorough_cmd": f"./check {p} --tier thorough",
          "evidence_file": f"evidence/{p}.json",
          "replay_cmd_template": f"./check {p} --replay {{path}}",
          "engine": "lean+harness",
          "level_claimed": {"category": "proof", "text": c["text"], "design_ref": c["design"]},
          "level_note": NOTE,
          "technique": c["technique"],
        })
    else:
        m["not_applicable"].append({"property_id": p, "reason": NOT_YET})
json.dump(m, open("/verif/MANIFEST.json", "w"), indent=1)
print("checks:", [c["property_id"] for c in m["checks"]])
