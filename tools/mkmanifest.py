#!/usr/bin/env python3
"""Regenerates /verif/MANIFEST.json from the table below (run after adding a check)."""
import json, subprocess

HOOK_COMMITS = subprocess.run(["git", "-C", "/repo", "log", "--format=%H", "--grep=^verif hooks"], capture_output=True, text=True).stdout.split()

NOTE = ("Trusted: Lean 4.33 kernel; axioms propext, Classical.choice, Quot.sound only (audited by #print axioms on every theorem of the property module at each run); "
        "the hand-written model Crs.* as far as this run's correspondence exercised it; models of Go stdlib functions and of the regexp literals (cross-checked, not proved); "
        "rassemble-go/regexp/syntax as a parameter of the model. Not verified: OS, cobra, zerolog.")

CHECKS = {
 "C13": dict(
   text="Lean theorems over all file contents: numbering+frame (C13_numbering_frame), end of file (C13_eof), idempotence (C13_idempotent; hypotheses: digits-only rule id, no line with both keys, no CR CR LF — the last is known finding D22 with a decide-proved witness), --check (C13_check_iff). "
        "Tie: util.processYaml (real code, in-process via verif hook) vs the compiled model on generated YAML files, byte-exact; renumber-tests binary on sandbox trees for check/write behaviour.",
   design="§7 C13", technique="Lean 4 proof (list induction) on a hand-written model + differential correspondence with the Go code"),
 "C01": dict(
   text="PARTIAL. Proved (Lean, all programs of any nesting depth, every engine / configuration / stash): C01_assemble_refines_tree (the flat line-by-line stack machine of Operator.assemble — processor stack, startPreprocessor, endPreprocessor, Consume — computes exactly what a recursive tree evaluator without any stack computes: a block's body runs in a fresh processor and its completed result is handed to the enclosing one; mutual structural induction over the item tree), C01_generate_is_tree_evaluation, the equations of the plain reading (C01_entries_accumulate, C01_mark_closes_segment, C01_store, C01_recall, C01_block_result), and C01_segments_language: under two explicit hypotheses about the external engine (a successful join denotes the union of its lines; a concatenation of groups denotes the product) a block of k segments denotes the product over segments of the union over entries, for any k and any number of entries. NOT proved: the language statement for stores/recalls/nesting/cmdline blocks, prefixes/suffixes, and that the final simplification and the six clean-up passes preserve the language — this needs a semantics of regex text and laws of rassemble-go / regexp/syntax. "
        "Tie: parse.run, gen.run (real code vs compiled model, byte-exact, real Join answers fed to the model). Search/oracle: the generated regex vs an independent naive evaluator of the program (plain.go), languages compared by the Go-side regex oracle (sample strings from both syntax trees plus mutations, both directions); shrinker; engine-caused exceptions D17, D24, D25, D26 are listed known findings with narrow coded triggers.",
   design="§0.3 C01", technique="Lean 4 proof (refinement of the stack machine to a tree evaluator; language of segment blocks under explicit engine-law hypotheses) + differential correspondence + language oracle on the real engine"),
 "C08": dict(
   text="Lean theorems on the tree-level model Crs.Cli: C08_format_each / C08_renumber_each / C08_copyright_each (--all leaves in every file exactly what the per-file function leaves in it), C08_format_perm / C08_renumber_perm (independent of the traversal order), C08_run_ignores_globals (a run's regex does not depend on the processor stack and stash earlier runs left behind: new context and stack reset per file), C08_update_inputs_untouched + C08_update_regex_same (a successful update changes only the rules file, which is no input of any assembly: every file's regex in an --all run is the regex of a single run on the original tree). NOT proved: commutation of the rules-file splices of different rules (any order at the level of rules-file bytes). "
        "Tie (K10): cli.updateAll / cli.formatAll — the whole tree and exit status the model predicts vs what the real binary leaves, incl. leak scenarios (stored expression recalled without being stored, definition used without being defined, flags/prefix/suffix, unclosed block; the failing file last in walk order). Oracle: --all vs single invocations in random orders on the binary (tree bytes, compare verdict lines, exit status).",
   design="§0.3 C08", technique="Lean 4 proof on a tree-level command model (map / permutation / frame lemmas) + whole-tree correspondence with the binary + all-vs-singles oracle"),
 "C15": dict(
   text="Lean theorems on Crs.Cli for every tree: C15_format_paths / C15_renumber_paths / C15_copyright_paths (no file is created, deleted, renamed or reordered), C15_format_frame / C15_renumber_frame / C15_copyright_frame (every file that is not a target — `.ra` below regex-assembly; NNNNNN.yaml|.yml below tests/regression/tests; base name ending in .conf/.example — is byte-identical afterwards), C15_format_check_writes_nothing / C15_renumber_check_writes_nothing, target predicates evaluated on the decoys. Files outside the resolved root cannot be named by the modelled operations (watched by the snapshot oracle). "
        "Tie (K10): cli.formatAll / cli.renumberAll (check and write mode) / cli.copyrightAll — predicted tree vs the binary's tree on generated CRS trees with decoys, nested directories, files the formatter fails on and files the parser panics on. Oracle: recursive snapshot (path, size, sha256, mode) of the sandbox incl. siblings of the root before and after 19 command / flag combinations x 5 ways of passing -d.",
   design="§0.3 C15", technique="Lean 4 proof (frame theorems over all trees) on a tree-level command model + whole-tree correspondence with the binary + snapshot oracle"),
 "C16": dict(
   text="Lean theorems on Crs.Cli: C16_generate_loud (a failing generate prints nothing; success prints exactly the regex; the tree is untouched), C16_update_loud (a failing update leaves every file byte-identical; exit 0 means: argument parsed, assembly read, generate succeeded, exactly one rules file, operand spliced), C16_format_failure_keeps_file, C16_renumber_failure_keeps_file, C16_formatAll_ok (exit 0 of format --all means every target was formatted). Every fault class is an `.error` of generate / parseRuleId / rulesFileOf / updateRegex / formatFile in the model. Known finding D19 (--all not atomic) stated as C16_updateAll_failure_prefix_D19. "
        "Tie (K10): cli.generate / cli.update / cli.updateAll — stdout, exit status and whole tree of the binary vs the model under each of 21 injected fault classes (first / middle / last file) and on fault-free trees. Oracle: exit status, stdout, tree snapshot on the binary.",
   design="§0.3 C16", technique="Lean 4 proof (faults as values; loudness of each command) on a tree-level command model + stdout/exit/tree correspondence with the binary under injected faults"),
 "C09": dict(
   text="Lean theorems over all file contents: C09_idempotent (formatFile out = ok out whenever formatFile b = ok out — for every file without `\\r\\r` line ends, which is known finding D22), built from per-directive re-emission lemmas (processLine_reemit: every line the formatter writes is recognised again as the same directive with the same arguments at the same indentation, for block start/end, flags/prefix/suffix, define, include, include-except and plain lines; formatLines_reemit; processLine_good: no line break or trailing CR is invented), C09_canonical_frame (header, one empty line, body without trailing empty lines, exactly one final newline), processLine_indent / processLine_flags_col0 / processLine_none_iff (indentation bookkeeping), C09_check_iff (--check succeeds iff formatting is the identity and the lint is silent) and C09_error_writes_nothing. "
        "Tie: processLine, processFile (real code via hooks) and every directive pattern of regex/definitions.go alone vs the compiled model on pattern-directed line material, byte-exact; format / format --check binary on sandbox trees (format twice, format then check, headers, trailing lines, CRLF).",
   design="§7 C09", technique="Lean 4 proof (re-emission lemmas per directive, list induction, scan/unlines round trip) + differential correspondence with the Go code"),
 "C10": dict(
   text="PARTIAL (per-line theorems proved; their lift through include expansion and the assembler to `generate(format b) = generate b` is checked, not proved). Lean theorems for every line and indentation level: C10_view_preserved (every recogniser the parser consults — blank, comment, definition, include, include-except, flags, prefix, suffix — answers on the formatted line exactly as on the original, and plain text is identical; built on the re-emission lemmas of C09 and on C03_classification_unambiguous), C10_parser_step_same (hence parseLines takes the same step: same state or same error, for every parser state, include tree and continuation), C10_block_start_same (a block start stays text for the parser and the assembler reads the same processor name and argument word), C10_lines_pointwise / C10_file_lines (formatting is one line for one line, in order: nothing dropped, duplicated or reordered; the file is header + formatted lines − trailing empties), C10_white_space_only (the formatted line has the same non-white-space characters in the same order as the original, for every line that does not end in a dangling `--`; built on a decomposition lemma per recogniser), C09_error_writes_nothing. Known finding D23 (dangling `--` dropped) proved as a fact of the model. "
        "Tie: processLine / processFile / Parse(formatOnly) vs the compiled model; oracle on the real binary: generate before and after format (same regex or same failure), sequence of lines with white space removed, on pattern-directed .ra material incl. commented-out directives, unbalanced markers, unusual spacing.",
   design="§7 C10", technique="Lean 4 proof (per-line view preservation via re-emission and disjointness of recognisers; pointwise line relation) + differential correspondence + generate-before/after oracle"),
 "C14": dict(
   text="Lean theorems: for every marker pattern on its own and for all lines, the last invocation wins (C14_header_last_wins, C14_year_last_wins, C14_secrule_ver_last_wins, C14_signature_last_wins); lines without marker characters are unchanged (C14_frame); per-line laws lift to whole files (updateRules_last_wins_of_line, hypothesis: no CR CR LF = D22). "
        "Not yet proved: the setup-version pattern alone and the composition of the five patterns on lines carrying several marker kinds — those are covered by the correspondence and the sequence oracle only. "
        "Tie: chore.updateRules and every marker regexp alone vs the compiled model, byte-exact; update-copyright binary on sandbox trees, sequences of 1..3 runs vs the last run alone.",
   design="§7 C14", technique="Lean 4 proof (per-pattern last-wins laws, list induction) + differential correspondence with the Go code"),
 "C11": dict(
   text="Lean theorems for all rules-file contents and regexes: C11_frame (a successful update changes one line, and on it only the text between the first \"@rx / \"!@rx and the last `\" \\`; all other lines — with their carriage returns, final newline or its absence — are kept, using joinNl∘splitNl = id), C11_lines, C11_target_rule_line (CRS layout: the line before the first `id:R` line), C11_target_chained (k-th following SecRule line). "
        "Tie: updateRegex/readCurrentRegex (real code via hooks) vs the compiled model on generated rules files, byte-exact; the generator records the byte span of the addressed operand and the oracle checks every other byte; update binary on sandbox trees.",
   design="§7 C11", technique="Lean 4 proof (frame theorem over split/join lines) + differential correspondence"),
 "C12": dict(
   text="Lean theorems: C12_roundtrip (what update writes is what compare reads back, for every one-line regex whatever it contains, under the explicit side condition KeepsClass: the rewritten line is still classified alike by the `SecRule` line test that counts chained rules — automatic when the keyword stands on the operand line; the `id:R` half of that condition disappeared with the repair of D27, isIdLine_operand_line), C12_second_update_noop, C12_compare_iff, C12_update_then_compare. Key lemma splitOperand_rebuild: the first operator stays the first, the last `\" \\` stays the last. "
        "Tie: as C11 plus histories update→compare, update→update, edit-one-byte→compare on the real binaries (single rule and GitHub mode).",
   design="§7 C12", technique="Lean 4 proof (round-trip law) + differential correspondence + CLI histories"),
 "C17": dict(
   text="Lean theorems: C17_scan_total / C17_rawLines_cover (the model scanner returns every line and the lines account for every byte, independent of any length), C17_limited_is_prefix / C17_limited_complete (what Go's default 64 KiB token limit would lose, and exactly when nothing), per-command carry-through (C17_renumber_all_lines, C17_copyright_all_lines, C17_format_all_lines). "
        "Tie per scanner site (that the code really has no limit is a fact about the code, not the model): a line of 64 KiB±1 … 1 MiB at the first/middle/last position through Parse, assemble, include, replaceSuffixes, include-except, exclusion file, format, renumber-tests, update-copyright, in the real code and in the model.",
   design="§7 C17", technique="Lean 4 proof (totality of the line scanner) + per-site long-line correspondence"),
 "C18": dict(
   text="Lean theorems over all argument strings: C18_accepts (every NNNNNN[-chainK][.ra] with K ≤ 255 resolves to id, file name in the argument's own spelling, offset K), C18_rejects_large_offset (K > 255 of any length is rejected: no wrap-around), C18_sound / C18_sound_tail (nothing else is accepted; offset ≤ 255; file name = argument [+ .ra]). "
        "Tie: parseRuleId (real code via hook) vs the model on strings around the grammar; `generate ARG` vs `generate -` and nested CRS roots on the binary.",
   design="§7 C18", technique="Lean 4 proof (grammar soundness and completeness) + differential correspondence + CLI resolution runs"),
 "C20": dict(
   text="Lean theorems about the decision model: C20_install_only_if (installed bytes are the platform asset of a listed, non-draft, non-pre-release release strictly newer than the running version, whose checksum file was fetched and lists exactly the SHA-256 of those bytes), C20_else_unchanged, C20_mismatch_not_installed. "
        "Tie: the binary built from the working tree with a version stamp runs `self-update` against a local HTTPS fake of GitHub (HTTPS_PROXY + SSL_CERT_FILE, no code change); installed bytes / unchanged / exit status compared with the model's decision and with an independent expectation. Partial by nature: HTTP, archive decoding and file replacement are exercised, not modelled.",
   design="§7 C20", technique="Lean 4 proof on a decision model + end-to-end run against a fake release service"),
 "C02": dict(
   text="Lean theorems, for EVERY text the passes may be given: C02_useHexEscapes_printable and C02_cleanUp_printable (the result is printable ASCII on one line: control, DEL, non-ASCII and invalid bytes only as hex escapes), C02_escapeDoublequotes (after the quote pass every quote is preceded by a backslash), C02_useHexBackslashes (no `\\\\` survives: a literal backslash only as \\x5c), C02_flags_sorted / C02_flags_order_free / C02_finish (flag prefix = `(?` + sorted sublist of [i,s] + `)`, independent of collection order). "
        "Known finding D09 is proved as a fact of the model (C02_bare_quote_after_escaped_backslash_D09). Not proved: 'no inline flag group survives' and 'parses as RE2' — checked by the lexical oracle on every compiling program. "
        "Tie: each pass alone and composed (real code via hook) vs the compiled model on synthetic adversarial text (all token bigrams in the thorough tier) incl. the fault class; Operator.Run end to end.",
   design="§7 C02", technique="Lean 4 proof (per-pass lexical invariants over all texts) + differential correspondence + lexical oracle"),
 "C19": dict(
   text="Lean theorems: C19_generate_no_runtime_fault (for every input, include tree, configuration and map order, generate never reaches Fault.runtime — every Go index/slice of the modelled code is a guarded operation in the model — under the hypothesis EngineShape: the engine prints balanced text and answers every query), C19_cleanUp_total (the group scanner findGroupBodyEnd/removeGroup and both flag loops stay in range on balanced text; proved via a left-to-right scanner bal with the escape state of utils.IsEscaped, scanClose_shape/scanClose_of_bal, removeGroup_balanced, and state-preservation lemmas for the four string passes), C19_escaped_paren_is_text (D04 witness). No hang: the model is total, and where a loop is modelled with fuel the fuel is proved never to be used up — C19_flag_loops_reach_exit (both flag-removal loops: any larger fuel gives the same result, for every text), C19_scanners_reach_end, C19_include_bound_harmless (a successful parse is the same under any larger include-depth bound). "
        "Tie: token-level fuzz (directive fragments, metacharacters, escaped parentheses before ?i:, braces, quotes, control and non-ASCII bytes; stdin and include file) through Operator.Run and through the clean-up passes in real code and model — same result or same fault class; binary on stdin (no runtime error text, no timeout); EngineShape monitored on every Join result.",
   design="§7 C19", technique="Lean 4 proof (unreachability of runtime faults; invariant: balanced text) + token-level differential fuzzing"),
 "C03": dict(
   text="The model is a function of its inputs. Lean theorems remove the only source of run-to-run variation, map iteration order, site by site: C03_classification_unambiguous (for every line at most one of the seven directive recognisers matches, so the order in which parseLine tries the pattern map is irrelevant), C03_flags_order_free, C03_include_except_order_free (the include-except line map: entries carry pairwise distinct line indices, so whatever order the map yields and whatever algorithm sorts, the result is the model's dedupLast/filter — eq_of_perm_sorted); the definitions map is handled by explicit order parameters (C07). "
        "A go/ast extractor lists every `range` over a map in the modelled packages on each run and compares it with the list the model covers (a new site is a broken obligation). Tie/search: every program executed 10/40 times in one process (Go randomises every map iteration) and as fresh processes, byte-compared.",
   design="§7 C03", technique="Lean 4 proof (disjointness of recognisers, order-freeness per map site) + source-derived site list + repeated execution"),
 "C04": dict(
   text="Lean theorems giving the exact text of every command word: C04_interleave (characters written by regexpChar with the evasion pattern between any two adjacent ones and nowhere else), C04_empty_config, C04_regexpChar, C04_marker (unescaped trailing @/~ → evasion + (no-space) suffix pattern, or nothing when that pattern is empty), C04_escaped_marker, C04_plain_word, C04_verbatim. That this text denotes c1·E·c2…cn[·E·S] needs the engine's concatenation law and is checked on the real engine. "
        "Tie: CmdLine.regexpStr (real code, four configuration classes incl. absent file) vs the model; membership oracle: the word itself and 11 variants with evasion strings drawn from the configured pattern's syntax tree must match the generated regex; programs with cmdline blocks compared with the plain reading.",
   design="§7 C04", technique="Lean 4 proof (shape of the produced text) + differential correspondence + membership oracle on the real engine"),
 "C05": dict(
   text="Lean theorems about the parser model: C05_plain_include (an include of a file of entries/comments/blank lines parses exactly like its lines typed in place, for every parser state and continuation; parseLines_plain), C05_nested_include (the recursive law: when the included file and everything it includes, to any depth within the parser's bound, consists of entries, comments, blank lines and further plain includes, the include line parses exactly like the recursively expanded entries typed in place — induction on the depth and on the lines), C05_scoped_affixes (prefixes/suffixes of an include become one local assemble block; none → no block), C05_no_leak (an include line changes only the text, not definitions/flags/prefixes/suffixes), C05_flags_rejected. Not proved: includes carrying own definitions or prefixes/suffixes as a general inlining law (covered by the oracle). "
        "Tie: parser.Parse (buffer, flags, prefixes, suffixes, variables) vs model; oracle: generate(program) = generate(program inlined and expanded by an independent naive reading), top level / assemble / cmdline, include and exclude directory, with/without .ra.",
   design="§7 C05", technique="Lean 4 proof (inlining law for plain includes) + differential correspondence + inline-by-hand oracle"),
 "C06": dict(
   text="Lean theorems: C06_kept_iff (an entry is contributed iff it is in the include file and in no exclusion file), C06_kept_order (survivors form a duplicate-free subsequence of the file), C06_rewrite_first_match / C06_rewrite_unchanged / C06_rewrite_keeps_stem (an entry is rewritten by the first pair whose key it ends with — value `\"\"` deletes — and otherwise untouched; only endings change), C06_replaceSuffixes_lines + C06_skip_directives (comments, directives, blank lines never touched), C06_pairs_odd_rejected. "
        "Tie: parser.Parse and replaceSuffixes/buildPairMap alone vs model; oracle: generate vs the program with the set difference / rewrite done by hand.",
   design="§7 C06", technique="Lean 4 proof (set-difference and first-match laws) + differential correspondence + by-hand oracle"),
 "C07": dict(
   text="PARTIAL. Lean theorems: C07_definition_no_entry, C07_first_definition_wins, C07_unreferenced_unchanged (text without references to defined names is untouched, any order), C07_single_definition (one definition = ReplaceAll), C07_closeVars_flat (definitions that mention no defined name are unchanged by the first loop, any order). NOT proved: order independence of the first loop for nested definitions (closure for every visiting order) and of the second loop in general; this needs the token-level 'no computed names' argument of DESIGN §7 and is covered by the correspondence (Go's own random map order vs the model's definition order) and by the permutation oracle (all permutations of ≤4 definition lines, sampled beyond) on the implementation. ",
   design="§7 C07", technique="Lean 4 proof (partial: flat definitions) + differential correspondence against Go's random map order + permutation oracle"),
}

NOT_YET = "check not built yet"

props = [json.loads(l)["id"] for l in open("/verif/properties.jsonl")]
m = {
 "version": 1,
 "setup_cmd": "./setup.sh",
 "hooks": {
   "guard": "verif",
   "enable": "go build -tags verif — ./check copies harness/ to a scratch dir, points its `replace` at /repo and builds it with -tags verif, so the hooks of /repo's current working tree are compiled in",
   "baseline_off_cmd": "cd /repo && GOFLAGS=-mod=mod GOPROXY=off GOSUMDB=off GOTOOLCHAIN=local go test -vet=off -count=1 ./...",
   "source_commits": HOOK_COMMITS,
   "add_only": True,
 },
 "engines": [
   {"name": "lean", "path": "lean/", "serves_properties": sorted(CHECKS), "kind_free_text": "Lean 4 model (Crs), lemmas (CrsProofs), property theorems (CrsProps), compiled driver (Main.lean)"},
   {"name": "harness", "path": "harness/", "serves_properties": sorted(CHECKS), "kind_free_text": "Go: generators, implementation worker (real /repo code), model driver client, oracles, decision rule, evidence"},
 ],
 "checks": [],
 "not_applicable": [],
 "notes": "Every check is `./check <id>`; VERIF_SEED and VERIF_TIER are honoured. Known findings: known_findings.jsonl.",
}
for p in props:
    if p in CHECKS:
        c = CHECKS[p]
        m["checks"].append({
          "property_id": p,
          "quick_cmd": f"./check {p} --tier quick",
          "thorough_cmd": f"./check {p} --tier thorough",
          "evidence_file": f"evidence/{p}.json",
          "replay_cmd_template": f"./check {p} --replay {{path}}",
          "engine": "lean+harness",
          "level_claimed": {"category": "proof", "text": c["text"], "design_ref": c["design"]},
          "level_note": NOTE,
          "technique": c["technique"],
        })
    else:
        m["not_applicable"].append({"property_id": p, "reason": NOT_YET})
json.dump(m, open("/verif/MANIFEST.json", "w"), indent=1)
print("checks:", [c["property_id"] for c in m["checks"]])
