#!/usr/bin/env python3
"""Regenerates /verif/MANIFEST.json from the table below (run after adding a check)."""
import json, subprocess

HOOK_COMMITS = subprocess.run(["git", "-C", "/repo", "log", "--format=%H", "--grep=^verif hooks"], capture_output=True, text=True).stdout.split()

NOTE = ("Trusted: Lean 4.33 kernel; axioms propext, Classical.choice, Quot.sound only (audited by #print axioms on every theorem of the property module at each run); "
        "the hand-written model Crs.* as far as this run's correspondence exercised it; models of Go stdlib functions and of the regexp literals (cross-checked, not proved); "
        "rassemble-go/regexp/syntax as a parameter of the model. Not verified: OS, cobra, zerolog.")

CHECKS = {
 "C13": dict(
   text="Lean theorems over all file contents: numbering+frame (C13_numbering_frame), end of file (C13_eof), idempotence (C13_idempotent; hypotheses: digits-only rule id, no line with both keys, no CR CR LF — the last is known finding D22 with a decide-proved witness), --check (C13_check_iff). "
        "Tie: util.processYaml (real code, in-process via verif hook) vs the compiled model on generated YAML files, byte-exact; renumber-tests binary on sandbox trees for check/write behaviour.",
   design="§7 C13", technique="Lean 4 proof (list induction) on a hand-written model + differential correspondence with the Go code"),
 "C14": dict(
   text="Lean theorems: for every marker pattern on its own and for all lines, the last invocation wins (C14_header_last_wins, C14_year_last_wins, C14_secrule_ver_last_wins, C14_signature_last_wins); lines without marker characters are unchanged (C14_frame); per-line laws lift to whole files (updateRules_last_wins_of_line, hypothesis: no CR CR LF = D22). "
        "Not yet proved: the setup-version pattern alone and the composition of the five patterns on lines carrying several marker kinds — those are covered by the correspondence and the sequence oracle only. "
        "Tie: chore.updateRules and every marker regexp alone vs the compiled model, byte-exact; update-copyright binary on sandbox trees, sequences of 1..3 runs vs the last run alone.",
   design="§7 C14", technique="Lean 4 proof (per-pattern last-wins laws, list induction) + differential correspondence with the Go code"),
 "C11": dict(
   text="Lean theorems for all rules-file contents and regexes: C11_frame (a successful update changes one line, and on it only the text between the first \"@rx / \"!@rx and the last `\" \\`; all other lines — with their carriage returns, final newline or its absence — are kept, using joinNl∘splitNl = id), C11_lines, C11_target_rule_line (CRS layout: the line before the first `id:R` line), C11_target_chained (k-th following SecRule line). "
        "Tie: updateRegex/readCurrentRegex (real code via hooks) vs the compiled model on generated rules files, byte-exact; the generator records the byte span of the addressed operand and the oracle checks every other byte; update binary on sandbox trees.",
   design="§7 C11", technique="Lean 4 proof (frame theorem over split/join lines) + differential correspondence"),
 "C12": dict(
   text="Lean theorems: C12_roundtrip (what update writes is what compare reads back, for every one-line regex whatever it contains, under the explicit side condition KeepsClass: the rewritten line is still classified alike by the `id:R`/`SecRule` line tests), C12_second_update_noop, C12_compare_iff, C12_update_then_compare. Key lemma splitOperand_rebuild: the first operator stays the first, the last `\" \\` stays the last. "
        "Tie: as C11 plus histories update→compare, update→update, edit-one-byte→compare on the real binaries (single rule and GitHub mode).",
   design="§7 C12", technique="Lean 4 proof (round-trip law) + differential correspondence + CLI histories"),
 "C17": dict(
   text="Lean theorems: C17_scan_total / C17_rawLines_cover (the model scanner returns every line and the lines account for every byte, independent of any length), C17_limited_is_prefix / C17_limited_complete (what Go's default 64 KiB token limit would lose, and exactly when nothing), per-command carry-through (C17_renumber_all_lines, C17_copyright_all_lines, C17_format_all_lines). "
        "Tie per scanner site (that the code really has no limit is a fact about the code, not the model): a line of 64 KiB±1 … 1 MiB at the first/middle/last position through Parse, assemble, include, replaceSuffixes, include-except, exclusion file, format, renumber-tests, update-copyright, in the real code and in the model.",
   design="§7 C17", technique="Lean 4 proof (totality of the line scanner) + per-site long-line correspondence"),
 "C18": dict(
   text="Lean theorems over all argument strings: C18_accepts (every NNNNNN[-chainK][.ra] with K ≤ 255 resolves to id, file name in the argument's own spelling, offset K), C18_rejects_large_offset (K > 255 of any length is rejected: no wrap-around), C18_sound / C18_sound_tail (nothing else is accepted; offset ≤ 255; file name = argument [+ .ra]). "
        "Tie: parseRuleId (real code via hook) vs the model on strings around the grammar; `generate ARG` vs `generate -` and nested CRS roots on the binary.",
   design="§7 C18", technique="Lean 4 proof (grammar soundness and completeness) + differential correspondence + CLI resolution runs"),
 "C20": dict(
   text="Lean theorems about the decision model: C20_install_only_if (installed bytes are the platform asset of a listed, non-draft, non-pre-release release strictly newer than the running version, whose checksum file was fetched and lists exactly the SHA-256 of those bytes), C20_else_unchanged, C20_mismatch_not_installed. "
        "Tie: the binary built from the working tree with a version stamp runs `self-update` against a local HTTPS fake of GitHub (HTTPS_PROXY + SSL_CERT_FILE, no code change); installed bytes / unchanged / exit status compared with the model's decision and with an independent expectation. Partial by nature: HTTP, archive decoding and file replacement are exercised, not modelled.",
   design="§7 C20", technique="Lean 4 proof on a decision model + end-to-end run against a fake release service"),
 "C02": dict(
   text="Lean theorems, for EVERY text the passes may be given: C02_useHexEscapes_printable and C02_cleanUp_printable (the result is printable ASCII on one line: control, DEL, non-ASCII and invalid bytes only as hex escapes), C02_escapeDoublequotes (after the quote pass every quote is preceded by a backslash), C02_useHexBackslashes (no `\\\\` survives: a literal backslash only as \\x5c), C02_flags_sorted / C02_flags_order_free / C02_finish (flag prefix = `(?` + sorted sublist of [i,s] + `)`, independent of collection order). "
        "Known finding D09 is proved as a fact of the model (C02_bare_quote_after_escaped_backslash_D09). Not proved: 'no inline flag group survives' and 'parses as RE2' — checked by the lexical oracle on every compiling program. "
        "Tie: each pass alone and composed (real code via hook) vs the compiled model on synthetic adversarial text (all token bigrams in the thorough tier) incl. the fault class; Operator.Run end to end.",
   design="§7 C02", technique="Lean 4 proof (per-pass lexical invariants over all texts) + differential correspondence + lexical oracle"),
 "C19": dict(
   text="Lean theorems: C19_generate_no_runtime_fault (for every input, include tree, configuration and map order, generate never reaches Fault.runtime — every Go index/slice of the modelled code is a guarded operation in the model — under the hypothesis EngineShape: the engine prints balanced text and answers every query), C19_cleanUp_total (the group scanner findGroupBodyEnd/removeGroup and both flag loops stay in range on balanced text; proved via a left-to-right scanner bal with the escape state of utils.IsEscaped, scanClose_shape/scanClose_of_bal, removeGroup_balanced, and state-preservation lemmas for the four string passes), C19_escaped_paren_is_text (D04 witness). Termination: the model is total. "
        "Tie: token-level fuzz (directive fragments, metacharacters, escaped parentheses before ?i:, braces, quotes, control and non-ASCII bytes; stdin and include file) through Operator.Run and through the clean-up passes in real code and model — same result or same fault class; binary on stdin (no runtime error text, no timeout); EngineShape monitored on every Join result.",
   design="§7 C19", technique="Lean 4 proof (unreachability of runtime faults; invariant: balanced text) + token-level differential fuzzing"),
}

NOT_YET = "check not built yet (work in progress in this round; planned per DESIGN.md §7)"

props = [json.loads(l)["id"] for l in open("/verif/properties.jsonl")]
m = {
 "version": 1,
 "setup_cmd": "./setup.sh",
 "hooks": {
   "guard": "verif",
   "enable": "go build -tags verif — ./check copies harness/ to a scratch dir, points its `replace` at /repo and builds it with -tags verif, so the hooks of /repo's current working tree are compiled in",
   "baseline_off_cmd": "cd /repo && GOFLAGS=-mod=mod GOPROXY=off GOSUMDB=off GOTOOLCHAIN=local go test -vet=off -count=1 ./...",
   "source_commits": HOOK_COMMITS,
   "add_only": True,
 },
 "engines": [
   {"name": "lean", "path": "lean/", "serves_properties": sorted(CHECKS), "kind_free_text": "Lean 4 model (Crs), lemmas (CrsProofs), property theorems (CrsProps), compiled driver (Main.lean)"},
   {"name": "harness", "path": "harness/", "serves_properties": sorted(CHECKS), "kind_free_text": "Go: generators, implementation worker (real /repo code), model driver client, oracles, decision rule, evidence"},
 ],
 "checks": [],
 "not_applicable": [],
 "notes": "Every check is `./check <id>`; VERIF_SEED and VERIF_TIER are honoured. Known findings: known_findings.jsonl.",
}
for p in props:
    if p in CHECKS:
        c = CHECKS[p]
        m["checks"].append({
          "property_id": p,
          "quick_cmd": f"./check {p} --tier quick",
          "thorough_cmd": f"./check {p} --tier thorough",
          "evidence_file": f"evidence/{p}.json",
          "replay_cmd_template": f"./check {p} --replay {{path}}",
          "engine": "lean+harness",
          "level_claimed": {"category": "proof", "text": c["text"], "design_ref": c["design"]},
          "level_note": NOTE,
          "technique": c["technique"],
        })
    else:
        m["not_applicable"].append({"property_id": p, "reason": NOT_YET})
json.dump(m, open("/verif/MANIFEST.json", "w"), indent=1)
print("checks:", [c["property_id"] for c in m["checks"]])
