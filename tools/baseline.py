#!/usr/bin/env python3
"""Run /repo's baseline test suite (guard off) and compare with /root/.vp/BASELINE.json.
Exit 0 iff every stable_pass test passes."""
import json, subprocess, os, sys
env = dict(os.environ, GOFLAGS="-mod=mod", GOPROXY="off", GOSUMDB="off", GOTOOLCHAIN="local")
repo = sys.argv[1] if len(sys.argv) > 1 else "/repo"
p = subprocess.run(["go", "test", "-json", "-vet=off", "-count=1", "-timeout", "25m", "./..."],
                   cwd=repo, env=env, capture_output=True, text=True)
res = {}
for line in p.stdout.splitlines():
    try:
        e = json.loads(line)
    except Exception:
        continue
    if e.get("Action") in ("pass", "fail") and e.get("Test"):
        res[e["Package"] + "::" + e["Test"]] = e["Action"]
base = json.load(open("/root/.vp/BASELINE.json"))
bad = [t for t in base["stable_pass"] if res.get(t) != "pass"]
print(f"baseline: {len(base['stable_pass']) - len(bad)}/{len(base['stable_pass'])} stable tests pass")
for t in bad:
    print("  NOT PASSING:", t, res.get(t))
sys.exit(1 if bad else 0)
