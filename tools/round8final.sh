#!/bin/bash
# re-runs every round-8 seed against its property's quick check (plus listed extras) and records the result in meta.json
cd "$(dirname "$(readlink -f "$0")")/.."
for d in seeded/${ROUND:-G}*; do
  sid=$(basename $d); prop=$(python3 -c "import json;print(json.load(open('$d/meta.json'))['property'])")
  out=$(tools/tryseed.sh $sid $prop 2>&1 | grep "^$sid")
  echo "$out"
  python3 - "$d" "$prop" "$out" <<'PY'
import json,sys,re
d,prop,out=sys.argv[1:4]
m=json.load(open(d+'/meta.json'))
rc=re.search(r'rc=(\d+)',out)
m['checks_last_run']=[{"property":prop,"tier":"quick","exit":int(rc.group(1)) if rc else -1,"no_failing_input":"no-failing-input-found" in out}]
json.dump(m,open(d+'/meta.json','w'),indent=1,ensure_ascii=False)
PY
done
