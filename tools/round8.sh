#!/bin/bash
# usage: round8.sh <seed-id>:<prop>[,<prop>...] ...   (out-dir = /tmp/seed/<Gnn>-out); sequential, /repo is patched and restored per seed
cd "$(dirname "$(readlink -f "$0")")/.."
for spec in "$@"; do
  sid=${spec%%:*}; props=${spec#*:}
  g=${sid%%-*}
  echo "=== $sid ($props) $(date +%T)"
  CHECKDIR=$PWD tools/seedtest.sh "$sid" "/tmp/seed/$g-out" ${props//,/ } 2>&1 | grep -E '^(confirm|check|NOT|patch|WARNING|/repo)'
done
