#!/bin/bash
# applies each behaviour-preserving refactoring of seeded/harmless/ to /repo and runs every check (quick tier):
# all must exit 0 — a check that reports a violation here raises a false alarm
cd "$(dirname "$(readlink -f "$0")")/.."
git -C /repo status --porcelain | grep -q . && { echo "/repo dirty"; exit 2; }
for d in seeded/harmless/h*.diff; do
  git -C /repo apply "$PWD/$d" || { echo "$d does not apply"; continue; }
  for p in C01 C02 C03 C04 C05 C06 C07 C08 C09 C10 C11 C12 C13 C14 C15 C16 C17 C18 C19 C20; do
    OUT=$(./check $p --tier ${1:-quick} 2>&1); RC=$?
    echo "$(basename $d) $p rc=$RC $(echo "$OUT" | grep -m1 '^VIOLATION')"
  done
  git -C /repo checkout -- .
done
