#!/bin/bash
# like harmless.sh, but on the tree in $VERIF_REPO (a scratch copy), so that /repo stays as it is:
# usage: VERIF_REPO=<copy> tools/harmless2.sh "<props>"   — every refactoring that still applies x the given checks (quick tier)
cd "$(dirname "$(readlink -f "$0")")/.."
R=${VERIF_REPO:?}
for d in seeded/harmless/h*.diff; do
  git -C "$R" apply -C1 "$PWD/$d" 2>/dev/null || { echo "$(basename $d) does-not-apply"; continue; }
  for p in $1; do
    OUT=$(./check $p --tier quick 2>&1); RC=$?
    echo "$(basename $d) $p rc=$RC $(echo "$OUT" | grep -m1 '^VIOLATION')"
  done
  git -C "$R" checkout -- . ; git -C "$R" clean -fdq
done
