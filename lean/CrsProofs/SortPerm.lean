/-
  Sorting entries with pairwise distinct keys has exactly one result: a permutation that is sorted (≤) equals the
  strictly sorted arrangement, whatever algorithm produced it and whatever order the entries came in.
  (C03: the include-except line map is iterated in map order, then sorted by line index.)
-/
import Crs.Parser
namespace Crs.Parser
open Crs

theorem eq_of_perm_sorted {α} (k : α → Nat) (l1 l2 : List α) (hp : l1.Perm l2)
    (h1 : l1.Pairwise (fun a b => k a < k b)) (h2 : l2.Pairwise (fun a b => k a ≤ k b)) : l1 = l2 := by
  induction l1 generalizing l2 with
  | nil => exact (List.Perm.nil_eq hp)
  | cons a t ih =>
    cases l2 with
    | nil => exact absurd hp.symm (by simp)
    | cons b t2 =>
      have ha : a ∈ b :: t2 := hp.subset (by simp)
      have hb : b ∈ a :: t := hp.symm.subset (by simp)
      have hab : a = b := by
        rcases List.mem_cons.mp hb with e | hbt
        · exact e.symm
        · -- b is in the tail of l1: k a < k b; a is in l2: k b ≤ k a or a = b
          have lt : k a < k b := (List.pairwise_cons.mp h1).1 b hbt
          rcases List.mem_cons.mp ha with e | hat
          · exact e
          · have le : k b ≤ k a := (List.pairwise_cons.mp h2).1 a hat
            omega
      subst hab
      have hp' : t.Perm t2 := List.Perm.cons_inv hp
      rw [ih t2 hp' (List.pairwise_cons.mp h1).2 (List.pairwise_cons.mp h2).2]

/-- the content of the Go map built by `buildinclusionLineMap`: every distinct line with the index of its LAST
    occurrence (a later assignment to the same key overwrites the earlier one) -/
def lastEntries : Nat → List Bytes → List (Bytes × Nat)
  | _, [] => []
  | i, l :: ls => if ls.contains l then lastEntries (i + 1) ls else (l, i) :: lastEntries (i + 1) ls

theorem lastEntries_fst (i : Nat) (ls : List Bytes) : (lastEntries i ls).map Prod.fst = dedupLast ls := by
  induction ls generalizing i with
  | nil => rfl
  | cons l ls ih =>
    simp only [lastEntries, dedupLast]
    split
    · exact ih (i + 1)
    · simp only [List.map_cons, ih (i + 1)]

theorem lastEntries_ge (i : Nat) (ls : List Bytes) : ∀ e ∈ lastEntries i ls, i ≤ e.2 := by
  induction ls generalizing i with
  | nil => simp [lastEntries]
  | cons l ls ih =>
    intro e he
    simp only [lastEntries] at he
    split at he
    · have := ih (i + 1) e he; omega
    · rcases List.mem_cons.mp he with rfl | h
      · exact Nat.le_refl _
      · have := ih (i + 1) e h; omega

theorem lastEntries_sorted (i : Nat) (ls : List Bytes) : (lastEntries i ls).Pairwise (fun a b => a.2 < b.2) := by
  induction ls generalizing i with
  | nil => simp [lastEntries]
  | cons l ls ih =>
    simp only [lastEntries]
    split
    · exact ih (i + 1)
    · refine List.pairwise_cons.mpr ⟨?_, ih (i + 1)⟩
      intro e he
      have := lastEntries_ge (i + 1) ls e he
      simp only; omega

end Crs.Parser
