/-
  File-level lemmas for C09 idempotence: list-level re-emission, prefixes, and what the parser hands to the formatter.
-/
import CrsProofs.FormatChars
import CrsProofs.Lines
namespace Crs.Format
open Crs Crs.Pat

theorem formatLines_cons (l : Bytes) (ls : List Bytes) (i : Nat) (l' : Bytes) (k : Nat) (rest : List Bytes)
    (h1 : processLine l i = some (l', k)) (h2 : formatLines ls k = some rest) :
    formatLines (l :: ls) i = some (l' :: rest) := by
  simp [formatLines, h1, h2]

theorem formatLines_cons_inv (l : Bytes) (ls : List Bytes) (i : Nat) (r : List Bytes)
    (h : formatLines (l :: ls) i = some r) :
    ∃ l' k rest, processLine l i = some (l', k) ∧ formatLines ls k = some rest ∧ r = l' :: rest := by
  simp only [formatLines] at h
  split at h
  · simp at h
  · rename_i l' k hp
    split at h
    · simp at h
    · rename_i rest hr
      simp only [Option.some.injEq] at h
      exact ⟨l', k, rest, hp, hr, h.symm⟩

/-- list-level re-emission -/
theorem formatLines_reemit (ls : List Bytes) (i : Nat) (ls' : List Bytes)
    (hl : ∀ l ∈ ls, trimLeftSpTab l = l) (h : formatLines ls i = some ls') :
    formatLines (ls'.map trimLeftSpTab) i = some ls' ∧
    (ls.all lineAccepted = true → (ls'.map trimLeftSpTab).all lineAccepted = true) ∧
    ((∀ l ∈ ls, Good l) → ∀ l ∈ ls', Good l) := by
  induction ls generalizing i ls' with
  | nil =>
    simp only [formatLines, Option.some.injEq] at h
    subst h
    simp [formatLines]
  | cons l ls ih =>
    obtain ⟨l', k, rest, hp, hr, rfl⟩ := formatLines_cons_inv l ls i ls' h
    obtain ⟨i1, i2, i3⟩ := ih k rest (fun x hx => hl x (by simp [hx])) hr
    obtain ⟨p1, p2⟩ := processLine_reemit l i l' k (hl l (by simp)) hp
    refine ⟨?_, ?_, ?_⟩
    · simp only [List.map_cons]
      exact formatLines_cons _ _ _ _ _ _ p1 i1
    · intro ha
      simp only [List.all_cons, Bool.and_eq_true] at ha
      simp only [List.map_cons, List.all_cons, Bool.and_eq_true]
      exact ⟨p2 ha.1, i2 ha.2⟩
    · intro hg x hx
      simp only [List.mem_cons] at hx
      rcases hx with rfl | hx
      · exact processLine_good l i _ k (hl l (by simp)) (hg l (by simp)) hp
      · exact i3 (fun y hy => hg y (by simp [hy])) x hx

/-- formatting a prefix of the lines gives the corresponding prefix of the result -/
theorem formatLines_prefix (a b : List Bytes) (i : Nat) (r : List Bytes) (h : formatLines (a ++ b) i = some r) :
    ∃ ra rb, r = ra ++ rb ∧ ra.length = a.length ∧ formatLines a i = some ra := by
  induction a generalizing i r with
  | nil => exact ⟨[], r, rfl, rfl, rfl⟩
  | cons l a ih =>
    obtain ⟨l', k, rest, hp, hr, rfl⟩ := formatLines_cons_inv l (a ++ b) i r h
    obtain ⟨ra, rb, e, hlen, hf⟩ := ih k rest hr
    exact ⟨l' :: ra, rb, by rw [e]; rfl, by simp [hlen], formatLines_cons _ _ _ _ _ _ hp hf⟩

theorem formatLines_map_prefix (T R : List Bytes) (i : Nat)
    (h : formatLines ((T ++ R).map trimLeftSpTab) i = some (T ++ R)) :
    formatLines (T.map trimLeftSpTab) i = some T := by
  rw [List.map_append] at h
  obtain ⟨ra, rb, e, hlen, hf⟩ := formatLines_prefix _ _ i _ h
  have : ra = T := by
    have hl : ra.length = T.length := by simpa using hlen
    exact (List.append_inj_left e.symm hl)
  rw [this] at hf; exact hf

/-! ### the lines the formatter is given -/

theorem scanLines_unlines_dropCR (ls : List Bytes) (h : ∀ l ∈ ls, '\n' ∉ l) :
    scanLines (unlines ls) = ls.map dropCR := by
  unfold scanLines rawLines
  rw [splitNl_unlines ls h]
  have h1 : (ls ++ [([] : Bytes)]).getLast? = some [] := by simp
  simp only [h1, List.dropLast_concat]

theorem trimLeftSpTab_subset (l : Bytes) : trimLeftSpTab l ⊆ l := (List.dropWhile_sublist _).subset

theorem dropLast_head (y : Bytes) (c : Char) (h : y.dropLast.head? = some c) : y.head? = some c := by
  cases y with
  | nil => simp at h
  | cons a as =>
    cases as with
    | nil => simp at h
    | cons b bs => simpa [List.dropLast] using h

theorem dropCR_leftTrimmed (y : Bytes) (h : trimLeftSpTab y = y) : trimLeftSpTab (dropCR y) = dropCR y := by
  have hh : ∀ c, y.head? = some c → isSpTab c = false := by rw [← h]; exact trimLeftSpTab_head y
  apply trimLeftSpTab_of_head
  intro c hc
  unfold dropCR at hc
  split at hc
  · exact hh c (dropLast_head y c hc)
  · exact hh c hc

theorem parsedLines_eq (b : Bytes) : parsedLines b = (scanLines b).map (fun l => dropCR (trimLeftSpTab l)) := by
  unfold parsedLines
  rw [scanLines_unlines_dropCR]
  · simp [List.map_map, Function.comp_def]
  · intro l hl
    simp only [List.mem_map] at hl
    obtain ⟨x, hx, rfl⟩ := hl
    exact fun hm => scanLines_noNl b x hx (trimLeftSpTab_subset x hm)

theorem parsedLines_leftTrimmed (b : Bytes) : ∀ l ∈ parsedLines b, trimLeftSpTab l = l := by
  intro l hl
  rw [parsedLines_eq] at hl
  simp only [List.mem_map] at hl
  obtain ⟨x, _, rfl⟩ := hl
  exact dropCR_leftTrimmed _ (trimLeftSpTab_idem x)

theorem parsedLines_noNl (b : Bytes) : ∀ l ∈ parsedLines b, '\n' ∉ l := by
  unfold parsedLines; exact scanLines_noNl _

theorem good_trimLeft (l : Bytes) (h : Good l) : Good (trimLeftSpTab l) := by
  constructor
  · exact fun hm => h.1 (trimLeftSpTab_subset l hm)
  · have hs : trimLeftSpTab l <:+ l := List.dropWhile_suffix _
    obtain ⟨p, hp⟩ := hs
    intro e
    apply h.2
    rw [← hp, List.getLast?_append, e]; rfl

/-- on `Good` lines the parser's pre-pass is plain left-trimming -/
theorem parsedLines_of_good (ls : List Bytes) (h : ∀ l ∈ ls, Good l) :
    parsedLines (unlines ls) = ls.map trimLeftSpTab := by
  have e : scanLines (unlines ls) = ls := scanLines_unlines ls (fun l hl => (h l hl).1) (fun l hl => (h l hl).2)
  unfold parsedLines
  rw [e]
  apply scanLines_unlines
  · intro l hl; simp only [List.mem_map] at hl; obtain ⟨x, hx, rfl⟩ := hl; exact (good_trimLeft x (h x hx)).1
  · intro l hl; simp only [List.mem_map] at hl; obtain ⟨x, hx, rfl⟩ := hl; exact (good_trimLeft x (h x hx)).2

/-! ### the header lines -/

theorem processLine_header1 : processLine header1 0 = some (header1, 0) := by decide +kernel
theorem processLine_header2 : processLine header2 0 = some (header2, 0) := by decide +kernel
theorem processLine_empty0 : processLine [] 0 = some ([], 0) := by decide +kernel
theorem good_header1 : Good header1 := ⟨by decide +kernel, by decide +kernel⟩
theorem good_header2 : Good header2 := ⟨by decide +kernel, by decide +kernel⟩
theorem good_nil : Good [] := ⟨by simp, by simp⟩
theorem header_accepted : lineAccepted header1 = true ∧ lineAccepted header2 = true ∧ lineAccepted [] = true := by
  decide +kernel
theorem header_trim : trimLeftSpTab header1 = header1 ∧ trimLeftSpTab header2 = header2 := by decide +kernel

end Crs.Format
