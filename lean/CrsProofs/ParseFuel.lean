/-
  The include depth of the parser model is bounded by fuel. A successful parse does not depend on the bound:
  with more fuel the result is the same. (So the bound only ever turns a non-terminating include cycle into a
  failure; it is never the reason for a result.)
-/
import Crs.Parser
namespace Crs.Parser
open Crs Crs.Pat

theorem parseFile_mono_of (fs : Fs) (o1 o2 : Ord) (f : Nat)
    (hA : ∀ v c st, parse fs o1 o2 f v c = .ok st → parse fs o1 o2 (f + 1) v c = .ok st)
    (name : Bytes) (defs : Vars) (r : Bytes × Vars) (h : parseFile fs o1 o2 f name defs = .ok r) :
    parseFile fs o1 o2 (f + 1) name defs = .ok r := by
  simp only [parseFile] at h ⊢
  cases hfind : fs.find name with
  | none => rw [hfind] at h; simp at h
  | some contents =>
    rw [hfind] at h
    simp only at h ⊢
    cases hp : parse fs o1 o2 f defs contents with
    | error e => rw [hp] at h; simp at h
    | ok st =>
      rw [hp] at h
      rw [hA defs contents st hp]
      exact h

theorem exclusions_mono_of (fs : Fs) (o1 o2 : Ord) (f : Nat)
    (hB : ∀ name defs r, parseFile fs o1 o2 f name defs = .ok r → parseFile fs o1 o2 (f + 1) name defs = .ok r)
    (names : List Bytes) (defs : Vars) (r : List Bytes) (h : exclusions fs o1 o2 f defs names = .ok r) :
    exclusions fs o1 o2 (f + 1) defs names = .ok r := by
  induction names generalizing defs r with
  | nil => simpa [exclusions] using h
  | cons n ns ih =>
    simp only [exclusions] at h ⊢
    cases hp : parseFile fs o1 o2 f n defs with
    | error e => rw [hp] at h; simp at h
    | ok res =>
      obtain ⟨text, defs'⟩ := res
      rw [hp] at h
      rw [hB n defs _ hp]
      simp only at h ⊢
      cases hx : exclusions fs o1 o2 f defs' ns with
      | error e => rw [hx] at h; simp at h
      | ok more =>
        rw [hx] at h
        rw [ih defs' more hx]
        exact h

theorem parseLines_mono_of (fs : Fs) (o1 o2 : Ord) (f : Nat)
    (hB : ∀ name defs r, parseFile fs o1 o2 f name defs = .ok r → parseFile fs o1 o2 (f + 1) name defs = .ok r)
    (hC : ∀ names defs r, exclusions fs o1 o2 f defs names = .ok r → exclusions fs o1 o2 (f + 1) defs names = .ok r)
    (ls : List Bytes) (st st' : PState) (h : parseLines fs o1 o2 f st ls = .ok st') :
    parseLines fs o1 o2 (f + 1) st ls = .ok st' := by
  induction ls generalizing st with
  | nil => simpa [parseLines] using h
  | cons line rest ih =>
    simp only [parseLines] at h ⊢
    by_cases hb : isBlank (trimLeftSpTab line) = true
    · simp only [hb, if_true] at h ⊢; exact ih _ h
    simp only [hb, Bool.false_eq_true, if_false] at h ⊢
    by_cases hc : comment? (trimLeftSpTab line) = true
    · simp only [hc, if_true] at h ⊢; exact ih _ h
    simp only [hc, Bool.false_eq_true, if_false] at h ⊢
    cases hd : definition? (trimLeftSpTab line) with
    | some p => obtain ⟨n, v⟩ := p; simp only [hd] at h ⊢; exact ih _ h
    | none =>
    simp only [hd] at h ⊢
    cases hi : include? (trimLeftSpTab line) with
    | some p =>
      obtain ⟨name, repl⟩ := p
      simp only [hi] at h ⊢
      cases hpairs : buildPairs repl with
      | none => rw [hpairs] at h; simp at h
      | some pairs =>
        simp only [hpairs] at h ⊢
        cases hp : parseFile fs o1 o2 f name [] with
        | error e => rw [hp] at h; simp at h
        | ok res =>
          obtain ⟨text, dd⟩ := res
          rw [hp] at h
          rw [hB name [] _ hp]
          exact ih _ h
    | none =>
    simp only [hi] at h ⊢
    cases hx : includeExcept? (trimLeftSpTab line) with
    | some p =>
      obtain ⟨name, excl, repl⟩ := p
      simp only [hx] at h ⊢
      cases hpairs : buildPairs repl with
      | none => rw [hpairs] at h; simp at h
      | some pairs =>
        simp only [hpairs] at h ⊢
        cases hp : parseFile fs o1 o2 f name [] with
        | error e => rw [hp] at h; simp at h
        | ok res =>
          obtain ⟨text, defs⟩ := res
          rw [hp] at h
          rw [hB name [] _ hp]
          simp only at h ⊢
          cases hex : exclusions fs o1 o2 f defs (splitArgs excl) with
          | error e => rw [hex] at h; simp at h
          | ok excluded =>
            rw [hex] at h
            rw [hC _ _ _ hex]
            exact ih _ h
    | none =>
    simp only [hx] at h ⊢
    cases hf : flags? (trimLeftSpTab line) with
    | some v =>
      simp only [hf] at h ⊢
      by_cases hv : (v.all fun c => c == 'i' || c == 's') = true
      · simp only [hv, if_true] at h ⊢; exact ih _ h
      · simp only [hv, Bool.false_eq_true, if_false] at h; simp at h
    | none =>
    simp only [hf] at h ⊢
    cases hp : prefix? (trimLeftSpTab line) with
    | some v => simp only [hp] at h ⊢; exact ih _ h
    | none =>
    simp only [hp] at h ⊢
    cases hs : suffix? (trimLeftSpTab line) with
    | some v => simp only [hs] at h ⊢; exact ih _ h
    | none => simp only [hs] at h ⊢; exact ih _ h

/-- **more fuel, same result**: a successful parse is independent of the include-depth bound -/
theorem parse_mono (fs : Fs) (o1 o2 : Ord) (f : Nat) :
    ∀ v c st, parse fs o1 o2 f v c = .ok st → parse fs o1 o2 (f + 1) v c = .ok st := by
  induction f with
  | zero => intro v c st h; simp [parse] at h
  | succ f ih =>
    intro v c st h
    have hB := parseFile_mono_of fs o1 o2 f ih
    have hC := exclusions_mono_of fs o1 o2 f hB
    simp only [parse] at h ⊢
    cases hl : parseLines fs o1 o2 f { vars := v } (scanLines c) with
    | error e => rw [hl] at h; simp at h
    | ok st0 =>
      rw [hl] at h
      rw [parseLines_mono_of fs o1 o2 f hB hC _ _ _ hl]
      exact h

theorem parse_mono_add (fs : Fs) (o1 o2 : Ord) (f k : Nat) (v : Vars) (c : Bytes) (st : PState)
    (h : parse fs o1 o2 f v c = .ok st) : parse fs o1 o2 (f + k) v c = .ok st := by
  induction k with
  | zero => exact h
  | succ k ih => exact parse_mono fs o1 o2 (f + k) v c st ih

end Crs.Parser
