/-
  The formatter invents no line break and no trailing carriage return: what it writes is scanned back as the
  same lines (used by C09 idempotence).
-/
import CrsProofs.FormatIdem
namespace Crs.Format
open Crs Crs.Pat

/-- a line that `scanLines ∘ unlines` gives back unchanged -/
def Good (l : Bytes) : Prop := '\n' ∉ l ∧ l.getLast? ≠ some '\r'

theorem dropWs_subset (x : Bytes) : dropWs x ⊆ x := (List.dropWhile_sublist _).subset
theorem trimRightWs_subset (x : Bytes) : trimRightWs x ⊆ x := by
  obtain ⟨t, ht⟩ := trimRightWs_prefix x
  intro c hc; rw [← ht]; simp [hc]
theorem trimWs_subset (x : Bytes) : trimWs x ⊆ x :=
  List.Subset.trans (trimRightWs_subset _) (dropWs_subset x)
theorem strip_subset (p l r : Bytes) (h : stripPrefix? p l = some r) : r ⊆ l := by
  rw [stripPrefix?_some_iff] at h; intro c hc; rw [h]; simp [hc]
theorem tok_fst_subset (x : Bytes) : (tok x).1 ⊆ x := (List.takeWhile_sublist _).subset
theorem tok_snd_subset (x : Bytes) : (tok x).2 ⊆ x := (List.dropWhile_sublist _).subset

theorem blockStart?_sub (l kw arg : Bytes) (h : blockStart? l = some (kw, arg)) : arg ⊆ l := by
  unfold blockStart? at h
  split at h
  · simp at h
  · rename_i r hr
    simp only at h
    have key : ∀ k : Bytes, ∀ res : Bytes × Bytes,
        (match stripPrefix? k (dropWs r) with
          | none => none
          | some rest => match rest with
            | [] => some (k, [])
            | c :: _ => if isWs c then some (k, trimWs rest) else none) = some res →
        res.2 ⊆ l := by
      intro k res hk
      split at hk
      · simp at hk
      · rename_i rest hrest
        split at hk
        · simp only [Option.some.injEq] at hk; subst hk; simp
        · split at hk
          · simp only [Option.some.injEq] at hk; subst hk
            exact List.Subset.trans (trimWs_subset _) (List.Subset.trans (strip_subset _ _ _ hrest)
              (List.Subset.trans (dropWs_subset r) (strip_subset _ _ _ hr)))
          · simp at hk
    split at h
    · rename_i x hx
      simp only [Option.some.injEq] at h
      subst h
      exact key b!"assemble" (kw, arg) hx
    · exact key b!"cmdline" (kw, arg) h

theorem valueLine?_sub (ch : Char) (l v : Bytes) (h : valueLine? ch l = some v) : v ⊆ l := by
  unfold valueLine? at h
  split at h
  · simp at h
  · rename_i r hr
    simp only at h
    split at h
    · simp at h
    · simp only [Option.some.injEq] at h
      subst h
      exact List.Subset.trans (trimWs_subset _) (strip_subset _ _ _ hr)

theorem splitLast_go_post (t pre post : Bytes) (h : splitLastDashDashFrom1.go t = some (pre, post)) : post ⊆ t := by
  induction t generalizing pre post with
  | nil => simp [splitLastDashDashFrom1.go] at h
  | cons x r ih =>
    cases r with
    | nil => simp [splitLastDashDashFrom1.go] at h
    | cons y r =>
      simp only [splitLastDashDashFrom1.go] at h
      split at h
      · rename_i pre' post' hg
        simp only [Option.some.injEq, Prod.mk.injEq] at h
        obtain ⟨rfl, rfl⟩ := h
        intro c hc
        have := ih pre' post' hg hc
        simp only [List.mem_cons] at this ⊢
        right; exact this
      · split at h
        · simp only [Option.some.injEq, Prod.mk.injEq] at h
          obtain ⟨rfl, rfl⟩ := h
          intro c hc; simp [hc]
        · simp at h

theorem splitLast_post (t p a : Bytes) (h : splitLastDashDashFrom1 t = some (p, a)) : a ⊆ t := by
  unfold splitLastDashDashFrom1 at h
  cases t with
  | nil => simp at h
  | cons c rest =>
    simp only at h
    split at h
    · rename_i pre post hg
      simp only [Option.some.injEq, Prod.mk.injEq] at h
      obtain ⟨rfl, rfl⟩ := h
      intro d hd
      have := splitLast_go_post rest pre post hg hd
      simp [this]
    · simp at h

theorem include?_sub (l n r : Bytes) (h : include? l = some (n, r)) : r ⊆ l := by
  unfold include? at h
  split at h
  · simp at h
  · rename_i r0 hr0
    try simp only at h
    split at h
    · simp at h
    · rename_i r1 hr1
      have s1 : r1 ⊆ l := List.Subset.trans (strip_subset _ _ _ hr1) (List.Subset.trans (dropWs_subset _) (strip_subset _ _ _ hr0))
      split at h
      · simp at h
      · rename_i c cs
        split at h
        · simp at h
        · try simp only at h
          have s2 : (tok (dropWs (c :: cs))).2 ⊆ l := List.Subset.trans (tok_snd_subset _) (List.Subset.trans (dropWs_subset _) s1)
          have s3 : (tok (dropWs (c :: cs))).1 ⊆ l := List.Subset.trans (tok_fst_subset _) (List.Subset.trans (dropWs_subset _) s1)
          split at h
          · simp at h
          · split at h
            · simp only [Option.some.injEq, Prod.mk.injEq] at h
              obtain ⟨rfl, rfl⟩ := h
              simp
            · split at h
              · rename_i after ha
                simp only [Option.some.injEq, Prod.mk.injEq] at h
                obtain ⟨rfl, rfl⟩ := h
                exact List.Subset.trans (trimWs_subset _) (List.Subset.trans (strip_subset _ _ _ ha) (List.Subset.trans (dropWs_subset _) s2))
              · split at h
                · rename_i p after hs
                  simp only [Option.some.injEq, Prod.mk.injEq] at h
                  obtain ⟨rfl, rfl⟩ := h
                  apply List.Subset.trans (trimWs_subset _)
                  intro d hd
                  simp only [List.mem_append] at hd
                  rcases hd with hd | hd
                  · exact s3 (splitLast_post _ _ _ hs hd)
                  · exact s2 hd
                · simp at h

theorem includeExcept?_sub (l n x r : Bytes) (h : includeExcept? l = some (n, x, r)) : x ⊆ l ∧ r ⊆ l := by
  unfold includeExcept? at h
  split at h
  · simp at h
  · rename_i r0 hr0
    try simp only at h
    split at h
    · simp at h
    · rename_i r1 hr1
      have s1 : r1 ⊆ l := List.Subset.trans (strip_subset _ _ _ hr1) (List.Subset.trans (dropWs_subset _) (strip_subset _ _ _ hr0))
      split at h
      · simp at h
      · rename_i c cs
        split at h
        · simp at h
        · try simp only at h
          have s2 : dropWs (tok (dropWs (c :: cs))).2 ⊆ l :=
            List.Subset.trans (dropWs_subset _) (List.Subset.trans (tok_snd_subset _) (List.Subset.trans (dropWs_subset _) s1))
          split at h
          · simp at h
          · split at h
            · rename_i pre after hs
              simp only [Option.some.injEq, Prod.mk.injEq] at h
              obtain ⟨rfl, rfl, rfl⟩ := h
              have e := sdd_eq _ _ _ hs
              constructor
              · apply List.Subset.trans (trimRightWs_subset _)
                intro d hd; apply s2; rw [e]; simp [hd]
              · apply List.Subset.trans (trimWs_subset _)
                intro d hd; apply s2; rw [e]; simp [hd]
            · simp only [Option.some.injEq, Prod.mk.injEq] at h
              obtain ⟨rfl, rfl, rfl⟩ := h
              exact ⟨List.Subset.trans (trimRightWs_subset _) s2, by simp⟩

/-! ### Good lines stay Good -/

theorem good_indent (j : Nat) (e : Bytes) (h : Good e) : Good (indentBy j e) := by
  unfold indentBy Good at *
  constructor
  · intro hm
    simp only [List.mem_append, List.mem_replicate] at hm
    rcases hm with ⟨_, hm⟩ | hm
    · exact absurd hm (by decide)
    · exact h.1 hm
  · rw [List.getLast?_append]
    cases hl : e.getLast? with
    | some c => rw [Option.or]; rw [← hl]; exact h.2
    | none =>
      simp only [Option.none_or, List.getLast?_replicate]
      split
      · simp
      · simp

theorem notNl_of_nonWs (x : Bytes) (h : ∀ c ∈ x, nonWs c = true) : '\n' ∉ x := by
  intro hm; have := h _ hm; simp [nonWs, isWs] at this

theorem notNl_of_name (x : Bytes) (h : ∀ c ∈ x, isNameCh c = true) : '\n' ∉ x := by
  intro hm; have := h _ hm; simp [isNameCh, isLower, isUpper, isDigit] at this

theorem last_append_ne (pre x : Bytes) (hne : x ≠ []) (h : ∀ c, x.getLast? = some c → isWs c = false) :
    (pre ++ x).getLast? ≠ some '\r' := by
  rw [List.getLast?_append]
  cases hl : x.getLast? with
  | none => simp at hl; exact absurd hl hne
  | some c =>
    rw [Option.or]
    intro e; simp only [Option.some.injEq] at e; subst e
    have := h _ hl; simp [isWs] at this

theorem last_nonWs_of_all (x : Bytes) (h : ∀ c ∈ x, nonWs c = true) : ∀ c, x.getLast? = some c → isWs c = false := by
  intro c hc
  have : c ∈ x := List.mem_of_getLast? hc
  have := h c this
  simpa [nonWs] using this

theorem good_of (pre x : Bytes) (h1 : '\n' ∉ pre) (h2 : '\n' ∉ x) (hne : x ≠ [])
    (h3 : x.getLast? ≠ some '\r') : Good (pre ++ x) := by
  constructor
  · intro hm; simp only [List.mem_append] at hm; rcases hm with hm | hm
    · exact h1 hm
    · exact h2 hm
  · rw [List.getLast?_append]
    cases hl : x.getLast? with
    | none => simp at hl; exact absurd hl hne
    | some c => rw [Option.or]; rw [← hl]; exact h3

theorem trimmed_last_ne (x : Bytes) (h : Trimmed x) : x.getLast? ≠ some '\r' := by
  intro e; have := h.2 _ e; simp [isWs] at this

theorem nonWs_last_ne (x : Bytes) (h : ∀ c ∈ x, nonWs c = true) : x.getLast? ≠ some '\r' := by
  intro e; have := last_nonWs_of_all x h _ e; simp [isWs] at this

theorem notNl_sub (a l : Bytes) (h : a ⊆ l) (hl : '\n' ∉ l) : '\n' ∉ a := fun hm => hl (h hm)

theorem good_emitStart (kw arg : Bytes) (hkw : kw = b!"assemble" ∨ kw = b!"cmdline") (ha : Trimmed arg) (hn : '\n' ∉ arg) :
    Good (emitStart kw arg) := by
  unfold emitStart
  by_cases he : arg.isEmpty = true
  · simp only [he, if_true, List.append_nil]
    rcases hkw with rfl | rfl <;> exact ⟨by decide, by decide⟩
  · simp only [he, Bool.false_eq_true, if_false]
    have hne : arg ≠ [] := by intro e; rw [e] at he; simp at he
    have : b!"##!> " ++ kw ++ ' ' :: arg = (b!"##!> " ++ kw ++ [' ']) ++ arg := by simp
    rw [this]
    apply good_of _ _ _ hn hne (trimmed_last_ne _ ha)
    rcases hkw with rfl | rfl <;> decide

theorem good_emitValue (ch : Char) (hc : ch ≠ '\n') (v : Bytes) (hv : Trimmed v) (hne : v ≠ []) (hn : '\n' ∉ v) :
    Good (emitValue ch v) := by
  have : emitValue ch v = ['#', '#', '!', ch, ' '] ++ v := rfl
  rw [this]
  apply good_of _ _ _ hn hne (trimmed_last_ne _ hv)
  intro hm; simp at hm; exact hc hm.symm

theorem good_emitDefine (n v : Bytes) (hnc : ∀ c ∈ n, isNameCh c = true) (hv : v ≠ []) (hvc : ∀ c ∈ v, nonWs c = true) :
    Good (emitDefine n v) := by
  have : emitDefine n v = (b!"##!> define " ++ n ++ [' ']) ++ v := by simp [emitDefine]
  rw [this]
  apply good_of _ _ _ (notNl_of_nonWs v hvc) hv (nonWs_last_ne v hvc)
  intro hm
  simp only [List.mem_append] at hm
  rcases hm with (hm | hm) | hm
  · revert hm; decide
  · exact notNl_of_name n hnc hm
  · revert hm; decide

theorem good_emitInclude (n r : Bytes) (hn : n ≠ []) (hnc : ∀ c ∈ n, nonWs c = true) (hr : Trimmed r) (hrn : '\n' ∉ r) :
    Good (emitInclude n r) := by
  unfold emitInclude
  by_cases he : r.isEmpty = true
  · simp only [he, if_true, List.append_nil]
    exact good_of _ _ (by decide) (notNl_of_nonWs n hnc) hn (nonWs_last_ne n hnc)
  · simp only [he, Bool.false_eq_true, if_false]
    have hne : r ≠ [] := by intro e; rw [e] at he; simp at he
    have : b!"##!> include " ++ n ++ (b!" -- " ++ r) = (b!"##!> include " ++ n ++ b!" -- ") ++ r := by simp
    rw [this]
    apply good_of _ _ _ hrn hne (trimmed_last_ne _ hr)
    intro hm
    simp only [List.mem_append] at hm
    rcases hm with (hm | hm) | hm
    · revert hm; decide
    · exact notNl_of_nonWs n hnc hm
    · revert hm; decide

theorem good_emitIE (n x r : Bytes) (hnc : ∀ c ∈ n, nonWs c = true) (hx : '\n' ∉ x) (hxt : Trimmed x)
    (hr : Trimmed r) (hrn : '\n' ∉ r) : Good (emitIE n x r) := by
  unfold emitIE
  have hpre : '\n' ∉ b!"##!> include-except " ++ n ++ [' '] := by
    intro hm
    simp only [List.mem_append] at hm
    rcases hm with (hm | hm) | hm
    · revert hm; decide
    · exact notNl_of_nonWs n hnc hm
    · revert hm; decide
  by_cases he : r.isEmpty = true
  · simp only [he, if_true, List.append_nil]
    cases x with
    | nil => exact good_of _ [' '] (by intro hm; apply hpre; simp at hm ⊢; exact hm) (by decide) (by simp) (by decide)
    | cons a as =>
      have : b!"##!> include-except " ++ n ++ ' ' :: (a :: as) = (b!"##!> include-except " ++ n ++ [' ']) ++ (a :: as) := by simp
      rw [this]
      exact good_of _ _ hpre hx (by simp) (trimmed_last_ne _ hxt)
  · simp only [he, Bool.false_eq_true, if_false]
    have hne : r ≠ [] := by intro e; rw [e] at he; simp at he
    have : b!"##!> include-except " ++ n ++ ' ' :: x ++ (b!" -- " ++ r) = ((b!"##!> include-except " ++ n ++ [' ']) ++ x ++ b!" -- ") ++ r := by simp
    rw [this]
    apply good_of _ _ _ hrn hne (trimmed_last_ne _ hr)
    intro hm
    simp only [List.mem_append] at hm
    rcases hm with (hm | hm) | hm
    · exact hpre (by simp only [List.mem_append]; exact hm)
    · exact hx hm
    · revert hm; decide

/-- the formatter's line function keeps lines scannable -/
theorem processLine_good (l : Bytes) (i : Nat) (l' : Bytes) (k : Nat)
    (hl : trimLeftSpTab l = l) (hg : Good l) (h : processLine l i = some (l', k)) : Good l' := by
  by_cases he : l.isEmpty = true
  · have hp : processLine l i = some (l, i) := by unfold processLine; simp only [hl, he, if_true]
    rw [hp] at h
    simp only [Option.some.injEq, Prod.mk.injEq] at h
    obtain ⟨rfl, rfl⟩ := h
    exact hg
  have he' : l.isEmpty = false := by simpa using he
  cases hbs : blockStart? l with
  | some p =>
    obtain ⟨kw, arg⟩ := p
    obtain ⟨hkw, harg⟩ := blockStart?_shape l kw arg hbs
    have hp : processLine l i = some (indentBy i (emitStart kw arg), i + 1) := by
      unfold processLine; simp only [hl, he', hbs, Bool.false_eq_true, if_false]; rfl
    rw [hp] at h
    simp only [Option.some.injEq, Prod.mk.injEq] at h
    obtain ⟨rfl, rfl⟩ := h
    exact good_indent _ _ (good_emitStart kw arg hkw harg (notNl_sub _ _ (blockStart?_sub l kw arg hbs) hg.1))
  | none =>
  by_cases hbe : blockEnd? l = true
  · have hp : processLine l i = (if i == 0 then none else some (indentBy (i - 1) l, i - 1)) := by
      unfold processLine; simp only [hl, he', hbs, hbe, Bool.false_eq_true, if_false, if_true]
    rw [hp] at h
    split at h
    · simp at h
    · simp only [Option.some.injEq, Prod.mk.injEq] at h
      obtain ⟨rfl, rfl⟩ := h
      exact good_indent _ _ hg
  have hbe' : blockEnd? l = false := by simpa using hbe
  cases hfl : flags? l with
  | some v =>
    obtain ⟨ht, hne⟩ := valueLine?_shape '+' l v hfl
    have hp : processLine l i = some (emitValue '+' v, i) := by
      unfold processLine; simp only [hl, he', hbs, hbe', hfl, Bool.false_eq_true, if_false]; rfl
    rw [hp] at h
    simp only [Option.some.injEq, Prod.mk.injEq] at h
    obtain ⟨rfl, rfl⟩ := h
    exact good_emitValue '+' (by decide) v ht hne (notNl_sub _ _ (valueLine?_sub '+' l v hfl) hg.1)
  | none =>
  cases hpf : prefix? l with
  | some v =>
    obtain ⟨ht, hne⟩ := valueLine?_shape '^' l v hpf
    have hp : processLine l i = some (emitValue '^' v, i) := by
      unfold processLine; simp only [hl, he', hbs, hbe', hfl, hpf, Bool.false_eq_true, if_false]; rfl
    rw [hp] at h
    simp only [Option.some.injEq, Prod.mk.injEq] at h
    obtain ⟨rfl, rfl⟩ := h
    exact good_emitValue '^' (by decide) v ht hne (notNl_sub _ _ (valueLine?_sub '^' l v hpf) hg.1)
  | none =>
  cases hsf : suffix? l with
  | some v =>
    obtain ⟨ht, hne⟩ := valueLine?_shape '$' l v hsf
    have hp : processLine l i = some (emitValue '$' v, i) := by
      unfold processLine; simp only [hl, he', hbs, hbe', hfl, hpf, hsf, Bool.false_eq_true, if_false]; rfl
    rw [hp] at h
    simp only [Option.some.injEq, Prod.mk.injEq] at h
    obtain ⟨rfl, rfl⟩ := h
    exact good_emitValue '$' (by decide) v ht hne (notNl_sub _ _ (valueLine?_sub '$' l v hsf) hg.1)
  | none =>
  cases hdf : definition? l with
  | some p =>
    obtain ⟨n, v⟩ := p
    obtain ⟨a1, a2, a3, a4⟩ := definition?_shape l n v hdf
    have hp : processLine l i = some (indentBy i (emitDefine n v), i) := by
      unfold processLine; simp only [hl, he', hbs, hbe', hfl, hpf, hsf, hdf, Bool.false_eq_true, if_false]; rfl
    rw [hp] at h
    simp only [Option.some.injEq, Prod.mk.injEq] at h
    obtain ⟨rfl, rfl⟩ := h
    exact good_indent _ _ (good_emitDefine n v a2 a3 a4)
  | none =>
  cases hin : include? l with
  | some p =>
    obtain ⟨n, r⟩ := p
    obtain ⟨a1, a2, a3⟩ := include?_shape l n r hin
    have hp : processLine l i = some (indentBy i (emitInclude n r), i) := by
      unfold processLine; simp only [hl, he', hbs, hbe', hfl, hpf, hsf, hdf, hin, Bool.false_eq_true, if_false]; rfl
    rw [hp] at h
    simp only [Option.some.injEq, Prod.mk.injEq] at h
    obtain ⟨rfl, rfl⟩ := h
    exact good_indent _ _ (good_emitInclude n r a1 a2 a3 (notNl_sub _ _ (include?_sub l n r hin) hg.1))
  | none =>
  cases hix : includeExcept? l with
  | some p =>
    obtain ⟨n, x, r⟩ := p
    obtain ⟨a1, a2, a3, a4, a5⟩ := includeExcept?_shape l n x r hix
    obtain ⟨s1, s2⟩ := includeExcept?_sub l n x r hix
    have hp : processLine l i = some (indentBy i (emitIE n x r), i) := by
      unfold processLine; simp only [hl, he', hbs, hbe', hfl, hpf, hsf, hdf, hin, hix, Bool.false_eq_true, if_false]; rfl
    rw [hp] at h
    simp only [Option.some.injEq, Prod.mk.injEq] at h
    obtain ⟨rfl, rfl⟩ := h
    exact good_indent _ _ (good_emitIE n x r a2 (notNl_sub _ _ s1 hg.1) a3 a5 (notNl_sub _ _ s2 hg.1))
  | none =>
    have hp : processLine l i = some (indentBy i l, i) := by
      unfold processLine; simp only [hl, he', hbs, hbe', hfl, hpf, hsf, hdf, hin, hix, Bool.false_eq_true, if_false]
    rw [hp] at h
    simp only [Option.some.injEq, Prod.mk.injEq] at h
    obtain ⟨rfl, rfl⟩ := h
    exact good_indent _ _ hg

end Crs.Format
