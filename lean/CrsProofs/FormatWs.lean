/-
  What a directive line consists of, white space disregarded: every recogniser determines the non-white-space
  characters of the line it accepts (used for C10: formatting changes white space only).
-/
import CrsProofs.FormatIdem
namespace Crs.Format
open Crs Crs.Pat

/-- the line with all white space removed -/
def noWs (l : Bytes) : Bytes := l.filter nonWs

theorem noWs_append (a b : Bytes) : noWs (a ++ b) = noWs a ++ noWs b := List.filter_append ..

theorem noWs_allWs (x : Bytes) (h : ∀ c ∈ x, isWs c = true) : noWs x = [] := by
  unfold noWs
  rw [List.filter_eq_nil_iff]
  intro c hc; simp [nonWs, h c hc]

theorem noWs_allNonWs (x : Bytes) (h : ∀ c ∈ x, nonWs c = true) : noWs x = x := by
  unfold noWs
  rw [List.filter_eq_self]; exact h

theorem noWs_dropWs (x : Bytes) : noWs (dropWs x) = noWs x := by
  have e : x = x.takeWhile isWs ++ dropWs x := (List.takeWhile_append_dropWhile).symm
  conv => rhs; rw [e, noWs_append]
  rw [noWs_allWs _ (fun c hc => mem_takeWhile_imp' isWs x c hc)]
  rfl

theorem trimRightWs_split' (x : Bytes) : ∃ w, x = trimRightWs x ++ w ∧ ∀ c ∈ w, isWs c = true := by
  refine ⟨(x.reverse.takeWhile isWs).reverse, ?_, ?_⟩
  · unfold trimRightWs
    rw [← List.reverse_append, List.takeWhile_append_dropWhile, List.reverse_reverse]
  · intro c hc
    rw [List.mem_reverse] at hc
    exact mem_takeWhile_imp' _ _ c hc

theorem noWs_trimRightWs (x : Bytes) : noWs (trimRightWs x) = noWs x := by
  obtain ⟨w, hw, hall⟩ := trimRightWs_split' x
  conv => rhs; rw [hw, noWs_append, noWs_allWs w hall, List.append_nil]

theorem noWs_trimWs (x : Bytes) : noWs (trimWs x) = noWs x := by
  unfold trimWs; rw [noWs_trimRightWs, noWs_dropWs]

theorem noWs_indentBy (k : Nat) (e : Bytes) : noWs (indentBy k e) = noWs e := by
  unfold indentBy
  rw [noWs_append, noWs_allWs]
  · rfl
  · intro c hc; simp only [List.mem_replicate] at hc; rw [hc.2]; rfl

theorem noWs_of_dropWs_nil (x : Bytes) (h : (dropWs x).isEmpty = true) : noWs x = [] := by
  rw [← noWs_dropWs]
  have : dropWs x = [] := by simpa using h
  rw [this]; rfl

theorem noWs_tok (x : Bytes) : noWs x = (tok x).1 ++ noWs (tok x).2 := by
  have e : x = (tok x).1 ++ (tok x).2 := (List.takeWhile_append_dropWhile).symm
  conv => lhs; rw [e, noWs_append]
  rw [noWs_allNonWs _ (tok_fst_nonWs x)]

theorem noWs_cons_ws (c : Char) (x : Bytes) (h : isWs c = true) : noWs (c :: x) = noWs x := by
  simp [noWs, List.filter_cons, nonWs, h]

theorem noWs_cons_nonWs (c : Char) (x : Bytes) (h : isWs c = false) : noWs (c :: x) = c :: noWs x := by
  simp [noWs, List.filter_cons, nonWs, h]

theorem strip_eq (p l r : Bytes) (h : stripPrefix? p l = some r) : l = p ++ r := (stripPrefix?_some_iff _ _ _).mp h

/-! ### what each recogniser says about the line -/

theorem blockStart?_noWs (l kw arg : Bytes) (h : blockStart? l = some (kw, arg)) :
    noWs l = b!"##!>" ++ kw ++ noWs arg := by
  unfold blockStart? at h
  split at h
  · simp at h
  · rename_i r hr
    simp only at h
    have hl := strip_eq _ _ _ hr
    have key : ∀ k : Bytes, (∀ c ∈ k, nonWs c = true) →
        (match stripPrefix? k (dropWs r) with
          | none => none
          | some rest => match rest with
            | [] => some (k, [])
            | c :: _ => if isWs c then some (k, trimWs rest) else none) = some (kw, arg) →
        noWs l = b!"##!>" ++ kw ++ noWs arg := by
      intro k hk hm
      split at hm
      · simp at hm
      · rename_i rest hrest
        have hd := strip_eq _ _ _ hrest
        have base : noWs l = b!"##!>" ++ k ++ noWs rest := by
          rw [hl, noWs_append, ← noWs_dropWs r, hd, noWs_append, noWs_allNonWs k hk]
          rfl
        split at hm
        · simp only [Option.some.injEq, Prod.mk.injEq] at hm
          obtain ⟨rfl, rfl⟩ := hm
          simpa using base
        · split at hm
          · simp only [Option.some.injEq, Prod.mk.injEq] at hm
            obtain ⟨rfl, rfl⟩ := hm
            rw [noWs_trimWs]; exact base
          · simp at hm
    split at h
    · rename_i x hx
      simp only [Option.some.injEq] at h
      subst h
      exact key b!"assemble" (by decide) hx
    · exact key b!"cmdline" (by decide) h

theorem valueLine?_noWs (ch : Char) (hch : isWs ch = false) (l v : Bytes) (h : valueLine? ch l = some v) :
    noWs l = b!"##!" ++ [ch] ++ noWs v := by
  unfold valueLine? at h
  split at h
  · simp at h
  · rename_i r hr
    simp only at h
    split at h
    · simp at h
    · simp only [Option.some.injEq] at h
      subst h
      rw [strip_eq _ _ _ hr, noWs_append, noWs_trimWs, noWs_append]
      have : noWs [ch] = [ch] := by simp [noWs, nonWs, hch]
      rw [this]
      rfl

theorem definition?_noWs (l n v : Bytes) (h : definition? l = some (n, v)) :
    noWs l = b!"##!>define" ++ n ++ v := by
  have hshape := definition?_shape l n v h
  unfold definition? at h
  split at h
  · simp at h
  · rename_i r hr
    try simp only at h
    split at h
    · simp at h
    · rename_i r1 hr1
      split at h
      · simp at h
      · rename_i c cs
        split at h
        · simp at h
        · try simp only at h
          split at h
          · simp at h
          · split at h
            · simp at h
            · rename_i d ds hr3
              split at h
              · simp at h
              · try simp only at h
                split at h
                · simp at h
                · split at h
                  · rename_i hend
                    simp only [Option.some.injEq, Prod.mk.injEq] at h
                    obtain ⟨rfl, rfl⟩ := h
                    have a1 : noWs l = b!"##!>" ++ noWs r := by rw [strip_eq _ _ _ hr, noWs_append]; rfl
                    have a2 : noWs r = b!"define" ++ noWs (c :: cs) := by
                      rw [← noWs_dropWs r, strip_eq _ _ _ hr1, noWs_append]; rfl
                    have a3 : noWs (c :: cs) = (dropWs (c :: cs)).takeWhile isNameCh ++ noWs ((dropWs (c :: cs)).dropWhile isNameCh) := by
                      rw [← noWs_dropWs (c :: cs)]
                      have e2 := congrArg noWs (List.takeWhile_append_dropWhile (p := isNameCh) (l := dropWs (c :: cs))).symm
                      rw [noWs_append] at e2
                      rw [e2, noWs_allNonWs _ (fun x hx => by
                        have := hshape.2.1 x hx
                        simp [nonWs, isNameCh_not_ws x this])]
                    have a4 : noWs ((dropWs (c :: cs)).dropWhile isNameCh) = (tok (dropWs ((dropWs (c :: cs)).dropWhile isNameCh))).1 := by
                      rw [← noWs_dropWs, noWs_tok, noWs_of_dropWs_nil _ hend, List.append_nil]
                    rw [a1, a2, a3, a4]
                    simp [List.append_assoc]
                  · simp at h

theorem splitLast_go_eq (t pre post : Bytes) (h : splitLastDashDashFrom1.go t = some (pre, post)) :
    t = pre ++ '-' :: '-' :: post := by
  induction t generalizing pre post with
  | nil => simp [splitLastDashDashFrom1.go] at h
  | cons x r ih =>
    cases r with
    | nil => simp [splitLastDashDashFrom1.go] at h
    | cons y r =>
      simp only [splitLastDashDashFrom1.go] at h
      split at h
      · rename_i pre' post' hg
        simp only [Option.some.injEq, Prod.mk.injEq] at h
        obtain ⟨rfl, rfl⟩ := h
        rw [ih pre' post' hg]; rfl
      · split at h
        · rename_i hxy
          simp only [Bool.and_eq_true, beq_iff_eq] at hxy
          simp only [Option.some.injEq, Prod.mk.injEq] at h
          obtain ⟨rfl, rfl⟩ := h
          rw [hxy.1, hxy.2]; rfl
        · simp at h

theorem splitLast_eq (t p a : Bytes) (h : splitLastDashDashFrom1 t = some (p, a)) : t = p ++ '-' :: '-' :: a := by
  unfold splitLastDashDashFrom1 at h
  cases t with
  | nil => simp at h
  | cons c rest =>
    simp only at h
    split at h
    · rename_i pre post hg
      simp only [Option.some.injEq, Prod.mk.injEq] at h
      obtain ⟨rfl, rfl⟩ := h
      rw [splitLast_go_eq rest pre post hg]; rfl
    · simp at h

/-- an include line, white space disregarded: keyword, file name, then either nothing or `--` and the replacement
    text -/
theorem include?_noWs (l n r : Bytes) (h : include? l = some (n, r)) :
    ∃ dd : Bytes, noWs l = b!"##!>include" ++ n ++ dd ++ noWs r ∧ ((dd = [] ∧ r = []) ∨ dd = b!"--") := by
  unfold include? at h
  split at h
  · simp at h
  · rename_i r0 hr0
    try simp only at h
    split at h
    · simp at h
    · rename_i r1 hr1
      split at h
      · simp at h
      · rename_i c cs
        split at h
        · simp at h
        · try simp only at h
          have a1 : noWs l = b!"##!>" ++ noWs r0 := by rw [strip_eq _ _ _ hr0, noWs_append]; rfl
          have a2 : noWs r0 = b!"include" ++ noWs (c :: cs) := by
            rw [← noWs_dropWs r0, strip_eq _ _ _ hr1, noWs_append]; rfl
          have a3 : noWs (c :: cs) = (tok (dropWs (c :: cs))).1 ++ noWs (tok (dropWs (c :: cs))).2 := by
            rw [← noWs_dropWs (c :: cs)]; exact noWs_tok _
          split at h
          · simp at h
          · split at h
            · rename_i hend
              simp only [Option.some.injEq, Prod.mk.injEq] at h
              obtain ⟨rfl, rfl⟩ := h
              refine ⟨[], ?_, Or.inl ⟨rfl, rfl⟩⟩
              rw [a1, a2, a3, noWs_of_dropWs_nil _ hend]
              simp [noWs, List.append_assoc]
            · split at h
              · rename_i after ha
                simp only [Option.some.injEq, Prod.mk.injEq] at h
                obtain ⟨rfl, rfl⟩ := h
                refine ⟨b!"--", ?_, Or.inr rfl⟩
                have a4 : noWs (tok (dropWs (c :: cs))).2 = b!"--" ++ noWs after := by
                  rw [← noWs_dropWs, strip_eq _ _ _ ha, noWs_append]; rfl
                rw [a1, a2, a3, a4, noWs_trimWs]
                simp [List.append_assoc]
              · split at h
                · rename_i p after hs
                  simp only [Option.some.injEq, Prod.mk.injEq] at h
                  obtain ⟨rfl, rfl⟩ := h
                  refine ⟨b!"--", ?_, Or.inr rfl⟩
                  have et := splitLast_eq _ _ _ hs
                  have hafter : noWs after = after := by
                    apply noWs_allNonWs
                    intro x hx
                    apply tok_fst_nonWs (dropWs (c :: cs)) x
                    rw [et]; simp [hx]
                  rw [a1, a2, a3, noWs_trimWs, noWs_append, hafter]
                  conv => lhs; rw [et]
                  simp [List.append_assoc]
                · simp at h

/-- an include-except line, white space disregarded -/
theorem includeExcept?_noWs (l n x r : Bytes) (h : includeExcept? l = some (n, x, r)) :
    ∃ dd : Bytes, noWs l = b!"##!>include-except" ++ n ++ noWs x ++ dd ++ noWs r ∧ ((dd = [] ∧ r = []) ∨ dd = b!"--") := by
  unfold includeExcept? at h
  split at h
  · simp at h
  · rename_i r0 hr0
    try simp only at h
    split at h
    · simp at h
    · rename_i r1 hr1
      split at h
      · simp at h
      · rename_i c cs
        split at h
        · simp at h
        · try simp only at h
          have a1 : noWs l = b!"##!>" ++ noWs r0 := by rw [strip_eq _ _ _ hr0, noWs_append]; rfl
          have a2 : noWs r0 = b!"include-except" ++ noWs (c :: cs) := by
            rw [← noWs_dropWs r0, strip_eq _ _ _ hr1, noWs_append]; rfl
          have a3 : noWs (c :: cs) = (tok (dropWs (c :: cs))).1 ++ noWs (dropWs (tok (dropWs (c :: cs))).2) := by
            rw [← noWs_dropWs (c :: cs), noWs_dropWs (tok (dropWs (c :: cs))).2]; exact noWs_tok _
          split at h
          · simp at h
          · split at h
            · rename_i pre after hs
              simp only [Option.some.injEq, Prod.mk.injEq] at h
              obtain ⟨rfl, rfl, rfl⟩ := h
              refine ⟨b!"--", ?_, Or.inr rfl⟩
              have e := sdd_eq _ _ _ hs
              have a4 : noWs (dropWs (tok (dropWs (c :: cs))).2) = noWs pre ++ b!"--" ++ noWs after := by
                rw [e, noWs_append]
                simp [noWs, nonWs, isWs, List.filter_cons]
              rw [a1, a2, a3, a4, noWs_trimRightWs, noWs_trimWs]
              simp [List.append_assoc]
            · simp only [Option.some.injEq, Prod.mk.injEq] at h
              obtain ⟨rfl, rfl, rfl⟩ := h
              refine ⟨[], ?_, Or.inl ⟨rfl, rfl⟩⟩
              rw [a1, a2, a3, noWs_trimRightWs]
              simp [noWs, List.append_assoc]

/-! ### the emitted forms, white space disregarded -/

theorem noWs_lit_sp (x : Bytes) : noWs (' ' :: x) = noWs x := noWs_cons_ws ' ' x rfl

theorem noWs_emitStart (kw arg : Bytes) (hkw : kw = b!"assemble" ∨ kw = b!"cmdline") :
    noWs (emitStart kw arg) = b!"##!>" ++ kw ++ noWs arg := by
  unfold emitStart
  by_cases ha : arg.isEmpty = true
  · have : arg = [] := by simpa using ha
    subst this
    rcases hkw with rfl | rfl <;> decide
  · simp only [ha, Bool.false_eq_true, if_false]
    rw [noWs_append, noWs_append, noWs_lit_sp]
    rcases hkw with rfl | rfl <;> simp [noWs, nonWs, isWs, List.filter_cons]

theorem noWs_emitValue (ch : Char) (hch : isWs ch = false) (v : Bytes) : noWs (emitValue ch v) = b!"##!" ++ [ch] ++ noWs v := by
  rw [emitValue_eq]
  have e : ('#' :: '#' :: '!' :: ch :: ' ' :: v) = b!"##!" ++ ch :: ' ' :: v := rfl
  rw [e, noWs_append, noWs_cons_nonWs ch _ hch, noWs_lit_sp]
  rfl

theorem noWs_emitDefine (n v : Bytes) (hn : ∀ c ∈ n, isNameCh c = true) (hv : ∀ c ∈ v, nonWs c = true) :
    noWs (emitDefine n v) = b!"##!>define" ++ n ++ v := by
  unfold emitDefine
  rw [noWs_append, noWs_append, noWs_lit_sp, noWs_allNonWs v hv,
    noWs_allNonWs n (fun x hx => by simp [nonWs, isNameCh_not_ws x (hn x hx)])]
  simp [noWs, nonWs, isWs, List.filter_cons]

theorem noWs_emitInclude (n r : Bytes) (hn : ∀ c ∈ n, nonWs c = true) :
    noWs (emitInclude n r) = b!"##!>include" ++ n ++ (if r.isEmpty then [] else b!"--" ++ noWs r) := by
  unfold emitInclude
  rw [noWs_append, noWs_append, noWs_allNonWs n hn]
  by_cases hr : r.isEmpty = true
  · simp [hr, noWs, nonWs, isWs, List.filter_cons]
  · simp only [hr, Bool.false_eq_true, if_false, noWs_append]
    simp [noWs, nonWs, isWs, List.filter_cons]

theorem noWs_emitIE (n x r : Bytes) (hn : ∀ c ∈ n, nonWs c = true) :
    noWs (emitIE n x r) = b!"##!>include-except" ++ n ++ noWs x ++ (if r.isEmpty then [] else b!"--" ++ noWs r) := by
  unfold emitIE
  rw [noWs_append, noWs_append, noWs_append, noWs_lit_sp, noWs_allNonWs n hn]
  by_cases hr : r.isEmpty = true
  · simp [hr, noWs, nonWs, isWs, List.filter_cons]
  · simp only [hr, Bool.false_eq_true, if_false, noWs_append]
    simp [noWs, nonWs, isWs, List.filter_cons]

end Crs.Format
