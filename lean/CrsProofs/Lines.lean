/-
  Lemmas about line splitting/joining (`splitNl`, `joinNl`, `unlines`, `scanLines`).
-/
import Crs.Bytes
namespace Crs

theorem mem_of_mem_dropLast {α} {x : α} : ∀ {l : List α}, x ∈ l.dropLast → x ∈ l
  | [], h => by simp at h
  | [_], h => by simp at h
  | a :: b :: l, h => by
    simp only [List.dropLast_cons_cons, List.mem_cons] at h ⊢
    rcases h with h | h
    · exact Or.inl h
    · exact Or.inr (List.mem_cons.mp (mem_of_mem_dropLast h))

@[simp] theorem splitNl_nil : splitNl [] = [[]] := rfl
@[simp] theorem splitNl_nl (cs : Bytes) : splitNl ('\n' :: cs) = [] :: splitNl cs := by
  simp [splitNl]
theorem splitNl_cons_ne (c : Char) (cs : Bytes) (h : c ≠ '\n') :
    splitNl (c :: cs) = consHead c (splitNl cs) := by
  simp [splitNl, h]

theorem splitNl_ne_nil (b : Bytes) : splitNl b ≠ [] := by
  induction b with
  | nil => simp
  | cons c cs ih =>
    by_cases h : c = '\n'
    · subst h; simp
    · rw [splitNl_cons_ne c cs h]
      cases hs : splitNl cs <;> simp [consHead]

theorem joinNl_consHead (c : Char) (ls : List Bytes) (h : ls ≠ []) :
    joinNl (consHead c ls) = c :: joinNl ls := by
  match ls, h with
  | [l], _ => simp [consHead, joinNl]
  | l :: l' :: ls', _ => simp [consHead, joinNl]

/-- `bytes.Join(bytes.Split(b, "\n"), "\n") = b`: splitting and joining loses nothing. -/
theorem joinNl_splitNl (b : Bytes) : joinNl (splitNl b) = b := by
  induction b with
  | nil => simp [joinNl]
  | cons c cs ih =>
    by_cases h : c = '\n'
    · subst h
      rw [splitNl_nl]
      cases hs : splitNl cs with
      | nil => exact absurd hs (splitNl_ne_nil cs)
      | cons l ls => rw [hs] at ih; simp [joinNl, ih]
    · rw [splitNl_cons_ne c cs h, joinNl_consHead c _ (splitNl_ne_nil cs), ih]

theorem splitNl_noNl (l : Bytes) (h : '\n' ∉ l) : splitNl l = [l] := by
  induction l with
  | nil => simp
  | cons c cs ih =>
    have hc : c ≠ '\n' := by intro e; apply h; simp [e]
    have hcs : '\n' ∉ cs := by intro e; apply h; simp [e]
    rw [splitNl_cons_ne c cs hc, ih hcs]; rfl

theorem splitNl_append_nl (l rest : Bytes) (h : '\n' ∉ l) :
    splitNl (l ++ '\n' :: rest) = l :: splitNl rest := by
  induction l with
  | nil => simp
  | cons c cs ih =>
    have hc : c ≠ '\n' := by intro e; apply h; simp [e]
    have hcs : '\n' ∉ cs := by intro e; apply h; simp [e]
    rw [List.cons_append, splitNl_cons_ne c _ hc, ih hcs]; rfl

@[simp] theorem unlines_nil : unlines [] = [] := by simp [unlines]

theorem unlines_cons (l : Bytes) (ls : List Bytes) : unlines (l :: ls) = l ++ '\n' :: unlines ls := by
  simp [unlines]

theorem unlines_append (a b : List Bytes) : unlines (a ++ b) = unlines a ++ unlines b := by
  simp [unlines]

/-- splitting what the line writers produce gives the lines back, plus the empty remainder -/
theorem splitNl_unlines (ls : List Bytes) (h : ∀ l ∈ ls, '\n' ∉ l) :
    splitNl (unlines ls) = ls ++ [[]] := by
  induction ls with
  | nil => simp
  | cons l ls ih =>
    rw [unlines_cons, splitNl_append_nl _ _ (h l (by simp))]
    rw [ih (fun l' hl' => h l' (by simp [hl']))]
    simp

theorem joinNl_snoc_nil (ls : List Bytes) : joinNl (ls ++ [[]]) = unlines ls := by
  induction ls with
  | nil => simp [joinNl]
  | cons l ls ih =>
    cases ls with
    | nil => simp [joinNl, unlines]
    | cons l' ls' =>
      simp only [List.cons_append] at ih ⊢
      simp only [joinNl]
      rw [ih]
      simp [unlines]

theorem dropCR_id (l : Bytes) (h : l.getLast? ≠ some '\r') : dropCR l = l := by
  unfold dropCR
  split
  · rename_i heq; exact absurd heq h
  · rfl

theorem map_dropCR_id (xs : List Bytes) (hx : ∀ l ∈ xs, l.getLast? ≠ some '\r') :
    xs.map dropCR = xs := by
  induction xs with
  | nil => rfl
  | cons x xs ih =>
    simp only [List.map_cons]
    rw [dropCR_id x (hx x (by simp)), ih (fun l hl => hx l (by simp [hl]))]

/-- scanning what the line writers produce gives the lines back (no line ends in CR) -/
theorem scanLines_unlines (ls : List Bytes)
    (h : ∀ l ∈ ls, '\n' ∉ l) (hcr : ∀ l ∈ ls, l.getLast? ≠ some '\r') :
    scanLines (unlines ls) = ls := by
  unfold scanLines
  rw [splitNl_unlines ls h]
  have h1 : (ls ++ [([] : Bytes)]).getLast? = some [] := by simp
  simp only [h1, List.dropLast_concat]
  exact map_dropCR_id ls hcr

theorem splitNl_lines_noNl (b : Bytes) : ∀ l ∈ splitNl b, '\n' ∉ l := by
  induction b with
  | nil => simp
  | cons c cs ih =>
    by_cases h : c = '\n'
    · subst h
      intro l hl
      simp only [splitNl_nl, List.mem_cons] at hl
      rcases hl with rfl | hl
      · simp
      · exact ih l hl
    · rw [splitNl_cons_ne c cs h]
      cases hs : splitNl cs with
      | nil => exact absurd hs (splitNl_ne_nil cs)
      | cons l0 ls0 =>
        rw [hs] at ih
        intro l hl
        simp only [consHead, List.mem_cons] at hl
        rcases hl with hl | hl
        · rw [hl]
          intro hm
          simp only [List.mem_cons] at hm
          rcases hm with e | hm
          · exact h e.symm
          · exact ih l0 (by simp) hm
        · exact ih l (by simp [hl])

theorem dropCR_noNl (l : Bytes) (h : '\n' ∉ l) : '\n' ∉ dropCR l := by
  unfold dropCR
  split
  · intro hm; exact h (mem_of_mem_dropLast hm)
  · exact h

/-- no scanned line contains a line feed -/
theorem scanLines_noNl (b : Bytes) : ∀ l ∈ scanLines b, '\n' ∉ l := by
  intro l hl
  unfold scanLines at hl
  simp only [List.mem_map] at hl
  obtain ⟨l0, hl0, rfl⟩ := hl
  apply dropCR_noNl
  apply splitNl_lines_noNl b
  split at hl0
  · exact mem_of_mem_dropLast hl0
  · exact hl0

end Crs

namespace Crs

theorem isDigit_digitChar (d : Nat) (h : d < 10) : isDigit (digitChar d) = true := by
  have : ∀ d : Fin 10, isDigit (digitChar d.val) = true := by decide
  exact this ⟨d, h⟩

theorem natDigits_digits (f n : Nat) : ∀ c ∈ natDigits f n, isDigit c = true := by
  induction f generalizing n with
  | zero => simp [natDigits]
  | succ f ih =>
    unfold natDigits
    split
    · rename_i h
      intro c hc
      simp only [List.mem_singleton] at hc
      subst hc
      exact isDigit_digitChar n h
    · intro c hc
      simp only [List.mem_append, List.mem_singleton] at hc
      rcases hc with hc | hc
      · exact ih _ c hc
      · subst hc; exact isDigit_digitChar _ (Nat.mod_lt _ (by decide))

theorem natToBytes_digits (n : Nat) : ∀ c ∈ natToBytes n, isDigit c = true :=
  natDigits_digits _ _

theorem natToBytes_ne_nil (n : Nat) : natToBytes n ≠ [] := by
  unfold natToBytes natDigits
  split <;> simp

end Crs
