/-
  Lemmas about line splitting/joining (`splitNl`, `joinNl`, `unlines`, `scanLines`).
-/
import Crs.Bytes
namespace Crs

theorem mem_of_mem_dropLast {α} {x : α} : ∀ {l : List α}, x ∈ l.dropLast → x ∈ l
  | [], h => by simp at h
  | [_], h => by simp at h
  | a :: b :: l, h => by
    simp only [List.dropLast_cons_cons, List.mem_cons] at h ⊢
    rcases h with h | h
    · exact Or.inl h
    · exact Or.inr (List.mem_cons.mp (mem_of_mem_dropLast h))

/-! ### prefixes -/

theorem stripPrefix?_some_iff (p b r : Bytes) : stripPrefix? p b = some r ↔ b = p ++ r := by
  induction p generalizing b with
  | nil => simp [stripPrefix?, eq_comm]
  | cons x p ih =>
    cases b with
    | nil => simp [stripPrefix?]
    | cons y b =>
      simp only [stripPrefix?]
      by_cases h : x = y
      · subst h; simp [ih]
      · simp [h]; intro e; exact absurd e.symm h

theorem stripPrefix?_append (p r : Bytes) : stripPrefix? p (p ++ r) = some r :=
  (stripPrefix?_some_iff p _ r).mpr rfl

theorem stripPrefix?_none_iff (p b : Bytes) : stripPrefix? p b = none ↔ ¬ p <+: b := by
  constructor
  · intro h ⟨r, hr⟩
    rw [← hr, stripPrefix?_append] at h
    exact absurd h (by simp)
  · intro h
    cases hs : stripPrefix? p b with
    | none => rfl
    | some r => exact absurd ⟨r, ((stripPrefix?_some_iff p b r).mp hs).symm⟩ h

/-! ### split/join at a separator character -/

@[simp] theorem splitCh_nil (sep : Char) : splitCh sep [] = [[]] := rfl
@[simp] theorem splitCh_sep (sep : Char) (cs : Bytes) : splitCh sep (sep :: cs) = [] :: splitCh sep cs := by
  simp [splitCh]
theorem splitCh_cons_ne (sep c : Char) (cs : Bytes) (h : c ≠ sep) :
    splitCh sep (c :: cs) = consHead c (splitCh sep cs) := by
  simp [splitCh, h]

theorem splitCh_ne_nil (sep : Char) (b : Bytes) : splitCh sep b ≠ [] := by
  induction b with
  | nil => simp
  | cons c cs ih =>
    by_cases h : c = sep
    · subst h; simp
    · rw [splitCh_cons_ne sep c cs h]
      cases hs : splitCh sep cs <;> simp [consHead]

theorem joinCh_consHead (sep c : Char) (ls : List Bytes) (h : ls ≠ []) :
    joinCh sep (consHead c ls) = c :: joinCh sep ls := by
  match ls, h with
  | [l], _ => simp [consHead, joinCh]
  | l :: l' :: ls', _ => simp [consHead, joinCh]

/-- joining what was split gives the text back -/
theorem joinCh_splitCh (sep : Char) (b : Bytes) : joinCh sep (splitCh sep b) = b := by
  induction b with
  | nil => simp [joinCh]
  | cons c cs ih =>
    by_cases h : c = sep
    · subst h
      rw [splitCh_sep]
      cases hs : splitCh c cs with
      | nil => exact absurd hs (splitCh_ne_nil c cs)
      | cons l ls => rw [hs] at ih; simp [joinCh, ih]
    · rw [splitCh_cons_ne sep c cs h, joinCh_consHead sep c _ (splitCh_ne_nil sep cs), ih]

theorem splitCh_noSep (sep : Char) (l : Bytes) (h : sep ∉ l) : splitCh sep l = [l] := by
  induction l with
  | nil => simp
  | cons c cs ih =>
    have hc : c ≠ sep := by intro e; apply h; simp [e]
    have hcs : sep ∉ cs := by intro e; apply h; simp [e]
    rw [splitCh_cons_ne sep c cs hc, ih hcs]; rfl

theorem splitCh_append_sep (sep : Char) (l rest : Bytes) (h : sep ∉ l) :
    splitCh sep (l ++ sep :: rest) = l :: splitCh sep rest := by
  induction l with
  | nil => simp
  | cons c cs ih =>
    have hc : c ≠ sep := by intro e; apply h; simp [e]
    have hcs : sep ∉ cs := by intro e; apply h; simp [e]
    rw [List.cons_append, splitCh_cons_ne sep c _ hc, ih hcs]; rfl

/-- splitting what was joined gives the fields back (no field contains the separator) -/
theorem splitCh_joinCh (sep : Char) (ls : List Bytes) (hne : ls ≠ []) (h : ∀ l ∈ ls, sep ∉ l) :
    splitCh sep (joinCh sep ls) = ls := by
  induction ls with
  | nil => exact absurd rfl hne
  | cons l ls ih =>
    cases ls with
    | nil => simp [joinCh, splitCh_noSep sep l (h l (by simp))]
    | cons l' ls' =>
      simp only [joinCh]
      rw [splitCh_append_sep sep l _ (h l (by simp))]
      rw [ih (by simp) (fun x hx => h x (by simp [hx]))]

theorem splitCh_fields_noSep (sep : Char) (b : Bytes) : ∀ l ∈ splitCh sep b, sep ∉ l := by
  induction b with
  | nil => simp
  | cons c cs ih =>
    by_cases h : c = sep
    · subst h
      intro l hl
      simp only [splitCh_sep, List.mem_cons] at hl
      rcases hl with rfl | hl
      · simp
      · exact ih l hl
    · rw [splitCh_cons_ne sep c cs h]
      cases hs : splitCh sep cs with
      | nil => exact absurd hs (splitCh_ne_nil sep cs)
      | cons l0 ls0 =>
        rw [hs] at ih
        intro l hl
        simp only [consHead, List.mem_cons] at hl
        rcases hl with hl | hl
        · rw [hl]
          intro hm
          simp only [List.mem_cons] at hm
          rcases hm with e | hm
          · exact h e.symm
          · exact ih l0 (by simp) hm
        · exact ih l (by simp [hl])

/-! ### lines -/

@[simp] theorem splitNl_nil : splitNl [] = [[]] := rfl
@[simp] theorem splitNl_nl (cs : Bytes) : splitNl ('\n' :: cs) = [] :: splitNl cs := splitCh_sep '\n' cs
theorem splitNl_ne_nil (b : Bytes) : splitNl b ≠ [] := splitCh_ne_nil '\n' b
/-- `bytes.Join(bytes.Split(b, "\n"), "\n") = b`: splitting and joining loses nothing. -/
theorem joinNl_splitNl (b : Bytes) : joinNl (splitNl b) = b := joinCh_splitCh '\n' b
theorem splitNl_noNl (l : Bytes) (h : '\n' ∉ l) : splitNl l = [l] := splitCh_noSep '\n' l h
theorem splitNl_append_nl (l rest : Bytes) (h : '\n' ∉ l) :
    splitNl (l ++ '\n' :: rest) = l :: splitNl rest := splitCh_append_sep '\n' l rest h
theorem splitNl_joinNl (ls : List Bytes) (hne : ls ≠ []) (h : ∀ l ∈ ls, '\n' ∉ l) :
    splitNl (joinNl ls) = ls := splitCh_joinCh '\n' ls hne h
theorem splitNl_lines_noNl (b : Bytes) : ∀ l ∈ splitNl b, '\n' ∉ l := splitCh_fields_noSep '\n' b

@[simp] theorem unlines_nil : unlines [] = [] := by simp [unlines]

theorem unlines_cons (l : Bytes) (ls : List Bytes) : unlines (l :: ls) = l ++ '\n' :: unlines ls := by
  simp [unlines]

theorem unlines_append (a b : List Bytes) : unlines (a ++ b) = unlines a ++ unlines b := by
  simp [unlines]

/-- splitting what the line writers produce gives the lines back, plus the empty remainder -/
theorem splitNl_unlines (ls : List Bytes) (h : ∀ l ∈ ls, '\n' ∉ l) :
    splitNl (unlines ls) = ls ++ [[]] := by
  induction ls with
  | nil => simp
  | cons l ls ih =>
    rw [unlines_cons, splitNl_append_nl _ _ (h l (by simp))]
    rw [ih (fun l' hl' => h l' (by simp [hl']))]
    simp

theorem joinNl_snoc_nil (ls : List Bytes) : joinNl (ls ++ [[]]) = unlines ls := by
  unfold joinNl
  induction ls with
  | nil => simp [joinCh]
  | cons l ls ih =>
    cases ls with
    | nil => simp [joinCh, unlines]
    | cons l' ls' =>
      simp only [List.cons_append] at ih ⊢
      simp only [joinCh]
      rw [ih]
      simp [unlines]

theorem dropCR_id (l : Bytes) (h : l.getLast? ≠ some '\r') : dropCR l = l := by
  unfold dropCR
  split
  · rename_i heq; exact absurd heq h
  · rfl

theorem map_dropCR_id (xs : List Bytes) (hx : ∀ l ∈ xs, l.getLast? ≠ some '\r') :
    xs.map dropCR = xs := by
  induction xs with
  | nil => rfl
  | cons x xs ih =>
    simp only [List.map_cons]
    rw [dropCR_id x (hx x (by simp)), ih (fun l hl => hx l (by simp [hl]))]

/-- scanning what the line writers produce gives the lines back (no line ends in CR) -/
theorem scanLines_unlines (ls : List Bytes)
    (h : ∀ l ∈ ls, '\n' ∉ l) (hcr : ∀ l ∈ ls, l.getLast? ≠ some '\r') :
    scanLines (unlines ls) = ls := by
  unfold scanLines rawLines
  rw [splitNl_unlines ls h]
  have h1 : (ls ++ [([] : Bytes)]).getLast? = some [] := by simp
  simp only [h1, List.dropLast_concat]
  exact map_dropCR_id ls hcr

theorem dropCR_noNl (l : Bytes) (h : '\n' ∉ l) : '\n' ∉ dropCR l := by
  unfold dropCR
  split
  · intro hm; exact h (mem_of_mem_dropLast hm)
  · exact h

/-- no scanned line contains a line feed -/
theorem scanLines_noNl (b : Bytes) : ∀ l ∈ scanLines b, '\n' ∉ l := by
  intro l hl
  unfold scanLines rawLines at hl
  simp only [List.mem_map] at hl
  obtain ⟨l0, hl0, rfl⟩ := hl
  apply dropCR_noNl
  apply splitNl_lines_noNl b
  split at hl0
  · exact mem_of_mem_dropLast hl0
  · exact hl0

end Crs

namespace Crs

theorem isDigit_digitChar (d : Nat) (h : d < 10) : isDigit (digitChar d) = true := by
  have : ∀ d : Fin 10, isDigit (digitChar d.val) = true := by decide
  exact this ⟨d, h⟩

theorem natDigits_digits (f n : Nat) : ∀ c ∈ natDigits f n, isDigit c = true := by
  induction f generalizing n with
  | zero => simp [natDigits]
  | succ f ih =>
    unfold natDigits
    split
    · rename_i h
      intro c hc
      simp only [List.mem_singleton] at hc
      subst hc
      exact isDigit_digitChar n h
    · intro c hc
      simp only [List.mem_append, List.mem_singleton] at hc
      rcases hc with hc | hc
      · exact ih _ c hc
      · subst hc; exact isDigit_digitChar _ (Nat.mod_lt _ (by decide))

theorem natToBytes_digits (n : Nat) : ∀ c ∈ natToBytes n, isDigit c = true :=
  natDigits_digits _ _

theorem natToBytes_ne_nil (n : Nat) : natToBytes n ≠ [] := by
  unfold natToBytes natDigits
  split <;> simp

end Crs
