/-
  The four string passes before flag-group removal keep the scanner state: hex escaping,
  quote escaping, backslash re-spelling, vertical-tab inclusion (C19; also used by C02).
-/
import CrsProofs.Balanced
namespace Crs.Passes
open Crs

/-! ### small facts -/

theorem neutral_of_ge128 (c : Char) (h : 128 ≤ c.toNat) : neutral c = true := by
  have h1 : c ≠ '\\' := by intro e; subst e; simp at h
  have h2 : c ≠ '(' := by intro e; subst e; simp at h
  have h3 : c ≠ ')' := by intro e; subst e; simp at h
  simp [neutral, h1, h2, h3]

theorem hexDigit_neutral (n : Nat) (h : n < 16) : neutral (hexDigit n) = true := by
  have : ∀ k : Fin 16, neutral (hexDigit k.val) = true := by decide
  exact this ⟨n, h⟩

theorem hexDigits_neutral (f n : Nat) : ∀ c ∈ hexDigits f n, neutral c = true := by
  induction f generalizing n with
  | zero => simp [hexDigits]
  | succ f ih =>
    unfold hexDigits
    split
    · rename_i h; intro c hc; simp only [List.mem_singleton] at hc; subst hc; exact hexDigit_neutral n h
    · intro c hc
      simp only [List.mem_append, List.mem_singleton] at hc
      rcases hc with hc | hc
      · exact ih _ c hc
      · subst hc; exact hexDigit_neutral _ (Nat.mod_lt _ (by decide))

theorem toHexBytes_neutral (n : Nat) : ∀ c ∈ toHexBytes n, neutral c = true := hexDigits_neutral _ _

theorem toHexBytes_ne_nil (n : Nat) : toHexBytes n ≠ [] := by
  unfold toHexBytes hexDigits
  split <;> simp

/-- text that starts with a backslash and continues with neutral characters resets the escape state -/
theorem bal_bs_neutral (e : Bool) (d : Nat) (t : Bytes) (ht : t ≠ []) (hn : ∀ c ∈ t, neutral c = true) (X : Bytes) :
    bal e d ('\\' :: t ++ X) = bal false d X := by
  have h1 : bal e d ('\\' :: (t ++ X)) = bal (!e) d (t ++ X) := by simp [bal, nextEsc]
  rw [List.cons_append, h1, bal_append, bal_neutral (!e) d t ht hn]
  rfl

theorem bal_neutral_append (e : Bool) (d : Nat) (t : Bytes) (ht : t ≠ []) (hn : ∀ c ∈ t, neutral c = true) (X : Bytes) :
    bal e d (t ++ X) = bal false d X := by
  rw [bal_append, bal_neutral e d t ht hn]; rfl

/-- congruence of the scanner under a leading character -/
theorem bal_cons_congr (c : Char) (a b : Bytes) (h : ∀ e d, bal e d a = bal e d b) (e : Bool) (d : Nat) :
    bal e d (c :: a) = bal e d (c :: b) := by
  simp only [bal]
  split
  · exact h _ _
  · split
    · cases d with
      | zero => rfl
      | succ d' => exact h _ _
    · exact h _ _

theorem bal_append_congr (p a b : Bytes) (h : ∀ e d, bal e d a = bal e d b) (e : Bool) (d : Nat) :
    bal e d (p ++ a) = bal e d (p ++ b) := by
  rw [bal_append, bal_append]
  cases bal e d p with
  | none => rfl
  | some st => exact h _ _

/-! ### decodeRune -/

theorem decodeRune_width (c : Char) (cs : Bytes) :
    1 ≤ (decodeRune (c :: cs)).2 ∧ (decodeRune (c :: cs)).2 ≤ (c :: cs).length := by
  unfold decodeRune
  simp only
  repeat' split
  all_goals (simp only [List.length_cons]; omega)

/-- a rune in the printable ASCII range is a single byte, the byte itself -/
theorem decodeRune_ascii (c : Char) (cs : Bytes) (h : (decodeRune (c :: cs)).1 ≤ 126) :
    (decodeRune (c :: cs)).2 = 1 ∧ (decodeRune (c :: cs)).1 = c.toNat := by
  unfold decodeRune at h ⊢
  simp only at h ⊢
  repeat' split at h
  all_goals (simp_all)
  all_goals (try omega)

/-- the bytes of a multi-byte rune are all ≥ 0x80 -/
theorem decodeRune_multibyte (c : Char) (cs : Bytes) (h : 1 < (decodeRune (c :: cs)).2) :
    ∀ x ∈ (c :: cs).take (decodeRune (c :: cs)).2, 128 ≤ x.toNat := by
  unfold decodeRune at h ⊢
  simp only at h ⊢
  repeat' split
  all_goals (simp_all [isCont])
  all_goals (try omega)
  all_goals (try (intro x hx; rcases hx with rfl | rfl | rfl | rfl <;> omega))

/-- a single-byte rune outside the printable range is the byte itself or an invalid byte ≥ 0x80 -/
theorem decodeRune_single (c : Char) (cs : Bytes) (h : (decodeRune (c :: cs)).2 = 1) :
    (decodeRune (c :: cs)).1 = c.toNat ∨ 128 ≤ c.toNat := by
  unfold decodeRune at h ⊢
  simp only at h ⊢
  repeat' split
  all_goals (simp_all)
  all_goals (try omega)

/-! ### useHexEscapes -/

/-- the characters a rune outside printable ASCII occupies are neutral for the scanner -/
theorem rune_chunk_neutral (c : Char) (cs : Bytes) (h : (decodeRune (c :: cs)).1 < 32 ∨ 126 < (decodeRune (c :: cs)).1) :
    ∀ x ∈ (c :: cs).take (decodeRune (c :: cs)).2, neutral x = true := by
  by_cases hw : 1 < (decodeRune (c :: cs)).2
  · intro x hx
    exact neutral_of_ge128 x (decodeRune_multibyte c cs hw x hx)
  · have hw1 : (decodeRune (c :: cs)).2 = 1 := by
      have := (decodeRune_width c cs).1; omega
    rw [hw1]
    intro x hx
    simp only [List.take, List.mem_cons, List.not_mem_nil, or_false] at hx
    subst hx
    rcases decodeRune_single x cs hw1 with he | hge
    · -- ASCII byte with value < 32 or > 126: none of ( ) \
      have h1 : x ≠ '\\' := by intro e; subst e; rw [he] at h; simp at h
      have h2 : x ≠ '(' := by intro e; subst e; rw [he] at h; simp at h
      have h3 : x ≠ ')' := by intro e; subst e; rw [he] at h; simp at h
      simp [neutral, h1, h2, h3]
    · exact neutral_of_ge128 x hge

theorem useHexEscapesAux_bal (f : Nat) (s : Bytes) (hf : s.length ≤ f) (e : Bool) (d : Nat) :
    bal e d (useHexEscapesAux f s) = bal e d s := by
  induction f generalizing s e d with
  | zero =>
    have : s = [] := List.length_eq_zero_iff.mp (by omega)
    subst this; simp [useHexEscapesAux]
  | succ f ih =>
    cases s with
    | nil => simp [useHexEscapesAux]
    | cons c cs =>
      simp only [useHexEscapesAux]
      obtain ⟨hw1, hw2⟩ := decodeRune_width c cs
      have hrest : ((c :: cs).drop (decodeRune (c :: cs)).2).length ≤ f := by
        simp only [List.length_drop, List.length_cons] at hf ⊢; omega
      have hsplit : c :: cs = (c :: cs).take (decodeRune (c :: cs)).2 ++ (c :: cs).drop (decodeRune (c :: cs)).2 :=
        (List.take_append_drop _ _).symm
      have hne : (c :: cs).take (decodeRune (c :: cs)).2 ≠ [] := by
        intro e0
        have := congrArg List.length e0
        simp only [List.length_take, List.length_cons, List.length_nil] at this
        omega
      split
      · -- control character: \xH…
        rename_i hlt
        conv => rhs; rw [hsplit]
        rw [bal_neutral_append e d _ hne (rune_chunk_neutral c cs (Or.inl hlt))]
        have : b!"\\x" ++ toHexBytes (decodeRune (c :: cs)).1 = '\\' :: ('x' :: toHexBytes (decodeRune (c :: cs)).1) := rfl
        rw [this, bal_bs_neutral e d ('x' :: toHexBytes _) (by simp) (by
          intro y hy
          simp only [List.mem_cons] at hy
          rcases hy with rfl | hy
          · decide
          · exact toHexBytes_neutral _ y hy)]
        exact ih _ hrest false d
      · split
        · rename_i hgt
          conv => rhs; rw [hsplit]
          rw [bal_neutral_append e d _ hne (rune_chunk_neutral c cs (Or.inr hgt))]
          have : b!"\\x{" ++ toHexBytes (decodeRune (c :: cs)).1 ++ b!"}" = '\\' :: ('x' :: '{' :: (toHexBytes (decodeRune (c :: cs)).1 ++ ['}'])) := by
            simp
          rw [this, bal_bs_neutral e d _ (by simp) (by
            intro y hy
            simp only [List.mem_cons, List.mem_append, List.not_mem_nil, or_false] at hy
            rcases hy with rfl | rfl | hy | rfl
            · decide
            · decide
            · exact toHexBytes_neutral _ y hy
            · decide)]
          exact ih _ hrest false d
        · -- printable ASCII: the byte itself
          rename_i h1 h2
          have hle : (decodeRune (c :: cs)).1 ≤ 126 := by omega
          obtain ⟨hw, _⟩ := decodeRune_ascii c cs hle
          rw [hw]
          simp only [List.drop_succ_cons, List.drop_zero, List.singleton_append]
          have hcs : cs.length ≤ f := by simpa using hf
          exact bal_cons_congr c _ _ (fun e' d' => ih cs hcs e' d') e d

theorem useHexEscapes_bal (s : Bytes) (e : Bool) (d : Nat) : bal e d (useHexEscapes s) = bal e d s :=
  useHexEscapesAux_bal _ s (Nat.le_refl _) e d

end Crs.Passes

namespace Crs.Passes
open Crs

/-! ### escapeDoublequotes -/

theorem escapeDoublequotesAux_bal (prev : Option Char) (s : Bytes) (e : Bool) (d : Nat) :
    bal e d (escapeDoublequotesAux prev s) = bal e d s := by
  induction s generalizing prev e d with
  | nil => simp [escapeDoublequotesAux]
  | cons c cs ih =>
    simp only [escapeDoublequotesAux]
    split
    · rename_i hq
      have hc : c = '"' := by
        simp only [Bool.and_eq_true, beq_iff_eq] at hq; exact hq.1
      subst hc
      -- `\"` and `"` both leave the scanner in (false, d)
      have l : bal e d (['\\', '"'] ++ escapeDoublequotesAux (some '"') cs) = bal false d (escapeDoublequotesAux (some '"') cs) := by
        have := bal_bs_neutral e d ['"'] (by simp) (by intro y hy; simp at hy; subst hy; decide) (escapeDoublequotesAux (some '"') cs)
        simpa using this
      have r : bal e d ('"' :: cs) = bal false d cs := by simp [bal, nextEsc]
      rw [l, r]
      exact ih _ _ _
    · exact bal_cons_congr c _ _ (fun e' d' => ih (some c) e' d') e d

theorem escapeDoublequotes_bal (s : Bytes) (e : Bool) (d : Nat) : bal e d (escapeDoublequotes s) = bal e d s :=
  escapeDoublequotesAux_bal none s e d

/-! ### useHexBackslashes -/

def bsPair : Bytes := ['\\', '\\']
def bsHex : Bytes := ['\\', 'x', '5', 'c']

theorem replaceAllAux_skip (old new : Bytes) (k : Nat) (s : Bytes) :
    replaceAllAux old new k s = replaceAllAux old new 0 (s.drop k) := by
  induction k generalizing s with
  | zero => simp
  | succ k ih =>
    cases s with
    | nil => simp [replaceAllAux]
    | cons c cs => simp [replaceAllAux, ih]

theorem replaceBs_pair (t : Bytes) :
    replaceAllAux bsPair bsHex 0 ('\\' :: '\\' :: t) = bsHex ++ replaceAllAux bsPair bsHex 0 t := by
  rw [replaceAllAux]
  have : (bsPair.isPrefixOf ('\\' :: '\\' :: t) && !bsPair.isEmpty) = true := by simp [bsPair, List.isPrefixOf]
  rw [if_pos this, replaceAllAux_skip]
  simp [bsPair]

theorem replaceBs_other (c : Char) (t : Bytes) (h : ¬ (c = '\\' ∧ t.head? = some '\\')) :
    replaceAllAux bsPair bsHex 0 (c :: t) = c :: replaceAllAux bsPair bsHex 0 t := by
  rw [replaceAllAux]
  have : (bsPair.isPrefixOf (c :: t) && !bsPair.isEmpty) = false := by
    cases t with
    | nil => simp [bsPair, List.isPrefixOf]
    | cons c2 t2 =>
      simp only [bsPair, List.isPrefixOf, Bool.and_true, List.isEmpty_cons, Bool.not_false, Bool.and_eq_false_imp,
        beq_iff_eq]
      intro hc
      simp only [List.head?_cons, Option.some.injEq] at h
      cases hcc : ('\\' == c2) with
      | false => rfl
      | true =>
        have : c2 = '\\' := (beq_iff_eq.mp hcc).symm
        exact absurd ⟨hc.symm, this⟩ h
  rw [this]
  simp

/-- re-spelling `\\` as `\x5c` keeps the scanner state, provided the scan starts unescaped or not at a backslash
    (which is the case at every position the replacement loop visits) -/
theorem useHexBackslashes_bal_aux (n : Nat) (s : Bytes) (hn : s.length ≤ n) (e : Bool) (d : Nat)
    (hinv : e = true → s.head? ≠ some '\\') :
    bal e d (replaceAllAux bsPair bsHex 0 s) = bal e d s := by
  induction n generalizing s e d with
  | zero =>
    have : s = [] := List.length_eq_zero_iff.mp (by omega)
    subst this; simp [replaceAllAux]
  | succ n ih =>
    match s, hn, hinv with
    | [], _, _ => simp [replaceAllAux]
    | [c], _, _ =>
      rw [replaceBs_other c [] (by simp)]
      simp [replaceAllAux]
    | c :: c2 :: t, hn, hinv =>
      by_cases hp : c = '\\' ∧ c2 = '\\'
      · obtain ⟨rfl, rfl⟩ := hp
        have he : e = false := by
          cases e with
          | false => rfl
          | true => exact absurd rfl (hinv rfl)
        subst he
        rw [replaceBs_pair]
        have l : bal false d (bsHex ++ replaceAllAux bsPair bsHex 0 t) = bal false d (replaceAllAux bsPair bsHex 0 t) := by
          have := bal_bs_neutral false d ['x', '5', 'c'] (by simp) (by
            intro y hy
            simp only [List.mem_cons, List.not_mem_nil, or_false] at hy
            rcases hy with rfl | rfl | rfl <;> decide) (replaceAllAux bsPair bsHex 0 t)
          simpa [bsHex] using this
        have r : bal false d ('\\' :: '\\' :: t) = bal false d t := by simp [bal, nextEsc]
        rw [l, r]
        exact ih t (by simp at hn; omega) false d (by simp)
      · rw [replaceBs_other c (c2 :: t) (by simpa using hp)]
        -- one character, then the invariant for the rest
        have hlen : (c2 :: t).length ≤ n := by simp at hn ⊢; omega
        have hinv' : nextEsc e c = true → (c2 :: t).head? ≠ some '\\' := by
          intro hne
          simp only [nextEsc] at hne
          split at hne
          · rename_i hc
            have hc' : c = '\\' := by simpa using hc
            simp only [List.head?_cons, ne_eq, Option.some.injEq]
            intro hc2
            exact hp ⟨hc', hc2⟩
          · simp at hne
        simp only [bal]
        split
        · exact ih _ hlen _ _ (by
            intro h1; rename_i ho
            have : nextEsc e c = false := by
              simp only [Bool.and_eq_true, beq_iff_eq] at ho
              rw [ho.1]; simp [nextEsc]
            rw [this] at h1; simp at h1)
        · split
          · cases d with
            | zero => rfl
            | succ d' => exact ih _ hlen _ _ (by
                intro h1; rename_i ho hc
                have : nextEsc e c = false := by
                  simp only [Bool.and_eq_true, beq_iff_eq] at hc
                  rw [hc.1]; simp [nextEsc]
                rw [this] at h1; simp at h1)
          · exact ih _ hlen _ _ hinv'

theorem useHexBackslashes_bal (s : Bytes) (d : Nat) : bal false d (useHexBackslashes s) = bal false d s := by
  unfold useHexBackslashes replaceAll
  exact useHexBackslashes_bal_aux _ s (Nat.le_refl _) false d (by simp)

end Crs.Passes

namespace Crs.Passes
open Crs

/-! ### includeVerticalTabInSpaceClass -/

theorem bal_perlSpace (e : Bool) (d : Nat) (X : Bytes) : bal e d (perlSpace ++ X) = bal false d X := by
  cases e <;> simp [perlSpace, bal, nextEsc]

theorem bal_vtClass (e : Bool) (d : Nat) (w : Bytes) (hw : w = [] ∨ w = [' ']) (X : Bytes) :
    bal e d (b!"\\s\\x0b" ++ (w ++ X)) = bal false d X := by
  rcases hw with rfl | rfl <;> cases e <;> simp [bal, nextEsc]

theorem hasPrefix_split (p s : Bytes) (h : hasPrefix p s = true) : s = p ++ s.drop p.length := by
  unfold hasPrefix at h
  obtain ⟨t, ht⟩ := List.isPrefixOf_iff_prefix.mp h
  rw [← ht]; simp

theorem includeVTAux_bal (f : Nat) (s : Bytes) (hf : s.length ≤ f) (ic e : Bool) (d : Nat) :
    bal e d (includeVTAux f ic s) = bal e d s := by
  induction f generalizing s ic e d with
  | zero =>
    have : s = [] := List.length_eq_zero_iff.mp (by omega)
    subst this; simp [includeVTAux]
  | succ f ih =>
    cases s with
    | nil => simp [includeVTAux]
    | cons c cs =>
      have hcs : cs.length ≤ f := by simpa using hf
      simp only [includeVTAux]
      split
      · -- escape sequence copied verbatim
        have h2 : ((c :: cs).drop 2).length ≤ f := by simp only [List.length_drop, List.length_cons] at hf ⊢; omega
        conv => rhs; rw [← List.take_append_drop 2 (c :: cs)]
        exact bal_append_congr _ _ _ (fun e' d' => ih _ h2 ic e' d') e d
      · split
        · exact bal_cons_congr c _ _ (fun e' d' => ih cs hcs true e' d') e d
        · split
          · exact bal_cons_congr c _ _ (fun e' d' => ih cs hcs false e' d') e d
          · split
            · rename_i hps
              have hps' : hasPrefix perlSpace (c :: cs) = true := by
                simp only [Bool.and_eq_true] at hps; exact hps.2
              have hsplit := hasPrefix_split perlSpace (c :: cs) hps'
              have h9 : ((c :: cs).drop perlSpace.length).length ≤ f := by
                simp only [List.length_drop, List.length_cons, perlSpace] at hf ⊢; simp; omega
              conv => rhs; rw [hsplit]
              rw [bal_perlSpace]
              rw [List.append_assoc, bal_vtClass e d _ (by split <;> simp <;> exact Classical.em _)]
              exact ih _ h9 ic false d
            · exact bal_cons_congr c _ _ (fun e' d' => ih cs hcs ic e' d') e d

theorem includeVT_bal (s : Bytes) (e : Bool) (d : Nat) : bal e d (includeVerticalTabInSpaceClass s) = bal e d s :=
  includeVTAux_bal _ s (Nat.le_refl _) false e d

/-- **the four string passes keep balanced text balanced** -/
theorem stringPasses_balanced (s : Bytes) (h : Balanced s) :
    Balanced (includeVerticalTabInSpaceClass (useHexBackslashes (escapeDoublequotes (useHexEscapes s)))) := by
  obtain ⟨e, he⟩ := h
  exact ⟨e, by rw [includeVT_bal, useHexBackslashes_bal, escapeDoublequotes_bal, useHexEscapes_bal]; exact he⟩

/-- **`cleanUp` never faults on balanced text.** -/
theorem cleanUp_balanced (s : Bytes) (h : Balanced s) : ∃ out, cleanUp s = .ok out := by
  unfold cleanUp
  simp only
  obtain ⟨s', hs', hb'⟩ := dontUseFlags_balanced _ (stringPasses_balanced s h)
  rw [hs']
  exact removeOutermost_balanced s' hb'

end Crs.Passes
