/-
  White-space trimming lemmas (used by the re-emission lemmas of C09/C10).
-/
import Crs.Bytes
import Crs.Patterns
import CrsProofs.Lines
namespace Crs
open Crs.Pat

/-- no leading and no trailing white space (`\s`) -/
def Trimmed (x : Bytes) : Prop :=
  (∀ c, x.head? = some c → isWs c = false) ∧ (∀ c, x.getLast? = some c → isWs c = false)

theorem dropWs_of_head (x : Bytes) (h : ∀ c, x.head? = some c → isWs c = false) : dropWs x = x := by
  cases x with
  | nil => rfl
  | cons c cs => simp [dropWs, List.dropWhile, h c rfl]

theorem dropWs_head (x : Bytes) : ∀ c, (dropWs x).head? = some c → isWs c = false := by
  induction x with
  | nil => simp [dropWs]
  | cons a as ih =>
    intro c hc
    simp only [dropWs, List.dropWhile] at hc
    by_cases ha : isWs a = true
    · simp only [ha] at hc; exact ih c hc
    · simp only [ha] at hc
      simp only [List.head?_cons, Option.some.injEq] at hc
      subst hc; simpa using ha

theorem dropWs_idem (x : Bytes) : dropWs (dropWs x) = dropWs x := dropWs_of_head _ (dropWs_head x)

theorem dropWs_ws_cons (c : Char) (x : Bytes) (h : isWs c = true) : dropWs (c :: x) = dropWs x := by
  simp [dropWs, List.dropWhile, h]

theorem trimRightWs_eq (x : Bytes) : trimRightWs x = (dropWs x.reverse).reverse := rfl

theorem trimRightWs_of_last (x : Bytes) (h : ∀ c, x.getLast? = some c → isWs c = false) : trimRightWs x = x := by
  unfold trimRightWs
  have : ∀ c, x.reverse.head? = some c → isWs c = false := by
    intro c hc; rw [List.head?_reverse] at hc; exact h c hc
  have := dropWs_of_head x.reverse this
  unfold dropWs at this
  rw [this]; simp

theorem trimRightWs_last (x : Bytes) : ∀ c, (trimRightWs x).getLast? = some c → isWs c = false := by
  intro c hc
  unfold trimRightWs at hc
  rw [List.getLast?_reverse] at hc
  exact dropWs_head x.reverse c hc

theorem trimRightWs_idem (x : Bytes) : trimRightWs (trimRightWs x) = trimRightWs x :=
  trimRightWs_of_last _ (trimRightWs_last x)

theorem trimRightWs_prefix (x : Bytes) : trimRightWs x <+: x := by
  unfold trimRightWs
  have : (x.reverse.dropWhile isWs) <:+ x.reverse := List.dropWhile_suffix _
  have := List.reverse_prefix.mpr this
  simpa using this

theorem trimRightWs_snoc_sp (x : Bytes) : trimRightWs (x ++ [' ']) = trimRightWs x := by
  simp [trimRightWs, List.dropWhile, isWs]

/-- trimming on the right keeps the head unless everything goes -/
theorem trimRightWs_head (x : Bytes) (h : ∀ c, x.head? = some c → isWs c = false) :
    ∀ c, (trimRightWs x).head? = some c → isWs c = false := by
  intro c hc
  -- trimRightWs x is a prefix of x
  have hpre : trimRightWs x <+: x := by
    unfold trimRightWs
    have : (x.reverse.dropWhile isWs) <:+ x.reverse := List.dropWhile_suffix _
    have := List.reverse_prefix.mpr this
    simpa using this
  obtain ⟨t, ht⟩ := hpre
  cases hx : trimRightWs x with
  | nil => rw [hx] at hc; simp at hc
  | cons a as =>
    rw [hx] at hc ht
    simp only [List.head?_cons, Option.some.injEq] at hc
    subst hc
    apply h
    rw [← ht]; rfl

theorem trimWs_trimmed (x : Bytes) : Trimmed (trimWs x) :=
  ⟨trimRightWs_head _ (dropWs_head x), trimRightWs_last _⟩

theorem trimWs_of_trimmed (x : Bytes) (h : Trimmed x) : trimWs x = x := by
  unfold trimWs
  rw [dropWs_of_head x h.1, trimRightWs_of_last x h.2]

theorem trimWs_idem (x : Bytes) : trimWs (trimWs x) = trimWs x := trimWs_of_trimmed _ (trimWs_trimmed x)

/-- white space in front of a trimmed text is trimmed away -/
theorem trimWs_ws_append (w x : Bytes) (hw : ∀ c ∈ w, isWs c = true) (hx : Trimmed x) : trimWs (w ++ x) = x := by
  induction w with
  | nil => exact trimWs_of_trimmed x hx
  | cons c cs ih =>
    unfold trimWs
    rw [List.cons_append, dropWs_ws_cons c _ (hw c (by simp))]
    exact ih (fun d hd => hw d (by simp [hd]))

theorem trimWs_append_ws (x w : Bytes) (hw : ∀ c ∈ w, isWs c = true) (hx : Trimmed x) (hne : x ≠ []) : trimWs (x ++ w) = x := by
  unfold trimWs
  have h1 : dropWs (x ++ w) = x ++ w := by
    apply dropWs_of_head
    intro c hc
    cases x with
    | nil => exact absurd rfl hne
    | cons a as => simp only [List.cons_append, List.head?_cons, Option.some.injEq] at hc; subst hc; exact hx.1 _ rfl
  rw [h1]
  unfold trimRightWs
  rw [List.reverse_append]
  have : (w.reverse ++ x.reverse).dropWhile isWs = x.reverse := by
    have hwr : ∀ c ∈ w.reverse, isWs c = true := fun c hc => hw c (List.mem_reverse.mp hc)
    generalize w.reverse = wr at hwr
    induction wr with
    | nil =>
      simp only [List.nil_append]
      have : ∀ c, x.reverse.head? = some c → isWs c = false := by
        intro c hc; rw [List.head?_reverse] at hc; exact hx.2 c hc
      exact dropWs_of_head _ this
    | cons c cs ih =>
      simp only [List.cons_append, List.dropWhile, hwr c (by simp)]
      exact ih (fun d hd => hwr d (by simp [hd]))
  rw [this]; simp

theorem dropWhile_nil_iff {α} (p : α → Bool) (l : List α) : l.dropWhile p = [] ↔ ∀ x ∈ l, p x = true := by
  induction l with
  | nil => simp
  | cons a as ih =>
    by_cases ha : p a = true
    · simp [List.dropWhile, ha, ih]
    · simp [List.dropWhile, ha]

theorem trimmed_ne_ws_all (x : Bytes) : trimWs x = [] ↔ ∀ c ∈ x, isWs c = true := by
  constructor
  · intro h c hc
    -- if some char is not ws, dropWs x ≠ [] and trimRight of it ≠ []
    cases hw : isWs c with
    | true => rfl
    | false =>
      exfalso
      unfold trimWs trimRightWs at h
      have h2 : ((dropWs x).reverse.dropWhile isWs) = [] := by
        have := congrArg List.reverse h; simpa using this
      have h3 : ∀ d ∈ (dropWs x).reverse, isWs d = true := by
        intro d hd
        exact (dropWhile_nil_iff isWs _).mp h2 d hd
      -- c survives dropWs? c ∈ x and c not ws → c ∈ dropWs x
      have hcd : c ∈ dropWs x := by
        clear h h2 h3
        induction x with
        | nil => simp at hc
        | cons a as ih =>
          simp only [dropWs, List.dropWhile]
          by_cases ha : isWs a = true
          · simp only [ha]
            simp only [List.mem_cons] at hc
            rcases hc with rfl | hc
            · rw [hw] at ha; simp at ha
            · exact ih hc
          · simp only [ha]; exact hc
      have := h3 c (List.mem_reverse.mpr hcd)
      rw [hw] at this; simp at this
  · intro h
    unfold trimWs
    have : dropWs x = [] := (dropWhile_nil_iff isWs x).mpr h
    rw [this]; rfl

end Crs
