/-
  Helper lemmas for C11/C12 (update, compare).
-/
import Crs.Update
import CrsProofs.Lines
namespace Crs.Update
open Crs

theorem stripPrefix?_isSome_append (p a b : Bytes) (h : p.length ≤ a.length) :
    (stripPrefix? p (a ++ b)).isSome = (stripPrefix? p a).isSome := by
  induction p generalizing a with
  | nil => simp [stripPrefix?]
  | cons x p ih =>
    cases a with
    | nil => simp at h
    | cons y a =>
      simp only [List.cons_append, stripPrefix?]
      by_cases hxy : x = y
      · subst hxy
        simp only [beq_self_eq_true, if_true]
        exact ih a (by simpa using h)
      · simp [hxy]

theorem stripPrefix?_none_append (p a b b' : Bytes) (h : p.length ≤ a.length)
    (hn : stripPrefix? p (a ++ b) = none) : stripPrefix? p (a ++ b') = none := by
  have h1 := stripPrefix?_isSome_append p a b h
  have h2 := stripPrefix?_isSome_append p a b' h
  rw [hn] at h1
  rw [← h1] at h2
  cases hs : stripPrefix? p (a ++ b') with
  | none => rfl
  | some r => rw [hs] at h2; simp at h2

/-- what `splitAtOperator` returns: the line is cut right after the first `"@rx ` / `"!@rx ` -/
theorem splitAtOperator_shape (line pre rest : Bytes) (h : splitAtOperator line = some (pre, rest)) :
    line = pre ++ rest ∧ ∃ x, pre = x ++ rxA ∨ pre = x ++ rxB := by
  induction line generalizing pre with
  | nil => simp [splitAtOperator] at h
  | cons c cs ih =>
    simp only [splitAtOperator] at h
    cases hA : stripPrefix? rxA (c :: cs) with
    | some r =>
      rw [hA] at h
      simp only [Option.some.injEq, Prod.mk.injEq] at h
      obtain ⟨rfl, rfl⟩ := h
      exact ⟨(stripPrefix?_some_iff _ _ _).mp hA, [], Or.inl (by simp)⟩
    | none =>
      rw [hA] at h
      simp only at h
      cases hB : stripPrefix? rxB (c :: cs) with
      | some r =>
        rw [hB] at h
        simp only [Option.some.injEq, Prod.mk.injEq] at h
        obtain ⟨rfl, rfl⟩ := h
        exact ⟨(stripPrefix?_some_iff _ _ _).mp hB, [], Or.inr (by simp)⟩
      | none =>
        rw [hB] at h
        simp only at h
        cases hr : splitAtOperator cs with
        | none => rw [hr] at h; simp at h
        | some pr =>
          rw [hr] at h
          obtain ⟨p', r'⟩ := pr
          simp only [Option.some.injEq, Prod.mk.injEq] at h
          obtain ⟨rfl, rfl⟩ := h
          obtain ⟨h1, x, hx⟩ := ih p' hr
          refine ⟨by rw [h1]; simp, c :: x, ?_⟩
          rcases hx with hx | hx
          · left; rw [hx]; simp
          · right; rw [hx]; simp

theorem splitAtOperator_prefixA (rest' : Bytes) : splitAtOperator (rxA ++ rest') = some (rxA, rest') := by
  show splitAtOperator ('"' :: ('@' :: 'r' :: 'x' :: ' ' :: rest')) = _
  rw [splitAtOperator]
  have : stripPrefix? rxA ('"' :: ('@' :: 'r' :: 'x' :: ' ' :: rest')) = some rest' := stripPrefix?_append rxA rest'
  rw [this]

theorem splitAtOperator_prefixB (rest' : Bytes) : splitAtOperator (rxB ++ rest') = some (rxB, rest') := by
  show splitAtOperator ('"' :: ('!' :: '@' :: 'r' :: 'x' :: ' ' :: rest')) = _
  rw [splitAtOperator]
  have h1 : stripPrefix? rxA ('"' :: ('!' :: '@' :: 'r' :: 'x' :: ' ' :: rest')) = none := by simp [rxA, stripPrefix?]
  have h2 : stripPrefix? rxB ('"' :: ('!' :: '@' :: 'r' :: 'x' :: ' ' :: rest')) = some rest' := stripPrefix?_append rxB rest'
  rw [h1, h2]

/-- the first operator stays the first one whatever follows it -/
theorem splitAtOperator_rebuild (line pre rest rest' : Bytes) (h : splitAtOperator line = some (pre, rest)) :
    splitAtOperator (pre ++ rest') = some (pre, rest') := by
  induction line generalizing pre with
  | nil => simp [splitAtOperator] at h
  | cons c cs ih =>
    simp only [splitAtOperator] at h
    cases hA : stripPrefix? rxA (c :: cs) with
    | some r =>
      rw [hA] at h
      simp only [Option.some.injEq, Prod.mk.injEq] at h
      obtain ⟨rfl, rfl⟩ := h
      exact splitAtOperator_prefixA rest'
    | none =>
      rw [hA] at h
      simp only at h
      cases hB : stripPrefix? rxB (c :: cs) with
      | some r =>
        rw [hB] at h
        simp only [Option.some.injEq, Prod.mk.injEq] at h
        obtain ⟨rfl, rfl⟩ := h
        exact splitAtOperator_prefixB rest'
      | none =>
        rw [hB] at h
        simp only at h
        cases hr : splitAtOperator cs with
        | none => rw [hr] at h; simp at h
        | some pr =>
          rw [hr] at h
          obtain ⟨p', r'⟩ := pr
          simp only [Option.some.injEq, Prod.mk.injEq] at h
          obtain ⟨rfl, rfl⟩ := h
          obtain ⟨hcs, x, hx⟩ := splitAtOperator_shape cs p' r' hr
          have hlen : 5 ≤ p'.length := by
            rcases hx with hx | hx <;> rw [hx] <;> simp [rxA, rxB] <;> omega
          have hA' : stripPrefix? rxA ((c :: p') ++ rest') = none := by
            apply stripPrefix?_none_append rxA (c :: p') r' rest' (by simp [rxA]; omega)
            rw [hcs] at hA; simpa using hA
          have hB' : stripPrefix? rxB ((c :: p') ++ rest') = none := by
            apply stripPrefix?_none_append rxB (c :: p') r' rest' (by simp [rxB]; omega)
            rw [hcs] at hB; simpa using hB
          simp only [List.cons_append] at hA' hB' ⊢
          rw [splitAtOperator, hA', hB', ih p' hr]

theorem splitAtLastClose_shape (rest a b : Bytes) (h : splitAtLastClose rest = some (a, b)) :
    rest = a ++ b ∧ hasPrefix closeQ b = true := by
  induction rest generalizing a with
  | nil => simp [splitAtLastClose] at h
  | cons c cs ih =>
    simp only [splitAtLastClose] at h
    cases hr : splitAtLastClose cs with
    | some pr =>
      rw [hr] at h
      obtain ⟨p', q'⟩ := pr
      simp only [Option.some.injEq, Prod.mk.injEq] at h
      obtain ⟨rfl, rfl⟩ := h
      obtain ⟨h1, h2⟩ := ih p' hr
      exact ⟨by rw [h1]; simp, h2⟩
    | none =>
      rw [hr] at h
      simp only at h
      split at h
      · rename_i hp
        simp only [Option.some.injEq, Prod.mk.injEq] at h
        obtain ⟨rfl, rfl⟩ := h
        exact ⟨by simp, hp⟩
      · simp at h

theorem splitAtLastClose_suffix (a b : Bytes) (h : splitAtLastClose (a ++ b) = some (a, b)) :
    splitAtLastClose b = some ([], b) := by
  induction a with
  | nil => simpa using h
  | cons c a ih =>
    simp only [List.cons_append, splitAtLastClose] at h
    cases hr : splitAtLastClose (a ++ b) with
    | some pr =>
      rw [hr] at h
      obtain ⟨p', q'⟩ := pr
      simp only [Option.some.injEq, Prod.mk.injEq, List.cons.injEq, true_and] at h
      obtain ⟨rfl, rfl⟩ := h
      exact ih hr
    | none =>
      rw [hr] at h
      simp only at h
      split at h <;> simp at h

/-- the last `" \` stays the last one whatever is put before it -/
theorem splitAtLastClose_prepend (r b : Bytes) (h : splitAtLastClose b = some ([], b)) :
    splitAtLastClose (r ++ b) = some (r, b) := by
  induction r with
  | nil => simpa using h
  | cons c r ih => rw [List.cons_append, splitAtLastClose, ih]

/-- **what is written is what is read back**, on one line: replacing the operand by any text `r` yields a
    line whose operand is `r`, with the same surroundings -/
theorem splitOperand_rebuild (line pre old post r : Bytes) (h : splitOperand line = some (pre, old, post)) :
    splitOperand (pre ++ r ++ post) = some (pre, r, post) := by
  unfold splitOperand at h ⊢
  cases h1 : splitAtOperator line with
  | none => rw [h1] at h; simp at h
  | some pr =>
    obtain ⟨p, rest⟩ := pr
    rw [h1] at h
    simp only at h
    cases h2 : splitAtLastClose rest with
    | none => rw [h2] at h; simp at h
    | some ab =>
      obtain ⟨a, b⟩ := ab
      rw [h2] at h
      simp only [Option.some.injEq, Prod.mk.injEq] at h
      obtain ⟨rfl, rfl, rfl⟩ := h
      rw [List.append_assoc, splitAtOperator_rebuild line p rest (r ++ b) h1]
      simp only
      obtain ⟨hab, _⟩ := splitAtLastClose_shape rest a b h2
      have : splitAtLastClose b = some ([], b) := splitAtLastClose_suffix a b (by rw [← hab]; exact h2)
      rw [splitAtLastClose_prepend r b this]

theorem splitOperand_shape (line pre old post : Bytes) (h : splitOperand line = some (pre, old, post)) :
    line = pre ++ old ++ post ∧ (∃ x, pre = x ++ rxA ∨ pre = x ++ rxB) ∧ hasPrefix closeQ post = true := by
  unfold splitOperand at h
  cases h1 : splitAtOperator line with
  | none => rw [h1] at h; simp at h
  | some pr =>
    obtain ⟨p, rest⟩ := pr
    rw [h1] at h
    simp only at h
    cases h2 : splitAtLastClose rest with
    | none => rw [h2] at h; simp at h
    | some ab =>
      obtain ⟨a, b⟩ := ab
      rw [h2] at h
      simp only [Option.some.injEq, Prod.mk.injEq] at h
      obtain ⟨rfl, rfl, rfl⟩ := h
      obtain ⟨hl, hx⟩ := splitAtOperator_shape line p rest h1
      obtain ⟨hr, hp⟩ := splitAtLastClose_shape rest a b h2
      exact ⟨by rw [hl, hr]; simp, hx, hp⟩

/-! ### lists with one element replaced -/

theorem setAt_getElem?_same (ls : List Bytes) (i : Nat) (x : Bytes) (h : i < ls.length) :
    (setAt ls i x)[i]? = some x := by
  induction ls generalizing i with
  | nil => simp at h
  | cons l ls ih =>
    cases i with
    | zero => simp [setAt]
    | succ i => simp [setAt, ih i (by simpa using h)]

theorem setAt_getElem?_other (ls : List Bytes) (i j : Nat) (x : Bytes) (h : j ≠ i) :
    (setAt ls i x)[j]? = ls[j]? := by
  induction ls generalizing i j with
  | nil => simp [setAt]
  | cons l ls ih =>
    cases i with
    | zero =>
      cases j with
      | zero => exact absurd rfl h
      | succ j => simp [setAt]
    | succ i =>
      cases j with
      | zero => simp [setAt]
      | succ j => simp [setAt, ih i j (by omega)]

theorem setAt_setAt (ls : List Bytes) (i : Nat) (x : Bytes) : setAt (setAt ls i x) i x = setAt ls i x := by
  induction ls generalizing i with
  | nil => simp [setAt]
  | cons l ls ih => cases i <;> simp [setAt, ih]

theorem setAt_length (ls : List Bytes) (i : Nat) (x : Bytes) : (setAt ls i x).length = ls.length := by
  induction ls generalizing i with
  | nil => simp [setAt]
  | cons l ls ih => cases i <;> simp [setAt, ih]

theorem setAt_mem (ls : List Bytes) (i : Nat) (x y : Bytes) (h : y ∈ setAt ls i x) : y = x ∨ y ∈ ls := by
  induction ls generalizing i with
  | nil => simp [setAt] at h
  | cons l ls ih =>
    cases i with
    | zero =>
      simp only [setAt, List.mem_cons] at h
      rcases h with h | h
      · exact Or.inl h
      · exact Or.inr (List.mem_cons_of_mem _ h)
    | succ i =>
      simp only [setAt, List.mem_cons] at h
      rcases h with h | h
      · exact Or.inr (by simp [h])
      · rcases ih i h with h | h
        · exact Or.inl h
        · exact Or.inr (List.mem_cons_of_mem _ h)

/-! ### the lookup does not move when the rewritten line keeps its classification -/

theorem findChained_setAt (k base : Nat) (ls : List Bytes) (i : Nat) (x old : Bytes)
    (hold : ls[i]? = some old) (hsec : contains secRule x = contains secRule old) :
    findChained k base (setAt ls i x) = findChained k base ls := by
  induction ls generalizing i k base with
  | nil => simp [setAt]
  | cons l ls ih =>
    cases i with
    | zero =>
      simp only [List.getElem?_cons_zero, Option.some.injEq] at hold
      subst hold
      simp only [setAt, findChained, hsec]
    | succ i =>
      simp only [List.getElem?_cons_succ] at hold
      simp only [setAt, findChained]
      rw [ih _ _ i hold, ih _ _ i hold]

theorem targetIndex_setAt (id : Bytes) (k base : Nat) (ls : List Bytes) (i : Nat) (x old : Bytes)
    (hold : ls[i]? = some old)
    (hid : isIdLine id x = isIdLine id old)
    (hsec : contains secRule x = contains secRule old) :
    targetIndex id k base (setAt ls i x) = targetIndex id k base ls := by
  induction ls generalizing i base with
  | nil => simp [setAt]
  | cons l ls ih =>
    cases i with
    | zero =>
      simp only [List.getElem?_cons_zero, Option.some.injEq] at hold
      subst hold
      simp only [setAt, targetIndex, hid]
    | succ i =>
      simp only [List.getElem?_cons_succ] at hold
      simp only [setAt, targetIndex]
      rw [ih _ i hold, findChained_setAt _ _ ls i x old hold hsec]

end Crs.Update
