/-
  Helper lemmas for C13 (renumber-tests).
-/
import Crs.Renumber
import CrsProofs.Lines
namespace Crs.Renumber
open Crs

/-- an occurrence of `key` followed by a white-space character -/
def Occ (key l : Bytes) : Prop := ∃ a d c, l = a ++ key ++ d :: c ∧ isWs d = true

theorem lastKey?_append_left (key a cs pre : Bytes) (h : lastKey? key cs = some pre) :
    lastKey? key (a ++ cs) = some (a ++ pre) := by
  induction a with
  | nil => simpa
  | cons x a ih => simp [lastKey?, ih]

theorem lastKey?_some_shape (key l pre : Bytes) (h : lastKey? key l = some pre) :
    ∃ a, pre = a ++ key ∧ ∃ d c, l = a ++ key ++ d :: c ∧ isWs d = true := by
  induction l generalizing pre with
  | nil => simp [lastKey?] at h
  | cons x cs ih =>
    simp only [lastKey?] at h
    cases hr : lastKey? key cs with
    | some pre' =>
      rw [hr] at h
      simp only [Option.some.injEq] at h
      obtain ⟨a, rfl, d, c, rfl, hd⟩ := ih pre' hr
      exact ⟨x :: a, by simp [← h], d, c, by simp, hd⟩
    | none =>
      rw [hr] at h
      simp only at h
      split at h
      · rename_i d rest hsp
        split at h
        · rename_i hd
          simp only [Option.some.injEq] at h
          refine ⟨[], by simp [← h], d, rest, ?_, hd⟩
          have := (stripPrefix?_some_iff key (x :: cs) (d :: rest)).mp hsp
          simpa using this
        · simp at h
      · simp at h

theorem lastKey?_none_of_not_occ (key l : Bytes) (h : ¬ Occ key l) : lastKey? key l = none := by
  cases hr : lastKey? key l with
  | none => rfl
  | some pre =>
    obtain ⟨a, _, d, c, hl, hd⟩ := lastKey?_some_shape key l pre hr
    exact absurd ⟨a, d, c, hl, hd⟩ h

theorem occ_of_lastKey?_ne_none (key l pre : Bytes) (h : lastKey? key l = some pre) : Occ key l := by
  obtain ⟨a, _, d, c, hl, hd⟩ := lastKey?_some_shape key l pre h
  exact ⟨a, d, c, hl, hd⟩

theorem lastKey?_ne_none_of_occ (key l : Bytes) (h : Occ key l) : ∃ pre, lastKey? key l = some pre := by
  obtain ⟨a, d, c, rfl, hd⟩ := h
  -- at position |a| there is an occurrence; either a later one wins or this one
  have : ∃ pre, lastKey? key (key ++ d :: c) = some pre := by
    cases key with
    | nil =>
      simp only [List.nil_append, lastKey?]
      cases hr : lastKey? [] c with
      | some p => exact ⟨_, rfl⟩
      | none => simp [stripPrefix?, hd]
    | cons k ks =>
      simp only [List.cons_append, lastKey?]
      cases hr : lastKey? (k :: ks) (ks ++ d :: c) with
      | some p => exact ⟨_, rfl⟩
      | none =>
        have : stripPrefix? (k :: ks) (k :: (ks ++ d :: c)) = some (d :: c) :=
          (stripPrefix?_some_iff _ _ _).mpr (by simp)
        simp [this, hd]
  obtain ⟨pre, hp⟩ := this
  exact ⟨a ++ pre, by simpa [List.append_assoc] using lastKey?_append_left key a _ pre hp⟩

/-- if the last character of `key` does not occur in `s`, `key` does not occur in `s` -/
theorem not_occ_of_last_not_mem (key s : Bytes) (k : Char) (hk : key.getLast? = some k) (hs : k ∉ s) :
    ¬ Occ key s := by
  rintro ⟨a, d, c, rfl, _⟩
  apply hs
  have : k ∈ key := List.mem_of_getLast? hk
  simp [this]

end Crs.Renumber

namespace Crs.Renumber
open Crs

/-! ### rewriting a line keeps its classification -/

theorem lastKey?_self (k : Char) (ks t : Bytes) (h : lastKey? (k :: ks) (ks ++ ' ' :: t) = none) :
    lastKey? (k :: ks) ((k :: ks) ++ ' ' :: t) = some (k :: ks) := by
  have hs : stripPrefix? (k :: ks) (k :: (ks ++ ' ' :: t)) = some (' ' :: t) :=
    (stripPrefix?_some_iff _ _ _).mpr (by simp)
  simp [lastKey?, h, hs, isWs]

theorem idKey_last : testIdKey.getLast? = some ':' := by decide
theorem titleKey_last : testTitleKey.getLast? = some ':' := by decide

theorem idKey_tail_none (t : Bytes) (h : lastKey? testIdKey t = none) :
    lastKey? testIdKey (['e','s','t','_','i','d',':'] ++ ' ' :: t) = none := by
  simp only [testIdKey] at h ⊢
  simp [lastKey?, stripPrefix?, h]

theorem titleKey_tail_none (t : Bytes) (h : lastKey? testTitleKey t = none) :
    lastKey? testTitleKey (['e','s','t','_','t','i','t','l','e',':'] ++ ' ' :: t) = none := by
  simp only [testTitleKey] at h ⊢
  simp [lastKey?, stripPrefix?, h]

/-- the id line written by renumber-tests is an id line with the same prefix -/
theorem lastKey?_id_rewrite (l pre t : Bytes) (h : lastKey? testIdKey l = some pre) (ht : ':' ∉ t) :
    lastKey? testIdKey (pre ++ ' ' :: t) = some pre := by
  obtain ⟨a, rfl, _⟩ := lastKey?_some_shape _ _ _ h
  have h0 : lastKey? testIdKey t = none :=
    lastKey?_none_of_not_occ _ _ (not_occ_of_last_not_mem _ _ ':' idKey_last ht)
  have h1 := lastKey?_self 't' ['e','s','t','_','i','d',':'] t (idKey_tail_none t h0)
  have := lastKey?_append_left testIdKey a _ _ h1
  simpa [testIdKey, List.append_assoc] using this

theorem lastKey?_title_rewrite (l pre t : Bytes) (h : lastKey? testTitleKey l = some pre) (ht : ':' ∉ t) :
    lastKey? testTitleKey (pre ++ ' ' :: t) = some pre := by
  obtain ⟨a, rfl, _⟩ := lastKey?_some_shape _ _ _ h
  have h0 : lastKey? testTitleKey t = none :=
    lastKey?_none_of_not_occ _ _ (not_occ_of_last_not_mem _ _ ':' titleKey_last ht)
  have h1 := lastKey?_self 't' ['e','s','t','_','t','i','t','l','e',':'] t (titleKey_tail_none t h0)
  have := lastKey?_append_left testTitleKey a _ _ h1
  simpa [testTitleKey, List.append_assoc] using this

/-- a key that does not occur in `l = p ++ q` does not occur in the rewritten `p ++ " " ++ t` either,
    unless `p` ends with that key -/
theorem lastKey?_none_rewrite (K l p q t : Bytes) (hl : l = p ++ q) (hnone : lastKey? K l = none)
    (hk : K.getLast? = some ':') (ht : ':' ∉ t) (hp : ¬ K <:+ p) :
    lastKey? K (p ++ ' ' :: t) = none := by
  apply lastKey?_none_of_not_occ
  rintro ⟨a, d, c, he, hd⟩
  have hKne : K ≠ [] := by intro e; simp [e] at hk
  have he' : p ++ ' ' :: t = (a ++ K) ++ d :: c := by simpa [List.append_assoc] using he
  rcases List.append_eq_append_iff.mp he' with ⟨a', h1, h2⟩ | ⟨c', h1, h2⟩
  · -- a ++ K = p ++ a', ' ' :: t = a' ++ d :: c
    cases a' with
    | nil =>
      apply hp
      exact ⟨a, by simp only [List.append_nil] at h1; first | exact h1 | exact h1.symm⟩
    | cons x a'' =>
      simp only [List.cons_append, List.cons.injEq] at h2
      obtain ⟨rfl, h2⟩ := h2
      -- last char of a ++ K is ':' and lies in ' ' :: a''
      have hlast : (a ++ K).getLast? = some ':' := by
        rw [List.getLast?_append]; simp [hk]
      rw [h1] at hlast
      have : ':' ∈ ' ' :: a'' := by
        have := List.mem_of_getLast? hlast
        simp only [List.mem_append] at this
        rcases this with hm | hm
        · rw [List.getLast?_append] at hlast
          simp at hlast
          cases a'' with
          | nil => simp at hlast
          | cons y ys =>
            have : (y :: ys).getLast? = some ':' := by
              simpa [List.getLast?_cons_cons] using hlast
            exact List.mem_cons_of_mem _ (List.mem_of_getLast? this)
        · exact hm
      simp only [List.mem_cons] at this
      rcases this with hh | hh
      · exact absurd hh (by decide)
      · apply ht; rw [h2]; simp [hh]
  · -- p = a ++ K ++ c', d :: c = c' ++ ' ' :: t
    cases c' with
    | nil =>
      apply hp
      exact ⟨a, by simp only [List.append_nil] at h1; first | exact h1 | exact h1.symm⟩
    | cons x c'' =>
      simp only [List.cons_append, List.cons.injEq] at h2
      obtain ⟨rfl, _⟩ := h2
      have : Occ K l := ⟨a, d, c'' ++ q, by rw [hl, h1]; simp [List.append_assoc], hd⟩
      obtain ⟨pre, hpre⟩ := lastKey?_ne_none_of_occ K l this
      rw [hnone] at hpre
      exact absurd hpre (by simp)

theorem titleKey_not_suffix_id (a : Bytes) : ¬ testTitleKey <:+ a ++ testIdKey := by
  rintro ⟨s, hs⟩
  have := congrArg List.reverse hs
  simp [testTitleKey, testIdKey] at this

theorem idKey_not_suffix_title (a : Bytes) : ¬ testIdKey <:+ a ++ testTitleKey := by
  rintro ⟨s, hs⟩
  have := congrArg List.reverse hs
  simp [testTitleKey, testIdKey] at this

end Crs.Renumber
