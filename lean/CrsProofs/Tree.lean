/-
  The flat stack machine of `Operator.assemble` computes what the recursive tree evaluator computes.
-/
import Crs.Tree
namespace Crs.Tree
open Crs Crs.Pat Crs.Asm

theorem endLine_facts : processorStart? endLine = none ∧ blockEnd? endLine = true := by decide

theorem bind_match {α β} (x : Except Fault α) (f : α → Except Fault β) :
    (match x with | .error e => .error e | .ok a => f a) = x.bind f := by
  cases x <;> rfl

mutual
  theorem runLines_item (E : Engine) (cfg : Config) (i : Item) (hw : wfItem i = true)
      (st : Stash) (cur : Proc) (below : List Proc) (rest : List Bytes) :
      runLines E cfg st (cur :: below) (flattenItem i ++ rest) =
        (match evalItem E cfg st cur i with
         | .error e => .error e
         | .ok (st', cur') => runLines E cfg st' (cur' :: below) rest) := by
    match i, hw with
    | .line l, hw =>
      simp only [wfItem, Bool.and_eq_true, Option.isNone_iff_eq_none, Bool.not_eq_true'] at hw
      simp only [flattenItem, List.cons_append, List.nil_append, runLines, hw.1, hw.2, Bool.false_eq_true, if_false, evalItem]
      cases procLine E cfg st cur l with
      | error e => rfl
      | ok r => obtain ⟨a, b⟩ := r; rfl
    | .block s body, hw =>
      simp only [wfItem, Bool.and_eq_true] at hw
      obtain ⟨hs, hb⟩ := hw
      obtain ⟨na, hna⟩ := Option.isSome_iff_exists.mp hs
      obtain ⟨name, arg⟩ := na
      simp only [flattenItem, List.cons_append, List.append_assoc, List.nil_append, runLines, hna, evalItem, startProc?]
      have step : ∀ q : Proc,
          runLines E cfg st (q :: cur :: below) (flattenItems body ++ endLine :: rest) =
            (match evalItems E cfg st q body with
             | .error e => .error e
             | .ok (st1, q') =>
               match procComplete E q' with
               | .error e => .error e
               | .ok lines =>
                 match procConsume E cfg st1 cur lines with
                 | .error e => .error e
                 | .ok (st2, cur') => runLines E cfg st2 (cur' :: below) rest) := by
        intro q
        rw [runLines_items E cfg body hb st q (cur :: below) (endLine :: rest)]
        cases evalItems E cfg st q body with
        | error e => rfl
        | ok r =>
          obtain ⟨st1, q'⟩ := r
          simp only [runLines, endLine_facts.1, endLine_facts.2, if_true]
          cases procComplete E q' with
          | error e => rfl
          | ok lines =>
            simp only
            cases procConsume E cfg st1 cur lines with
            | error e => rfl
            | ok r2 => obtain ⟨a, b⟩ := r2; rfl
      by_cases h1 : (name == b!"assemble") = true
      · simp only [h1, if_true]
        rw [step]
        cases evalItems E cfg st (.assemble [] []) body with
        | error e => rfl
        | ok r =>
          obtain ⟨st1, q'⟩ := r
          simp only
          cases procComplete E q' with
          | error e => rfl
          | ok lines =>
            simp only
      · simp only [h1, Bool.false_eq_true, if_false]
        by_cases h2 : (name == b!"cmdline") = true
        · simp only [h2, if_true]
          by_cases h3 : (arg == b!"unix") = true
          · simp only [h3, if_true]
            rw [step]
            cases evalItems E cfg st (.cmdline .unix []) body with
            | error e => rfl
            | ok r =>
              obtain ⟨st1, q'⟩ := r
              simp only
              cases procComplete E q' with
              | error e => rfl
              | ok lines =>
                simp only
          · simp only [h3, Bool.false_eq_true, if_false]
            by_cases h4 : (arg == b!"windows") = true
            · simp only [h4, if_true]
              rw [step]
              cases evalItems E cfg st (.cmdline .windows []) body with
              | error e => rfl
              | ok r =>
                obtain ⟨st1, q'⟩ := r
                simp only
                cases procComplete E q' with
                | error e => rfl
                | ok lines =>
                  simp only
            · simp only [h4, Bool.false_eq_true, if_false]
        · simp only [h2, Bool.false_eq_true, if_false]
  theorem runLines_items (E : Engine) (cfg : Config) (is : List Item) (hw : wfItems is = true)
      (st : Stash) (cur : Proc) (below : List Proc) (rest : List Bytes) :
      runLines E cfg st (cur :: below) (flattenItems is ++ rest) =
        (match evalItems E cfg st cur is with
         | .error e => .error e
         | .ok (st', cur') => runLines E cfg st' (cur' :: below) rest) := by
    match is, hw with
    | [], _ => simp only [flattenItems, List.nil_append, evalItems]
    | i :: is, hw =>
      simp only [wfItems, Bool.and_eq_true] at hw
      simp only [flattenItems, List.append_assoc, evalItems]
      rw [runLines_item E cfg i hw.1 st cur below (flattenItems is ++ rest)]
      cases evalItem E cfg st cur i with
      | error e => rfl
      | ok r =>
        obtain ⟨st', cur'⟩ := r
        simp only
        exact runLines_items E cfg is hw.2 st' cur' below rest
end

end Crs.Tree
