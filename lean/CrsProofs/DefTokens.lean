/-
  Definitions at the level of tokens.

  A text is read as a list of tokens: ordinary characters and references `{{name}}`. On texts that ARE such a reading
  (every `{` that does not belong to a reference is followed by an ordinary character other than `{`; names are
  non-empty and brace-free), `bytes.ReplaceAll(text, "{{n}}", value)` is substitution of the token `ref n`
  (`replaceAll_render`). Everything about orders is then proved on tokens: two visits of the first loop commute on
  every acyclic table (`closeStepT_comm`), visiting all names leaves no reference to a defined name
  (`closeVarsT_closed`), and applying closed definitions to a text commutes (`applyStepT_comm`).
-/
import Crs.Parser
namespace Crs.Parser
open Crs

inductive Tok where
  | lit (c : Char)
  | ref (n : Bytes)
  deriving DecidableEq

def render : List Tok → Bytes
  | [] => []
  | .lit c :: ts => c :: render ts
  | .ref n :: ts => refOf n ++ render ts

theorem render_append (xs ys : List Tok) : render (xs ++ ys) = render xs ++ render ys := by
  induction xs with
  | nil => rfl
  | cons t xs ih =>
    cases t with
    | lit c => simp only [List.cons_append, render, ih]
    | ref n => simp only [List.cons_append, render, ih, List.append_assoc]

/-- a name: not empty, no brace in it -/
def WFName (n : Bytes) : Prop := n ≠ [] ∧ ∀ c ∈ n, c ≠ '{' ∧ c ≠ '}'

/-- a token reading: names are names, and a literal `{` is followed by a literal other than `{` -/
def WFToks : List Tok → Prop
  | [] => True
  | .ref n :: ts => WFName n ∧ WFToks ts
  | .lit c :: ts => (c = '{' → ∃ d ts', ts = .lit d :: ts' ∧ d ≠ '{') ∧ WFToks ts

theorem WFToks_append (xs ys : List Tok) (hx : WFToks xs) (hy : WFToks ys) : WFToks (xs ++ ys) := by
  induction xs with
  | nil => exact hy
  | cons t xs ih =>
    cases t with
    | ref n => exact ⟨hx.1, ih hx.2⟩
    | lit c =>
      refine ⟨?_, ih hx.2⟩
      intro hc
      obtain ⟨d, ts', e, hd⟩ := hx.1 hc
      exact ⟨d, ts' ++ ys, by rw [e]; rfl, hd⟩

/-- replace every `ref n` by the tokens `rs` -/
def subst (n : Bytes) (rs : List Tok) : List Tok → List Tok
  | [] => []
  | .lit c :: ts => .lit c :: subst n rs ts
  | .ref m :: ts => if m = n then rs ++ subst n rs ts else .ref m :: subst n rs ts

theorem subst_append (n : Bytes) (rs xs ys : List Tok) : subst n rs (xs ++ ys) = subst n rs xs ++ subst n rs ys := by
  induction xs with
  | nil => rfl
  | cons t xs ih =>
    cases t with
    | lit c => simp only [List.cons_append, subst, ih]
    | ref m =>
      simp only [List.cons_append, subst]
      split <;> simp only [ih, List.append_assoc, List.cons_append]

theorem WFToks_subst (n : Bytes) (rs ts : List Tok) (hr : WFToks rs) (ht : WFToks ts) : WFToks (subst n rs ts) := by
  induction ts with
  | nil => trivial
  | cons t ts ih =>
    cases t with
    | ref m =>
      simp only [subst]
      split
      · exact WFToks_append _ _ hr (ih ht.2)
      · exact ⟨ht.1, ih ht.2⟩
    | lit c =>
      refine ⟨?_, ih ht.2⟩
      intro hc
      obtain ⟨d, ts', e, hd⟩ := ht.1 hc
      subst e
      exact ⟨d, subst n rs ts', rfl, hd⟩

theorem subst_noref (n : Bytes) (rs ts : List Tok) (h : Tok.ref n ∉ ts) : subst n rs ts = ts := by
  induction ts with
  | nil => rfl
  | cons t ts ih =>
    have ht : Tok.ref n ∉ ts := fun hm => h (List.mem_cons_of_mem _ hm)
    cases t with
    | lit c => simp only [subst, ih ht]
    | ref m =>
      have : m ≠ n := fun e => h (by subst e; simp)
      simp only [subst, this, if_false, ih ht]

theorem mem_subst (n : Bytes) (rs ts : List Tok) (m : Bytes) (h : Tok.ref m ∈ subst n rs ts) :
    (Tok.ref m ∈ ts ∧ m ≠ n) ∨ (Tok.ref m ∈ rs ∧ Tok.ref n ∈ ts) := by
  induction ts with
  | nil => simp [subst] at h
  | cons t ts ih =>
    cases t with
    | lit c =>
      simp only [subst, List.mem_cons, reduceCtorEq, false_or] at h
      rcases ih h with h1 | h1
      · exact Or.inl ⟨List.mem_cons_of_mem _ h1.1, h1.2⟩
      · exact Or.inr ⟨h1.1, List.mem_cons_of_mem _ h1.2⟩
    | ref k =>
      simp only [subst] at h
      by_cases hk : k = n
      · subst hk
        simp only [if_true, List.mem_append] at h
        rcases h with h | h
        · exact Or.inr ⟨h, by simp⟩
        · rcases ih h with h1 | h1
          · exact Or.inl ⟨List.mem_cons_of_mem _ h1.1, h1.2⟩
          · exact Or.inr ⟨h1.1, List.mem_cons_of_mem _ h1.2⟩
      · simp only [hk, if_false, List.mem_cons, Tok.ref.injEq] at h
        rcases h with h | h
        · subst h; exact Or.inl ⟨by simp, hk⟩
        · rcases ih h with h1 | h1
          · exact Or.inl ⟨List.mem_cons_of_mem _ h1.1, h1.2⟩
          · exact Or.inr ⟨h1.1, List.mem_cons_of_mem _ h1.2⟩

/-- **the substitution lemma** -/
theorem subst_subst (a b : Bytes) (A B ts : List Tok) (hab : a ≠ b) (hB : Tok.ref a ∉ B) :
    subst b B (subst a A ts) = subst a (subst b B A) (subst b B ts) := by
  induction ts with
  | nil => rfl
  | cons t ts ih =>
    cases t with
    | lit c => simp only [subst, ih]
    | ref m =>
      by_cases hma : m = a
      · subst hma
        have : ¬ m = b := hab
        simp only [subst, if_true, this, if_false, subst_append, ih]
      · by_cases hmb : m = b
        · subst hmb
          simp only [subst, hma, if_false, if_true, subst_append, ih, subst_noref a _ B hB]
        · simp only [subst, hma, hmb, if_false, ih]

/-! ### `ReplaceAll` on a rendered text is substitution -/

theorem refOf_eq (n : Bytes) : refOf n = '{' :: '{' :: (n ++ ['}', '}']) := by
  simp [refOf]

theorem replaceAllAux_skip (old new xs ys : Bytes) :
    replaceAllAux old new xs.length (xs ++ ys) = replaceAllAux old new 0 ys := by
  induction xs with
  | nil => rfl
  | cons c xs ih => simp only [List.length_cons, List.cons_append, replaceAllAux, ih]

theorem replaceAllAux_norun (old new xs ys : Bytes)
    (h : ∀ t, t ≠ [] → t <:+ xs → old.isPrefixOf (t ++ ys) = false) :
    replaceAllAux old new 0 (xs ++ ys) = xs ++ replaceAllAux old new 0 ys := by
  induction xs with
  | nil => rfl
  | cons c xs ih =>
    have h0 := h (c :: xs) (by simp) (List.suffix_refl _)
    simp only [List.cons_append] at h0 ⊢
    rw [replaceAllAux, h0]
    simp only [Bool.false_and, Bool.false_eq_true, if_false]
    rw [ih (fun t ht hs => h t ht (hs.trans (List.suffix_cons c xs)))]

theorem replaceAllAux_match (old new ys : Bytes) (hne : old ≠ []) :
    replaceAllAux old new 0 (old ++ ys) = new ++ replaceAllAux old new 0 ys := by
  cases old with
  | nil => exact absurd rfl hne
  | cons c o =>
    have hp : (c :: o).isPrefixOf (c :: (o ++ ys)) = true := by
      rw [List.isPrefixOf_iff_prefix]; exact List.prefix_append (c :: o) ys
    simp only [List.cons_append]
    rw [replaceAllAux, hp]
    simp only [List.isEmpty_cons, Bool.not_false, Bool.and_self, if_true, List.length_cons, Nat.add_sub_cancel]
    rw [replaceAllAux_skip]

theorem ref_not_prefix_of_ne (n : Bytes) (c : Char) (rest : Bytes) (hc : c ≠ '{') :
    (refOf n).isPrefixOf (c :: rest) = false := by
  rw [refOf_eq]
  simp only [List.isPrefixOf]
  have : ('{' == c) = false := by simpa using (Ne.symm hc)
  simp [this]

theorem ref_not_prefix_of_second (n : Bytes) (d : Char) (rest : Bytes) (hd : d ≠ '{') :
    (refOf n).isPrefixOf ('{' :: d :: rest) = false := by
  rw [refOf_eq]
  simp only [List.isPrefixOf]
  have : ('{' == d) = false := by simpa using (Ne.symm hd)
  simp [this]

theorem name_prefix_eq (n m rest : Bytes) (hn : ∀ c ∈ n, c ≠ '}') (hm : ∀ c ∈ m, c ≠ '}')
    (h : (n ++ ['}', '}']).isPrefixOf (m ++ ['}', '}'] ++ rest) = true) : n = m := by
  induction n generalizing m with
  | nil =>
    cases m with
    | nil => rfl
    | cons c m =>
      simp only [List.nil_append, List.cons_append, List.isPrefixOf, Bool.and_eq_true, beq_iff_eq] at h
      exact absurd h.1.symm (hm c (by simp))
  | cons a n ih =>
    cases m with
    | nil =>
      simp only [List.cons_append, List.nil_append, List.isPrefixOf, Bool.and_eq_true, beq_iff_eq] at h
      exact absurd h.1 (hn a (by simp))
    | cons c m =>
      simp only [List.cons_append, List.isPrefixOf, Bool.and_eq_true, beq_iff_eq] at h
      rw [h.1, ih m (fun x hx => hn x (by simp [hx])) (fun x hx => hm x (by simp [hx])) (by simpa using h.2)]

theorem ref_not_prefix_of_other (n m : Bytes) (rest : Bytes) (hn : WFName n) (hm : WFName m) (hne : m ≠ n) :
    (refOf n).isPrefixOf (refOf m ++ rest) = false := by
  cases h : (refOf n).isPrefixOf (refOf m ++ rest) with
  | false => rfl
  | true =>
    rw [refOf_eq, refOf_eq] at h
    simp only [List.cons_append, List.isPrefixOf, beq_self_eq_true, Bool.true_and] at h
    exact absurd (name_prefix_eq n m rest (fun c hc => (hn.2 c hc).2) (fun c hc => (hm.2 c hc).2) h).symm hne

theorem head_mem_of_suffix {t l : Bytes} {e : Char} {t' : Bytes} (ht : t = e :: t') (hs : t <:+ l) : e ∈ l := by
  obtain ⟨pre, rfl⟩ := hs
  subst ht
  simp

theorem replaceAll_render (n : Bytes) (hn : WFName n) (rs ts : List Tok) (hts : WFToks ts) :
    replaceAll (render ts) (refOf n) (render rs) = render (subst n rs ts) := by
  unfold replaceAll
  induction ts with
  | nil => rfl
  | cons t ts ih =>
    cases t with
    | lit c =>
      have ih' := ih hts.2
      simp only [render, subst]
      have := replaceAllAux_norun (refOf n) (render rs) [c] (render ts) (by
        intro t hne hs
        have ht : t = [c] := by
          rcases List.suffix_cons_iff.mp hs with h | h
          · exact h
          · exact absurd (List.suffix_nil.mp h) hne
        subst ht
        by_cases hc : c = '{'
        · obtain ⟨d, ts', e, hd⟩ := hts.1 hc
          subst e; subst hc
          exact ref_not_prefix_of_second n d _ hd
        · exact ref_not_prefix_of_ne n c _ hc)
      simp only [List.cons_append, List.nil_append] at this
      rw [this, ih']
    | ref m =>
      have ih' := ih hts.2
      simp only [render, subst]
      by_cases hmn : m = n
      · subst hmn
        simp only [if_true]
        rw [replaceAllAux_match _ _ _ (by rw [refOf_eq]; simp), ih', render_append]
      · simp only [hmn, if_false, render]
        rw [replaceAllAux_norun (refOf n) (render rs) (refOf m) (render ts), ih']
        intro t hne hs
        rw [refOf_eq] at hs
        rcases List.suffix_cons_iff.mp hs with h | h
        · rw [h, ← refOf_eq]; exact ref_not_prefix_of_other n m _ hn hts.1 hmn
        · rcases List.suffix_cons_iff.mp h with h2 | h2
          · rw [h2]
            obtain ⟨hm0, hmc⟩ := hts.1
            cases m with
            | nil => exact absurd rfl hm0
            | cons d m' =>
              exact ref_not_prefix_of_second n d _ (hmc d (by simp)).1
          · cases t with
            | nil => exact absurd rfl hne
            | cons e t' =>
              have he : e ∈ m ++ ['}', '}'] := head_mem_of_suffix rfl h2
              have : e ≠ '{' := by
                rcases List.mem_append.mp he with he | he
                · exact (hts.1.2 e he).1
                · simp at he; rcases he with rfl | rfl <;> decide
              exact ref_not_prefix_of_ne n e _ this

/-! ### tables of definitions -/

abbrev TVars := List (Bytes × List Tok)

def renderVars (z : TVars) : Vars := z.map (fun p => (p.1, render p.2))

def lookupT (k : Bytes) : TVars → Option (List Tok)
  | [] => none
  | (k', v) :: rest => if k' == k then some v else lookupT k rest

theorem assocLookup_renderVars (k : Bytes) (z : TVars) : assocLookup k (renderVars z) = (lookupT k z).map render := by
  induction z with
  | nil => rfl
  | cons p z ih =>
    obtain ⟨k', v⟩ := p
    simp only [renderVars, List.map_cons, assocLookup, lookupT]
    split
    · rfl
    · exact ih

theorem lookupT_map (k : Bytes) (g : List Tok → List Tok) (z : TVars) :
    lookupT k (z.map (fun p => (p.1, g p.2))) = (lookupT k z).map g := by
  induction z with
  | nil => rfl
  | cons p z ih =>
    obtain ⟨k', v⟩ := p
    simp only [List.map_cons, lookupT]
    split
    · rfl
    · exact ih

theorem lookupT_mem {k : Bytes} {z : TVars} {v : List Tok} (h : lookupT k z = some v) : (k, v) ∈ z := by
  induction z with
  | nil => simp [lookupT] at h
  | cons p z ih =>
    obtain ⟨k', w⟩ := p
    simp only [lookupT] at h
    by_cases hk : (k' == k) = true
    · simp only [hk, if_true, Option.some.injEq] at h
      have : k' = k := by simpa using hk
      subst this; subst h; simp
    · have hk' : (k' == k) = false := by simpa using hk
      simp only [hk', Bool.false_eq_true, if_false] at h
      exact List.mem_cons_of_mem _ (ih h)

theorem lookupT_isSome_of_key {k : Bytes} {z : TVars} (h : k ∈ z.map Prod.fst) : ∃ v, lookupT k z = some v := by
  induction z with
  | nil => simp at h
  | cons p z ih =>
    obtain ⟨k', w⟩ := p
    simp only [lookupT]
    by_cases hk : (k' == k) = true
    · exact ⟨w, by simp [hk]⟩
    · have hk' : (k' == k) = false := by simpa using hk
      simp only [hk', Bool.false_eq_true, if_false]
      apply ih
      simp only [List.map_cons, List.mem_cons] at h
      rcases h with h | h
      · exact absurd (by simp [h]) hk
      · exact h

def WFVars (z : TVars) : Prop := ∀ p ∈ z, WFToks p.2

def closeStepT (z : TVars) (n : Bytes) : TVars :=
  match lookupT n z with
  | some rs => z.map (fun p => (p.1, subst n rs p.2))
  | none => z

def closeVarsT (ord : List Bytes) (z : TVars) : TVars := ord.foldl closeStepT z

def applyStepT (z : TVars) (ts : List Tok) (n : Bytes) : List Tok :=
  match lookupT n z with
  | some rs => subst n rs ts
  | none => ts

def applyVarsT (ord : List Bytes) (z : TVars) (ts : List Tok) : List Tok := ord.foldl (applyStepT z) ts

theorem closeStepT_keys (z : TVars) (n : Bytes) : (closeStepT z n).map Prod.fst = z.map Prod.fst := by
  unfold closeStepT
  cases lookupT n z with
  | none => rfl
  | some rs => simp [List.map_map, Function.comp_def]

theorem WFVars_closeStepT (z : TVars) (n : Bytes) (h : WFVars z) : WFVars (closeStepT z n) := by
  unfold closeStepT
  cases hl : lookupT n z with
  | none => exact h
  | some rs =>
    intro p hp
    obtain ⟨q, hq, rfl⟩ := List.mem_map.mp hp
    exact WFToks_subst n rs q.2 (h _ (lookupT_mem hl)) (h q hq)

theorem closeStep_render (z : TVars) (n : Bytes) (hn : WFName n) (h : WFVars z) :
    closeStep (renderVars z) n = renderVars (closeStepT z n) := by
  unfold closeStep closeStepT
  rw [assocLookup_renderVars]
  cases hl : lookupT n z with
  | none => rfl
  | some rs =>
    simp only [Option.map_some, renderVars, List.map_map]
    apply List.map_congr_left
    intro p hp
    simp only [Function.comp_def]
    rw [replaceAll_render n hn rs p.2 (h p hp)]

theorem closeVars_render (ord : List Bytes) (z : TVars) (hn : ∀ n ∈ ord, WFName n) (h : WFVars z) :
    closeVars ord (renderVars z) = renderVars (closeVarsT ord z) ∧ WFVars (closeVarsT ord z) := by
  unfold closeVars closeVarsT
  induction ord generalizing z with
  | nil => exact ⟨rfl, h⟩
  | cons n ns ih =>
    simp only [List.foldl_cons]
    rw [closeStep_render z n (hn n (by simp)) h]
    exact ih (closeStepT z n) (fun m hm => hn m (by simp [hm])) (WFVars_closeStepT z n h)

theorem applyStep_render (z : TVars) (ts : List Tok) (n : Bytes) (hn : WFName n) (hts : WFToks ts) :
    applyStep (renderVars z) (render ts) n = render (applyStepT z ts n) := by
  unfold applyStep applyStepT
  rw [assocLookup_renderVars]
  cases lookupT n z with
  | none => rfl
  | some rs => simp only [Option.map_some]; exact replaceAll_render n hn rs ts hts

theorem WFToks_applyStepT (z : TVars) (ts : List Tok) (n : Bytes) (hz : WFVars z) (hts : WFToks ts) :
    WFToks (applyStepT z ts n) := by
  unfold applyStepT
  cases hl : lookupT n z with
  | none => exact hts
  | some rs => exact WFToks_subst n rs ts (hz _ (lookupT_mem hl)) hts

theorem applyVars_render (ord : List Bytes) (z : TVars) (ts : List Tok) (hn : ∀ n ∈ ord, WFName n) (hz : WFVars z)
    (hts : WFToks ts) : applyVars ord (renderVars z) (render ts) = render (applyVarsT ord z ts) := by
  unfold applyVars applyVarsT
  induction ord generalizing ts with
  | nil => rfl
  | cons n ns ih =>
    simp only [List.foldl_cons]
    rw [applyStep_render z ts n (hn n (by simp)) hts]
    exact ih _ (fun m hm => hn m (by simp [hm])) (WFToks_applyStepT z ts n hz hts)

/-! ### acyclic tables: the two loops do not depend on the order of their visits -/

/-- every reference to a defined name points to a name of smaller rank: no cycles -/
def RankOK (rank : Bytes → Nat) (z : TVars) : Prop :=
  ∀ p ∈ z, ∀ m, Tok.ref m ∈ p.2 → m ∈ z.map Prod.fst → rank m < rank p.1

theorem RankOK_closeStepT (rank : Bytes → Nat) (z : TVars) (n : Bytes) (h : RankOK rank z) :
    RankOK rank (closeStepT z n) := by
  intro p hp m hm hk
  rw [closeStepT_keys] at hk
  unfold closeStepT at hp
  cases hl : lookupT n z with
  | none => rw [hl] at hp; exact h p hp m hm hk
  | some rs =>
    rw [hl] at hp
    obtain ⟨q, hq, rfl⟩ := List.mem_map.mp hp
    simp only at hm ⊢
    rcases mem_subst n rs q.2 m hm with h1 | h1
    · exact h q hq m h1.1 hk
    · have hnk : n ∈ z.map Prod.fst := List.mem_map.mpr ⟨(n, rs), lookupT_mem hl, rfl⟩
      exact Nat.lt_trans (h (n, rs) (lookupT_mem hl) m h1.1 hk) (h q hq n h1.2 hnk)

theorem closeStepT_comm (rank : Bytes → Nat) (z : TVars) (a b : Bytes) (h : RankOK rank z) :
    closeStepT (closeStepT z a) b = closeStepT (closeStepT z b) a := by
  by_cases hab : a = b
  · subst hab; rfl
  cases hA : lookupT a z with
  | none =>
    have e1 : closeStepT z a = z := by unfold closeStepT; rw [hA]
    have e2 : closeStepT (closeStepT z b) a = closeStepT z b := by
      unfold closeStepT
      cases hB : lookupT b z with
      | none => simp only [hA]
      | some B => simp only [lookupT_map, hA, Option.map_none]
    rw [e1, e2]
  | some A =>
    cases hB : lookupT b z with
    | none =>
      have e1 : closeStepT z b = z := by unfold closeStepT; rw [hB]
      have e2 : closeStepT (closeStepT z a) b = closeStepT z a := by
        unfold closeStepT
        simp only [hA, lookupT_map, hB, Option.map_none]
      rw [e1, e2]
    | some B =>
      have hak : a ∈ z.map Prod.fst := List.mem_map.mpr ⟨(a, A), lookupT_mem hA, rfl⟩
      have hbk : b ∈ z.map Prod.fst := List.mem_map.mpr ⟨(b, B), lookupT_mem hB, rfl⟩
      have l1 : closeStepT (closeStepT z a) b = z.map (fun p => (p.1, subst b (subst a A B) (subst a A p.2))) := by
        unfold closeStepT
        simp only [hA, lookupT_map, hB, Option.map_some, List.map_map, Function.comp_def]
      have l2 : closeStepT (closeStepT z b) a = z.map (fun p => (p.1, subst a (subst b B A) (subst b B p.2))) := by
        unfold closeStepT
        simp only [hB, lookupT_map, hA, Option.map_some, List.map_map, Function.comp_def]
      rw [l1, l2]
      apply List.map_congr_left
      intro p _
      congr 1
      by_cases haB : Tok.ref a ∈ B
      · -- then b is not referenced by A
        have hbA : Tok.ref b ∉ A := by
          intro hbA
          have r1 := h (b, B) (lookupT_mem hB) a haB hak
          have r2 := h (a, A) (lookupT_mem hA) b hbA hbk
          exact absurd (Nat.lt_trans r1 r2) (Nat.lt_irrefl _)
        rw [subst_noref b B A hbA]
        exact (subst_subst b a B A p.2 (Ne.symm hab) hbA).symm
      · rw [subst_noref a A B haB]
        exact subst_subst a b A B p.2 hab haB

/-- a fold over a permuted list gives the same state when steps commute on every state of an invariant -/
theorem foldl_perm_inv {α β} (f : β → α → β) (Inv : β → Prop) (hinv : ∀ z x, Inv z → Inv (f z x))
    (comm : ∀ z x y, Inv z → f (f z x) y = f (f z y) x) {l₁ l₂ : List α} (p : l₁.Perm l₂) :
    ∀ init, Inv init → l₁.foldl f init = l₂.foldl f init := by
  induction p with
  | nil => intros; rfl
  | cons x _ ih => intro init h0; simp only [List.foldl_cons]; exact ih _ (hinv _ _ h0)
  | swap x y l => intro init h0; simp only [List.foldl_cons]; rw [comm init y x h0]
  | trans _ _ ih1 ih2 => intro init h0; exact (ih1 init h0).trans (ih2 init h0)

theorem closeVarsT_perm (rank : Bytes → Nat) (z : TVars) (h : RankOK rank z) {o o' : List Bytes} (p : o.Perm o') :
    closeVarsT o z = closeVarsT o' z :=
  foldl_perm_inv closeStepT (RankOK rank) (fun z x hz => RankOK_closeStepT rank z x hz)
    (fun z x y hz => closeStepT_comm rank z x y hz) p z h

/-- no value refers to a visited defined name -/
def NoRefs (V : List Bytes) (z : TVars) : Prop :=
  ∀ p ∈ z, ∀ m ∈ V, m ∈ z.map Prod.fst → Tok.ref m ∉ p.2

theorem NoRefs_closeStepT (rank : Bytes → Nat) (V : List Bytes) (z : TVars) (n : Bytes) (hr : RankOK rank z)
    (h : NoRefs V z) : NoRefs (n :: V) (closeStepT z n) := by
  intro p hp m hm hk href
  rw [closeStepT_keys] at hk
  unfold closeStepT at hp
  cases hl : lookupT n z with
  | none =>
    rw [hl] at hp
    simp only [List.mem_cons] at hm
    rcases hm with rfl | hm
    · obtain ⟨v, hv⟩ := lookupT_isSome_of_key hk
      rw [hv] at hl; exact absurd hl (by simp)
    · exact h p hp m hm hk href
  | some rs =>
    rw [hl] at hp
    obtain ⟨q, hq, rfl⟩ := List.mem_map.mp hp
    simp only at href
    have hnk : n ∈ z.map Prod.fst := List.mem_map.mpr ⟨(n, rs), lookupT_mem hl, rfl⟩
    rcases mem_subst n rs q.2 m href with h1 | h1
    · simp only [List.mem_cons] at hm
      rcases hm with rfl | hm
      · exact h1.2 rfl
      · exact h q hq m hm hk h1.1
    · simp only [List.mem_cons] at hm
      rcases hm with rfl | hm
      · exact absurd (hr (m, rs) (lookupT_mem hl) m h1.1 hnk) (Nat.lt_irrefl _)
      · exact h (n, rs) (lookupT_mem hl) m hm hk h1.1

theorem closeVarsT_noRefs (rank : Bytes → Nat) (ord : List Bytes) :
    ∀ (V : List Bytes) (z : TVars), RankOK rank z → NoRefs V z → NoRefs (ord.reverse ++ V) (closeVarsT ord z) := by
  induction ord with
  | nil => intro V z _ h; exact h
  | cons n ns ih =>
    intro V z hr h
    have := ih (n :: V) (closeStepT z n) (RankOK_closeStepT rank z n hr) (NoRefs_closeStepT rank V z n hr h)
    simp only [List.reverse_cons, List.append_assoc, List.cons_append, List.nil_append]
    exact this

/-- no value refers to any defined name -/
def Closed (z : TVars) : Prop := ∀ p ∈ z, ∀ m ∈ z.map Prod.fst, Tok.ref m ∉ p.2

theorem closeVarsT_keys (ord : List Bytes) (z : TVars) : (closeVarsT ord z).map Prod.fst = z.map Prod.fst := by
  unfold closeVarsT
  induction ord generalizing z with
  | nil => rfl
  | cons n ns ih => simp only [List.foldl_cons]; rw [ih, closeStepT_keys]

/-- **after every defined name has been visited, in whatever order, no reference to a defined name is left** -/
theorem closeVarsT_closed (rank : Bytes → Nat) (ord : List Bytes) (z : TVars) (hr : RankOK rank z)
    (hall : ∀ k ∈ z.map Prod.fst, k ∈ ord) : Closed (closeVarsT ord z) := by
  intro p hp m hk
  have := closeVarsT_noRefs rank ord [] z hr (fun _ _ _ hm => by simp at hm)
  rw [closeVarsT_keys] at hk
  exact this p hp m (by simp [hall m hk]) (by rw [closeVarsT_keys]; exact hk)

theorem applyStepT_comm (z : TVars) (hc : Closed z) (ts : List Tok) (a b : Bytes) :
    applyStepT z (applyStepT z ts a) b = applyStepT z (applyStepT z ts b) a := by
  by_cases hab : a = b
  · subst hab; rfl
  unfold applyStepT
  cases hA : lookupT a z with
  | none => rfl
  | some A =>
    cases hB : lookupT b z with
    | none => rfl
    | some B =>
      simp only
      have hak : a ∈ z.map Prod.fst := List.mem_map.mpr ⟨(a, A), lookupT_mem hA, rfl⟩
      have hbk : b ∈ z.map Prod.fst := List.mem_map.mpr ⟨(b, B), lookupT_mem hB, rfl⟩
      have haB : Tok.ref a ∉ B := hc (b, B) (lookupT_mem hB) a hak
      have hbA : Tok.ref b ∉ A := hc (a, A) (lookupT_mem hA) b hbk
      rw [subst_subst a b A B ts hab haB, subst_noref b B A hbA]

theorem noref_subst (n : Bytes) (rs ts : List Tok) (h : Tok.ref n ∉ rs) : Tok.ref n ∉ subst n rs ts := by
  intro hm
  rcases mem_subst n rs ts n hm with h1 | h1
  · exact h1.2 rfl
  · exact h h1.1

theorem applyVarsT_noDefinedRefs (z : TVars) (hc : Closed z) (ord : List Bytes) :
    ∀ (V : List Bytes) (ts : List Tok), (∀ m ∈ V, m ∈ z.map Prod.fst → Tok.ref m ∉ ts) →
      ∀ m ∈ ord.reverse ++ V, m ∈ z.map Prod.fst → Tok.ref m ∉ applyVarsT ord z ts := by
  unfold applyVarsT
  induction ord with
  | nil => intro V ts h; simpa using h
  | cons n ns ih =>
    intro V ts h
    simp only [List.foldl_cons, List.reverse_cons, List.append_assoc, List.cons_append, List.nil_append]
    apply ih (n :: V)
    intro m hm hk
    unfold applyStepT
    cases hl : lookupT n z with
    | none =>
      simp only [List.mem_cons] at hm
      rcases hm with rfl | hm
      · obtain ⟨v, hv⟩ := lookupT_isSome_of_key hk
        rw [hv] at hl; exact absurd hl (by simp)
      · exact h m hm hk
    | some A =>
      simp only
      have hnk : n ∈ z.map Prod.fst := List.mem_map.mpr ⟨(n, A), lookupT_mem hl, rfl⟩
      simp only [List.mem_cons] at hm
      rcases hm with rfl | hm
      · exact noref_subst m A ts (hc (m, A) (lookupT_mem hl) m hnk)
      · intro href
        rcases mem_subst n A ts m href with h1 | h1
        · exact h m hm hk h1.1
        · exact hc (n, A) (lookupT_mem hl) m hk h1.1

theorem applyVarsT_perm (z : TVars) (hc : Closed z) (ts : List Tok) {o o' : List Bytes} (p : o.Perm o') :
    applyVarsT o z ts = applyVarsT o' z ts :=
  List.Perm.foldl_eq' p (fun x _ y _ s => applyStepT_comm z hc s x y) ts

end Crs.Parser
