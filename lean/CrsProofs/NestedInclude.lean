/-
  Includes of files that themselves include files (to any depth): the recursive inlining law (C05).
-/
import Crs.Parser
import CrsProofs.Lines
namespace Crs.Parser
open Crs Crs.Pat

/-- the text a list of lines contributes when every line is blank, a comment, a regular entry, or an include
    (without replacement list) that `inc` knows how to expand; `none`: some line is something else -/
def expandWith (inc : Bytes → Option Bytes) : List Bytes → Option Bytes
  | [] => some []
  | l :: ls =>
    let t := trimLeftSpTab l
    if isBlank t || comment? t then expandWith inc ls
    else if (definition? t).isSome then none
    else
      match include? t with
      | some (n, r) =>
        if r.isEmpty then
          match inc n, expandWith inc ls with
          | some a, some b => some (a ++ b)
          | _, _ => none
        else none
      | none =>
        if (includeExcept? t).isNone && (flags? t).isNone && (prefix? t).isNone && (suffix? t).isNone then
          (expandWith inc ls).map (fun b => t ++ ['\n'] ++ b)
        else none

/-- the text file `name` stands for, following nested includes to depth `d` -/
def expandAt (fs : Fs) : Nat → Bytes → Option Bytes
  | 0, _ => none
  | d + 1, name =>
    match fs.find name with
    | some c => expandWith (expandAt fs d) (scanLines c)
    | none => none

theorem buildPairs_nil : buildPairs [] = some [] := by decide

theorem parseLines_expand (fs : Fs) (o1 o2 : Ord) (d : Nat) :
    ∀ (fuel : Nat), d ≤ fuel → ∀ (ls : List Bytes) (text : Bytes), expandWith (expandAt fs d) ls = some text →
      ∀ (st : PState) (rest : List Bytes),
        parseLines fs o1 o2 fuel st (ls ++ rest) = parseLines fs o1 o2 fuel { st with out := st.out ++ text } rest := by
  induction d with
  | zero =>
    intro fuel _ ls
    induction ls with
    | nil => intro text h st rest; simp only [expandWith, Option.some.injEq] at h; subst h; simp
    | cons l ls ih =>
      intro text h st rest
      simp only [expandWith] at h
      simp only [List.cons_append, parseLines]
      by_cases hbc : (isBlank (trimLeftSpTab l) || comment? (trimLeftSpTab l)) = true
      · simp only [hbc, if_true] at h
        rcases Bool.or_eq_true_iff.mp hbc with hb | hc
        · simp only [hb, if_true]; exact ih text h st rest
        · by_cases hb : isBlank (trimLeftSpTab l) = true
          · simp only [hb, if_true]; exact ih text h st rest
          · simp only [hb, hc, Bool.false_eq_true, if_false, if_true]; exact ih text h st rest
      · have hb : isBlank (trimLeftSpTab l) = false := by
          cases h1 : isBlank (trimLeftSpTab l) <;> simp_all
        have hc : comment? (trimLeftSpTab l) = false := by
          cases h1 : comment? (trimLeftSpTab l) <;> simp_all
        simp only [hb, hc, Bool.or_self, Bool.false_eq_true, if_false] at h ⊢
        cases hd : definition? (trimLeftSpTab l) with
        | some p => simp [hd] at h
        | none =>
          simp only [hd, Option.isSome_none, Bool.false_eq_true, if_false] at h ⊢
          cases hi : include? (trimLeftSpTab l) with
          | some p =>
            obtain ⟨n, r⟩ := p
            simp only [hi] at h
            split at h
            · simp [expandAt] at h
            · simp at h
          | none =>
            simp only [hi] at h ⊢
            split at h
            · rename_i hall
              simp only [Bool.and_eq_true, Option.isNone_iff_eq_none] at hall
              obtain ⟨⟨⟨hx, hf⟩, hp⟩, hs⟩ := hall
              simp only [hx, hf, hp, hs]
              cases he : expandWith (expandAt fs 0) ls with
              | none => simp [he] at h
              | some b =>
                simp only [he, Option.map_some, Option.some.injEq] at h
                subst h
                rw [ih b he]
                simp [List.append_assoc]
            · simp at h
  | succ d ihd =>
    intro fuel hfuel ls
    induction ls with
    | nil => intro text h st rest; simp only [expandWith, Option.some.injEq] at h; subst h; simp
    | cons l ls ih =>
      intro text h st rest
      simp only [expandWith] at h
      simp only [List.cons_append, parseLines]
      by_cases hbc : (isBlank (trimLeftSpTab l) || comment? (trimLeftSpTab l)) = true
      · simp only [hbc, if_true] at h
        by_cases hb : isBlank (trimLeftSpTab l) = true
        · simp only [hb, if_true]; exact ih text h st rest
        · have hc : comment? (trimLeftSpTab l) = true := by
            rcases Bool.or_eq_true_iff.mp hbc with h1 | h1
            · exact absurd h1 hb
            · exact h1
          simp only [hb, hc, Bool.false_eq_true, if_false, if_true]; exact ih text h st rest
      · have hb : isBlank (trimLeftSpTab l) = false := by
          cases h1 : isBlank (trimLeftSpTab l) <;> simp_all
        have hc : comment? (trimLeftSpTab l) = false := by
          cases h1 : comment? (trimLeftSpTab l) <;> simp_all
        simp only [hb, hc, Bool.or_self, Bool.false_eq_true, if_false] at h ⊢
        cases hd : definition? (trimLeftSpTab l) with
        | some p => simp [hd] at h
        | none =>
          simp only [hd, Option.isSome_none, Bool.false_eq_true, if_false] at h ⊢
          cases hi : include? (trimLeftSpTab l) with
          | some p =>
            obtain ⟨n, r⟩ := p
            simp only [hi] at h ⊢
            by_cases hr : r.isEmpty = true
            · have hr0 : r = [] := by simpa using hr
              subst hr0
              simp only [List.isEmpty_nil, if_true] at h
              cases ha : expandAt fs (d + 1) n with
              | none => simp [ha] at h
              | some a =>
                cases hbb : expandWith (expandAt fs (d + 1)) ls with
                | none => simp [ha, hbb] at h
                | some b =>
                  simp only [ha, hbb, Option.some.injEq] at h
                  subst h
                  -- the included file
                  simp only [expandAt] at ha
                  cases hfind : fs.find n with
                  | none => simp [hfind] at ha
                  | some c =>
                    simp only [hfind] at ha
                    obtain ⟨f', rfl⟩ : ∃ f', fuel = f' + 1 := ⟨fuel - 1, by omega⟩
                    have hin := ihd f' (by omega) (scanLines c) a ha { vars := [] } []
                    simp only [List.append_nil, List.nil_append] at hin
                    simp only [buildPairs_nil, parseFile, hfind, parse, hin, parseLines]
                    simp only [List.isEmpty_nil, if_true, Bool.not_true, Bool.false_eq_true, if_false, wrapInclude,
                      Bool.and_self, replaceSuffixes]
                    rw [ih b hbb]
                    simp [List.append_assoc]
            · simp [hr] at h
          | none =>
            simp only [hi] at h ⊢
            split at h
            · rename_i hall
              simp only [Bool.and_eq_true, Option.isNone_iff_eq_none] at hall
              obtain ⟨⟨⟨hx, hf⟩, hp⟩, hs⟩ := hall
              simp only [hx, hf, hp, hs]
              cases he : expandWith (expandAt fs (d + 1)) ls with
              | none => simp [he] at h
              | some b =>
                simp only [he, Option.map_some, Option.some.injEq] at h
                subst h
                rw [ih b he]
                simp [List.append_assoc]
            · simp at h

end Crs.Parser
