/-
  Re-emission lemmas: a directive line written by the formatter is recognised again as the same directive with
  the same arguments (C09 idempotence, C10).
-/
import Crs.Format
import CrsProofs.Trim
namespace Crs.Format
open Crs Crs.Pat

/-! ### shape of what the recognisers return -/

theorem tok_fst_nonWs (b : Bytes) : ∀ c ∈ (tok b).1, nonWs c = true := by
  intro c hc
  unfold tok at hc
  simp only at hc
  induction b with
  | nil => simp at hc
  | cons a as ih =>
    by_cases ha : nonWs a = true
    · simp only [List.takeWhile, ha, List.mem_cons] at hc
      rcases hc with rfl | hc
      · exact ha
      · exact ih hc
    · simp [List.takeWhile, ha] at hc

theorem blockStart?_shape (l kw arg : Bytes) (h : blockStart? l = some (kw, arg)) :
    (kw = b!"assemble" ∨ kw = b!"cmdline") ∧ Trimmed arg := by
  unfold blockStart? at h
  split at h
  · simp at h
  · rename_i r _
    simp only at h
    have key : ∀ k : Bytes, ∀ res : Bytes × Bytes,
        (match stripPrefix? k (dropWs r) with
          | none => none
          | some rest => match rest with
            | [] => some (k, [])
            | c :: _ => if isWs c then some (k, trimWs rest) else none) = some res →
        res.1 = k ∧ Trimmed res.2 := by
      intro k res hk
      split at hk
      · simp at hk
      · rename_i rest _
        split at hk
        · simp only [Option.some.injEq] at hk; subst hk; exact ⟨rfl, by constructor <;> simp⟩
        · split at hk
          · simp only [Option.some.injEq] at hk; subst hk; exact ⟨rfl, trimWs_trimmed _⟩
          · simp at hk
    split at h
    · rename_i x hx
      simp only [Option.some.injEq] at h
      subst h
      obtain ⟨h1, h2⟩ := key b!"assemble" (kw, arg) hx
      exact ⟨Or.inl h1, h2⟩
    · obtain ⟨h1, h2⟩ := key b!"cmdline" (kw, arg) h
      exact ⟨Or.inr h1, h2⟩

theorem valueLine?_shape (ch : Char) (l v : Bytes) (h : valueLine? ch l = some v) : Trimmed v ∧ v ≠ [] := by
  unfold valueLine? at h
  split at h
  · simp at h
  · simp only at h
    split at h
    · simp at h
    · rename_i hne
      simp only [Option.some.injEq] at h
      subst h
      exact ⟨trimWs_trimmed _, by intro e; rw [e] at hne; simp at hne⟩

/-! ### indentation -/

theorem trimLeftSpTab_indentBy (k : Nat) (e : Bytes) (h : ∀ c, e.head? = some c → isSpTab c = false) :
    trimLeftSpTab (indentBy k e) = e := by
  unfold indentBy trimLeftSpTab
  generalize 2 * k = n
  induction n with
  | zero =>
    simp only [List.replicate_zero, List.nil_append]
    cases e with
    | nil => rfl
    | cons c cs => simp [List.dropWhile, h c rfl]
  | succ n ih => simp [List.replicate_succ, List.dropWhile, isSpTab, ih]

theorem trimLeftSpTab_of_head (e : Bytes) (h : ∀ c, e.head? = some c → isSpTab c = false) : trimLeftSpTab e = e := by
  cases e with
  | nil => rfl
  | cons c cs => simp [trimLeftSpTab, List.dropWhile, h c rfl]

theorem trimLeftSpTab_head (l : Bytes) : ∀ c, (trimLeftSpTab l).head? = some c → isSpTab c = false := by
  induction l with
  | nil => simp [trimLeftSpTab]
  | cons a as ih =>
    intro c hc
    simp only [trimLeftSpTab, List.dropWhile] at hc
    by_cases ha : isSpTab a = true
    · simp only [ha] at hc; exact ih c hc
    · simp only [ha] at hc
      simp only [List.head?_cons, Option.some.injEq] at hc
      subst hc; simpa using ha

theorem trimLeftSpTab_idem (l : Bytes) : trimLeftSpTab (trimLeftSpTab l) = trimLeftSpTab l :=
  trimLeftSpTab_of_head _ (trimLeftSpTab_head l)

/-! ### re-emission: block start -/

def emitStart (kw arg : Bytes) : Bytes := b!"##!> " ++ kw ++ (if arg.isEmpty then [] else ' ' :: arg)

theorem blockStart?_emit (kw arg : Bytes) (hkw : kw = b!"assemble" ∨ kw = b!"cmdline") (harg : Trimmed arg) :
    blockStart? (emitStart kw arg) = some (kw, arg) := by
  unfold emitStart
  by_cases ha : arg.isEmpty = true
  · have : arg = [] := by simpa using ha
    subst this
    rcases hkw with rfl | rfl <;> decide
  · simp only [ha, Bool.false_eq_true, if_false]
    have hne : arg ≠ [] := by intro e; rw [e] at ha; simp at ha
    have htr : trimWs (' ' :: arg) = arg := by
      have := trimWs_ws_append [' '] arg (by intro c hc; simp at hc; subst hc; rfl) harg
      simpa using this
    rcases hkw with rfl | rfl
    · simp [blockStart?, startMarker, stripPrefix?, dropWs, List.dropWhile, isWs, htr]
    · simp [blockStart?, startMarker, stripPrefix?, dropWs, List.dropWhile, isWs, htr]

/-! ### re-emission: flags / prefix / suffix lines -/

theorem valueLine?_emit (ch : Char) (v : Bytes) (hv : Trimmed v) (hne : v ≠ []) :
    valueLine? ch (marker ++ [ch] ++ ' ' :: v) = some v := by
  unfold valueLine?
  rw [stripPrefix?_append]
  simp only
  have htr : trimWs (' ' :: v) = v := by
    have := trimWs_ws_append [' '] v (by intro c hc; simp at hc; subst hc; rfl) hv
    simpa using this
  rw [htr]
  have : v.isEmpty = false := by cases v with | nil => exact absurd rfl hne | cons _ _ => rfl
  simp [this]

/-! ### re-emission: definitions -/

theorem takeWhile_append_stop {α} (p : α → Bool) (a : List α) (c : α) (t : List α) (ha : ∀ x ∈ a, p x = true) (hc : p c = false) :
    (a ++ c :: t).takeWhile p = a ∧ (a ++ c :: t).dropWhile p = c :: t := by
  induction a with
  | nil => simp [List.takeWhile, List.dropWhile, hc]
  | cons x xs ih =>
    obtain ⟨i1, i2⟩ := ih (fun y hy => ha y (by simp [hy]))
    simp [List.takeWhile, List.dropWhile, ha x (by simp), i1, i2]

theorem takeWhile_all {α} (p : α → Bool) (a : List α) (ha : ∀ x ∈ a, p x = true) :
    a.takeWhile p = a ∧ a.dropWhile p = [] := by
  induction a with
  | nil => simp
  | cons x xs ih =>
    obtain ⟨i1, i2⟩ := ih (fun y hy => ha y (by simp [hy]))
    simp [List.takeWhile, List.dropWhile, ha x (by simp), i1, i2]

theorem mem_takeWhile_imp' {α} (p : α → Bool) (l : List α) (x : α) (h : x ∈ l.takeWhile p) : p x = true := by
  induction l with
  | nil => simp at h
  | cons y ys ih =>
    by_cases hy : p y = true
    · simp only [List.takeWhile, hy, List.mem_cons] at h
      rcases h with rfl | h
      · exact hy
      · exact ih h
    · simp [List.takeWhile, hy] at h

theorem dropWs_sp_cons (x : Bytes) (h : ∀ c, x.head? = some c → isWs c = false) : dropWs (' ' :: x) = x := by
  rw [dropWs_ws_cons ' ' x rfl]; exact dropWs_of_head x h

theorem definition?_shape (l n v : Bytes) (h : definition? l = some (n, v)) :
    n ≠ [] ∧ (∀ c ∈ n, isNameCh c = true) ∧ v ≠ [] ∧ (∀ c ∈ v, nonWs c = true) := by
  unfold definition? at h
  split at h
  · simp at h
  · try simp only at h
    split at h
    · simp at h
    · split at h
      · simp at h
      · split at h
        · simp at h
        · try simp only at h
          split at h
          · simp at h
          · rename_i hname
            split at h
            · simp at h
            · split at h
              · simp at h
              · try simp only at h
                split at h
                · simp at h
                · rename_i hval
                  split at h
                  · simp only [Option.some.injEq, Prod.mk.injEq] at h
                    obtain ⟨rfl, rfl⟩ := h
                    refine ⟨by intro e; rw [e] at hname; simp at hname, fun c hc => mem_takeWhile_imp' _ _ c hc, by intro e; rw [e] at hval; simp at hval, tok_fst_nonWs _⟩
                  · simp at h

def emitDefine (n v : Bytes) : Bytes := b!"##!> define " ++ n ++ ' ' :: v

theorem isNameCh_not_ws (c : Char) (h : isNameCh c = true) : isWs c = false := by
  cases hw : isWs c with
  | false => rfl
  | true =>
    simp only [isWs, Bool.or_eq_true, beq_iff_eq] at hw
    rcases hw with (((rfl | rfl) | rfl) | rfl) | rfl <;> simp [isNameCh, isLower, isUpper, isDigit] at h

theorem definition?_emit (n v : Bytes) (hn : n ≠ []) (hnc : ∀ c ∈ n, isNameCh c = true) (hv : v ≠ []) (hvc : ∀ c ∈ v, nonWs c = true) :
    definition? (emitDefine n v) = some (n, v) := by
  unfold emitDefine definition?
  have e1 : stripPrefix? startMarker (b!"##!> define " ++ n ++ ' ' :: v) = some (b!" define " ++ n ++ ' ' :: v) := by
    simp [startMarker, stripPrefix?]
  rw [e1]
  simp only
  have e2 : dropWs (b!" define " ++ n ++ ' ' :: v) = b!"define " ++ n ++ ' ' :: v := by
    simp [dropWs, List.dropWhile, isWs]
  rw [e2]
  have e3 : stripPrefix? b!"define" (b!"define " ++ n ++ ' ' :: v) = some (' ' :: (n ++ ' ' :: v)) := by
    simp [stripPrefix?]
  rw [e3]
  simp only [isWs, beq_self_eq_true, Bool.or_true, Bool.not_true, Bool.false_eq_true, if_false]
  have e4 : dropWs (' ' :: (n ++ ' ' :: v)) = n ++ ' ' :: v := by
    obtain ⟨c, cs, rfl⟩ : ∃ c cs, n = c :: cs := by cases n with | nil => exact absurd rfl hn | cons c cs => exact ⟨c, cs, rfl⟩
    have : isWs c = false := isNameCh_not_ws c (hnc c (by simp))
    exact dropWs_sp_cons _ (by intro d hd; simp at hd; subst hd; exact this)
  rw [e4]
  have hsp : isNameCh ' ' = false := by decide
  obtain ⟨t1, t2⟩ := takeWhile_append_stop isNameCh n ' ' v hnc hsp
  rw [t1, t2]
  have hne : n.isEmpty = false := by cases n with | nil => exact absurd rfl hn | cons _ _ => rfl
  simp only [hne, Bool.false_eq_true, if_false, isWs, beq_self_eq_true, Bool.or_true, Bool.not_true]
  have e5 : dropWs (' ' :: v) = v := by
    obtain ⟨c, cs, rfl⟩ : ∃ c cs, v = c :: cs := by cases v with | nil => exact absurd rfl hv | cons c cs => exact ⟨c, cs, rfl⟩
    have : isWs c = false := by have := hvc c (by simp); simpa [nonWs] using this
    exact dropWs_sp_cons _ (by intro d hd; simp at hd; subst hd; exact this)
  rw [e5]
  obtain ⟨u1, u2⟩ := takeWhile_all nonWs v hvc
  unfold tok
  simp only [u1, u2]
  have hve : v.isEmpty = false := by cases v with | nil => exact absurd rfl hv | cons _ _ => rfl
  simp [hve, dropWs]

/-! ### re-emission: include -/

theorem splitLast_go_mem (t pre post : Bytes) (h : splitLastDashDashFrom1.go t = some (pre, post)) : ∀ c ∈ pre, c ∈ t := by
  induction t generalizing pre post with
  | nil => simp [splitLastDashDashFrom1.go] at h
  | cons x r ih =>
    cases r with
    | nil => simp [splitLastDashDashFrom1.go] at h
    | cons y r =>
      simp only [splitLastDashDashFrom1.go] at h
      split at h
      · rename_i pre' post' hg
        simp only [Option.some.injEq, Prod.mk.injEq] at h
        obtain ⟨rfl, rfl⟩ := h
        intro c hc
        simp only [List.mem_cons] at hc
        rcases hc with rfl | hc
        · simp
        · have := ih pre' post' hg c hc
          simp only [List.mem_cons] at this ⊢
          right; exact this
      · split at h
        · simp only [Option.some.injEq, Prod.mk.injEq] at h
          obtain ⟨rfl, rfl⟩ := h
          simp
        · simp at h

theorem splitLast_shape (t p a : Bytes) (h : splitLastDashDashFrom1 t = some (p, a)) : p ≠ [] ∧ ∀ c ∈ p, c ∈ t := by
  unfold splitLastDashDashFrom1 at h
  cases t with
  | nil => simp at h
  | cons c rest =>
    simp only at h
    split at h
    · rename_i pre post hg
      simp only [Option.some.injEq, Prod.mk.injEq] at h
      obtain ⟨rfl, rfl⟩ := h
      refine ⟨by simp, ?_⟩
      intro d hd
      simp only [List.mem_cons] at hd ⊢
      rcases hd with rfl | hd
      · left; rfl
      · right; exact splitLast_go_mem rest pre post hg d hd
    · simp at h

theorem include?_shape (l n r : Bytes) (h : include? l = some (n, r)) :
    n ≠ [] ∧ (∀ c ∈ n, nonWs c = true) ∧ Trimmed r := by
  unfold include? at h
  split at h
  · simp at h
  · try simp only at h
    split at h
    · simp at h
    · split at h
      · simp at h
      · split at h
        · simp at h
        · try simp only at h
          split at h
          · simp at h
          · rename_i hne
            split at h
            · simp only [Option.some.injEq, Prod.mk.injEq] at h
              obtain ⟨rfl, rfl⟩ := h
              refine ⟨by intro e; apply hne; rw [e]; rfl, tok_fst_nonWs _, ?_⟩
              exact ⟨by simp, by simp⟩
            · split at h
              · simp only [Option.some.injEq, Prod.mk.injEq] at h
                obtain ⟨rfl, rfl⟩ := h
                refine ⟨by intro e; apply hne; rw [e]; rfl, tok_fst_nonWs _, trimWs_trimmed _⟩
              · split at h
                · rename_i p after hs
                  simp only [Option.some.injEq, Prod.mk.injEq] at h
                  obtain ⟨rfl, rfl⟩ := h
                  obtain ⟨h1, h2⟩ := splitLast_shape _ _ _ hs
                  exact ⟨h1, fun c hc => tok_fst_nonWs _ c (h2 c hc), trimWs_trimmed _⟩
                · simp at h

def emitInclude (n r : Bytes) : Bytes := b!"##!> include " ++ n ++ (if r.isEmpty then [] else b!" -- " ++ r)

theorem nonWs_head (n : Bytes) (hnc : ∀ c ∈ n, nonWs c = true) (t : Bytes) (hn : n ≠ []) :
    ∀ c, (n ++ t).head? = some c → isWs c = false := by
  intro c hc
  cases n with
  | nil => exact absurd rfl hn
  | cons d ds =>
    simp at hc; subst hc
    have := hnc d (by simp)
    simpa [nonWs] using this

theorem tok_append_sp (n t : Bytes) (hnc : ∀ c ∈ n, nonWs c = true) : tok (n ++ ' ' :: t) = (n, ' ' :: t) := by
  unfold tok
  obtain ⟨a, b⟩ := takeWhile_append_stop nonWs n ' ' t hnc (by decide)
  rw [a, b]

theorem tok_all (n : Bytes) (hnc : ∀ c ∈ n, nonWs c = true) : tok n = (n, []) := by
  unfold tok
  obtain ⟨a, b⟩ := takeWhile_all nonWs n hnc
  rw [a, b]

theorem include?_emit (n r : Bytes) (hn : n ≠ []) (hnc : ∀ c ∈ n, nonWs c = true) (hr : Trimmed r) :
    include? (emitInclude n r) = some (n, r) := by
  unfold emitInclude include?
  have hne : n.isEmpty = false := by cases n with | nil => exact absurd rfl hn | cons _ _ => rfl
  by_cases hre : r.isEmpty = true
  · have hr0 : r = [] := by simpa using hre
    subst hr0
    simp only [List.isEmpty_nil, if_true, List.append_nil]
    have e1 : stripPrefix? startMarker (b!"##!> include " ++ n) = some (b!" include " ++ n) := by
      simp [startMarker, stripPrefix?]
    rw [e1]
    simp only
    have e2 : dropWs (b!" include " ++ n) = b!"include " ++ n := by
      simp [dropWs, List.dropWhile, isWs]
    rw [e2]
    have e3 : stripPrefix? b!"include" (b!"include " ++ n) = some (' ' :: n) := by simp [stripPrefix?]
    rw [e3]
    simp only [show isWs ' ' = true from rfl, Bool.not_true, Bool.false_eq_true, if_false]
    have e4 : dropWs (' ' :: n) = n := dropWs_sp_cons _ (by simpa using nonWs_head n hnc [] hn)
    rw [e4, tok_all n hnc]
    simp [hne, dropWs]
  · have hre' : r.isEmpty = false := by simpa using hre
    simp only [hre', Bool.false_eq_true, if_false]
    have e1 : stripPrefix? startMarker (b!"##!> include " ++ n ++ (b!" -- " ++ r)) = some (b!" include " ++ n ++ (b!" -- " ++ r)) := by
      simp [startMarker, stripPrefix?]
    rw [e1]
    simp only
    have e2 : dropWs (b!" include " ++ n ++ (b!" -- " ++ r)) = b!"include " ++ n ++ (b!" -- " ++ r) := by
      simp [dropWs, List.dropWhile, isWs]
    rw [e2]
    have e3 : stripPrefix? b!"include" (b!"include " ++ n ++ (b!" -- " ++ r)) = some (' ' :: (n ++ ' ' :: (b!"-- " ++ r))) := by simp [stripPrefix?]
    rw [e3]
    simp only [show isWs ' ' = true from rfl, Bool.not_true, Bool.false_eq_true, if_false]
    have e4 : dropWs (' ' :: (n ++ ' ' :: (b!"-- " ++ r))) = n ++ ' ' :: (b!"-- " ++ r) := dropWs_sp_cons _ (nonWs_head n hnc _ hn)
    rw [e4, tok_append_sp n _ hnc]
    simp only [hne, Bool.false_eq_true, if_false]
    have e5 : dropWs (' ' :: (b!"-- " ++ r)) = b!"-- " ++ r := dropWs_sp_cons _ (by intro c hc; simp at hc; subst hc; rfl)
    rw [e5]
    have e6 : (b!"-- " ++ r).isEmpty = false := rfl
    simp only [e6, Bool.false_eq_true, if_false]
    have e7 : stripPrefix? b!"--" (b!"-- " ++ r) = some (' ' :: r) := by simp [stripPrefix?]
    rw [e7]
    simp only [Option.some.injEq, Prod.mk.injEq, true_and]
    have := trimWs_ws_append [' '] r (by intro c hc; simp at hc; subst hc; rfl) hr
    simpa using this

/-! ### re-emission: include-except -/

theorem sdd_eq (l pre post : Bytes) (h : splitDashDash l = some (pre, post)) : l = pre ++ '-' :: '-' :: post := by
  induction l generalizing pre post with
  | nil => simp [splitDashDash] at h
  | cons c t ih =>
    cases t with
    | nil => simp [splitDashDash] at h
    | cons d rest =>
      simp only [splitDashDash] at h
      split at h
      · rename_i hcd
        simp only [Bool.and_eq_true, beq_iff_eq] at hcd
        simp only [Option.some.injEq, Prod.mk.injEq] at h
        obtain ⟨rfl, rfl⟩ := h
        rw [hcd.1, hcd.2]; rfl
      · split at h
        · rename_i pre' post' hr
          simp only [Option.some.injEq, Prod.mk.injEq] at h
          obtain ⟨rfl, rfl⟩ := h
          rw [ih pre' post' hr]; rfl
        · simp at h

theorem sdd_pre_none (l pre post : Bytes) (h : splitDashDash l = some (pre, post)) : splitDashDash pre = none := by
  induction l generalizing pre post with
  | nil => simp [splitDashDash] at h
  | cons c t ih =>
    cases t with
    | nil => simp [splitDashDash] at h
    | cons d rest =>
      simp only [splitDashDash] at h
      split at h
      · simp only [Option.some.injEq, Prod.mk.injEq] at h
        obtain ⟨rfl, rfl⟩ := h
        rfl
      · rename_i hcd
        split at h
        · rename_i pre' post' hr
          simp only [Option.some.injEq, Prod.mk.injEq] at h
          obtain ⟨rfl, rfl⟩ := h
          have i1 := ih pre' post' hr
          have e := sdd_eq _ _ _ hr
          cases pre' with
          | nil => rfl
          | cons d' p'' =>
            simp only [List.cons_append, List.cons.injEq] at e
            obtain ⟨rfl, _⟩ := e
            simp only [splitDashDash, hcd, i1]
            simp
        · simp at h

theorem sdd_none_prefix (a b : Bytes) (h : splitDashDash (a ++ b) = none) : splitDashDash a = none := by
  induction a with
  | nil => rfl
  | cons c t ih =>
    cases t with
    | nil => rfl
    | cons d rest =>
      simp only [List.cons_append, splitDashDash] at h ⊢
      split at h
      · simp at h
      · rename_i hcd
        simp only [hcd, Bool.false_eq_true, if_false]
        split at h
        · simp at h
        · rename_i hr
          have := ih hr
          simp only [this]

theorem sdd_emit (x tl : Bytes) (h : splitDashDash x = none) :
    splitDashDash (x ++ ' ' :: '-' :: '-' :: tl) = some (x ++ [' '], tl) := by
  induction x with
  | nil => simp [splitDashDash]
  | cons c t ih =>
    cases t with
    | nil =>
      simp only [List.cons_append, List.nil_append, splitDashDash]
      simp
    | cons d rest =>
      simp only [splitDashDash] at h
      split at h
      · simp at h
      · rename_i hcd
        split at h
        · simp at h
        · rename_i hr
          have := ih hr
          simp only [List.cons_append] at this ⊢
          simp only [splitDashDash, hcd, this]
          simp

theorem includeExcept?_shape (l n x r : Bytes) (h : includeExcept? l = some (n, x, r)) :
    n ≠ [] ∧ (∀ c ∈ n, nonWs c = true) ∧ Trimmed x ∧ splitDashDash x = none ∧ Trimmed r := by
  unfold includeExcept? at h
  split at h
  · simp at h
  · try simp only at h
    split at h
    · simp at h
    · split at h
      · simp at h
      · split at h
        · simp at h
        · try simp only at h
          split at h
          · simp at h
          · rename_i hne
            have hn1 : ∀ (e : (tok (dropWs (_ :: _))).fst = []), False := fun e => by apply hne; rw [e]; rfl
            split at h
            · rename_i pre after hs
              simp only [Option.some.injEq, Prod.mk.injEq] at h
              obtain ⟨rfl, rfl, rfl⟩ := h
              have e := sdd_eq _ _ _ hs
              have hpn := sdd_pre_none _ _ _ hs
              refine ⟨fun e => hn1 e, tok_fst_nonWs _, ⟨?_, trimRightWs_last _⟩, ?_, trimWs_trimmed _⟩
              · apply trimRightWs_head
                intro c hc
                apply dropWs_head (tok (dropWs (_ :: _))).snd c
                rw [e]
                cases pre with
                | nil => simp at hc
                | cons a as => simpa using hc
              · obtain ⟨w, hw⟩ := trimRightWs_prefix pre
                apply sdd_none_prefix _ w
                rw [hw]; exact hpn
            · rename_i hs
              simp only [Option.some.injEq, Prod.mk.injEq] at h
              obtain ⟨rfl, rfl, rfl⟩ := h
              refine ⟨fun e => hn1 e, tok_fst_nonWs _, ⟨trimRightWs_head _ (dropWs_head _), trimRightWs_last _⟩, ?_, ⟨by simp, by simp⟩⟩
              obtain ⟨w, hw⟩ := trimRightWs_prefix (dropWs (tok (dropWs (_ :: _))).snd)
              apply sdd_none_prefix _ w
              rw [hw]; exact hs

def emitIE (n x r : Bytes) : Bytes :=
  b!"##!> include-except " ++ n ++ ' ' :: x ++ (if r.isEmpty then [] else b!" -- " ++ r)

theorem includeExcept?_emit (n x r : Bytes) (hn : n ≠ []) (hnc : ∀ c ∈ n, nonWs c = true)
    (hx : Trimmed x) (hxd : splitDashDash x = none) (hr : Trimmed r) :
    includeExcept? (emitIE n x r) = some (n, x, r) := by
  unfold emitIE includeExcept?
  have hne : n.isEmpty = false := by cases n with | nil => exact absurd rfl hn | cons _ _ => rfl
  generalize htl : (if r.isEmpty then [] else b!" -- " ++ r) = tl
  have e1 : stripPrefix? startMarker (b!"##!> include-except " ++ n ++ ' ' :: x ++ tl) = some (b!" include-except " ++ n ++ ' ' :: x ++ tl) := by
    simp [startMarker, stripPrefix?]
  rw [e1]
  simp only
  have e2 : dropWs (b!" include-except " ++ n ++ ' ' :: x ++ tl) = b!"include-except " ++ n ++ ' ' :: x ++ tl := by
    simp [dropWs, List.dropWhile, isWs]
  rw [e2]
  have e3 : stripPrefix? b!"include-except" (b!"include-except " ++ n ++ ' ' :: x ++ tl) = some (' ' :: (n ++ ' ' :: (x ++ tl))) := by simp [stripPrefix?]
  rw [e3]
  simp only [show isWs ' ' = true from rfl, Bool.not_true, Bool.false_eq_true, if_false]
  have e4 : dropWs (' ' :: (n ++ ' ' :: (x ++ tl))) = n ++ ' ' :: (x ++ tl) := dropWs_sp_cons _ (nonWs_head n hnc _ hn)
  rw [e4, tok_append_sp n _ hnc]
  simp only [hne, Bool.false_eq_true, if_false]
  by_cases hre : r.isEmpty = true
  · have hr0 : r = [] := by simpa using hre
    subst hr0
    simp only [List.isEmpty_nil, if_true] at htl
    subst htl
    simp only [List.append_nil]
    rw [dropWs_sp_cons x hx.1, hxd]
    simp only [Option.some.injEq, Prod.mk.injEq, true_and, and_true]
    exact trimRightWs_of_last x hx.2
  · have hre' : r.isEmpty = false := by simpa using hre
    simp only [hre', Bool.false_eq_true, if_false] at htl
    subst htl
    have htr : trimWs (' ' :: r) = r := by
      have := trimWs_ws_append [' '] r (by intro c hc; simp at hc; subst hc; rfl) hr
      simpa using this
    cases x with
    | nil =>
      have : dropWs (' ' :: ([] ++ b!" -- " ++ r)) = '-' :: '-' :: ' ' :: r := by
        simp [dropWs, List.dropWhile, isWs]
      simp only [List.nil_append] at this ⊢
      rw [this]
      simp only [splitDashDash, beq_self_eq_true, Bool.and_self, if_true, htr]
      rfl
    | cons a as =>
      have hd : dropWs (' ' :: ((a :: as) ++ (b!" -- " ++ r))) = (a :: as) ++ ' ' :: '-' :: '-' :: ' ' :: r :=
        dropWs_sp_cons _ (by intro c hc; simp at hc; subst hc; exact hx.1 _ rfl)
      rw [hd, sdd_emit _ _ hxd]
      simp only [htr, trimRightWs_snoc_sp, trimRightWs_of_last _ hx.2]

end Crs.Format
