/-
  `sortNames` (the model of `sort.Strings` on the names of the definitions): whatever order the names are collected
  in, the sorted list is the same. This is what makes the visiting order of `expandDefinitions` a function of the
  file since the repair of D28.
-/
import Crs.Parser
namespace Crs.Parser
open Crs

theorem nameLt_irrefl (a : Bytes) : nameLt a a = false := by
  induction a with
  | nil => rfl
  | cons c a ih => simp [nameLt, ih]

theorem nameLt_asymm {a b : Bytes} (h : nameLt a b = true) : nameLt b a = false := by
  induction a generalizing b with
  | nil => cases b <;> simp [nameLt] at h ⊢
  | cons c a ih =>
    cases b with
    | nil => simp [nameLt] at h
    | cons d b =>
      simp only [nameLt] at h ⊢
      by_cases h1 : c.toNat < d.toNat
      · have : ¬ d.toNat < c.toNat := by omega
        simp [this, h1]
      · by_cases h2 : d.toNat < c.toNat
        · simp [h1, h2] at h
        · simp only [h1, h2, if_false] at h ⊢
          exact ih h

theorem nameLt_trans {a b c : Bytes} (h1 : nameLt a b = true) (h2 : nameLt b c = true) : nameLt a c = true := by
  induction a generalizing b c with
  | nil =>
    cases b with
    | nil => simp [nameLt] at h1
    | cons _ _ => cases c with
      | nil => simp [nameLt] at h2
      | cons _ _ => rfl
  | cons x a ih =>
    cases b with
    | nil => simp [nameLt] at h1
    | cons y b =>
      cases c with
      | nil => simp [nameLt] at h2
      | cons z c =>
        simp only [nameLt] at h1 h2 ⊢
        by_cases hxy : x.toNat < y.toNat
        · by_cases hyz : y.toNat < z.toNat
          · have : x.toNat < z.toNat := by omega
            simp [this]
          · by_cases hzy : z.toNat < y.toNat
            · simp [hyz, hzy] at h2
            · have : x.toNat < z.toNat := by omega
              simp [this]
        · by_cases hyx : y.toNat < x.toNat
          · simp [hxy, hyx] at h1
          · simp only [hxy, hyx, if_false] at h1
            have exy : x.toNat = y.toNat := by omega
            by_cases hyz : y.toNat < z.toNat
            · have : x.toNat < z.toNat := by omega
              simp [this]
            · by_cases hzy : z.toNat < y.toNat
              · simp [hyz, hzy] at h2
              · simp only [hyz, hzy, if_false] at h2
                have h3 : ¬ x.toNat < z.toNat := by omega
                have h4 : ¬ z.toNat < x.toNat := by omega
                simp only [h3, h4, if_false]
                exact ih h1 h2

theorem nameLt_total {a b : Bytes} (h : a ≠ b) : nameLt a b = true ∨ nameLt b a = true := by
  induction a generalizing b with
  | nil => cases b with
    | nil => exact absurd rfl h
    | cons _ _ => exact Or.inl rfl
  | cons x a ih =>
    cases b with
    | nil => exact Or.inr rfl
    | cons y b =>
      simp only [nameLt]
      by_cases hxy : x.toNat < y.toNat
      · simp [hxy]
      · by_cases hyx : y.toNat < x.toNat
        · simp [hyx]
        · have exy : x = y := Char.toNat_inj.mp (by omega)
          subst exy
          simp only [hxy, if_false]
          exact ih (fun e => h (by rw [e]))

/-- `a` comes no later than `b` -/
def nameLe (a b : Bytes) : Prop := nameLt b a = false

theorem nameLe_refl (a : Bytes) : nameLe a a := nameLt_irrefl a

theorem nameLe_total (a b : Bytes) : nameLe a b ∨ nameLe b a := by
  cases h : nameLt b a with
  | false => exact Or.inl h
  | true => exact Or.inr (nameLt_asymm h)

theorem nameLe_antisymm {a b : Bytes} (h1 : nameLe a b) (h2 : nameLe b a) : a = b := by
  apply Classical.byContradiction
  intro hne
  rcases nameLt_total hne with h | h
  · rw [h2] at h; exact absurd h (by simp)
  · rw [h1] at h; exact absurd h (by simp)

theorem nameLe_trans {a b c : Bytes} (h1 : nameLe a b) (h2 : nameLe b c) : nameLe a c := by
  unfold nameLe at *
  cases h : nameLt c a with
  | false => rfl
  | true =>
    by_cases hab : a = b
    · subst hab; rw [h2] at h; exact absurd h (by simp)
    · rcases nameLt_total hab with h3 | h3
      · have := nameLt_trans h h3
        rw [h2] at this; exact absurd this (by simp)
      · rw [h1] at h3; exact absurd h3 (by simp)

theorem insertName_perm (x : Bytes) (l : List Bytes) : (insertName x l).Perm (x :: l) := by
  induction l with
  | nil => exact List.Perm.refl _
  | cons y ys ih =>
    simp only [insertName]
    split
    · exact List.Perm.refl _
    · exact (List.Perm.cons y ih).trans (List.Perm.swap x y ys)

theorem sortNames_perm (l : List Bytes) : (sortNames l).Perm l := by
  unfold sortNames
  induction l with
  | nil => exact List.Perm.refl _
  | cons x l ih => exact (insertName_perm x _).trans (List.Perm.cons x ih)

theorem insertName_sorted (x : Bytes) (l : List Bytes) (h : l.Pairwise nameLe) : (insertName x l).Pairwise nameLe := by
  induction l with
  | nil => simp [insertName]
  | cons y ys ih =>
    rw [List.pairwise_cons] at h
    simp only [insertName]
    by_cases hxy : nameLt x y = true
    · simp only [hxy, if_true]
      have hle : nameLe x y := nameLt_asymm hxy
      rw [List.pairwise_cons]
      refine ⟨?_, List.pairwise_cons.mpr h⟩
      intro b hb
      simp only [List.mem_cons] at hb
      rcases hb with rfl | hb
      · exact hle
      · exact nameLe_trans hle (h.1 b hb)
    · have hxy' : nameLt x y = false := by simpa using hxy
      simp only [hxy', Bool.false_eq_true, if_false]
      rw [List.pairwise_cons]
      refine ⟨?_, ih h.2⟩
      intro b hb
      have := (insertName_perm x ys).mem_iff.mp hb
      simp only [List.mem_cons] at this
      rcases this with rfl | hb'
      · exact hxy'
      · exact h.1 b hb'

theorem sortNames_sorted (l : List Bytes) : (sortNames l).Pairwise nameLe := by
  unfold sortNames
  induction l with
  | nil => exact List.Pairwise.nil
  | cons x l ih => exact insertName_sorted x _ ih

theorem eq_of_perm_nameSorted : ∀ (l1 l2 : List Bytes), l1.Perm l2 → l1.Pairwise nameLe → l2.Pairwise nameLe → l1 = l2
  | [], l2, hp, _, _ => (List.Perm.nil_eq hp)
  | a :: l1, [], hp, _, _ => absurd hp.symm (List.Perm.nil_eq · |> fun e => by simp at e)
  | a :: l1, b :: l2, hp, h1, h2 => by
    rw [List.pairwise_cons] at h1 h2
    have ha : a ∈ b :: l2 := hp.mem_iff.mp (by simp)
    have hb : b ∈ a :: l1 := hp.mem_iff.mpr (by simp)
    have hab : nameLe a b := by
      simp only [List.mem_cons] at hb
      rcases hb with rfl | hb
      · exact nameLe_refl _
      · exact h1.1 b hb
    have hba : nameLe b a := by
      simp only [List.mem_cons] at ha
      rcases ha with rfl | ha
      · exact nameLe_refl _
      · exact h2.1 a ha
    have e := nameLe_antisymm hab hba
    subst e
    rw [eq_of_perm_nameSorted l1 l2 (List.Perm.cons_inv hp) h1.2 h2.2]

/-- **the sorted list of names does not depend on the order they were collected in** -/
theorem sortNames_perm_eq {l l' : List Bytes} (p : l.Perm l') : sortNames l = sortNames l' :=
  eq_of_perm_nameSorted _ _ ((sortNames_perm l).trans (p.trans (sortNames_perm l').symm))
    (sortNames_sorted l) (sortNames_sorted l')

end Crs.Parser
