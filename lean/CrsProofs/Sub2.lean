/-
  Lemmas for the `crs_setup_version=NNN` marker (`Copyright.sub2`): replacing a leading digit run of a field by
  another digit run is invisible to every test `sub2Fields` makes on earlier fields.
-/
import Crs.Copyright
import CrsProofs.Lines
namespace Crs.Copyright
open Crs

def AllDig (x : Bytes) : Prop := ∀ c ∈ x, isDigit c = true
def NoDig (k : Bytes) : Prop := ∀ c ∈ k, isDigit c = false

theorem AllDig.reverse {x : Bytes} (h : AllDig x) : AllDig x.reverse := fun c hc => h c (List.mem_reverse.mp hc)
theorem NoDig.reverse {x : Bytes} (h : NoDig x) : NoDig x.reverse := fun c hc => h c (List.mem_reverse.mp hc)

theorem ne_of_dig {a d : Char} (ha : isDigit a = false) (hd : isDigit d = true) : (a == d) = false := by
  cases h : a == d with
  | false => rfl
  | true =>
    have : a = d := by simpa using h
    subst this; rw [ha] at hd; exact absurd hd (by simp)

theorem isPrefixOf_append_dig (k t x : Bytes) (hk : NoDig k) (hx : AllDig x) :
    k.isPrefixOf (t ++ x) = k.isPrefixOf t := by
  induction k generalizing t with
  | nil => simp
  | cons a k ih =>
    have ha : isDigit a = false := hk a (by simp)
    cases t with
    | nil =>
      cases x with
      | nil => rfl
      | cons d x' =>
        have hd : isDigit d = true := hx d (by simp)
        simp only [List.nil_append, List.isPrefixOf, ne_of_dig ha hd, Bool.false_and]
    | cons b t' =>
      simp only [List.cons_append, List.isPrefixOf]
      rw [ih t' (fun c hc => hk c (by simp [hc]))]

theorem hasSuffix_dig_append (K X t : Bytes) (hK : NoDig K) (hX : AllDig X) :
    hasSuffix K (X ++ t) = hasSuffix K t := by
  unfold hasSuffix
  rw [List.reverse_append]
  exact isPrefixOf_append_dig _ _ _ hK.reverse hX.reverse

theorem stripPrefix?_append_dig (k t x : Bytes) (hk : NoDig k) (hx : AllDig x) :
    stripPrefix? k (t ++ x) = (stripPrefix? k t).map (· ++ x) := by
  induction k generalizing t with
  | nil => simp [stripPrefix?]
  | cons a k ih =>
    have ha : isDigit a = false := hk a (by simp)
    cases t with
    | nil =>
      cases x with
      | nil => simp [stripPrefix?]
      | cons d x' =>
        have hd : isDigit d = true := hx d (by simp)
        simp only [List.nil_append, stripPrefix?, ne_of_dig ha hd, Bool.false_eq_true, if_false, Option.map_none]
    | cons b t' =>
      simp only [List.cons_append, stripPrefix?]
      by_cases hab : (a == b) = true
      · simp only [hab, if_true]
        exact ih t' (fun c hc => hk c (by simp [hc]))
      · have : (a == b) = false := by simpa using hab
        simp only [this, Bool.false_eq_true, if_false, Option.map_none]

theorem cutSuffix?_dig_append (K X t : Bytes) (hK : NoDig K) (hX : AllDig X) :
    cutSuffix? K (X ++ t) = (cutSuffix? K t).map (X ++ ·) := by
  unfold cutSuffix?
  rw [List.reverse_append, stripPrefix?_append_dig _ _ _ hK.reverse hX.reverse]
  cases stripPrefix? K.reverse t.reverse with
  | none => rfl
  | some r => simp [List.reverse_append]

theorem k2a_noDig : NoDig k2a := by intro c hc; revert c; decide
theorem k2b_noDig : NoDig k2b := by intro c hc; revert c; decide

theorem hasSuffix_k2a_allDig (h : Bytes) (hh : AllDig h) : hasSuffix k2a h = false := by
  have := hasSuffix_dig_append k2a h [] k2a_noDig hh
  rw [List.append_nil] at this
  rw [this]; decide

theorem endsWithKey2_dig_append (X t : Bytes) (hX : AllDig X) : endsWithKey2 (X ++ t) = endsWithKey2 t := by
  unfold endsWithKey2
  rw [cutSuffix?_dig_append _ _ _ k2b_noDig hX]
  cases cutSuffix? k2b t with
  | none => rfl
  | some g0 =>
    simp only [Option.map_some]
    have key : ∀ w : Nat,
        (decide (w ≤ (X ++ g0).length) && oneRune ((X ++ g0).drop ((X ++ g0).length - w)) &&
          (runeLen ((X ++ g0).drop ((X ++ g0).length - w) ++ k2b) == w) &&
          hasSuffix k2a ((X ++ g0).take ((X ++ g0).length - w))) =
        (decide (w ≤ g0.length) && oneRune (g0.drop (g0.length - w)) &&
          (runeLen (g0.drop (g0.length - w) ++ k2b) == w) &&
          hasSuffix k2a (g0.take (g0.length - w))) := by
      intro w
      by_cases hw : w ≤ g0.length
      · have e : (X ++ g0).length - w = X.length + (g0.length - w) := by
          simp only [List.length_append]; omega
        have hd : (X ++ g0).drop ((X ++ g0).length - w) = g0.drop (g0.length - w) := by
          rw [e, List.drop_append, List.drop_of_length_le (by omega), List.nil_append]; congr 1; omega
        have ht : (X ++ g0).take ((X ++ g0).length - w) = X ++ g0.take (g0.length - w) := by
          rw [e, List.take_append, List.take_of_length_le (by omega)]; congr 2; omega
        have hw' : w ≤ (X ++ g0).length := by simp only [List.length_append]; omega
        rw [hd, ht, hasSuffix_dig_append _ _ _ k2a_noDig hX]
        simp only [hw, hw', decide_true]
      · have hr : decide (w ≤ g0.length) = false := by simpa using hw
        rw [hr]
        simp only [Bool.false_and]
        have hle : (X ++ g0).length - w ≤ X.length := by simp only [List.length_append]; omega
        have ht : (X ++ g0).take ((X ++ g0).length - w) = X.take ((X ++ g0).length - w) :=
          List.take_append_of_le_length hle
        rw [ht, hasSuffix_k2a_allDig _ (fun c hc => hX c (List.mem_of_mem_take hc))]
        simp only [Bool.and_false]
    simp only [List.any_cons, List.any_nil, Bool.or_false, key]

/-! ### fields that differ only in their leading digit run -/

/-- `p'` is `p`, or both are a non-empty digit run followed by the same text -/
def Rel (p' p : Bytes) : Prop :=
  p' = p ∨ ∃ X X' t, AllDig X ∧ AllDig X' ∧ X ≠ [] ∧ X' ≠ [] ∧ p = X ++ t ∧ p' = X' ++ t

def RelO : Option Bytes → Option Bytes → Prop
  | none, none => True
  | some p', some p => Rel p' p
  | _, _ => False

theorem Rel.refl (p : Bytes) : Rel p p := Or.inl rfl

theorem RelO.refl : ∀ p : Option Bytes, RelO p p
  | none => trivial
  | some p => Rel.refl p

theorem dig_ne_k2b (X t : Bytes) (hX : AllDig X) (hne : X ≠ []) : (X ++ t == k2b) = false := by
  cases X with
  | nil => exact absurd rfl hne
  | cons d X' =>
    have hd : isDigit d = true := hX d (by simp)
    cases h : (d :: X' ++ t == k2b) with
    | false => rfl
    | true =>
      have e : d :: X' ++ t = k2b := by simpa using h
      have : d ∈ k2b := by rw [← e]; simp
      have := k2b_noDig d this
      rw [this] at hd; exact absurd hd (by simp)

theorem Rel.tests {p' p : Bytes} (h : Rel p' p) :
    endsWithKey2 p' = endsWithKey2 p ∧ (p' == k2b) = (p == k2b) ∧ hasSuffix k2a p' = hasSuffix k2a p := by
  rcases h with rfl | ⟨X, X', t, hX, hX', hn, hn', rfl, rfl⟩
  · exact ⟨rfl, rfl, rfl⟩
  · refine ⟨?_, ?_, ?_⟩
    · rw [endsWithKey2_dig_append _ _ hX', endsWithKey2_dig_append _ _ hX]
    · rw [dig_ne_k2b _ _ hX' hn', dig_ne_k2b _ _ hX hn]
    · rw [hasSuffix_dig_append _ _ _ k2a_noDig hX', hasSuffix_dig_append _ _ _ k2a_noDig hX]

/-- the key test of `sub2Fields`, as a function of the two previous fields -/
def keyEnds (prev2 prev : Option Bytes) : Bool :=
  match prev with
  | some p =>
    endsWithKey2 p ||
    (p == k2b && (match prev2 with | some q => hasSuffix k2a q | none => false))
  | none => false

theorem keyEnds_congr {q' q p' p : Option Bytes} (hq : RelO q' q) (hp : RelO p' p) : keyEnds q' p' = keyEnds q p := by
  cases p' with
  | none => cases p with
    | none => rfl
    | some _ => exact absurd hp (by simp [RelO])
  | some a' => cases p with
    | none => exact absurd hp (by simp [RelO])
    | some a =>
      obtain ⟨e1, e2, _⟩ := Rel.tests (show Rel a' a from hp)
      unfold keyEnds
      simp only [e1, e2]
      cases q' with
      | none => cases q with
        | none => rfl
        | some _ => exact absurd hq (by simp [RelO])
      | some b' => cases q with
        | none => exact absurd hq (by simp [RelO])
        | some b =>
          obtain ⟨_, _, e3⟩ := Rel.tests (show Rel b' b from hq)
          simp only [e3]

def startsDigit (f : Bytes) : Bool := match f with | c :: _ => isDigit c | [] => false

theorem sub2Fields_cons (n : Bytes) (prev2 prev : Option Bytes) (f : Bytes) (fs : List Bytes) :
    sub2Fields n prev2 prev (f :: fs) =
      (if keyEnds prev2 prev && startsDigit f then n ++ f.dropWhile isDigit else f) :: sub2Fields n prev (some f) fs := by
  cases prev <;> cases f <;> rfl

theorem dropWhile_dig_append (X t : Bytes) (hX : AllDig X) : (X ++ t).dropWhile isDigit = t.dropWhile isDigit := by
  induction X with
  | nil => rfl
  | cons d X ih =>
    have hd : isDigit d = true := hX d (by simp)
    simp only [List.cons_append, List.dropWhile_cons, hd, if_true]
    exact ih (fun c hc => hX c (by simp [hc]))

theorem dropWhile_idem (f : Bytes) : (f.dropWhile isDigit).dropWhile isDigit = f.dropWhile isDigit := by
  induction f with
  | nil => rfl
  | cons c f ih =>
    by_cases hc : isDigit c = true
    · simp only [List.dropWhile_cons, hc, if_true, ih]
    · have hc' : isDigit c = false := by simpa using hc
      simp only [List.dropWhile_cons, hc', Bool.false_eq_true, if_false]

theorem startsDigit_dig_append (X t : Bytes) (hX : AllDig X) (hn : X ≠ []) : startsDigit (X ++ t) = true := by
  cases X with
  | nil => exact absurd rfl hn
  | cons d X => exact hX d (by simp)

theorem takeWhile_allDig (f : Bytes) : AllDig (f.takeWhile isDigit) := by
  induction f with
  | nil => intro c hc; simp at hc
  | cons a f ih =>
    intro c hc
    by_cases ha : isDigit a = true
    · simp only [List.takeWhile_cons, ha, if_true, List.mem_cons] at hc
      rcases hc with rfl | hc
      · exact ha
      · exact ih c hc
    · have ha' : isDigit a = false := by simpa using ha
      simp [ha'] at hc

theorem takeWhile_ne_nil_of_startsDigit (f : Bytes) (h : startsDigit f = true) : f.takeWhile isDigit ≠ [] := by
  cases f with
  | nil => simp [startsDigit] at h
  | cons c f =>
    have hc : isDigit c = true := h
    simp [hc]

/-- **the second pass sees what the first pass would have seen.** -/
theorem sub2Fields_last_wins (n1 n2 : Bytes) (h1 : AllDig n1) (hne : n1 ≠ []) (fs : List Bytes) :
    ∀ (q' q p' p : Option Bytes), RelO q' q → RelO p' p →
      sub2Fields n2 q' p' (sub2Fields n1 q p fs) = sub2Fields n2 q p fs := by
  induction fs with
  | nil => intros; rfl
  | cons f fs ih =>
    intro q' q p' p hq hp
    rw [sub2Fields_cons n1, sub2Fields_cons n2, sub2Fields_cons n2, keyEnds_congr hq hp]
    by_cases hk : (keyEnds q p && startsDigit f) = true
    · simp only [hk, if_true]
      have hsd : startsDigit f = true := by
        simp only [Bool.and_eq_true] at hk; exact hk.2
      have hk1 : keyEnds q p = true := by
        simp only [Bool.and_eq_true] at hk; exact hk.1
      have hrel : Rel (n1 ++ f.dropWhile isDigit) f :=
        Or.inr ⟨f.takeWhile isDigit, n1, f.dropWhile isDigit, takeWhile_allDig f, h1,
          takeWhile_ne_nil_of_startsDigit f hsd, hne, (List.takeWhile_append_dropWhile).symm, rfl⟩
      rw [ih p' p (some (n1 ++ f.dropWhile isDigit)) (some f) hp hrel]
      simp only [hk1, startsDigit_dig_append _ _ h1 hne, Bool.and_self, if_true,
        dropWhile_dig_append _ _ h1, dropWhile_idem]
    · have hk' : (keyEnds q p && startsDigit f) = false := by simpa using hk
      simp only [hk', Bool.false_eq_true, if_false]
      rw [ih p' p (some f) (some f) hp (Rel.refl f)]

theorem mem_of_mem_dropWhile' {c : Char} (f : Bytes) (h : c ∈ f.dropWhile isDigit) : c ∈ f := by
  induction f with
  | nil => simp at h
  | cons a f ih =>
    by_cases ha : isDigit a = true
    · simp only [List.dropWhile_cons, ha, if_true] at h
      exact List.mem_cons_of_mem _ (ih h)
    · have ha' : isDigit a = false := by simpa using ha
      simpa [List.dropWhile_cons, ha'] using h

theorem sub2Fields_noEq (n : Bytes) (hn : '=' ∉ n) (fs : List Bytes) (h : ∀ f ∈ fs, '=' ∉ f) :
    ∀ (q p : Option Bytes), ∀ g ∈ sub2Fields n q p fs, '=' ∉ g := by
  induction fs with
  | nil => intro q p g hg; simp [sub2Fields] at hg
  | cons f fs ih =>
    intro q p g hg
    rw [sub2Fields_cons] at hg
    simp only [List.mem_cons] at hg
    rcases hg with rfl | hg
    · split
      · intro hm
        rcases List.mem_append.mp hm with hm | hm
        · exact hn hm
        · exact h f (by simp) (mem_of_mem_dropWhile' _ hm)
      · exact h f (by simp)
    · exact ih (fun x hx => h x (by simp [hx])) _ _ g hg

theorem sub2Fields_ne_nil (n : Bytes) (q p : Option Bytes) (fs : List Bytes) (h : fs ≠ []) : sub2Fields n q p fs ≠ [] := by
  cases fs with
  | nil => exact absurd rfl h
  | cons f fs => rw [sub2Fields_cons]; simp

theorem sub2_last_wins (n1 n2 l : Bytes) (h1 : AllDig n1) (hne : n1 ≠ []) : sub2 n2 (sub2 n1 l) = sub2 n2 l := by
  unfold sub2
  have hq : '=' ∉ n1 := fun hm => by have := h1 _ hm; revert this; decide
  rw [splitCh_joinCh '=' _ (sub2Fields_ne_nil _ _ _ _ (splitCh_ne_nil _ _))
        (sub2Fields_noEq n1 hq _ (splitCh_fields_noSep '=' l) none none)]
  rw [sub2Fields_last_wins n1 n2 h1 hne _ none none none none trivial trivial]

end Crs.Copyright
