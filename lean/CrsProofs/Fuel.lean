/-
  The loops of `dontUseFlagsForMetaCharacters` are modelled with fuel; the fuel the model gives them is never
  used up: any larger amount gives the same result. (The Go loops have no bound; this is the statement that the
  modelled loop reaches its own exit, C19 "never loops".)
-/
import CrsProofs.Balanced
import CrsProofs.PassesBal
namespace Crs.Passes
open Crs

/-- `useHexEscapes` walks the text rune by rune; its fuel (the length) is never used up -/
theorem useHexEscapesAux_fuel (f g : Nat) (s : Bytes) (hf : s.length ≤ f) (hg : s.length ≤ g) :
    useHexEscapesAux f s = useHexEscapesAux g s := by
  induction f generalizing g s with
  | zero =>
    have : s = [] := by cases s with | nil => rfl | cons _ _ => simp at hf
    subst this
    cases g <;> simp [useHexEscapesAux]
  | succ f ih =>
    cases s with
    | nil => cases g <;> simp [useHexEscapesAux]
    | cons c cs =>
      cases g with
      | zero => simp at hg
      | succ g =>
        simp only [useHexEscapesAux]
        obtain ⟨hw1, _⟩ := decodeRune_width c cs
        have hl : ((c :: cs).drop (decodeRune (c :: cs)).2).length ≤ cs.length := by
          simp only [List.length_drop, List.length_cons]; omega
        rw [ih g _ (by simp at hf; omega) (by simp at hg; omega)]

/-- the scanner of `includeVerticalTabInSpaceClass`: its fuel (the length) is never used up -/
theorem includeVTAux_fuel (f g : Nat) (inClass : Bool) (s : Bytes) (hf : s.length ≤ f) (hg : s.length ≤ g) :
    includeVTAux f inClass s = includeVTAux g inClass s := by
  induction f generalizing g inClass s with
  | zero =>
    have : s = [] := by cases s with | nil => rfl | cons _ _ => simp at hf
    subst this
    cases g <;> simp [includeVTAux]
  | succ f ih =>
    cases s with
    | nil => cases g <;> simp [includeVTAux]
    | cons c cs =>
      cases g with
      | zero => simp at hg
      | succ g =>
        simp only [List.length_cons] at hf hg
        simp only [includeVTAux]
        have e2 : ∀ b, includeVTAux f b ((c :: cs).drop 2) = includeVTAux g b ((c :: cs).drop 2) :=
          fun b => ih g b _ (by simp only [List.length_drop, List.length_cons]; omega) (by simp only [List.length_drop, List.length_cons]; omega)
        have e1 : ∀ b, includeVTAux f b cs = includeVTAux g b cs := fun b => ih g b cs (by omega) (by omega)
        have hp : 1 ≤ perlSpace.length := by decide
        have ep : ∀ b, includeVTAux f b ((c :: cs).drop perlSpace.length) = includeVTAux g b ((c :: cs).drop perlSpace.length) := by
          intro b
          apply ih
          · simp only [List.length_drop, List.length_cons]; omega
          · simp only [List.length_drop, List.length_cons]; omega
        rw [e2 inClass, e1 true, e1 false, e1 inClass, ep inClass]

/-- first loop: every iteration either moves the offset forward or shortens the text by at least four bytes -/
theorem dropFlagsAux_fuel (f g offset : Nat) (r : Bytes)
    (hf : 2 * r.length + 2 - offset ≤ f) (hg : 2 * r.length + 2 - offset ≤ g) :
    dropFlagsAux f offset r = dropFlagsAux g offset r := by
  induction f generalizing g offset r with
  | zero =>
    have hoff : offset > r.length := by omega
    cases g with
    | zero => rfl
    | succ g => simp [dropFlagsAux, hoff]
  | succ f ih =>
    by_cases hoff : offset > r.length
    · cases g with
      | zero => simp [dropFlagsAux, hoff]
      | succ g => simp [dropFlagsAux, hoff]
    · cases g with
      | zero => omega
      | succ g =>
        simp only [dropFlagsAux, hoff, if_false]
        cases hfind : findFlags ')' (r.drop offset) with
        | none => rfl
        | some p =>
          obtain ⟨a, b⟩ := p
          simp only
          obtain ⟨pre, fl, rest, hs, ha, hb, hne, _⟩ := findFlags_shape ')' _ a b hfind
          have hlen : r.length - offset = pre.length + fl.length + 3 + rest.length := by
            have := congrArg List.length hs
            simp only [List.length_drop, List.length_append, List.length_cons] at this
            omega
          have hfl : fl.length ≥ 1 := by
            cases fl with
            | nil => exact absurd rfl hne
            | cons _ _ => simp
          split
          · apply ih <;> omega
          · apply ih
            · simp only [List.length_append, List.length_take, List.length_drop]; omega
            · simp only [List.length_append, List.length_take, List.length_drop]; omega

/-- the first loop never lengthens the text -/
theorem dropFlagsAux_length_le (f offset : Nat) (r : Bytes) : (dropFlagsAux f offset r).length ≤ r.length := by
  induction f generalizing offset r with
  | zero => simp [dropFlagsAux]
  | succ f ih =>
    simp only [dropFlagsAux]
    split
    · exact Nat.le_refl _
    · split
      · exact Nat.le_refl _
      · split
        · exact ih _ r
        · refine Nat.le_trans (ih _ _) ?_
          simp only [List.length_append, List.length_take, List.length_drop]
          rename_i a b hfind _
          obtain ⟨pre, fl, rest, hs, ha, hb, _, _⟩ := findFlags_shape ')' _ a b hfind
          have := congrArg List.length hs
          simp only [List.length_drop, List.length_append, List.length_cons] at this
          omega

/-- the fuel `dontUseFlagsForMetaCharacters` gives the first loop is enough, for every text -/
theorem dropFlags_fuel_suffices (s : Bytes) (extra : Nat) :
    dropFlagsAux (2 * s.length + 2 + extra) 0 s = dropFlagsAux (2 * s.length + 2) 0 s :=
  dropFlagsAux_fuel _ _ 0 s (by omega) (by omega)

theorem slice?_length (s x : Bytes) (a b : Nat) (h : slice? s a b = some x) : x.length = b - a ∧ a ≤ b ∧ b ≤ s.length := by
  unfold slice? at h
  split at h
  · rename_i hc
    simp only [Bool.and_eq_true, decide_eq_true_eq] at hc
    simp only [Option.some.injEq] at h
    subst h
    simp only [List.length_drop, List.length_take]
    omega
  · simp at h

/-- removing a group whose head `(?flags:` has at least four bytes shortens the text (at most `(?:` and `)` come back) -/
theorem removeGroup_length (input out : Bytes) (gs bs : Nat) (ign : Bool) (h : removeGroup input gs bs ign = .ok out) :
    out.length + bs + 1 ≤ input.length + gs + 4 := by
  unfold removeGroup at h
  split at h
  · simp at h
  · rename_i bodyEnd alt _
    simp only at h
    split at h
    · rename_i a body rest ha hb hr
      simp only [Except.ok.injEq] at h
      subst h
      obtain ⟨la, _, _⟩ := slice?_length _ _ _ _ ha
      obtain ⟨lb, _, _⟩ := slice?_length _ _ _ _ hb
      obtain ⟨lr, _, _⟩ := slice?_length _ _ _ _ hr
      simp only [List.length_append]
      split <;> simp <;> omega
    · simp at h

/-- second loop: every iteration either moves the offset forward or shortens the text -/
theorem dropFlagGroupsAux_fuel (f g offset : Nat) (r : Bytes)
    (hf : 2 * r.length + 2 - offset ≤ f) (hg : 2 * r.length + 2 - offset ≤ g) :
    dropFlagGroupsAux f offset r = dropFlagGroupsAux g offset r := by
  induction f generalizing g offset r with
  | zero =>
    have hoff : offset > r.length := by omega
    cases g with
    | zero => rfl
    | succ g => simp [dropFlagGroupsAux, hoff]
  | succ f ih =>
    by_cases hoff : offset > r.length
    · cases g with
      | zero => simp [dropFlagGroupsAux, hoff]
      | succ g => simp [dropFlagGroupsAux, hoff]
    · cases g with
      | zero => omega
      | succ g =>
        simp only [dropFlagGroupsAux, hoff, if_false]
        cases hfind : findFlags ':' (r.drop offset) with
        | none => rfl
        | some p =>
          obtain ⟨a, b⟩ := p
          simp only
          obtain ⟨pre, fl, rest, hs, ha, hb, hne, _⟩ := findFlags_shape ':' _ a b hfind
          have hlen : r.length - offset = pre.length + fl.length + 3 + rest.length := by
            have := congrArg List.length hs
            simp only [List.length_drop, List.length_append, List.length_cons] at this
            omega
          have hfl : fl.length ≥ 1 := by
            cases fl with
            | nil => exact absurd rfl hne
            | cons _ _ => simp
          split
          · apply ih <;> omega
          · cases hrm : removeGroup r (offset + a) (offset + b) false with
            | error e => rfl
            | ok r' =>
              simp only
              have := removeGroup_length r r' _ _ false hrm
              apply ih <;> omega

/-- the fuel `dontUseFlagsForMetaCharacters` gives its two loops is never used up: more fuel, same result -/
theorem dontUseFlags_fuel_suffices (s : Bytes) (e1 e2 : Nat) :
    dropFlagGroupsAux (2 * s.length + 2 + e2) 0 (dropFlagsAux (2 * s.length + 2 + e1) 0 s) = dontUseFlagsForMetaCharacters s := by
  unfold dontUseFlagsForMetaCharacters
  rw [dropFlags_fuel_suffices s e1]
  have hl : (dropFlagsAux (2 * s.length + 2) 0 s).length ≤ s.length := dropFlagsAux_length_le _ 0 s
  exact dropFlagGroupsAux_fuel _ _ 0 _ (by omega) (by omega)

end Crs.Passes
