/-
  Balanced text: the invariant behind `findGroupBodyEnd`, `removeGroup` and the flag-group loops
  (C19, C02, last layer of C01).

  A left-to-right scanner tracks whether the next character is escaped (odd run of backslashes before
  it, exactly `utils.IsEscaped`) and the nesting depth of unescaped parentheses.
-/
import Crs.Passes
import CrsProofs.Lines
namespace Crs.Passes
open Crs

/-- scanner: `none` when an unescaped `)` has no partner; else (next char escaped?, depth) -/
def bal : (esc : Bool) → (d : Nat) → Bytes → Option (Bool × Nat)
  | esc, d, [] => some (esc, d)
  | esc, d, c :: cs =>
    if c == '(' && !esc then bal (nextEsc esc c) (d + 1) cs
    else if c == ')' && !esc then (match d with | 0 => none | d' + 1 => bal (nextEsc esc c) d' cs)
    else bal (nextEsc esc c) d cs

/-- every unescaped `(` has its `)` and vice versa -/
def Balanced (s : Bytes) : Prop := ∃ e, bal false 0 s = some (e, 0)

theorem bal_append (e : Bool) (d : Nat) (a b : Bytes) :
    bal e d (a ++ b) = (bal e d a).bind (fun st => bal st.1 st.2 b) := by
  induction a generalizing e d with
  | nil => simp [bal]
  | cons c cs ih =>
    simp only [List.cons_append, bal]
    split
    · exact ih _ _
    · split
      · cases d with
        | zero => simp
        | succ d' => exact ih _ _
      · exact ih _ _

/-- characters that neither escape nor nest -/
def neutral (c : Char) : Bool := c != '\\' && c != '(' && c != ')'

theorem bal_neutral (e : Bool) (d : Nat) (s : Bytes) (hs : s ≠ []) (h : ∀ c ∈ s, neutral c = true) :
    bal e d s = some (false, d) := by
  induction s generalizing e with
  | nil => exact absurd rfl hs
  | cons c cs ih =>
    have hc := h c (by simp)
    simp only [neutral, Bool.and_eq_true, bne_iff_ne, ne_eq] at hc
    obtain ⟨⟨h1, h2⟩, h3⟩ := hc
    have e1 : (c == '(') = false := by simpa using h2
    have e2 : (c == ')') = false := by simpa using h3
    have e3 : nextEsc e c = false := by simp [nextEsc, h1]
    simp only [bal, e1, e2, Bool.false_and, Bool.false_eq_true, if_false, e3]
    cases cs with
    | nil => simp [bal]
    | cons c' cs' => exact ih false (by simp) (fun x hx => h x (by simp [hx]))

/-! ### the escape state is `utils.IsEscaped` -/

def escAfter (e : Bool) (s : Bytes) : Bool := s.foldl nextEsc e

theorem bal_esc (e : Bool) (d : Nat) (s : Bytes) (e' : Bool) (d' : Nat) (h : bal e d s = some (e', d')) :
    e' = escAfter e s := by
  induction s generalizing e d with
  | nil => simp [bal] at h; simp [escAfter, h.1]
  | cons c cs ih =>
    simp only [bal] at h
    simp only [escAfter, List.foldl_cons]
    split at h
    · exact ih _ _ h
    · split at h
      · cases d with
        | zero => simp at h
        | succ d0 => exact ih _ _ h
      · exact ih _ _ h

/-- parity of the run of backslashes at the end of `s` -/
theorem escAfter_snoc (e : Bool) (s : Bytes) (c : Char) : escAfter e (s ++ [c]) = nextEsc (escAfter e s) c := by
  simp [escAfter, List.foldl_append]

theorem isEscaped_eq (s : Bytes) (i : Nat) (hi : i ≤ s.length) : isEscaped s i = escAfter false (s.take i) := by
  -- induction on i: both sides follow the same recurrence
  induction i with
  | zero => simp [isEscaped, escAfter]
  | succ i ih =>
    have hi' : i < s.length := by omega
    have ht : s.take (i + 1) = s.take i ++ [s[i]] := by
      rw [List.take_add_one]; simp [hi']
    rw [ht, escAfter_snoc, ← ih (by omega)]
    unfold isEscaped
    rw [ht, List.reverse_append]
    simp only [List.reverse_singleton, List.singleton_append, List.takeWhile]
    by_cases hc : s[i] = '\\'
    · simp only [hc, beq_self_eq_true, List.length_cons, nextEsc, if_true]
      have : ∀ n : Nat, ((n + 1) % 2 == 1) = !(n % 2 == 1) := by
        intro n
        rcases Nat.mod_two_eq_zero_or_one n with h | h
        · have : (n + 1) % 2 = 1 := by omega
          simp [h, this]
        · have : (n + 1) % 2 = 0 := by omega
          simp [h, this]
      exact this _
    · have : (s[i] == '\\') = false := by simpa using hc
      simp [this, nextEsc]

/-! ### the group scanner on balanced text -/

/-- **shape of a successful scan.** `scanClose` stops right after the `)` that closes the group: the text
    consumed is `body ++ ")"`, and `body` returns to its own start depth minus the pending opens, never
    dipping below (so the same body is balanced at any depth). -/
theorem scanClose_shape (esc : Bool) (q : Nat) (alt : Bool) (s : Bytes) (m : Nat) (a : Bool)
    (h : scanClose esc (q + 1) alt s = some (m, a)) :
    ∃ body rest, m = body.length + 1 ∧ s = body ++ ')' :: rest ∧
      (∀ d, bal esc (d + q) body = some (false, d)) := by
  induction s generalizing esc q alt m a with
  | nil => simp [scanClose] at h
  | cons c cs ih =>
    simp only [scanClose] at h
    by_cases ho : (c == '(' && !esc) = true
    · simp only [ho, if_true] at h
      cases hr : scanClose (nextEsc esc c) (q + 2) (alt || (c == '|' && q == 0)) cs with
      | none => rw [hr] at h; simp at h
      | some p =>
        obtain ⟨m', a'⟩ := p
        rw [hr] at h
        simp only [Option.map_some, Option.some.injEq, Prod.mk.injEq] at h
        obtain ⟨body, rest, hm, hs, hb⟩ := ih _ (q + 1) _ m' a' hr
        refine ⟨c :: body, rest, by rw [← h.1, hm]; simp, by rw [hs]; simp, ?_⟩
        intro d
        simp only [bal, ho, if_true]
        have := hb d
        simpa [Nat.add_assoc] using this
    · simp only [ho] at h
      by_cases hc : (c == ')' && !esc) = true
      · simp only [hc, if_true, Bool.false_eq_true, if_false] at h
        cases q with
        | zero =>
          -- the closing parenthesis of the group
          simp only [scanClose, Option.map_some, Option.some.injEq, Prod.mk.injEq] at h
          have hcc : c = ')' := by
            simp only [Bool.and_eq_true, beq_iff_eq] at hc; exact hc.1
          have hesc : esc = false := by
            simp only [Bool.and_eq_true, Bool.not_eq_true'] at hc; exact hc.2
          refine ⟨[], cs, by rw [← h.1]; simp, by rw [hcc]; simp, ?_⟩
          intro d; simp [bal, hesc]
        | succ q' =>
          cases hr : scanClose (nextEsc esc c) (q' + 1) (alt || (c == '|' && q' + 1 == 0)) cs with
          | none => rw [hr] at h; simp at h
          | some p =>
            obtain ⟨m', a'⟩ := p
            rw [hr] at h
            simp only [Option.map_some, Option.some.injEq, Prod.mk.injEq] at h
            obtain ⟨body, rest, hm, hs, hb⟩ := ih _ q' _ m' a' hr
            refine ⟨c :: body, rest, by rw [← h.1, hm]; simp, by rw [hs]; simp, ?_⟩
            intro d
            have : d + (q' + 1) = (d + q') + 1 := by omega
            rw [this]
            simp only [bal, ho, hc, if_true, Bool.false_eq_true, if_false]
            exact hb d
      · simp only [hc, Bool.false_eq_true, if_false] at h
        cases hr : scanClose (nextEsc esc c) (q + 1) (alt || (c == '|' && q == 0)) cs with
        | none => rw [hr] at h; simp at h
        | some p =>
          obtain ⟨m', a'⟩ := p
          rw [hr] at h
          simp only [Option.map_some, Option.some.injEq, Prod.mk.injEq] at h
          obtain ⟨body, rest, hm, hs, hb⟩ := ih _ q _ m' a' hr
          refine ⟨c :: body, rest, by rw [← h.1, hm]; simp, by rw [hs]; simp, ?_⟩
          intro d
          simp only [bal, ho, hc, Bool.false_eq_true, if_false]
          exact hb d

/-- **the scan succeeds on balanced text.** If the text, entered at depth `d + q + 1`, comes back to depth
    `d` or below without an unmatched `)`, the scanner finds the closing parenthesis. -/
theorem scanClose_of_bal (esc : Bool) (q : Nat) (alt : Bool) (s : Bytes) (d D : Nat) (hD : D = d + q + 1)
    (e' : Bool) (df : Nat) (h : bal esc D s = some (e', df)) (hdf : df ≤ d) :
    ∃ m a, scanClose esc (q + 1) alt s = some (m, a) := by
  induction s generalizing esc q alt D with
  | nil => simp [bal] at h; omega
  | cons c cs ih =>
    unfold bal at h
    unfold scanClose
    by_cases ho : (c == '(' && !esc) = true
    · rw [if_pos ho] at h
      simp only [ho, if_true]
      obtain ⟨m, a, hm⟩ := ih _ (q + 1) (alt || (c == '|' && q == 0)) (D + 1) (by omega) h
      exact ⟨m + 1, a, by rw [hm]; rfl⟩
    · rw [if_neg ho] at h
      simp only [ho, Bool.false_eq_true, if_false]
      by_cases hc : (c == ')' && !esc) = true
      · rw [if_pos hc] at h
        simp only [hc, if_true]
        cases q with
        | zero => exact ⟨1, (alt || (c == '|' && 0 == 0)), by simp [scanClose]⟩
        | succ q' =>
          subst hD
          have hD' : d + (q' + 1) + 1 = (d + q' + 1) + 1 := by omega
          rw [hD'] at h
          simp only at h
          obtain ⟨m, a, hm⟩ := ih _ q' (alt || (c == '|' && q' + 1 == 0)) (d + q' + 1) rfl h
          exact ⟨m + 1, a, by rw [hm]; rfl⟩
      · rw [if_neg hc] at h
        simp only [hc, Bool.false_eq_true, if_false]
        obtain ⟨m, a, hm⟩ := ih _ q (alt || (c == '|' && q == 0)) D hD h
        exact ⟨m + 1, a, by rw [hm]; rfl⟩

end Crs.Passes

namespace Crs.Passes
open Crs

/-! ### slices of a text given by its parts -/

theorem slice?_prefix (a b : Bytes) : slice? (a ++ b) 0 a.length = some a := by
  unfold slice?
  simp

theorem slice?_mid (a b c : Bytes) : slice? (a ++ b ++ c) a.length (a.length + b.length) = some b := by
  unfold slice?
  have h1 : a.length ≤ a.length + b.length := by omega
  have h2 : a.length + b.length ≤ (a ++ b ++ c).length := by simp
  simp only [h1, h2, decide_true, Bool.and_self, if_true]
  have : (a ++ b ++ c).take (a.length + b.length) = a ++ b := by
    rw [show a.length + b.length = (a ++ b).length by simp]
    exact List.take_left' rfl
  rw [this]
  simp

theorem slice?_suffix (a c : Bytes) : slice? (a ++ c) a.length (a ++ c).length = some c := by
  unfold slice?
  have h1 : a.length ≤ (a ++ c).length := by simp
  simp only [h1, Nat.le_refl, decide_true, Bool.and_self, if_true, List.take_length]
  simp

/-! ### removing a group keeps the text balanced and never runs off the end -/

/-- the general situation in which `removeGroup` is called: `pre ++ "(" ++ mid ++ tail`, the parenthesis
    unescaped, `mid` the neutral characters between it and the body (`?:`, `?i:` …) -/
structure GroupAt (r pre mid tail : Bytes) : Prop where
  eq : r = pre ++ '(' :: mid ++ tail
  unescaped : isEscaped r pre.length = false
  mid_neutral : ∀ c ∈ mid, neutral c = true

theorem escAfter_append (e : Bool) (a b : Bytes) : escAfter e (a ++ b) = escAfter (escAfter e a) b := by
  simp [escAfter, List.foldl_append]

theorem escAfter_neutral (e : Bool) (s : Bytes) (hs : s ≠ []) (h : ∀ c ∈ s, neutral c = true) : escAfter e s = false := by
  have := bal_neutral e 0 s hs h
  have := bal_esc e 0 s false 0 this
  exact this.symm

theorem group_tail_bal (r pre mid tail : Bytes) (g : GroupAt r pre mid tail) (hb : Balanced r) :
    ∃ d0 e, bal false 0 pre = some (false, d0) ∧ bal false (d0 + 1) tail = some (e, 0) := by
  obtain ⟨e, he⟩ := hb
  rw [g.eq, List.append_assoc, bal_append] at he
  cases hp : bal false 0 pre with
  | none => rw [hp] at he; simp at he
  | some st =>
    obtain ⟨e0, d0⟩ := st
    rw [hp] at he
    simp only [Option.bind_some] at he
    have he0 : e0 = false := by
      have h1 := bal_esc false 0 pre e0 d0 hp
      have h2 := isEscaped_eq r pre.length (by rw [g.eq]; simp)
      have h3 : r.take pre.length = pre := by rw [g.eq]; simp
      rw [h3] at h2
      rw [h1, ← h2, g.unescaped]
    subst he0
    refine ⟨d0, e, rfl, ?_⟩
    -- '(' unescaped, then mid, then tail
    rw [List.cons_append] at he
    simp only [bal, beq_self_eq_true, Bool.not_false, Bool.and_self, if_true] at he
    have hne : nextEsc false '(' = false := by decide
    rw [hne] at he
    cases hm : mid with
    | nil => rw [hm] at he; simpa using he
    | cons m ms =>
      rw [bal_append, bal_neutral false (d0 + 1) mid (by rw [hm]; simp) g.mid_neutral] at he
      exact he

theorem GroupAt.eq' {r pre mid tail : Bytes} (g : GroupAt r pre mid tail) : r = (pre ++ '(' :: mid) ++ tail := by
  exact g.eq

theorem isEscaped_after_group_head (r pre mid tail : Bytes) (g : GroupAt r pre mid tail) :
    isEscaped r (pre.length + 1 + mid.length) = false := by
  have hl : (pre ++ '(' :: mid).length = pre.length + 1 + mid.length := by simp only [List.length_append, List.length_cons]; omega
  have hlen : pre.length + 1 + mid.length ≤ r.length := by rw [g.eq', List.length_append, hl]; omega
  rw [isEscaped_eq r _ hlen]
  have : r.take (pre.length + 1 + mid.length) = pre ++ '(' :: mid := by
    rw [g.eq', ← hl]
    exact List.take_left' rfl
  rw [this, escAfter_append]
  cases hm : mid with
  | nil => simp [escAfter, nextEsc]
  | cons m ms =>
    have : escAfter (escAfter false pre) ('(' :: m :: ms) = escAfter (nextEsc (escAfter false pre) '(') (m :: ms) := by
      simp [escAfter]
    rw [this]
    exact escAfter_neutral _ _ (by simp) (by rw [← hm]; exact g.mid_neutral)

/-- **`removeGroup` on balanced text**: it succeeds, and what it returns is
    `pre ++ [ "(?:" ] ++ body ++ [ ")" ] ++ rest` for the body and rest of the group — again balanced. -/
theorem removeGroup_balanced (r pre mid tail : Bytes) (g : GroupAt r pre mid tail) (hb : Balanced r) (ign : Bool) :
    ∃ (body rest : Bytes) (alt : Bool), tail = body ++ ')' :: rest ∧
      removeGroup r pre.length (pre.length + 1 + mid.length) ign =
        .ok (pre ++ (if alt then b!"(?:" else []) ++ body ++ (if alt then b!")" else []) ++ rest) ∧
      Balanced (pre ++ (if alt then b!"(?:" else []) ++ body ++ (if alt then b!")" else []) ++ rest) := by
  obtain ⟨d0, e, hpre, htail⟩ := group_tail_bal r pre mid tail g hb
  obtain ⟨m, a, hscan⟩ := scanClose_of_bal false 0 false tail d0 (d0 + 1) (by omega) e 0 htail (by omega)
  obtain ⟨body, rest, hm, hts, hbody⟩ := scanClose_shape false 0 false tail m a hscan
  have hl : (pre ++ '(' :: mid).length = pre.length + 1 + mid.length := by simp only [List.length_append, List.length_cons]; omega
  have hstop : pre.length + 1 + mid.length ≤ r.length := by rw [g.eq', List.length_append, hl]; omega
  have hdrop : r.drop (pre.length + 1 + mid.length) = tail := by
    rw [g.eq', ← hl]
    exact List.drop_left' rfl
  have hfind : findGroupBodyEnd r (pre.length + 1 + mid.length) = .ok (pre.length + 1 + mid.length + m - 2, a) := by
    unfold findGroupBodyEnd
    have : ¬ (pre.length + 1 + mid.length > r.length) := by omega
    simp only [this, if_false]
    rw [isEscaped_after_group_head r pre mid tail g, hdrop, hscan]
  refine ⟨body, rest, a && !ign, hts, ?_, ?_⟩
  · unfold removeGroup
    rw [hfind]
    simp only
    -- the three slices
    have hr : r = ((pre ++ '(' :: mid) ++ body) ++ (')' :: rest) := by
      rw [g.eq', hts]; simp [List.append_assoc]
    have s1 : slice? r 0 pre.length = some pre := by
      rw [g.eq, List.append_assoc]; exact slice?_prefix pre _
    have hbe : pre.length + 1 + mid.length + m - 2 + 1 = (pre ++ '(' :: mid).length + body.length := by rw [hl]; omega
    have s2 : slice? r (pre.length + 1 + mid.length) (pre.length + 1 + mid.length + m - 2 + 1) = some body := by
      rw [hbe, ← hl, hr]
      exact slice?_mid (pre ++ '(' :: mid) body (')' :: rest)
    have hr' : r = (((pre ++ '(' :: mid) ++ body) ++ [')']) ++ rest := by rw [hr]; simp [List.append_assoc]
    have hbe2 : pre.length + 1 + mid.length + m - 2 + 2 = (((pre ++ '(' :: mid) ++ body) ++ [')']).length := by
      simp only [List.length_append, hl, List.length_singleton]; omega
    have s3 : slice? r (pre.length + 1 + mid.length + m - 2 + 2) r.length = some rest := by
      rw [hbe2]
      conv => lhs; rw [hr']
      exact slice?_suffix _ rest
    rw [s1, s2, s3]
  · -- balanced: pre, optional "(?:", body at any depth, optional ")", rest as before
    have hrest : bal false d0 rest = some (e, 0) := by
      have hb1 := hbody (d0 + 1)
      rw [Nat.add_zero] at hb1
      rw [hts, bal_append, hb1] at htail
      simp only [Option.bind_some] at htail
      simpa [bal, nextEsc] using htail
    refine ⟨e, ?_⟩
    cases halt : (a && !ign) with
    | false =>
      simp only [Bool.false_eq_true, if_false, List.append_nil]
      rw [List.append_assoc, bal_append, hpre]
      simp only [Option.bind_some]
      have hb0 := hbody d0
      rw [Nat.add_zero] at hb0
      rw [bal_append, hb0]
      simpa using hrest
    | true =>
      simp only [if_true]
      rw [List.append_assoc, List.append_assoc, List.append_assoc, bal_append, hpre]
      simp only [Option.bind_some]
      have h1 : bal false d0 (b!"(?:" ++ (body ++ (b!")" ++ rest))) = bal false (d0 + 1) (body ++ (b!")" ++ rest)) := by
        simp [bal, nextEsc]
      have hb1 := hbody (d0 + 1)
      rw [Nat.add_zero] at hb1
      rw [h1, bal_append, hb1]
      simp only [Option.bind_some]
      simpa [bal, nextEsc] using hrest

end Crs.Passes

namespace Crs.Passes
open Crs

/-! ### the flag-group finder -/

theorem takeWhile_append_dropWhile {α} (p : α → Bool) (l : List α) : l.takeWhile p ++ l.dropWhile p = l := by
  induction l with
  | nil => rfl
  | cons x xs ih => by_cases h : p x = true <;> simp [List.takeWhile, List.dropWhile, h, ih]

theorem drop_takeWhile_length {α} (p : α → Bool) (l : List α) : l.drop (l.takeWhile p).length = l.dropWhile p := by
  induction l with
  | nil => rfl
  | cons x xs ih => by_cases h : p x = true <;> simp [List.takeWhile, List.dropWhile, h, ih]

theorem mem_takeWhile_imp {α} (p : α → Bool) (l : List α) (x : α) (h : x ∈ l.takeWhile p) : p x = true := by
  induction l with
  | nil => simp at h
  | cons y ys ih =>
    by_cases hy : p y = true
    · simp only [List.takeWhile, hy, List.mem_cons] at h
      rcases h with rfl | h
      · exact hy
      · exact ih h
    · simp [List.takeWhile, hy] at h

theorem flagsAt?_shape (close : Char) (s : Bytes) (n : Nat) (h : flagsAt? close s = some n) :
    ∃ fl rest, s = ('(' :: '?' :: fl) ++ (close :: rest) ∧ n = fl.length + 3 ∧ fl ≠ [] ∧ ∀ c ∈ fl, isFlagCh c = true := by
  unfold flagsAt? at h
  split at h
  · rename_i rest0
    simp only at h
    split at h
    · simp at h
    · rename_i hne
      rw [drop_takeWhile_length] at h
      split at h
      · rename_i c tl hd
        split at h
        · rename_i hc
          simp only [Option.some.injEq] at h
          have hc' : c = close := by simpa using hc
          have hsplit : rest0 = rest0.takeWhile isFlagCh ++ close :: tl := by
            have h1 := takeWhile_append_dropWhile isFlagCh rest0
            rw [hd, hc'] at h1
            exact h1.symm
          refine ⟨rest0.takeWhile isFlagCh, tl, ?_, h.symm, ?_, ?_⟩
          · exact congrArg (fun t => '(' :: '?' :: t) hsplit
          · intro e; rw [e] at hne; simp at hne
          · intro x hx; exact mem_takeWhile_imp isFlagCh rest0 x hx
        · simp at h
      · simp at h
  · simp at h

theorem findFlags_shape (close : Char) (s : Bytes) (a b : Nat) (h : findFlags close s = some (a, b)) :
    ∃ pre fl rest, s = pre ++ (('(' :: '?' :: fl) ++ (close :: rest)) ∧ a = pre.length ∧ b = pre.length + fl.length + 3 ∧
      fl ≠ [] ∧ ∀ c ∈ fl, isFlagCh c = true := by
  induction s generalizing a b with
  | nil => simp [findFlags] at h
  | cons c cs ih =>
    simp only [findFlags] at h
    cases hf : flagsAt? close (c :: cs) with
    | some n =>
      rw [hf] at h
      simp only [Option.some.injEq, Prod.mk.injEq] at h
      obtain ⟨fl, rest, hs, hn, hne, hall⟩ := flagsAt?_shape close (c :: cs) n hf
      exact ⟨[], fl, rest, by simpa using hs, by simp [← h.1], by simp [← h.2, hn], hne, hall⟩
    | none =>
      rw [hf] at h
      simp only at h
      cases hr : findFlags close cs with
      | none => rw [hr] at h; simp at h
      | some p =>
        obtain ⟨a', b'⟩ := p
        rw [hr] at h
        simp only [Option.map_some, Option.some.injEq, Prod.mk.injEq] at h
        obtain ⟨pre, fl, rest, hs, ha, hb, hne, hall⟩ := ih a' b' hr
        exact ⟨c :: pre, fl, rest, by rw [hs]; simp, by simp [← h.1, ha], by simp [← h.2, hb]; omega, hne, hall⟩

theorem isFlagCh_neutral (c : Char) (h : isFlagCh c = true) : neutral c = true := by
  simp only [isFlagCh, Bool.or_eq_true, beq_iff_eq] at h
  rcases h with (((h | h) | h) | h) | h <;> subst h <;> decide

/-! ### the two loops of `dontUseFlagsForMetaCharacters` -/

/-- deleting an unescaped `(?flags)` keeps the text balanced -/
theorem drop_flags_balanced (pre fl rest : Bytes) (hfl : ∀ c ∈ fl, isFlagCh c = true)
    (hu : isEscaped (pre ++ (('(' :: '?' :: fl) ++ (')' :: rest))) pre.length = false)
    (hb : Balanced (pre ++ (('(' :: '?' :: fl) ++ (')' :: rest)))) : Balanced (pre ++ rest) := by
  obtain ⟨e, he⟩ := hb
  rw [bal_append] at he
  cases hp : bal false 0 pre with
  | none => rw [hp] at he; simp at he
  | some st =>
    obtain ⟨e0, d0⟩ := st
    rw [hp] at he
    simp only [Option.bind_some] at he
    have he0 : e0 = false := by
      have h1 := bal_esc false 0 pre e0 d0 hp
      have h2 := isEscaped_eq (pre ++ (('(' :: '?' :: fl) ++ (')' :: rest))) pre.length (by simp)
      rw [List.take_left' rfl] at h2
      rw [h1, ← h2, hu]
    subst he0
    refine ⟨e, ?_⟩
    rw [bal_append, hp]
    simp only [Option.bind_some]
    -- "(" "?" fl ")" returns to (false, d0)
    have hmid : ∀ c ∈ ('?' :: fl), neutral c = true := by
      intro c hc
      simp only [List.mem_cons] at hc
      rcases hc with rfl | hc
      · decide
      · exact isFlagCh_neutral c (hfl c hc)
    have : bal false d0 (('(' :: '?' :: fl) ++ (')' :: rest)) = bal false d0 rest := by
      have e2 : (('(' :: '?' :: fl) ++ (')' :: rest)) = '(' :: (('?' :: fl) ++ (')' :: rest)) := by simp
      have e1 : bal false d0 ('(' :: (('?' :: fl) ++ (')' :: rest))) = bal false (d0 + 1) (('?' :: fl) ++ (')' :: rest)) := by
        simp [bal, nextEsc]
      rw [e2, e1, bal_append, bal_neutral false (d0 + 1) ('?' :: fl) (by simp) hmid]
      simp [bal, nextEsc]
    rw [this] at he
    exact he

/-- splitting a text at `offset + a` when the part after `offset` is `pre ++ x` with `a = |pre|` -/
theorem take_drop_split (r : Bytes) (offset : Nat) (hoff : offset ≤ r.length) (pre x : Bytes) (h : r.drop offset = pre ++ x) :
    r = (r.take offset ++ pre) ++ x ∧ (r.take offset ++ pre).length = offset + pre.length := by
  constructor
  · conv => lhs; rw [← List.take_append_drop offset r, h]
    simp [List.append_assoc]
  · simp [List.length_take, Nat.min_eq_left hoff]

theorem dropFlagsAux_balanced (f offset : Nat) (r : Bytes) (hb : Balanced r) : Balanced (dropFlagsAux f offset r) := by
  induction f generalizing offset r with
  | zero => simpa [dropFlagsAux] using hb
  | succ f ih =>
    simp only [dropFlagsAux]
    split
    · exact hb
    · rename_i hoff
      split
      · exact hb
      · rename_i a b hfind
        split
        · exact ih _ r hb
        · rename_i hesc
          apply ih
          obtain ⟨pre, fl, rest, hs, ha, hbb, hne, hall⟩ := findFlags_shape ')' _ a b hfind
          have hoff' : offset ≤ r.length := by omega
          obtain ⟨hr, hlen⟩ := take_drop_split r offset hoff' pre _ hs
          have htake : r.take (offset + a) = r.take offset ++ pre := by
            conv => lhs; rw [hr, ha, ← hlen]
            exact List.take_left' rfl
          have hdrop : r.drop (offset + b) = rest := by
            have hr2 : r = ((r.take offset ++ pre) ++ (('(' :: '?' :: fl) ++ [')'])) ++ rest := by
              conv => lhs; rw [hr]
              simp [List.append_assoc]
            have hl2 : ((r.take offset ++ pre) ++ (('(' :: '?' :: fl) ++ [')'])).length = offset + b := by
              rw [List.length_append, hlen, hbb]; simp; omega
            conv => lhs; rw [hr2, ← hl2]
            exact List.drop_left' rfl
          rw [htake, hdrop]
          apply drop_flags_balanced (r.take offset ++ pre) fl rest hall
          · rw [← hr, hlen, ← ha]
            simpa using hesc
          · rw [← hr]; exact hb

end Crs.Passes

namespace Crs.Passes
open Crs

/-- the second loop never runs off the end on balanced text, and keeps it balanced -/
theorem dropFlagGroupsAux_balanced (f offset : Nat) (r : Bytes) (hb : Balanced r) :
    ∃ r', dropFlagGroupsAux f offset r = .ok r' ∧ Balanced r' := by
  induction f generalizing offset r with
  | zero => exact ⟨r, by simp [dropFlagGroupsAux], hb⟩
  | succ f ih =>
    simp only [dropFlagGroupsAux]
    split
    · exact ⟨r, rfl, hb⟩
    · rename_i hoff
      split
      · exact ⟨r, rfl, hb⟩
      · rename_i a b hfind
        split
        · exact ih _ r hb
        · rename_i hesc
          obtain ⟨pre, fl, rest, hs, ha, hbb, hne, hall⟩ := findFlags_shape ':' _ a b hfind
          have hoff' : offset ≤ r.length := by omega
          obtain ⟨hr, hlen⟩ := take_drop_split r offset hoff' pre _ hs
          have hmid : ∀ c ∈ ('?' :: fl ++ [':']), neutral c = true := by
            intro c hc
            simp only [List.cons_append, List.mem_cons, List.mem_append, List.not_mem_nil, or_false] at hc
            rcases hc with rfl | hc | rfl
            · decide
            · exact isFlagCh_neutral c (hall c hc)
            · decide
          have g : GroupAt r (r.take offset ++ pre) ('?' :: fl ++ [':']) rest := by
            refine ⟨?_, ?_, hmid⟩
            · conv => lhs; rw [hr]
              simp [List.append_assoc]
            · rw [hlen, ← ha]; simpa using hesc
          obtain ⟨body, rest', alt, _, hrem, hbal⟩ := removeGroup_balanced r _ _ rest g hb false
          have hstart : offset + a = (r.take offset ++ pre).length := by rw [hlen, ha]
          have hstop : offset + b = (r.take offset ++ pre).length + 1 + ('?' :: fl ++ [':']).length := by
            rw [hlen, hbb]; simp; omega
          rw [hstart, hstop, hrem]
          simp only
          exact ih _ _ hbal

/-- `dontUseFlagsForMetaCharacters` never faults on balanced text -/
theorem dontUseFlags_balanced (s : Bytes) (hb : Balanced s) :
    ∃ s', dontUseFlagsForMetaCharacters s = .ok s' ∧ Balanced s' := by
  unfold dontUseFlagsForMetaCharacters
  exact dropFlagGroupsAux_balanced _ 0 _ (dropFlagsAux_balanced _ 0 s hb)

/-- `removeOutermostNonCapturingGroup` never faults on balanced text -/
theorem removeOutermost_balanced (s : Bytes) (hb : Balanced s) :
    ∃ s', removeOutermostNonCapturingGroup s = .ok s' := by
  unfold removeOutermostNonCapturingGroup
  split
  · exact ⟨s, rfl⟩
  · rename_i hl
    have hl' : looksLikeGroup s = true := by simpa using hl
    unfold looksLikeGroup at hl'
    simp only [Bool.and_eq_true] at hl'
    obtain ⟨⟨⟨hp, _⟩, _⟩, _⟩ := hl'
    -- s = "(?:" ++ tail
    have hsp : ∃ tail, s = b!"(?:" ++ tail := by
      unfold hasPrefix at hp
      obtain ⟨t, ht⟩ := List.isPrefixOf_iff_prefix.mp hp
      exact ⟨t, ht.symm⟩
    obtain ⟨tail, hst⟩ := hsp
    have g : GroupAt s [] ['?', ':'] tail := by
      refine ⟨by rw [hst]; rfl, by simp [isEscaped], ?_⟩
      intro c hc
      simp only [List.mem_cons, List.not_mem_nil, or_false] at hc
      rcases hc with rfl | rfl <;> decide
    obtain ⟨body, rest, alt, hts, hrem, _⟩ := removeGroup_balanced s [] ['?', ':'] tail g hb true
    -- findGroupBodyEnd succeeds as inside removeGroup
    have hfind : ∃ p, findGroupBodyEnd s 3 = .ok p := by
      unfold removeGroup at hrem
      simp only [List.length_nil, Nat.zero_add, List.length_cons] at hrem
      cases hf : findGroupBodyEnd s 3 with
      | error e => rw [show (0 + 1 + 1 + 1 : Nat) = 3 from rfl] at hrem; simp [hf] at hrem
      | ok p => exact ⟨p, rfl⟩
    obtain ⟨p, hp'⟩ := hfind
    rw [hp']
    simp only
    split
    · exact ⟨s, rfl⟩
    · simp only [List.length_nil, Nat.zero_add, List.length_cons] at hrem
      exact ⟨_, hrem⟩

end Crs.Passes
