/-
  The formatter's line function re-emits its own output unchanged (core of C09 idempotence).
-/
import CrsProofs.Format
namespace Crs.Format
open Crs Crs.Pat

/-- a line written with `##!C ` (C one of `+ ^ $`) -/
def emitValue (ch : Char) (v : Bytes) : Bytes := marker ++ [ch] ++ ' ' :: v

theorem emitValue_eq (ch : Char) (v : Bytes) : emitValue ch v = '#' :: '#' :: '!' :: ch :: ' ' :: v := rfl

theorem hash_head (r : Bytes) : ∀ c, ('#' :: r).head? = some c → isSpTab c = false := by
  intro c hc; simp at hc; subst hc; rfl

/-! ### which recogniser fires on which emitted line -/

section classify
variable (v n x r kw arg : Bytes)

theorem blockStart?_value (ch : Char) (h : ch ≠ '>') : blockStart? ('#' :: '#' :: '!' :: ch :: r) = none := by
  simp [blockStart?, startMarker, stripPrefix?, h.symm]

theorem blockEnd?_of (ch : Char) (h : ch ≠ '<') : blockEnd? ('#' :: '#' :: '!' :: ch :: r) = false := by
  simp [blockEnd?, hasPrefix, List.isPrefixOf, h.symm]

theorem valueLine?_other (a ch : Char) (h : ch ≠ a) : valueLine? a ('#' :: '#' :: '!' :: ch :: r) = none := by
  simp [valueLine?, marker, stripPrefix?, h.symm]

theorem definition?_notStart (ch : Char) (h : ch ≠ '>') : definition? ('#' :: '#' :: '!' :: ch :: r) = none := by
  simp [definition?, startMarker, stripPrefix?, h.symm]

theorem include?_notStart (ch : Char) (h : ch ≠ '>') : include? ('#' :: '#' :: '!' :: ch :: r) = none := by
  simp [include?, startMarker, stripPrefix?, h.symm]

theorem includeExcept?_notStart (ch : Char) (h : ch ≠ '>') : includeExcept? ('#' :: '#' :: '!' :: ch :: r) = none := by
  simp [includeExcept?, startMarker, stripPrefix?, h.symm]

/-- after `##!> ` comes a keyword: the recognisers look at `stripPrefix? kw` of the rest -/
theorem blockStart?_kw (rest : Bytes) (h1 : stripPrefix? b!"assemble" rest = none) (h2 : stripPrefix? b!"cmdline" rest = none)
    (hh : ∀ c, rest.head? = some c → isWs c = false) :
    blockStart? (b!"##!> " ++ rest) = none := by
  have e1 : stripPrefix? startMarker (b!"##!> " ++ rest) = some (' ' :: rest) := by simp [startMarker, stripPrefix?]
  unfold blockStart?
  rw [e1]
  simp only [dropWs_sp_cons rest hh, h1, h2]

theorem definition?_kw (rest : Bytes) (h1 : stripPrefix? b!"define" rest = none)
    (hh : ∀ c, rest.head? = some c → isWs c = false) :
    definition? (b!"##!> " ++ rest) = none := by
  have e1 : stripPrefix? startMarker (b!"##!> " ++ rest) = some (' ' :: rest) := by simp [startMarker, stripPrefix?]
  unfold definition?
  rw [e1]
  simp only [dropWs_sp_cons rest hh, h1]

theorem include?_kw (rest : Bytes) (h1 : stripPrefix? b!"include" rest = none)
    (hh : ∀ c, rest.head? = some c → isWs c = false) :
    include? (b!"##!> " ++ rest) = none := by
  have e1 : stripPrefix? startMarker (b!"##!> " ++ rest) = some (' ' :: rest) := by simp [startMarker, stripPrefix?]
  unfold include?
  rw [e1]
  simp only [dropWs_sp_cons rest hh, h1]

theorem includeExcept?_kw (rest : Bytes) (h1 : stripPrefix? b!"include-except" rest = none)
    (hh : ∀ c, rest.head? = some c → isWs c = false) :
    includeExcept? (b!"##!> " ++ rest) = none := by
  have e1 : stripPrefix? startMarker (b!"##!> " ++ rest) = some (' ' :: rest) := by simp [startMarker, stripPrefix?]
  unfold includeExcept?
  rw [e1]
  simp only [dropWs_sp_cons rest hh, h1]

end classify

/-! ### the formatter on its own output lines -/

theorem processLine_emitStart (kw arg : Bytes) (i : Nat) (hkw : kw = b!"assemble" ∨ kw = b!"cmdline") (harg : Trimmed arg) :
    processLine (emitStart kw arg) i = some (indentBy i (emitStart kw arg), i + 1) := by
  unfold processLine
  rw [blockStart?_emit kw arg hkw harg]
  have : (trimLeftSpTab (emitStart kw arg)).isEmpty = false := by
    unfold emitStart; simp [trimLeftSpTab, List.dropWhile, isSpTab]
  simp only [this, Bool.false_eq_true, if_false]
  rfl

theorem processLine_emitValue (ch : Char) (hc : ch = '+' ∨ ch = '^' ∨ ch = '$') (v : Bytes) (i : Nat)
    (hv : Trimmed v) (hne : v ≠ []) :
    processLine (emitValue ch v) i = some (emitValue ch v, i) := by
  have hv' : valueLine? ch ('#' :: '#' :: '!' :: ch :: ' ' :: v) = some v := valueLine?_emit ch v hv hne
  unfold processLine
  rw [emitValue_eq]
  have : (trimLeftSpTab ('#' :: '#' :: '!' :: ch :: ' ' :: v)).isEmpty = false := by
    simp [trimLeftSpTab, List.dropWhile, isSpTab]
  simp only [this, Bool.false_eq_true, if_false]
  rcases hc with rfl | rfl | rfl
  · rw [blockStart?_value _ _ (by decide), blockEnd?_of _ _ (by decide)]
    simp only [flags?, hv', Bool.false_eq_true, if_false]
    rfl
  · rw [blockStart?_value _ _ (by decide), blockEnd?_of _ _ (by decide)]
    simp only [flags?, prefix?, valueLine?_other _ '+' '^' (by decide), hv', Bool.false_eq_true, if_false]
    rfl
  · rw [blockStart?_value _ _ (by decide), blockEnd?_of _ _ (by decide)]
    simp only [flags?, prefix?, suffix?, valueLine?_other _ '+' '$' (by decide), valueLine?_other _ '^' '$' (by decide), hv', Bool.false_eq_true, if_false]
    rfl

theorem valueLines_none_start (r : Bytes) :
    flags? ('#' :: '#' :: '!' :: '>' :: r) = none ∧ prefix? ('#' :: '#' :: '!' :: '>' :: r) = none ∧
    suffix? ('#' :: '#' :: '!' :: '>' :: r) = none :=
  ⟨valueLine?_other _ '+' '>' (by decide), valueLine?_other _ '^' '>' (by decide), valueLine?_other _ '$' '>' (by decide)⟩

theorem processLine_emitDefine (n v : Bytes) (i : Nat) (hn : n ≠ []) (hnc : ∀ c ∈ n, isNameCh c = true)
    (hv : v ≠ []) (hvc : ∀ c ∈ v, nonWs c = true) :
    processLine (emitDefine n v) i = some (indentBy i (emitDefine n v), i) := by
  have hd := definition?_emit n v hn hnc hv hvc
  have e : emitDefine n v = b!"##!> " ++ (b!"define " ++ n ++ ' ' :: v) := by simp [emitDefine]
  have e' : emitDefine n v = '#' :: '#' :: '!' :: '>' :: (b!" define " ++ n ++ ' ' :: v) := by simp [emitDefine]
  have hbs : blockStart? (emitDefine n v) = none := by
    rw [e]; exact blockStart?_kw _ (by simp [stripPrefix?]) (by simp [stripPrefix?]) (by intro c hc; simp at hc; subst hc; rfl)
  have hbe : blockEnd? (emitDefine n v) = false := by rw [e']; exact blockEnd?_of _ _ (by decide)
  obtain ⟨f1, f2, f3⟩ := valueLines_none_start (b!" define " ++ n ++ ' ' :: v)
  rw [← e'] at f1 f2 f3
  have hne : (trimLeftSpTab (emitDefine n v)).isEmpty = false := by rw [e']; simp [trimLeftSpTab, List.dropWhile, isSpTab]
  unfold processLine
  simp only [hne, hbs, hbe, f1, f2, f3, hd, Bool.false_eq_true, if_false]
  rfl

theorem processLine_emitInclude (n r : Bytes) (i : Nat) (hn : n ≠ []) (hnc : ∀ c ∈ n, nonWs c = true) (hr : Trimmed r) :
    processLine (emitInclude n r) i = some (indentBy i (emitInclude n r), i) := by
  have hd := include?_emit n r hn hnc hr
  generalize htl : (if r.isEmpty then [] else b!" -- " ++ r) = tl at *
  have e : emitInclude n r = b!"##!> " ++ (b!"include " ++ n ++ tl) := by unfold emitInclude; rw [htl]; simp
  have e' : emitInclude n r = '#' :: '#' :: '!' :: '>' :: (b!" include " ++ n ++ tl) := by unfold emitInclude; rw [htl]; simp
  have hbs : blockStart? (emitInclude n r) = none := by
    rw [e]; exact blockStart?_kw _ (by simp [stripPrefix?]) (by simp [stripPrefix?]) (by intro c hc; simp at hc; subst hc; rfl)
  have hdf : definition? (emitInclude n r) = none := by
    rw [e]; exact definition?_kw _ (by simp [stripPrefix?]) (by intro c hc; simp at hc; subst hc; rfl)
  have hbe : blockEnd? (emitInclude n r) = false := by rw [e']; exact blockEnd?_of _ _ (by decide)
  obtain ⟨f1, f2, f3⟩ := valueLines_none_start (b!" include " ++ n ++ tl)
  rw [← e'] at f1 f2 f3
  have hne : (trimLeftSpTab (emitInclude n r)).isEmpty = false := by rw [e']; simp [trimLeftSpTab, List.dropWhile, isSpTab]
  unfold processLine
  simp only [hne, hbs, hbe, f1, f2, f3, hdf, hd, Bool.false_eq_true, if_false]
  unfold emitInclude; rw [htl]

theorem include?_emitIE (n x r : Bytes) : include? (emitIE n x r) = none := by
  unfold emitIE include?
  generalize (if r.isEmpty then [] else b!" -- " ++ r) = tl
  have e1 : stripPrefix? startMarker (b!"##!> include-except " ++ n ++ ' ' :: x ++ tl) = some (b!" include-except " ++ n ++ ' ' :: x ++ tl) := by
    simp [startMarker, stripPrefix?]
  rw [e1]
  have e2 : dropWs (b!" include-except " ++ n ++ ' ' :: x ++ tl) = b!"include-except " ++ n ++ ' ' :: x ++ tl := by
    simp [dropWs, List.dropWhile, isWs]
  simp only [e2]
  have e3 : stripPrefix? b!"include" (b!"include-except " ++ n ++ ' ' :: x ++ tl) = some (b!"-except " ++ n ++ ' ' :: x ++ tl) := by simp [stripPrefix?]
  rw [e3]
  simp [isWs]

theorem processLine_emitIE (n x r : Bytes) (i : Nat) (hn : n ≠ []) (hnc : ∀ c ∈ n, nonWs c = true)
    (hx : Trimmed x) (hxd : splitDashDash x = none) (hr : Trimmed r) :
    processLine (emitIE n x r) i = some (indentBy i (emitIE n x r), i) := by
  have hd := includeExcept?_emit n x r hn hnc hx hxd hr
  have hi := include?_emitIE n x r
  generalize htl : (if r.isEmpty then [] else b!" -- " ++ r) = tl at *
  have e : emitIE n x r = b!"##!> " ++ (b!"include-except " ++ n ++ ' ' :: x ++ tl) := by unfold emitIE; rw [htl]; simp
  have e' : emitIE n x r = '#' :: '#' :: '!' :: '>' :: (b!" include-except " ++ n ++ ' ' :: x ++ tl) := by unfold emitIE; rw [htl]; simp
  have hbs : blockStart? (emitIE n x r) = none := by
    rw [e]; exact blockStart?_kw _ (by simp [stripPrefix?]) (by simp [stripPrefix?]) (by intro c hc; simp at hc; subst hc; rfl)
  have hdf : definition? (emitIE n x r) = none := by
    rw [e]; exact definition?_kw _ (by simp [stripPrefix?]) (by intro c hc; simp at hc; subst hc; rfl)
  have hbe : blockEnd? (emitIE n x r) = false := by rw [e']; exact blockEnd?_of _ _ (by decide)
  obtain ⟨f1, f2, f3⟩ := valueLines_none_start (b!" include-except " ++ n ++ ' ' :: x ++ tl)
  rw [← e'] at f1 f2 f3
  have hne : (trimLeftSpTab (emitIE n x r)).isEmpty = false := by rw [e']; simp [trimLeftSpTab, List.dropWhile, isSpTab]
  unfold processLine
  simp only [hne, hbs, hbe, f1, f2, f3, hdf, hi, hd, Bool.false_eq_true, if_false]
  unfold emitIE; rw [htl]

/-! ### what the parser accepts is still accepted after formatting -/

theorem isBlank_hash (r : Bytes) : isBlank ('#' :: r) = false := by
  simp [isBlank, isBlankU, dropUSpace?]

theorem lineAccepted_of (l : Bytes) (hf : flags? l = none) (hi : include? l = none) (hx : includeExcept? l = none) :
    lineAccepted l = true := by
  unfold lineAccepted
  simp [hf, hi, hx]

theorem lineAccepted_emitStart (kw arg : Bytes) (hkw : kw = b!"assemble" ∨ kw = b!"cmdline") :
    lineAccepted (emitStart kw arg) = true := by
  generalize htl : (if arg.isEmpty then [] else ' ' :: arg) = tl
  have e : emitStart kw arg = b!"##!> " ++ (kw ++ tl) := by unfold emitStart; rw [htl]; simp
  have e' : emitStart kw arg = '#' :: '#' :: '!' :: '>' :: (' ' :: (kw ++ tl)) := by unfold emitStart; rw [htl]; simp
  apply lineAccepted_of
  · rw [e']; exact (valueLines_none_start _).1
  · rw [e]; rcases hkw with rfl | rfl <;>
      exact include?_kw _ (by simp [stripPrefix?]) (by intro c hc; simp at hc; subst hc; rfl)
  · rw [e]; rcases hkw with rfl | rfl <;>
      exact includeExcept?_kw _ (by simp [stripPrefix?]) (by intro c hc; simp at hc; subst hc; rfl)

theorem lineAccepted_emitValue_other (ch : Char) (hc : ch = '^' ∨ ch = '$') (v : Bytes) :
    lineAccepted (emitValue ch v) = true := by
  rw [emitValue_eq]
  apply lineAccepted_of
  · rcases hc with rfl | rfl <;> exact valueLine?_other _ '+' _ (by decide)
  · rcases hc with rfl | rfl <;> exact include?_notStart _ _ (by decide)
  · rcases hc with rfl | rfl <;> exact includeExcept?_notStart _ _ (by decide)

theorem lineAccepted_emitDefine (n v : Bytes) : lineAccepted (emitDefine n v) = true := by
  have e : emitDefine n v = b!"##!> " ++ (b!"define " ++ n ++ ' ' :: v) := by simp [emitDefine]
  have e' : emitDefine n v = '#' :: '#' :: '!' :: '>' :: (b!" define " ++ n ++ ' ' :: v) := by simp [emitDefine]
  apply lineAccepted_of
  · rw [e']; exact (valueLines_none_start _).1
  · rw [e]; exact include?_kw _ (by simp [stripPrefix?]) (by intro c hc; simp at hc; subst hc; rfl)
  · rw [e]; exact includeExcept?_kw _ (by simp [stripPrefix?]) (by intro c hc; simp at hc; subst hc; rfl)

/-- a line some directive recogniser fires on starts with `#` -/
theorem starts_hash_of_strip (p l r : Bytes) (h : stripPrefix? ('#' :: p) l = some r) : ∃ t, l = '#' :: t := by
  rw [stripPrefix?_some_iff] at h
  exact ⟨p ++ r, by rw [h]; rfl⟩

theorem flags?_hash (l v : Bytes) (h : flags? l = some v) : ∃ t, l = '#' :: t := by
  unfold flags? valueLine? at h
  split at h
  · simp at h
  · rename_i r hr; exact starts_hash_of_strip _ l r hr

theorem include?_hash (l : Bytes) (p : Bytes × Bytes) (h : include? l = some p) : ∃ t, l = '#' :: t := by
  unfold include? at h
  split at h
  · simp at h
  · rename_i r hr; exact starts_hash_of_strip _ l r hr

theorem includeExcept?_hash (l : Bytes) (p : Bytes × Bytes × Bytes) (h : includeExcept? l = some p) : ∃ t, l = '#' :: t := by
  unfold includeExcept? at h
  split at h
  · simp at h
  · rename_i r hr; exact starts_hash_of_strip _ l r hr

/-! ### the re-emission lemma -/

/-- Formatting a line the formatter wrote (after the parser has stripped its indentation again), at the same
    indentation level, writes the same line and moves to the same next level; and a line the parser accepted is
    still accepted. -/
theorem processLine_reemit (l : Bytes) (i : Nat) (l' : Bytes) (k : Nat)
    (hl : trimLeftSpTab l = l) (h : processLine l i = some (l', k)) :
    processLine (trimLeftSpTab l') i = some (l', k) ∧
    (lineAccepted l = true → lineAccepted (trimLeftSpTab l') = true) := by
  have hhead : ∀ c, l.head? = some c → isSpTab c = false := by rw [← hl]; exact trimLeftSpTab_head l
  have same : ∀ j, trimLeftSpTab (indentBy j l) = l := fun j => trimLeftSpTab_indentBy j l hhead
  have h0 := h
  by_cases he : l.isEmpty = true
  · have hp : processLine l i = some (l, i) := by unfold processLine; simp only [hl, he, if_true]
    rw [hp] at h
    simp only [Option.some.injEq, Prod.mk.injEq] at h
    obtain ⟨rfl, rfl⟩ := h
    rw [hl]; exact ⟨h0, id⟩
  have he' : l.isEmpty = false := by simpa using he
  cases hbs : blockStart? l with
  | some p =>
    obtain ⟨kw, arg⟩ := p
    obtain ⟨hkw, harg⟩ := blockStart?_shape l kw arg hbs
    have hp : processLine l i = some (indentBy i (emitStart kw arg), i + 1) := by
      unfold processLine; simp only [hl, he', hbs, Bool.false_eq_true, if_false]; rfl
    rw [hp] at h
    simp only [Option.some.injEq, Prod.mk.injEq] at h
    obtain ⟨rfl, rfl⟩ := h
    have e : trimLeftSpTab (indentBy i (emitStart kw arg)) = emitStart kw arg :=
      trimLeftSpTab_indentBy i _ (by intro c hc; simp [emitStart] at hc; subst hc; rfl)
    rw [e]
    exact ⟨processLine_emitStart kw arg i hkw harg, fun _ => lineAccepted_emitStart kw arg hkw⟩
  | none =>
  by_cases hbe : blockEnd? l = true
  · have hp : processLine l i = (if i == 0 then none else some (indentBy (i - 1) l, i - 1)) := by
      unfold processLine; simp only [hl, he', hbs, hbe, Bool.false_eq_true, if_false, if_true]
    rw [hp] at h
    split at h
    · simp at h
    · simp only [Option.some.injEq, Prod.mk.injEq] at h
      obtain ⟨rfl, rfl⟩ := h
      rw [same]; exact ⟨h0, id⟩
  have hbe' : blockEnd? l = false := by simpa using hbe
  cases hfl : flags? l with
  | some v =>
    obtain ⟨ht, hne⟩ := valueLine?_shape '+' l v hfl
    have hp : processLine l i = some (emitValue '+' v, i) := by
      unfold processLine; simp only [hl, he', hbs, hbe', hfl, Bool.false_eq_true, if_false]; rfl
    rw [hp] at h
    simp only [Option.some.injEq, Prod.mk.injEq] at h
    obtain ⟨rfl, rfl⟩ := h
    have e : trimLeftSpTab (emitValue '+' v) = emitValue '+' v := trimLeftSpTab_of_head _ (by intro c hc; simp [emitValue_eq] at hc; subst hc; rfl)
    rw [e]
    refine ⟨processLine_emitValue '+' (Or.inl rfl) v _ ht hne, ?_⟩
    intro ha
    obtain ⟨t, rfl⟩ := flags?_hash l v hfl
    unfold lineAccepted at ha ⊢
    rw [emitValue_eq]
    simp only [isBlank_hash, Bool.false_eq_true, if_false, hfl] at ha ⊢
    have : flags? ('#' :: '#' :: '!' :: '+' :: ' ' :: v) = some v := valueLine?_emit '+' v ht hne
    simp only [this]
    exact ha
  | none =>
  cases hpf : prefix? l with
  | some v =>
    obtain ⟨ht, hne⟩ := valueLine?_shape '^' l v hpf
    have hp : processLine l i = some (emitValue '^' v, i) := by
      unfold processLine; simp only [hl, he', hbs, hbe', hfl, hpf, Bool.false_eq_true, if_false]; rfl
    rw [hp] at h
    simp only [Option.some.injEq, Prod.mk.injEq] at h
    obtain ⟨rfl, rfl⟩ := h
    have e : trimLeftSpTab (emitValue '^' v) = emitValue '^' v := trimLeftSpTab_of_head _ (by intro c hc; simp [emitValue_eq] at hc; subst hc; rfl)
    rw [e]
    exact ⟨processLine_emitValue '^' (Or.inr (Or.inl rfl)) v _ ht hne, fun _ => lineAccepted_emitValue_other '^' (Or.inl rfl) v⟩
  | none =>
  cases hsf : suffix? l with
  | some v =>
    obtain ⟨ht, hne⟩ := valueLine?_shape '$' l v hsf
    have hp : processLine l i = some (emitValue '$' v, i) := by
      unfold processLine; simp only [hl, he', hbs, hbe', hfl, hpf, hsf, Bool.false_eq_true, if_false]; rfl
    rw [hp] at h
    simp only [Option.some.injEq, Prod.mk.injEq] at h
    obtain ⟨rfl, rfl⟩ := h
    have e : trimLeftSpTab (emitValue '$' v) = emitValue '$' v := trimLeftSpTab_of_head _ (by intro c hc; simp [emitValue_eq] at hc; subst hc; rfl)
    rw [e]
    exact ⟨processLine_emitValue '$' (Or.inr (Or.inr rfl)) v _ ht hne, fun _ => lineAccepted_emitValue_other '$' (Or.inr rfl) v⟩
  | none =>
  cases hdf : definition? l with
  | some p =>
    obtain ⟨n, v⟩ := p
    obtain ⟨a1, a2, a3, a4⟩ := definition?_shape l n v hdf
    have hp : processLine l i = some (indentBy i (emitDefine n v), i) := by
      unfold processLine; simp only [hl, he', hbs, hbe', hfl, hpf, hsf, hdf, Bool.false_eq_true, if_false]; rfl
    rw [hp] at h
    simp only [Option.some.injEq, Prod.mk.injEq] at h
    obtain ⟨rfl, rfl⟩ := h
    have e : trimLeftSpTab (indentBy i (emitDefine n v)) = emitDefine n v :=
      trimLeftSpTab_indentBy i _ (by intro c hc; simp [emitDefine] at hc; subst hc; rfl)
    rw [e]
    exact ⟨processLine_emitDefine n v i a1 a2 a3 a4, fun _ => lineAccepted_emitDefine n v⟩
  | none =>
  cases hin : include? l with
  | some p =>
    obtain ⟨n, r⟩ := p
    obtain ⟨a1, a2, a3⟩ := include?_shape l n r hin
    have hp : processLine l i = some (indentBy i (emitInclude n r), i) := by
      unfold processLine; simp only [hl, he', hbs, hbe', hfl, hpf, hsf, hdf, hin, Bool.false_eq_true, if_false]; rfl
    rw [hp] at h
    simp only [Option.some.injEq, Prod.mk.injEq] at h
    obtain ⟨rfl, rfl⟩ := h
    have e : trimLeftSpTab (indentBy i (emitInclude n r)) = emitInclude n r :=
      trimLeftSpTab_indentBy i _ (by intro c hc; simp [emitInclude] at hc; subst hc; rfl)
    rw [e]
    refine ⟨processLine_emitInclude n r i a1 a2 a3, ?_⟩
    intro ha
    obtain ⟨t, rfl⟩ := include?_hash l _ hin
    have hie := include?_emit n r a1 a2 a3
    have hfe : flags? (emitInclude n r) = none := by
      unfold emitInclude
      exact (valueLines_none_start _).1
    unfold lineAccepted at ha ⊢
    simp only [isBlank_hash, Bool.false_eq_true, if_false, hfl, hin] at ha
    simp only [hfe, hie, ha]
    split <;> rfl
  | none =>
  cases hix : includeExcept? l with
  | some p =>
    obtain ⟨n, x, r⟩ := p
    obtain ⟨a1, a2, a3, a4, a5⟩ := includeExcept?_shape l n x r hix
    have hp : processLine l i = some (indentBy i (emitIE n x r), i) := by
      unfold processLine; simp only [hl, he', hbs, hbe', hfl, hpf, hsf, hdf, hin, hix, Bool.false_eq_true, if_false]; rfl
    rw [hp] at h
    simp only [Option.some.injEq, Prod.mk.injEq] at h
    obtain ⟨rfl, rfl⟩ := h
    have e : trimLeftSpTab (indentBy i (emitIE n x r)) = emitIE n x r :=
      trimLeftSpTab_indentBy i _ (by intro c hc; simp [emitIE] at hc; subst hc; rfl)
    rw [e]
    refine ⟨processLine_emitIE n x r i a1 a2 a3 a4 a5, ?_⟩
    intro ha
    obtain ⟨t, rfl⟩ := includeExcept?_hash l _ hix
    have hie := includeExcept?_emit n x r a1 a2 a3 a4 a5
    have hinn := include?_emitIE n x r
    have hfe : flags? (emitIE n x r) = none := by
      unfold emitIE
      exact (valueLines_none_start _).1
    unfold lineAccepted at ha ⊢
    simp only [isBlank_hash, Bool.false_eq_true, if_false, hfl, hin, hix] at ha
    simp only [hfe, hinn, hie, ha]
    split <;> rfl
  | none =>
    have hp : processLine l i = some (indentBy i l, i) := by
      unfold processLine; simp only [hl, he', hbs, hbe', hfl, hpf, hsf, hdf, hin, hix, Bool.false_eq_true, if_false]
    rw [hp] at h
    simp only [Option.some.injEq, Prod.mk.injEq] at h
    obtain ⟨rfl, rfl⟩ := h
    rw [same]; exact ⟨h0, id⟩

end Crs.Format
