/-
  Lemmas for the lift of C10 to `generate`: what `regex format` changes in a file is invisible to the parser
  (directive lines, text lines) or changes the spelling of a block start line only (`##!>  cmdline   unix ` →
  `##!> cmdline unix`), which survives the expansion of definitions and is read the same by the assembler.
-/
import Crs.Format
import Crs.Assemble
import CrsProofs.Lines
import CrsProofs.Trim
import CrsProofs.DefTokens
import CrsProps.C10
namespace Crs.FormatGen
open Crs Crs.Pat Crs.Parser Crs.Asm Crs.Format Crs.Props

/-! ### `strings.ReplaceAll` and characters that do not occur in the needle -/

theorem isPrefixOf_cons_ne (old : Bytes) (c : Char) (rest : Bytes) (h : c ∉ old) :
    (old.isPrefixOf (c :: rest) && !old.isEmpty) = false := by
  cases old with
  | nil => simp
  | cons o os =>
    have : o ≠ c := fun e => h (by simp [e])
    simp [List.isPrefixOf, this]

theorem replaceAllAux_hit (old new : Bytes) (c : Char) (cs : Bytes)
    (h : (old.isPrefixOf (c :: cs) && !old.isEmpty) = true) :
    replaceAllAux old new 0 (c :: cs) = new ++ replaceAllAux old new (old.length - 1) cs := by
  simp only [replaceAllAux, h, if_true]

theorem replaceAllAux_miss (old new : Bytes) (c : Char) (cs : Bytes)
    (h : (old.isPrefixOf (c :: cs) && !old.isEmpty) = false) :
    replaceAllAux old new 0 (c :: cs) = c :: replaceAllAux old new 0 cs := by
  simp only [replaceAllAux, h, Bool.false_eq_true, if_false]

theorem prefix_of_sep (c : Char) (B : Bytes) : ∀ (A old : Bytes), c ∉ old → old <+: A ++ c :: B → old <+: A := by
  intro A
  induction A with
  | nil =>
    intro old hc h
    cases old with
    | nil => exact List.nil_prefix
    | cons o os =>
      simp only [List.nil_append, List.cons_prefix_cons] at h
      exact absurd (by simp [h.1]) hc
  | cons a A ih =>
    intro old hc h
    cases old with
    | nil => exact List.nil_prefix
    | cons o os =>
      simp only [List.cons_append, List.cons_prefix_cons] at h
      exact List.cons_prefix_cons.mpr ⟨h.1, ih os (fun m => hc (by simp [m])) h.2⟩

/-- a character that does not occur in the needle separates the text: no match covers it -/
theorem replaceAllAux_sep (old new : Bytes) (c : Char) (B : Bytes) (hc : c ∉ old) :
    ∀ (A : Bytes) (k : Nat), k ≤ A.length →
      replaceAllAux old new k (A ++ c :: B) = replaceAllAux old new k A ++ c :: replaceAllAux old new 0 B := by
  intro A
  induction A with
  | nil =>
    intro k hk
    have : k = 0 := by simpa using hk
    subst this
    simp only [List.nil_append]
    rw [replaceAllAux_miss old new c B (isPrefixOf_cons_ne old c B hc)]
    simp [replaceAllAux]
  | cons a A ih =>
    intro k hk
    cases k with
    | succ k =>
      simp only [List.cons_append, replaceAllAux]
      exact ih k (by simpa using hk)
    | zero =>
      simp only [List.cons_append]
      cases hp : (old.isPrefixOf (a :: (A ++ c :: B)) && !old.isEmpty) with
      | true =>
        -- a match starts here: it lies inside `a :: A`
        have hp2 := hp
        simp only [Bool.and_eq_true, Bool.not_eq_true'] at hp2
        have hpre : old <+: (a :: A) ++ c :: B := by
          have := List.isPrefixOf_iff_prefix.mp hp2.1; simpa using this
        have hpre' : old <+: a :: A := prefix_of_sep c B (a :: A) old hc hpre
        have hlen : old.length ≤ A.length + 1 := by simpa using hpre'.length_le
        have hp' : (old.isPrefixOf (a :: A) && !old.isEmpty) = true := by
          simp [List.isPrefixOf_iff_prefix.mpr hpre', hp2.2]
        rw [replaceAllAux_hit old new a _ hp, replaceAllAux_hit old new a _ hp']
        simp only [List.append_assoc]
        rw [ih (old.length - 1) (by omega)]
      | false =>
        have hp' : (old.isPrefixOf (a :: A) && !old.isEmpty) = false := by
          cases hq : (old.isPrefixOf (a :: A) && !old.isEmpty) with
          | false => rfl
          | true =>
            simp only [Bool.and_eq_true] at hq
            have h1 : old <+: a :: A := List.isPrefixOf_iff_prefix.mp hq.1
            have h2 : old <+: a :: (A ++ c :: B) := by
              have := h1.trans (List.prefix_append (a :: A) (c :: B)); simpa using this
            have : (old.isPrefixOf (a :: (A ++ c :: B)) && !old.isEmpty) = true := by
              simp only [Bool.and_eq_true]; exact ⟨List.isPrefixOf_iff_prefix.mpr h2, hq.2⟩
            rw [this] at hp; exact Bool.noConfusion hp
        rw [replaceAllAux_miss old new a _ hp, replaceAllAux_miss old new a _ hp']
        simp only [List.cons_append]
        rw [ih 0 (Nat.zero_le _)]

theorem replaceAll_sep (old new : Bytes) (c : Char) (A B : Bytes) (hc : c ∉ old) :
    replaceAll (A ++ c :: B) old new = replaceAll A old new ++ c :: replaceAll B old new :=
  replaceAllAux_sep old new c B hc A 0 (Nat.zero_le _)

/-- text made of characters that do not occur in the needle is left alone -/
theorem replaceAll_pass (old new : Bytes) (p X : Bytes) (hp : ∀ c ∈ p, c ∉ old) :
    replaceAll (p ++ X) old new = p ++ replaceAll X old new := by
  induction p with
  | nil => rfl
  | cons c p ih =>
    have := replaceAll_sep old new c [] (p ++ X) (hp c (by simp))
    simp only [List.nil_append] at this
    simp only [List.cons_append]
    rw [this, ih (fun d hd => hp d (by simp [hd]))]
    simp [replaceAll, replaceAllAux]

theorem replaceAll_nil (old new : Bytes) : replaceAll [] old new = [] := by simp [replaceAll, replaceAllAux]

theorem replaceAll_pass_end (old new : Bytes) (A w : Bytes) (hw : ∀ c ∈ w, c ∉ old) :
    replaceAll (A ++ w) old new = replaceAll A old new ++ w := by
  cases w with
  | nil => simp
  | cons c w =>
    rw [replaceAll_sep old new c A w (hw c (by simp))]
    have := replaceAll_pass old new w [] (fun d hd => hw d (by simp [hd]))
    simp only [List.append_nil, replaceAll_nil] at this
    rw [this]

theorem replaceAllAux_mem (old new : Bytes) (k : Nat) (s : Bytes) :
    ∀ c ∈ replaceAllAux old new k s, c ∈ s ∨ c ∈ new := by
  induction s generalizing k with
  | nil => intro c hc; simp [replaceAllAux] at hc
  | cons a s ih =>
    intro c hc
    cases k with
    | succ k =>
      simp only [replaceAllAux] at hc
      rcases ih k c hc with h | h
      · exact .inl (by simp [h])
      · exact .inr h
    | zero =>
      simp only [replaceAllAux] at hc
      split at hc
      · rcases List.mem_append.mp hc with h | h
        · exact .inr h
        · rcases ih _ c h with h | h
          · exact .inl (by simp [h])
          · exact .inr h
      · rcases List.mem_cons.mp hc with h | h
        · exact .inl (by simp [h])
        · rcases ih _ c h with h | h
          · exact .inl (by simp [h])
          · exact .inr h

theorem replaceAll_mem (s old new : Bytes) : ∀ c ∈ replaceAll s old new, c ∈ s ∨ c ∈ new :=
  replaceAllAux_mem old new 0 s

/-- a non-empty text that begins with a non-white-space character still does after a replacement by such a text -/
theorem replaceAll_head (s old new : Bytes) (hs : ∃ c t, s = c :: t ∧ isWs c = false)
    (hn : ∃ c t, new = c :: t ∧ isWs c = false) :
    ∃ c t, replaceAll s old new = c :: t ∧ isWs c = false := by
  obtain ⟨c, t, rfl, hc⟩ := hs
  obtain ⟨d, u, rfl, hd⟩ := hn
  unfold replaceAll
  cases hp : (old.isPrefixOf (c :: t) && !old.isEmpty) with
  | true => rw [replaceAllAux_hit old (d :: u) c t hp]; exact ⟨d, _, rfl, hd⟩
  | false => rw [replaceAllAux_miss old (d :: u) c t hp]; exact ⟨c, _, rfl, hc⟩


/-! ### references `{{name}}` -/

/-- names as `DefinitionRegex` admits them -/
def NameOK (n : Bytes) : Prop := ∀ c ∈ n, isNameCh c = true

/-- values as `DefinitionRegex` admits them, and as substitution keeps them: non-empty, beginning with a
    non-white-space character, on one line -/
def ValOK (v : Bytes) : Prop := (∃ c t, v = c :: t ∧ isWs c = false) ∧ '\n' ∉ v

def VarsOK (vs : Vars) : Prop := ∀ p ∈ vs, NameOK p.1 ∧ ValOK p.2

theorem mem_refOf (n : Bytes) (c : Char) (h : c ∈ refOf n) : c = '{' ∨ c = '}' ∨ c ∈ n := by
  rw [refOf_eq] at h
  simp only [List.mem_cons, List.mem_append, List.not_mem_nil, or_false] at h
  rcases h with h | h | h | h | h
  · exact .inl h
  · exact .inl h
  · exact .inr (.inr h)
  · exact .inr (.inl h)
  · exact .inr (.inl h)

theorem not_mem_refOf (n : Bytes) (hn : NameOK n) (c : Char) (h1 : c ≠ '{') (h2 : c ≠ '}') (h3 : isNameCh c = false) :
    c ∉ refOf n := by
  intro h
  rcases mem_refOf n c h with h | h | h
  · exact h1 h
  · exact h2 h
  · rw [hn c h] at h3; exact Bool.noConfusion h3

theorem nl_not_mem_refOf (n : Bytes) (hn : NameOK n) : '\n' ∉ refOf n :=
  not_mem_refOf n hn '\n' (by decide) (by decide) (by decide)

theorem ws_not_mem_refOf (n : Bytes) (hn : NameOK n) (c : Char) (hc : isWs c = true) : c ∉ refOf n := by
  simp only [isWs, Bool.or_eq_true, beq_iff_eq] at hc
  rcases hc with (((rfl | rfl) | rfl) | rfl) | rfl <;>
    exact not_mem_refOf n hn _ (by decide) (by decide) (by decide)

/-- text without `{` is not touched by the replacement of a reference -/
theorem replaceAll_pfx_ref (n r : Bytes) (p X : Bytes) (hp : ∀ c ∈ p, c ≠ '{') :
    replaceAll (p ++ X) (refOf n) r = p ++ replaceAll X (refOf n) r := by
  induction p with
  | nil => rfl
  | cons c p ih =>
    have hc : c ≠ '{' := hp c (by simp)
    have hm : ((refOf n).isPrefixOf (c :: (p ++ X)) && !(refOf n).isEmpty) = false := by
      rw [ref_not_prefix_of_ne n c _ hc]; rfl
    simp only [List.cons_append]
    unfold replaceAll at ih ⊢
    rw [replaceAllAux_miss _ _ c _ hm, ih (fun d hd => hp d (by simp [hd]))]

/-! ### texts made of complete lines -/

/-- empty, or ending in a line feed -/
def LineEnded (A : Bytes) : Prop := A = [] ∨ ∃ A', A = A' ++ ['\n']

theorem LineEnded.append {A B : Bytes} (ha : LineEnded A) (hb : LineEnded B) : LineEnded (A ++ B) := by
  rcases hb with rfl | ⟨B', rfl⟩
  · simpa using ha
  · exact .inr ⟨A ++ B', by simp⟩

theorem lineEnded_unlines (ls : List Bytes) : LineEnded (unlines ls) := by
  induction ls with
  | nil => exact .inl rfl
  | cons l ls ih =>
    rw [unlines_cons]
    have : LineEnded (l ++ ['\n']) := .inr ⟨l, rfl⟩
    have := this.append ih
    simpa using this

theorem lineEnded_snoc (l : Bytes) : LineEnded (l ++ ['\n']) := .inr ⟨l, rfl⟩

/-- a replacement whose needle has no line feed works on each complete-line chunk separately -/
theorem replaceAll_lineEnded_append (old new A Z : Bytes) (hnl : '\n' ∉ old) (ha : LineEnded A) :
    replaceAll (A ++ Z) old new = replaceAll A old new ++ replaceAll Z old new := by
  rcases ha with rfl | ⟨A', rfl⟩
  · simp [replaceAll_nil]
  · have h1 := replaceAll_sep old new '\n' A' Z hnl
    have h2 := replaceAll_sep old new '\n' A' [] hnl
    simp only [replaceAll_nil] at h2
    simp only [List.append_assoc, List.cons_append, List.nil_append]
    rw [h1, h2]; simp

theorem replaceAll_lineEnded (old new A : Bytes) (hnl : '\n' ∉ old) (ha : LineEnded A) :
    LineEnded (replaceAll A old new) := by
  rcases ha with rfl | ⟨A', rfl⟩
  · exact .inl (replaceAll_nil _ _)
  · have h2 := replaceAll_sep old new '\n' A' [] hnl
    simp only [replaceAll_nil] at h2
    exact .inr ⟨replaceAll A' old new, h2⟩

/-! ### the two spellings of a block start line -/

/-- the shared argument text of a block start line: empty when the line had no argument, otherwise beginning with a
    non-white-space character -/
def ArgOK (e : Bool) (a : Bytes) : Prop :=
  (if e then a = [] else ∃ c t, a = c :: t ∧ isWs c = false) ∧ '\n' ∉ a

/-- `P1 ++ a ++ w` is the line as written, `P2 ++ a` the formatted line: both are read by the assembler as the start of
    the same processor with the same argument, whatever the argument text `a` has become by then -/
structure Spell (P1 P2 w : Bytes) (e : Bool) : Prop where
  nb1 : ∀ c ∈ P1, c ≠ '{' ∧ c ≠ '\n'
  nb2 : ∀ c ∈ P2, c ≠ '{' ∧ c ≠ '\n'
  ws : ∀ c ∈ w, isWs c = true ∧ c ≠ '\n'
  ps : ∀ a, ArgOK e a → ∃ r, processorStart? (P1 ++ a ++ w) = some r ∧ processorStart? (P2 ++ a) = some r

inductive SegRel : Bytes → Bytes → Prop
  | same (Z : Bytes) : LineEnded Z → SegRel Z Z
  | start (P1 P2 a w : Bytes) (e : Bool) : Spell P1 P2 w e → ArgOK e a → SegRel (P1 ++ a ++ w ++ ['\n']) (P2 ++ a ++ ['\n'])

/-- the text the parser hands to the assembler for the file as written and for the formatted file -/
inductive TRel : Bytes → Bytes → Prop
  | nil : TRel [] []
  | snoc {X Y S T : Bytes} : TRel X Y → SegRel S T → TRel (X ++ S) (Y ++ T)

theorem SegRel.lineEnded {S T : Bytes} (h : SegRel S T) : LineEnded S ∧ LineEnded T := by
  cases h with
  | same Z hz => exact ⟨hz, hz⟩
  | start P1 P2 a w e _ _ => exact ⟨.inr ⟨_, rfl⟩, .inr ⟨_, rfl⟩⟩

theorem TRel.lineEnded {X Y : Bytes} (h : TRel X Y) : LineEnded X ∧ LineEnded Y := by
  induction h with
  | nil => exact ⟨.inl rfl, .inl rfl⟩
  | snoc _ hs ih => exact ⟨ih.1.append hs.lineEnded.1, ih.2.append hs.lineEnded.2⟩

theorem TRel.refl_of_lineEnded (A : Bytes) (h : LineEnded A) : TRel A A := by
  have := TRel.snoc TRel.nil (SegRel.same A h)
  simpa using this

theorem TRel.append_same {X Y : Bytes} (h : TRel X Y) (Z : Bytes) (hz : LineEnded Z) : TRel (X ++ Z) (Y ++ Z) :=
  TRel.snoc h (SegRel.same Z hz)

theorem ArgOK.subst {e : Bool} {a : Bytes} (h : ArgOK e a) (old new : Bytes) (hv : ValOK new) :
    ArgOK e (replaceAll a old new) := by
  obtain ⟨h1, h2⟩ := h
  refine ⟨?_, ?_⟩
  · cases e with
    | true => simp only [if_true] at h1 ⊢; rw [h1]; exact replaceAll_nil _ _
    | false =>
      simp only [Bool.false_eq_true, if_false] at h1 ⊢
      exact replaceAll_head a old new h1 hv.1
  · intro hm
    rcases replaceAll_mem a old new '\n' hm with h | h
    · exact h2 h
    · exact hv.2 h

theorem SegRel.subst {S T : Bytes} (h : SegRel S T) (n r : Bytes) (hn : NameOK n) (hv : ValOK r) :
    SegRel (replaceAll S (refOf n) r) (replaceAll T (refOf n) r) := by
  cases h with
  | same Z hz => exact .same _ (replaceAll_lineEnded _ _ _ (nl_not_mem_refOf n hn) hz)
  | start P1 P2 a w e sp ha =>
    have hnl := nl_not_mem_refOf n hn
    have e1 : replaceAll (P1 ++ a ++ w ++ ['\n']) (refOf n) r = P1 ++ replaceAll a (refOf n) r ++ w ++ ['\n'] := by
      have : P1 ++ a ++ w ++ ['\n'] = P1 ++ ((a ++ w) ++ '\n' :: []) := by simp
      rw [this, replaceAll_pfx_ref n r P1 _ (fun c hc => (sp.nb1 c hc).1), replaceAll_sep _ _ '\n' _ _ hnl,
        replaceAll_pass_end _ _ a w (fun c hc => ws_not_mem_refOf n hn c (sp.ws c hc).1), replaceAll_nil]
      simp
    have e2 : replaceAll (P2 ++ a ++ ['\n']) (refOf n) r = P2 ++ replaceAll a (refOf n) r ++ ['\n'] := by
      have : P2 ++ a ++ ['\n'] = P2 ++ (a ++ '\n' :: []) := by simp
      rw [this, replaceAll_pfx_ref n r P2 _ (fun c hc => (sp.nb2 c hc).1), replaceAll_sep _ _ '\n' _ _ hnl, replaceAll_nil]
      simp
    rw [e1, e2]
    exact .start P1 P2 _ w e sp (ha.subst _ _ hv)

theorem TRel.subst {X Y : Bytes} (h : TRel X Y) (n r : Bytes) (hn : NameOK n) (hv : ValOK r) :
    TRel (replaceAll X (refOf n) r) (replaceAll Y (refOf n) r) := by
  induction h with
  | nil => rw [replaceAll_nil]; exact .nil
  | snoc hxy hs ih =>
    have hnl := nl_not_mem_refOf n hn
    rw [replaceAll_lineEnded_append _ _ _ _ hnl hxy.lineEnded.1, replaceAll_lineEnded_append _ _ _ _ hnl hxy.lineEnded.2]
    exact .snoc ih (hs.subst n r hn hv)


/-! ### from texts to the lines the assembler scans -/

theorem splitCh_append_sep' (sep : Char) (Z : Bytes) : ∀ A : Bytes,
    splitCh sep (A ++ sep :: Z) = splitCh sep A ++ splitCh sep Z := by
  intro A
  induction A with
  | nil => simp [splitCh]
  | cons c A ih =>
    simp only [List.cons_append, splitCh]
    by_cases hc : (c == sep) = true
    · simp only [hc, if_true, ih, List.cons_append]
    · simp only [hc, Bool.false_eq_true, if_false, ih]
      cases hs : splitCh sep A with
      | nil => exact absurd hs (splitCh_ne_nil sep A)
      | cons x xs => simp [consHead]

theorem rawLines_lineEnded_append (A Z : Bytes) (ha : LineEnded A) : rawLines (A ++ Z) = rawLines A ++ rawLines Z := by
  rcases ha with rfl | ⟨A', rfl⟩
  · have : rawLines [] = [] := by decide
    simp [this]
  · have e1 : splitNl (A' ++ ['\n'] ++ Z) = splitNl A' ++ splitNl Z := by
      have := splitCh_append_sep' '\n' Z A'
      simpa [splitNl] using this
    have e2 : splitNl (A' ++ ['\n']) = splitNl A' ++ [[]] := by
      have := splitCh_append_sep' '\n' [] A'
      simpa [splitNl, splitCh] using this
    have hz := splitNl_ne_nil Z
    have r2 : rawLines (A' ++ ['\n']) = splitNl A' := by
      unfold rawLines
      rw [e2]
      simp
    rw [r2]
    unfold rawLines
    have hl : (splitNl A' ++ splitNl Z).getLast? = (splitNl Z).getLast? := by
      cases hs : splitNl Z with
      | nil => exact absurd hs hz
      | cons z zs =>
        rw [List.getLast?_append]
        cases hg : (z :: zs).getLast? with
        | none => simp at hg
        | some g => rfl
    rw [e1, hl]
    split
    · rw [List.dropLast_append_of_ne_nil hz]
    · rfl

theorem scanLines_lineEnded_append (A Z : Bytes) (ha : LineEnded A) : scanLines (A ++ Z) = scanLines A ++ scanLines Z := by
  unfold scanLines
  rw [rawLines_lineEnded_append A Z ha, List.map_append]

theorem scanLines_one (l : Bytes) (h : '\n' ∉ l) : scanLines (l ++ ['\n']) = [dropCR l] := by
  have := scanLines_unlines_dropCR [l] (by simpa using h)
  simpa [unlines] using this

/-- the assembler reads both lines the same way -/
def LRel (l1 l2 : Bytes) : Prop := l1 = l2 ∨ ∃ r, processorStart? l1 = some r ∧ processorStart? l2 = some r

theorem takeWhile_snoc_noP {α} (p : α → Bool) (x : List α) (c : α) (hc : p c = false) :
    (x ++ [c]).takeWhile p = x.takeWhile p := by
  induction x with
  | nil => simp [List.takeWhile, hc]
  | cons a x ih => simp only [List.cons_append, List.takeWhile]; split <;> simp [ih]

theorem dropWhile_snoc_noP {α} (p : α → Bool) (x : List α) (c : α) (hc : p c = false) :
    (x ++ [c]).dropWhile p = x.dropWhile p ++ [c] := by
  induction x with
  | nil => simp [List.dropWhile, hc]
  | cons a x ih => simp only [List.cons_append, List.dropWhile]; split <;> simp [ih]

theorem dropWs_snoc_cr (x : Bytes) : dropWs (x ++ ['\r']) = if dropWs x = [] then [] else dropWs x ++ ['\r'] := by
  induction x with
  | nil => simp [dropWs, List.dropWhile, isWs]
  | cons a x ih =>
    by_cases ha : isWs a = true
    · have e1 : dropWs (a :: x ++ ['\r']) = dropWs (x ++ ['\r']) := by
        simp only [dropWs, List.cons_append, List.dropWhile, ha]
      have e2 : dropWs (a :: x) = dropWs x := by simp only [dropWs, List.dropWhile, ha]
      rw [e1, e2, ih]
    · have e1 : dropWs (a :: x ++ ['\r']) = a :: x ++ ['\r'] := by
        simp only [dropWs, List.cons_append, List.dropWhile, ha]
      have e2 : dropWs (a :: x) = a :: x := by simp only [dropWs, List.dropWhile, ha]
      rw [e1, e2]; simp

/-- the part of a processor start line the assembler looks at, as a function of the text after `##!>` -/
def psRest (r0 : Bytes) : Option (Bytes × Bytes) :=
  let r := dropWs r0
  let name := r.takeWhile isLower
  if name.isEmpty then none else
  let r1 := r.dropWhile isLower
  match r1 with
  | c :: _ => if isWs c then some (name, (dropWs r1).takeWhile isLower) else some (name, [])
  | [] => some (name, [])

theorem processorStart?_eq (l : Bytes) :
    processorStart? l = match stripPrefix? startMarker l with | none => none | some r0 => psRest r0 := by
  unfold processorStart? psRest
  cases stripPrefix? startMarker l <;> rfl

theorem isLower_cr : isLower '\r' = false := by decide

theorem psRest_snoc_cr (x : Bytes) : psRest (x ++ ['\r']) = psRest x := by
  unfold psRest
  simp only [dropWs_snoc_cr]
  by_cases hx : dropWs x = []
  · simp [hx]
  · simp only [hx, if_false]
    rw [takeWhile_snoc_noP _ _ _ isLower_cr, dropWhile_snoc_noP _ _ _ isLower_cr]
    by_cases hn : ((dropWs x).takeWhile isLower).isEmpty = true
    · simp [hn]
    · simp only [hn, Bool.false_eq_true, if_false]
      cases hr : (dropWs x).dropWhile isLower with
      | nil => simp [isWs, dropWs, List.dropWhile]
      | cons c rest =>
        simp only [List.cons_append]
        by_cases hc : isWs c = true
        · simp only [hc, if_true]
          have : c :: (rest ++ ['\r']) = (c :: rest) ++ ['\r'] := rfl
          rw [this, dropWs_snoc_cr]
          by_cases hd : dropWs (c :: rest) = []
          · simp [hd]
          · simp only [hd, if_false]
            rw [takeWhile_snoc_noP _ _ _ isLower_cr]
        · simp [hc]

theorem processorStart?_dropCR (l : Bytes) : processorStart? (dropCR l) = processorStart? l := by
  unfold dropCR
  split
  · rename_i hlast
    -- l = y ++ ['\r']
    obtain ⟨y, rfl⟩ : ∃ y, l = y ++ ['\r'] := by
      cases hl : l.getLast? with
      | none => rw [hl] at hlast; simp at hlast
      | some c =>
        rw [hl] at hlast
        have hc : c = '\r' := Option.some.inj hlast
        obtain ⟨y, hy⟩ := List.getLast?_eq_some_iff.mp hl
        exact ⟨y, by rw [hy, hc]⟩
    simp only [List.dropLast_concat]
    rw [processorStart?_eq, processorStart?_eq]
    cases hs : stripPrefix? startMarker y with
    | some r0 =>
      have hy : y = startMarker ++ r0 := (stripPrefix?_some_iff _ _ _).mp hs
      have : stripPrefix? startMarker (y ++ ['\r']) = some (r0 ++ ['\r']) := by
        rw [stripPrefix?_some_iff, hy]; simp
      rw [this]
      simp only
      exact (psRest_snoc_cr r0).symm
    | none =>
      cases hs2 : stripPrefix? startMarker (y ++ ['\r']) with
      | none => rfl
      | some r1 =>
        -- then y ++ "\r" = "##!>" ++ r1 with r1 = [] impossible, so y has the prefix
        exfalso
        have h2 : y ++ ['\r'] = startMarker ++ r1 := (stripPrefix?_some_iff _ _ _).mp hs2
        have hn : ¬ startMarker <+: y := (stripPrefix?_none_iff _ _).mp hs
        cases hr : r1.getLast? with
        | none =>
          have : r1 = [] := List.getLast?_eq_none_iff.mp hr
          subst this
          have h3 := congrArg List.getLast? h2
          simp [startMarker] at h3
        | some d =>
          obtain ⟨r1', hr1⟩ := List.getLast?_eq_some_iff.mp hr
          rw [hr1, ← List.append_assoc] at h2
          have := List.append_inj_left' h2 rfl
          exact hn ⟨r1', this.symm⟩
  · rfl

theorem SegRel.lines {S T : Bytes} (h : SegRel S T) : Pointwise LRel (scanLines S) (scanLines T) := by
  cases h with
  | same _ _ =>
    generalize scanLines S = L
    induction L with
    | nil => exact .nil
    | cons l L ih => exact .cons (.inl rfl) ih
  | start P1 P2 a w e sp ha =>
    have n1 : '\n' ∉ P1 ++ a ++ w := by
      intro hm
      simp only [List.mem_append] at hm
      rcases hm with (hm | hm) | hm
      · exact (sp.nb1 _ hm).2 rfl
      · exact ha.2 hm
      · exact (sp.ws _ hm).2 rfl
    have n2 : '\n' ∉ P2 ++ a := by
      intro hm
      simp only [List.mem_append] at hm
      rcases hm with hm | hm
      · exact (sp.nb2 _ hm).2 rfl
      · exact ha.2 hm
    rw [scanLines_one _ n1, scanLines_one _ n2]
    obtain ⟨r, h1, h2⟩ := sp.ps a ha
    refine .cons (.inr ⟨r, ?_, ?_⟩) .nil
    · rw [processorStart?_dropCR]; exact h1
    · rw [processorStart?_dropCR]; exact h2

theorem Pointwise.append {α β} {R : α → β → Prop} {a1 a2 : List α} {b1 b2 : List β}
    (h1 : Pointwise R a1 b1) (h2 : Pointwise R a2 b2) : Pointwise R (a1 ++ a2) (b1 ++ b2) := by
  induction h1 with
  | nil => exact h2
  | cons h _ ih => exact .cons h ih

theorem TRel.lines {X Y : Bytes} (h : TRel X Y) : Pointwise LRel (scanLines X) (scanLines Y) := by
  induction h with
  | nil =>
    have : scanLines [] = [] := by decide
    rw [this]; exact .nil
  | snoc hxy hs ih =>
    rw [scanLines_lineEnded_append _ _ hxy.lineEnded.1, scanLines_lineEnded_append _ _ hxy.lineEnded.2]
    exact Pointwise.append ih hs.lines

/-- the assembler's line loop gives the same result on lines it reads the same way -/
theorem runLines_congr (E : Engine) (cfg : Config) {L1 L2 : List Bytes} (h : Pointwise LRel L1 L2) :
    ∀ stash stack, runLines E cfg stash stack L1 = runLines E cfg stash stack L2 := by
  induction h with
  | nil => intro _ _; rfl
  | cons hl _ ih =>
    intro stash stack
    rcases hl with rfl | ⟨r, h1, h2⟩
    · simp only [runLines, ih]
    · obtain ⟨name, arg⟩ := r
      simp only [runLines, h1, h2, ih]


/-! ### what the parser hands on is made of complete lines -/

theorem lookup_mem {k v : Bytes} {vs : Vars} (h : assocLookup k vs = some v) : (k, v) ∈ vs := by
  induction vs with
  | nil => simp [assocLookup] at h
  | cons p vs ih =>
    obtain ⟨k', v'⟩ := p
    simp only [assocLookup] at h
    split at h
    · rename_i hk
      have hk' : k' = k := by simpa using hk
      simp only [Option.some.injEq] at h
      subst hk' h; simp
    · exact List.mem_cons_of_mem _ (ih h)

def NamesOK (vs : Vars) : Prop := ∀ p ∈ vs, NameOK p.1

theorem VarsOK.names {vs : Vars} (h : VarsOK vs) : NamesOK vs := fun p hp => (h p hp).1

theorem closeStep_namesOK (vs : Vars) (n : Bytes) (h : NamesOK vs) : NamesOK (closeStep vs n) := by
  unfold closeStep
  split
  · intro p hp
    obtain ⟨q, hq, rfl⟩ := List.mem_map.mp hp
    exact h q hq
  · exact h

theorem closeVars_namesOK (ord : List Bytes) (vs : Vars) (h : NamesOK vs) : NamesOK (closeVars ord vs) := by
  unfold closeVars
  induction ord generalizing vs with
  | nil => exact h
  | cons n ord ih => exact ih _ (closeStep_namesOK vs n h)

theorem applyVars_lineEnded (ord : List Bytes) (vs : Vars) (h : NamesOK vs) (src : Bytes) (hs : LineEnded src) :
    LineEnded (applyVars ord vs src) := by
  unfold applyVars
  induction ord generalizing src with
  | nil => exact hs
  | cons n ord ih =>
    apply ih
    unfold applyStep
    split
    · rename_i r hr
      exact replaceAll_lineEnded _ _ _ (nl_not_mem_refOf n (h _ (lookup_mem hr))) hs
    · exact hs

theorem define_namesOK (vs : Vars) (n v : Bytes) (h : NamesOK vs) (hn : NameOK n) : NamesOK (vs.define n v) := by
  unfold Vars.define
  split
  · exact h
  · intro p hp
    rcases List.mem_append.mp hp with hp | hp
    · exact h p hp
    · simp only [List.mem_singleton] at hp; subst hp; exact hn

theorem wrapInclude_lineEnded (p : PState) (h : LineEnded p.out) : LineEnded (wrapInclude p) := by
  unfold wrapInclude
  split
  · exact h
  · exact .inr ⟨_, by
      have : b!"##!<\n" = b!"##!<" ++ ['\n'] := rfl
      rw [this, ← List.append_assoc]⟩

theorem replaceSuffixes_lineEnded (c : Bytes) (pairs : List (Bytes × Bytes)) (h : LineEnded c) :
    LineEnded (replaceSuffixes c pairs) := by
  unfold replaceSuffixes
  split
  · exact h
  · exact lineEnded_unlines _

/-- invariant of a parser state -/
def PInv (st : PState) : Prop := LineEnded st.out ∧ NamesOK st.vars

theorem parseFile_inv_of (fs : Fs) (o1 o2 : Ord) (f : Nat)
    (hA : ∀ v c st, NamesOK v → parse fs o1 o2 f v c = .ok st → PInv st)
    (name : Bytes) (defs : Vars) (hd : NamesOK defs) (r : Bytes × Vars) (h : parseFile fs o1 o2 f name defs = .ok r) :
    LineEnded r.1 ∧ NamesOK r.2 := by
  simp only [parseFile] at h
  cases hfind : fs.find name with
  | none => rw [hfind] at h; simp at h
  | some contents =>
    rw [hfind] at h
    simp only at h
    cases hp : parse fs o1 o2 f defs contents with
    | error e => rw [hp] at h; simp at h
    | ok st =>
      rw [hp] at h
      simp only at h
      have hi := hA defs contents st hd hp
      split at h
      · simp at h
      · simp only [Except.ok.injEq] at h
        subst h
        exact ⟨wrapInclude_lineEnded st hi.1, hi.2⟩

theorem parseLines_inv_of (fs : Fs) (o1 o2 : Ord) (f : Nat)
    (hB : ∀ name defs r, NamesOK defs → parseFile fs o1 o2 f name defs = .ok r → LineEnded r.1 ∧ NamesOK r.2)
    (ls : List Bytes) (st st' : PState) (h : parseLines fs o1 o2 f st ls = .ok st') (hi : PInv st) : PInv st' := by
  induction ls generalizing st with
  | nil => simp only [parseLines, Except.ok.injEq] at h; subst h; exact hi
  | cons line rest ih =>
    simp only [parseLines] at h
    by_cases hb : isBlank (trimLeftSpTab line) = true
    · simp only [hb, if_true] at h; exact ih _ h hi
    simp only [hb, Bool.false_eq_true, if_false] at h
    by_cases hc : comment? (trimLeftSpTab line) = true
    · simp only [hc, if_true] at h; exact ih _ h hi
    simp only [hc, Bool.false_eq_true, if_false] at h
    cases hd : definition? (trimLeftSpTab line) with
    | some p =>
      obtain ⟨n, v⟩ := p
      simp only [hd] at h
      exact ih _ h ⟨hi.1, define_namesOK _ n v hi.2 (definition?_shape _ n v hd).2.1⟩
    | none =>
    simp only [hd] at h
    cases hinc : include? (trimLeftSpTab line) with
    | some p =>
      obtain ⟨name, repl⟩ := p
      simp only [hinc] at h
      cases hpairs : buildPairs repl with
      | none => rw [hpairs] at h; simp at h
      | some pairs =>
        simp only [hpairs] at h
        cases hp : parseFile fs o1 o2 f name [] with
        | error e => rw [hp] at h; simp at h
        | ok res =>
          obtain ⟨text, dd⟩ := res
          rw [hp] at h
          simp only at h
          have hr := hB name [] _ (by intro p hp; simp at hp) hp
          exact ih _ h ⟨hi.1.append (replaceSuffixes_lineEnded _ _ hr.1), hi.2⟩
    | none =>
    simp only [hinc] at h
    cases hx : includeExcept? (trimLeftSpTab line) with
    | some p =>
      obtain ⟨name, excl, repl⟩ := p
      simp only [hx] at h
      cases hpairs : buildPairs repl with
      | none => rw [hpairs] at h; simp at h
      | some pairs =>
        simp only [hpairs] at h
        cases hp : parseFile fs o1 o2 f name [] with
        | error e => rw [hp] at h; simp at h
        | ok res =>
          obtain ⟨text, defs⟩ := res
          rw [hp] at h
          simp only at h
          cases hex : exclusions fs o1 o2 f defs (splitArgs excl) with
          | error e => rw [hex] at h; simp at h
          | ok excluded =>
            rw [hex] at h
            simp only at h
            exact ih _ h ⟨hi.1.append (replaceSuffixes_lineEnded _ _ (lineEnded_unlines _)), hi.2⟩
    | none =>
    simp only [hx] at h
    cases hf : flags? (trimLeftSpTab line) with
    | some v =>
      simp only [hf] at h
      by_cases hv : (v.all fun c => c == 'i' || c == 's') = true
      · simp only [hv, if_true] at h; exact ih _ h hi
      · simp only [hv, Bool.false_eq_true, if_false] at h; simp at h
    | none =>
    simp only [hf] at h
    cases hp : prefix? (trimLeftSpTab line) with
    | some v => simp only [hp] at h; exact ih _ h hi
    | none =>
    simp only [hp] at h
    cases hs : suffix? (trimLeftSpTab line) with
    | some v => simp only [hs] at h; exact ih _ h hi
    | none =>
      simp only [hs] at h
      refine ih _ h ⟨?_, hi.2⟩
      have := hi.1.append (lineEnded_snoc (trimLeftSpTab line))
      simpa using this

theorem parse_inv (fs : Fs) (o1 o2 : Ord) (f : Nat) :
    ∀ v c st, NamesOK v → parse fs o1 o2 f v c = .ok st → PInv st := by
  induction f with
  | zero => intro v c st _ h; simp [parse] at h
  | succ f ih =>
    intro v c st hv h
    have hB : ∀ name defs r, NamesOK defs → parseFile fs o1 o2 f name defs = .ok r → LineEnded r.1 ∧ NamesOK r.2 :=
      fun name defs r hd h => parseFile_inv_of fs o1 o2 f ih name defs hd r h
    simp only [parse] at h
    cases hl : parseLines fs o1 o2 f { vars := v } (scanLines c) with
    | error e => rw [hl] at h; simp at h
    | ok st0 =>
      rw [hl] at h
      simp only at h
      have h0 : PInv st0 := parseLines_inv_of fs o1 o2 f hB _ _ _ hl ⟨.inl rfl, hv⟩
      split at h
      · simp only [Except.ok.injEq] at h; subst h; exact h0
      · simp only [expandDefinitions, Except.ok.injEq] at h
        subst h
        exact ⟨applyVars_lineEnded _ _ (closeVars_namesOK _ _ h0.2) _ h0.1, closeVars_namesOK _ _ h0.2⟩

theorem parseFile_lineEnded (fs : Fs) (o1 o2 : Ord) (f : Nat) (name : Bytes) (r : Bytes × Vars)
    (h : parseFile fs o1 o2 f name [] = .ok r) : LineEnded r.1 :=
  (parseFile_inv_of fs o1 o2 f (parse_inv fs o1 o2 f) name [] (by intro p hp; simp at hp) r h).1


/-! ### the parser's step as a change of state that does not depend on the state -/

inductive Delta where
  | skip
  | define (n v : Bytes)
  | out (Z : Bytes)
  | flags (v : Bytes)
  | pfx (v : Bytes)
  | sfx (v : Bytes)
  deriving DecidableEq

def Delta.apply : Delta → PState → PState
  | .skip, st => st
  | .define n v, st => { st with vars := st.vars.define n v }
  | .out Z, st => { st with out := st.out ++ Z }
  | .flags v, st => { st with flags := v.foldl addFlag st.flags }
  | .pfx v, st => { st with prefixes := st.prefixes ++ [v] }
  | .sfx v, st => { st with suffixes := st.suffixes ++ [v] }

/-- what a line does, as a function of what the recognisers say about it (`v`) and of its text (`t`, used only when no
    recogniser fires) -/
def deltaV (fs : Fs) (o1 o2 : Ord) (fuel : Nat) (v : View) (t : Bytes) : Except Fault Delta :=
  if v.blank then .ok .skip
  else if v.comment then .ok .skip
  else
    match v.definition with
    | some (n, x) => .ok (.define n x)
    | none =>
    match v.incl with
    | some (name, repl) =>
      match buildPairs repl with
      | none => .error .diag
      | some pairs =>
        match parseFile fs o1 o2 fuel name [] with
        | .error e => .error e
        | .ok (text, _) => .ok (.out (replaceSuffixes text pairs))
    | none =>
    match v.inclExcept with
    | some (name, excl, repl) =>
      match buildPairs repl with
      | none => .error .diag
      | some pairs =>
        match parseFile fs o1 o2 fuel name [] with
        | .error e => .error e
        | .ok (text, defs) =>
          match exclusions fs o1 o2 fuel defs (splitArgs excl) with
          | .error e => .error e
          | .ok excluded =>
            .ok (.out (replaceSuffixes (linesToText ((dedupLast (scanLines text)).filter (fun l => !excluded.contains l))) pairs))
    | none =>
    match v.flags with
    | some x => if x.all (fun c => c == 'i' || c == 's') then .ok (.flags x) else .error .diag
    | none =>
    match v.pfx with
    | some x => .ok (.pfx x)
    | none =>
    match v.sfx with
    | some x => .ok (.sfx x)
    | none => .ok (.out (t ++ ['\n']))

def delta (fs : Fs) (o1 o2 : Ord) (fuel : Nat) (line : Bytes) : Except Fault Delta :=
  deltaV fs o1 o2 fuel (view (trimLeftSpTab line)) (trimLeftSpTab line)

theorem parseLines_cons_delta (fs : Fs) (o1 o2 : Ord) (f : Nat) (st : PState) (line : Bytes) (rest : List Bytes) :
    parseLines fs o1 o2 f st (line :: rest) =
      match delta fs o1 o2 f line with
      | .error e => .error e
      | .ok d => parseLines fs o1 o2 f (d.apply st) rest := by
  simp only [parseLines, delta, deltaV, view]
  by_cases hb : isBlank (trimLeftSpTab line) = true
  · simp only [hb, if_true, Delta.apply]
  simp only [hb, Bool.false_eq_true, if_false]
  by_cases hc : comment? (trimLeftSpTab line) = true
  · simp only [hc, if_true, Delta.apply]
  simp only [hc, Bool.false_eq_true, if_false]
  cases hd : definition? (trimLeftSpTab line) with
  | some p => obtain ⟨n, v⟩ := p; simp only [Delta.apply]
  | none =>
  simp only
  cases hi : include? (trimLeftSpTab line) with
  | some p =>
    obtain ⟨name, repl⟩ := p
    simp only
    cases hpairs : buildPairs repl with
    | none => simp only
    | some pairs =>
      simp only
      cases hp : parseFile fs o1 o2 f name [] with
      | error e => simp only
      | ok res => obtain ⟨text, dd⟩ := res; simp only [Delta.apply]
  | none =>
  simp only
  cases hx : includeExcept? (trimLeftSpTab line) with
  | some p =>
    obtain ⟨name, excl, repl⟩ := p
    simp only
    cases hpairs : buildPairs repl with
    | none => simp only
    | some pairs =>
      simp only
      cases hp : parseFile fs o1 o2 f name [] with
      | error e => simp only
      | ok res =>
        obtain ⟨text, defs⟩ := res
        simp only
        cases hex : exclusions fs o1 o2 f defs (splitArgs excl) with
        | error e => simp only
        | ok excluded => simp only [Delta.apply]
  | none =>
  simp only
  cases hf : flags? (trimLeftSpTab line) with
  | some v =>
    simp only
    by_cases hv : (v.all fun c => c == 'i' || c == 's') = true
    · simp only [hv, if_true, Delta.apply]
    · simp only [hv, Bool.false_eq_true, if_false]
  | none =>
  simp only
  cases hp : prefix? (trimLeftSpTab line) with
  | some v => simp only [Delta.apply]
  | none =>
  simp only
  cases hs : suffix? (trimLeftSpTab line) with
  | some v => simp only [Delta.apply]
  | none => simp only [Delta.apply, List.append_assoc]

/-- a line that is not plain text for the parser acts through what the recognisers say only -/
theorem deltaV_text_irrelevant (fs : Fs) (o1 o2 : Ord) (fuel : Nat) (v : View) (t1 t2 : Bytes)
    (h : v.isText = true → t1 = t2) : deltaV fs o1 o2 fuel v t1 = deltaV fs o1 o2 fuel v t2 := by
  obtain ⟨b, c, d, i, x, fl, p, sx⟩ := v
  unfold deltaV
  cases b <;> cases c <;> cases d <;> cases i <;> cases x <;> cases fl <;> cases p <;> cases sx <;>
    first
    | rfl
    | (have := h (by simp [View.isText]); subst this; rfl)


/-! ### related parser states -/

structure SRel (s1 s2 : PState) : Prop where
  out : TRel s1.out s2.out
  vars : s1.vars = s2.vars
  flags : s1.flags = s2.flags
  prefixes : s1.prefixes = s2.prefixes
  suffixes : s1.suffixes = s2.suffixes
  ok : VarsOK s1.vars

def ERel : Except Fault PState → Except Fault PState → Prop
  | .ok a, .ok b => SRel a b
  | .error e1, .error e2 => e1 = e2
  | _, _ => False

def DeltaOK : Delta → Prop
  | .define n v => NameOK n ∧ ValOK v
  | .out Z => LineEnded Z
  | _ => True

theorem nonWs_iff (c : Char) : nonWs c = true ↔ isWs c = false := by
  simp [nonWs]

theorem valOK_of_tok (v : Bytes) (hv : v ≠ []) (hc : ∀ c ∈ v, nonWs c = true) : ValOK v := by
  cases v with
  | nil => exact absurd rfl hv
  | cons c t =>
    refine ⟨⟨c, t, rfl, (nonWs_iff c).mp (hc c (by simp))⟩, ?_⟩
    intro hm
    have := (nonWs_iff _).mp (hc _ hm)
    simp [isWs] at this

theorem define_varsOK (vs : Vars) (n v : Bytes) (h : VarsOK vs) (hn : NameOK n) (hv : ValOK v) : VarsOK (vs.define n v) := by
  unfold Vars.define
  split
  · exact h
  · intro p hp
    rcases List.mem_append.mp hp with hp | hp
    · exact h p hp
    · simp only [List.mem_singleton] at hp; subst hp; exact ⟨hn, hv⟩

theorem SRel.apply {s1 s2 : PState} (h : SRel s1 s2) (d : Delta) (hd : DeltaOK d) : SRel (d.apply s1) (d.apply s2) := by
  obtain ⟨h1, h2, h3, h4, h5, h6⟩ := h
  cases d with
  | skip => exact ⟨h1, h2, h3, h4, h5, h6⟩
  | define n v => exact ⟨h1, by simp only [Delta.apply, h2], h3, h4, h5, define_varsOK _ n v h6 hd.1 hd.2⟩
  | out Z => exact ⟨h1.append_same Z hd, h2, h3, h4, h5, h6⟩
  | flags v => exact ⟨h1, h2, by simp only [Delta.apply, h3], h4, h5, h6⟩
  | pfx v => exact ⟨h1, h2, h3, by simp only [Delta.apply, h4], h5, h6⟩
  | sfx v => exact ⟨h1, h2, h3, h4, by simp only [Delta.apply, h5], h6⟩

theorem delta_ok (fs : Fs) (o1 o2 : Ord) (f : Nat) (line : Bytes) (d : Delta) (h : delta fs o1 o2 f line = .ok d) : DeltaOK d := by
  simp only [delta, deltaV, view] at h
  by_cases hb : isBlank (trimLeftSpTab line) = true
  · simp only [hb, if_true, Except.ok.injEq] at h; subst h; trivial
  simp only [hb, Bool.false_eq_true, if_false] at h
  by_cases hc : comment? (trimLeftSpTab line) = true
  · simp only [hc, if_true, Except.ok.injEq] at h; subst h; trivial
  simp only [hc, Bool.false_eq_true, if_false] at h
  cases hd : definition? (trimLeftSpTab line) with
  | some p =>
    obtain ⟨n, v⟩ := p
    simp only [hd, Except.ok.injEq] at h; subst h
    obtain ⟨_, a2, a3, a4⟩ := definition?_shape _ n v hd
    exact ⟨a2, valOK_of_tok v a3 a4⟩
  | none =>
  simp only [hd] at h
  cases hi : include? (trimLeftSpTab line) with
  | some p =>
    obtain ⟨name, repl⟩ := p
    simp only [hi] at h
    cases hpairs : buildPairs repl with
    | none => rw [hpairs] at h; simp at h
    | some pairs =>
      simp only [hpairs] at h
      cases hp : parseFile fs o1 o2 f name [] with
      | error e => rw [hp] at h; simp at h
      | ok res =>
        obtain ⟨text, dd⟩ := res
        rw [hp] at h
        simp only [Except.ok.injEq] at h; subst h
        exact replaceSuffixes_lineEnded _ _ (parseFile_lineEnded fs o1 o2 f name _ hp)
  | none =>
  simp only [hi] at h
  cases hx : includeExcept? (trimLeftSpTab line) with
  | some p =>
    obtain ⟨name, excl, repl⟩ := p
    simp only [hx] at h
    cases hpairs : buildPairs repl with
    | none => rw [hpairs] at h; simp at h
    | some pairs =>
      simp only [hpairs] at h
      cases hp : parseFile fs o1 o2 f name [] with
      | error e => rw [hp] at h; simp at h
      | ok res =>
        obtain ⟨text, defs⟩ := res
        rw [hp] at h
        simp only at h
        cases hex : exclusions fs o1 o2 f defs (splitArgs excl) with
        | error e => rw [hex] at h; simp at h
        | ok excluded =>
          rw [hex] at h
          simp only [Except.ok.injEq] at h; subst h
          exact replaceSuffixes_lineEnded _ _ (lineEnded_unlines _)
  | none =>
  simp only [hx] at h
  cases hf : flags? (trimLeftSpTab line) with
  | some v =>
    simp only [hf] at h
    by_cases hv : (v.all fun c => c == 'i' || c == 's') = true
    · simp only [hv, if_true, Except.ok.injEq] at h; subst h; trivial
    · simp only [hv, Bool.false_eq_true, if_false] at h; simp at h
  | none =>
  simp only [hf] at h
  cases hp : prefix? (trimLeftSpTab line) with
  | some v => simp only [hp, Except.ok.injEq] at h; subst h; trivial
  | none =>
  simp only [hp] at h
  cases hs : suffix? (trimLeftSpTab line) with
  | some v => simp only [hs, Except.ok.injEq] at h; subst h; trivial
  | none =>
    simp only [hs, Except.ok.injEq] at h; subst h
    exact lineEnded_snoc _


/-! ### block start lines: the line as written and the formatted line are two spellings -/

theorem blockStart?_decomp (l kw arg : Bytes) (h : blockStart? l = some (kw, arg)) :
    (kw = b!"assemble" ∨ kw = b!"cmdline") ∧
    ∃ ws0 rest, l = startMarker ++ ws0 ++ kw ++ rest ∧ (∀ c ∈ ws0, isWs c = true) ∧
      ((rest = [] ∧ arg = []) ∨ (∃ c t, rest = c :: t ∧ isWs c = true ∧ arg = trimWs rest)) := by
  unfold blockStart? at h
  split at h
  · simp at h
  · rename_i r hr
    have hl : l = startMarker ++ r := (stripPrefix?_some_iff _ _ _).mp hr
    have hr0 : r = r.takeWhile isWs ++ dropWs r := (List.takeWhile_append_dropWhile (p := isWs) (l := r)).symm
    have hws0 : ∀ c ∈ r.takeWhile isWs, isWs c = true := fun c hc => mem_takeWhile_imp' _ _ c hc
    simp only at h
    have key : ∀ k : Bytes, ∀ res : Bytes × Bytes,
        (match stripPrefix? k (dropWs r) with
          | none => none
          | some rest => match rest with
            | [] => some (k, [])
            | c :: _ => if isWs c then some (k, trimWs rest) else none) = some res →
        res.1 = k ∧ ∃ rest, dropWs r = k ++ rest ∧
          ((rest = [] ∧ res.2 = []) ∨ (∃ c t, rest = c :: t ∧ isWs c = true ∧ res.2 = trimWs rest)) := by
      intro k res hk
      split at hk
      · simp at hk
      · rename_i rest hrest
        have hd : dropWs r = k ++ rest := (stripPrefix?_some_iff _ _ _).mp hrest
        split at hk
        · simp only [Option.some.injEq] at hk; subst hk; exact ⟨rfl, [], hd, .inl ⟨rfl, rfl⟩⟩
        · rename_i c t
          split at hk
          · rename_i hc
            simp only [Option.some.injEq] at hk; subst hk
            exact ⟨rfl, c :: t, hd, .inr ⟨c, t, rfl, hc, rfl⟩⟩
          · simp at hk
    have fin : ∀ k : Bytes, ∀ res : Bytes × Bytes, (res.1 = k ∧ ∃ rest, dropWs r = k ++ rest ∧
          ((rest = [] ∧ res.2 = []) ∨ (∃ c t, rest = c :: t ∧ isWs c = true ∧ res.2 = trimWs rest))) →
        ∃ ws0 rest, l = startMarker ++ ws0 ++ res.1 ++ rest ∧ (∀ c ∈ ws0, isWs c = true) ∧
          ((rest = [] ∧ res.2 = []) ∨ (∃ c t, rest = c :: t ∧ isWs c = true ∧ res.2 = trimWs rest)) := by
      intro k res ⟨h1, rest, h2, h3⟩
      refine ⟨r.takeWhile isWs, rest, ?_, hws0, h3⟩
      rw [hl, h1]
      conv => lhs; rw [hr0, h2]
      simp
    split at h
    · rename_i x hx
      simp only [Option.some.injEq] at h
      subst h
      have k1 := key b!"assemble" (kw, arg) hx
      exact ⟨.inl k1.1, fin _ _ k1⟩
    · have k1 := key b!"cmdline" (kw, arg) h
      exact ⟨.inr k1.1, fin _ _ k1⟩

theorem takeWhile_pfx {α} (p : α → Bool) (k X : List α) (hk : ∀ c ∈ k, p c = true)
    (hX : ∀ c, X.head? = some c → p c = false) : (k ++ X).takeWhile p = k ∧ (k ++ X).dropWhile p = X := by
  induction k with
  | nil =>
    cases X with
    | nil => simp
    | cons c t => simp [List.takeWhile, List.dropWhile, hX c rfl]
  | cons a k ih =>
    have := ih (fun c hc => hk c (by simp [hc]))
    simp [List.takeWhile, List.dropWhile, hk a (by simp), this.1, this.2]

/-- what the assembler reads after `##!>`: white space, a lower-case keyword, then nothing or white space -/
theorem psRest_kw (ws0 kw X : Bytes) (hws0 : ∀ c ∈ ws0, isWs c = true) (hkw : kw ≠ []) (hkl : ∀ c ∈ kw, isLower c = true)
    (hX : X = [] ∨ ∃ c t, X = c :: t ∧ isWs c = true) :
    psRest (ws0 ++ kw ++ X) = some (kw, (dropWs X).takeWhile isLower) := by
  have hkws : ∀ c, (kw ++ X).head? = some c → isWs c = false := by
    intro c hc
    cases kw with
    | nil => exact absurd rfl hkw
    | cons a k =>
      simp only [List.cons_append, List.head?_cons, Option.some.injEq] at hc
      subst hc
      cases hw : isWs a with
      | false => rfl
      | true => have := lower_not_ws a hw; rw [hkl a (by simp)] at this; exact Bool.noConfusion this
  have hdw : dropWs (ws0 ++ kw ++ X) = kw ++ X := by
    have := takeWhile_pfx isWs ws0 (kw ++ X) hws0 hkws
    simpa [dropWs, List.append_assoc] using this.2
  have hXl : ∀ c, X.head? = some c → isLower c = false := by
    intro c hc
    rcases hX with rfl | ⟨d, t, rfl, hd⟩
    · simp at hc
    · simp only [List.head?_cons, Option.some.injEq] at hc; subst hc; exact lower_not_ws _ hd
  have htd := takeWhile_pfx isLower kw X hkl hXl
  unfold psRest
  simp only [hdw, htd.1, htd.2]
  have : kw.isEmpty = false := by cases kw with | nil => exact absurd rfl hkw | cons _ _ => rfl
  simp only [this, Bool.false_eq_true, if_false]
  rcases hX with rfl | ⟨d, t, rfl, hd⟩
  · simp [dropWs]
  · simp only [hd, if_true]

theorem ps_marker (r0 : Bytes) : processorStart? (startMarker ++ r0) = psRest r0 := by
  rw [processorStart?_eq, stripPrefix?_append]

theorem kw_lower (kw : Bytes) (h : kw = b!"assemble" ∨ kw = b!"cmdline") : kw ≠ [] ∧ ∀ c ∈ kw, isLower c = true := by
  rcases h with rfl | rfl <;> exact ⟨by decide, by decide⟩

theorem ws_ne_brace (c : Char) (h : isWs c = true) : c ≠ '{' := by
  intro e; subst e; simp [isWs] at h

theorem trimWs_decomp (x : Bytes) : ∃ w1 w2, x = w1 ++ trimWs x ++ w2 ∧ (∀ c ∈ w1, isWs c = true) ∧ (∀ c ∈ w2, isWs c = true) := by
  obtain ⟨w2, h2, hw2⟩ := trimRightWs_split (dropWs x)
  refine ⟨x.takeWhile isWs, w2, ?_, fun c hc => mem_takeWhile_imp' _ _ c hc, hw2⟩
  have h1 : x = x.takeWhile isWs ++ dropWs x := (List.takeWhile_append_dropWhile (p := isWs) (l := x)).symm
  unfold trimWs
  conv => lhs; rw [h1, h2]
  simp

theorem block_start_spell (l kw arg : Bytes) (hnl : '\n' ∉ l) (h : blockStart? l = some (kw, arg)) :
    SegRel (l ++ ['\n']) (emitStart kw arg ++ ['\n']) := by
  obtain ⟨hkw, ws0, rest, hl, hws0, hrest⟩ := blockStart?_decomp l kw arg h
  obtain ⟨hkne, hkl⟩ := kw_lower kw hkw
  have harg := (blockStart?_shape l kw arg h).2
  have nlm : ∀ c ∈ l, c ≠ '\n' := fun c hc e => hnl (e ▸ hc)
  have hsm : ∀ c ∈ startMarker, c ≠ '{' ∧ c ≠ '\n' := by decide
  have hkb : ∀ c ∈ kw, c ≠ '{' ∧ c ≠ '\n' := by rcases hkw with rfl | rfl <;> decide
  have sp1 : b!"##!> " = startMarker ++ [' '] := rfl
  have hsp : ∀ c ∈ b!"##!> ", c ≠ '{' ∧ c ≠ '\n' := by decide
  -- the formatted line, after the marker
  have p2a : ∀ a : Bytes, (∃ c t, a = c :: t ∧ isWs c = false) →
      processorStart? (b!"##!> " ++ kw ++ [' '] ++ a) = some (kw, a.takeWhile isLower) := by
    intro a ⟨c, t, ha, hc⟩
    have : b!"##!> " ++ kw ++ [' '] ++ a = startMarker ++ ([' '] ++ kw ++ (' ' :: a)) := by rw [sp1]; simp
    rw [this, ps_marker, psRest_kw [' '] kw (' ' :: a) (by decide) hkne hkl (.inr ⟨' ', a, rfl, rfl⟩)]
    have : dropWs (' ' :: a) = a := by
      subst ha; exact dropWs_sp_cons _ (by intro x hx; simp at hx; subst hx; exact hc)
    rw [this]
  have p2e : processorStart? (b!"##!> " ++ kw) = some (kw, []) := by
    have : b!"##!> " ++ kw = startMarker ++ ([' '] ++ kw ++ []) := by rw [sp1]; simp
    rw [this, ps_marker, psRest_kw [' '] kw [] (by decide) hkne hkl (.inl rfl)]
    simp [dropWs]
  -- the argument is empty
  have emptyCase : ∀ w : Bytes, l = startMarker ++ ws0 ++ kw ++ w → (∀ c ∈ w, isWs c = true) → arg = [] →
      SegRel (l ++ ['\n']) (emitStart kw arg ++ ['\n']) := by
    intro w hlw hw ha
    have sp : Spell (startMarker ++ ws0 ++ kw) (b!"##!> " ++ kw) w true := by
      refine ⟨?_, ?_, ?_, ?_⟩
      · intro c hc
        simp only [List.mem_append] at hc
        rcases hc with (hc | hc) | hc
        · exact hsm c hc
        · exact ⟨ws_ne_brace c (hws0 c hc), nlm c (by rw [hlw]; simp [hc])⟩
        · exact hkb c hc
      · intro c hc
        rcases List.mem_append.mp hc with hc | hc
        · exact hsp c hc
        · exact hkb c hc
      · intro c hc; exact ⟨hw c hc, nlm c (by rw [hlw]; simp [hc])⟩
      · intro a ha
        have : a = [] := by simpa [ArgOK] using ha.1
        subst this
        refine ⟨(kw, []), ?_, by simpa using p2e⟩
        have e1 : startMarker ++ ws0 ++ kw ++ [] ++ w = startMarker ++ (ws0 ++ kw ++ w) := by simp
        rw [e1, ps_marker, psRest_kw ws0 kw w hws0 hkne hkl
          (by cases w with
              | nil => exact .inl rfl
              | cons c t => exact .inr ⟨c, t, rfl, hw c (by simp)⟩)]
        have : dropWs w = [] := (dropWhile_nil_iff isWs w).mpr hw
        rw [this]; rfl
    have := SegRel.start _ _ [] w true sp ⟨by simp, by simp⟩
    have e2 : emitStart kw arg = b!"##!> " ++ kw := by rw [ha]; simp [emitStart]
    rw [e2, hlw]
    simpa using this
  rcases hrest with ⟨rfl, ha⟩ | ⟨c, t, hr, hc, ha⟩
  · exact emptyCase [] (by simpa using hl) (by simp) ha
  · by_cases hae : arg = []
    · refine emptyCase rest hl ?_ hae
      rw [ha] at hae
      exact (trimmed_ne_ws_all rest).mp hae
    · obtain ⟨w1, w2, hdec, hw1, hw2⟩ := trimWs_decomp rest
      rw [← ha] at hdec
      have hl2 : l = startMarker ++ ws0 ++ kw ++ w1 ++ arg ++ w2 := by
        rw [hl]
        have : startMarker ++ ws0 ++ kw ++ rest = startMarker ++ ws0 ++ kw ++ (w1 ++ arg ++ w2) := congrArg _ hdec
        rw [this]; simp
      have hw1ne : w1 ≠ [] := by
        intro e
        subst e
        -- then rest begins with arg's first character, which is not white space
        cases harg' : arg with
        | nil => exact hae harg'
        | cons d u =>
          rw [harg'] at hdec
          simp only [List.nil_append, List.cons_append] at hdec
          rw [hr] at hdec
          have : c = d := by injection hdec
          subst this
          have := harg.1 c (by rw [harg']; rfl)
          rw [hc] at this; exact Bool.noConfusion this
      have haOK : ArgOK false arg := by
        refine ⟨?_, fun hm => hnl (by rw [hl2]; simp [hm])⟩
        cases harg' : arg with
        | nil => exact absurd harg' hae
        | cons d u => exact ⟨d, u, rfl, harg.1 d (by rw [harg']; rfl)⟩
      have sp : Spell (startMarker ++ ws0 ++ kw ++ w1) (b!"##!> " ++ kw ++ [' ']) w2 false := by
        refine ⟨?_, ?_, ?_, ?_⟩
        · intro x hx
          simp only [List.mem_append] at hx
          rcases hx with ((hx | hx) | hx) | hx
          · exact hsm x hx
          · exact ⟨ws_ne_brace x (hws0 x hx), nlm x (by rw [hl2]; simp [hx])⟩
          · exact hkb x hx
          · exact ⟨ws_ne_brace x (hw1 x hx), nlm x (by rw [hl2]; simp [hx])⟩
        · intro x hx
          simp only [List.mem_append] at hx
          rcases hx with (hx | hx) | hx
          · exact hsp x hx
          · exact hkb x hx
          · simp only [List.mem_singleton] at hx; subst hx; decide
        · intro x hx; exact ⟨hw2 x hx, nlm x (by rw [hl2]; simp [hx])⟩
        · intro a ha'
          have hhead : ∃ c t, a = c :: t ∧ isWs c = false := by simpa [ArgOK] using ha'.1
          refine ⟨(kw, a.takeWhile isLower), ?_, p2a a hhead⟩
          obtain ⟨d, u, rfl, hd⟩ := hhead
          have e1 : startMarker ++ ws0 ++ kw ++ w1 ++ (d :: u) ++ w2 = startMarker ++ (ws0 ++ kw ++ (w1 ++ (d :: u) ++ w2)) := by simp
          rw [e1, ps_marker, psRest_kw ws0 kw _ hws0 hkne hkl
            (by cases w1 with
                | nil => exact absurd rfl hw1ne
                | cons x xs => exact .inr ⟨x, _, rfl, hw1 x (by simp)⟩)]
          have hdw : dropWs (w1 ++ (d :: u) ++ w2) = (d :: u) ++ w2 := by
            have := takeWhile_pfx isWs w1 ((d :: u) ++ w2) hw1 (by intro x hx; simp at hx; subst hx; exact hd)
            simpa [dropWs, List.append_assoc] using this.2
          rw [hdw, takeWhile_append_noP isLower (d :: u) w2 (fun x hx => lower_not_ws x (hw2 x hx))]
      have := SegRel.start _ _ arg w2 false sp haOK
      have e2 : emitStart kw arg = b!"##!> " ++ kw ++ [' '] ++ arg := by
        cases harg' : arg with
        | nil => exact absurd harg' hae
        | cons d u => simp [emitStart]
      rw [e2, hl2]
      simpa using this


/-! ### line by line: the file as written and the formatted file -/

/-- a left-trimmed line of the file and its formatted spelling -/
def FmtLine (l l' : Bytes) : Prop := trimLeftSpTab l = l ∧ '\n' ∉ l ∧ ∃ j k, processLine l j = some (l', k)

theorem deltaV_isText (fs : Fs) (o1 o2 : Ord) (fuel : Nat) (v : View) (t : Bytes) (h : v.isText = true) :
    deltaV fs o1 o2 fuel v t = .ok (.out (t ++ ['\n'])) := by
  obtain ⟨b, c, d, i, x, fl, p, sx⟩ := v
  unfold deltaV
  cases b <;> cases c <;> cases d <;> cases i <;> cases x <;> cases fl <;> cases p <;> cases sx <;>
    first
    | rfl
    | (simp [View.isText] at h)

theorem delta_fmt (fs : Fs) (o1 o2 : Ord) (f : Nat) (l l' : Bytes) (h : FmtLine l l') :
    delta fs o1 o2 f l' = delta fs o1 o2 f l ∨
    ∃ Z Z', delta fs o1 o2 f l = .ok (.out Z) ∧ delta fs o1 o2 f l' = .ok (.out Z') ∧ SegRel Z Z' := by
  obtain ⟨hl, hnl, j, k, hp⟩ := h
  cases hbs : blockStart? l with
  | none =>
    left
    obtain ⟨q1, q2⟩ := C10_view_preserved l j l' k hl hbs hp
    unfold delta
    rw [q1, hl]
    exact deltaV_text_irrelevant fs o1 o2 f (view l) _ _ q2
  | some p =>
    right
    obtain ⟨kw, arg⟩ := p
    obtain ⟨hkw, harg⟩ := blockStart?_shape l kw arg hbs
    have he' : l.isEmpty = false := by
      cases l with
      | nil => simp [blockStart?, stripPrefix?, startMarker] at hbs
      | cons _ _ => rfl
    have hp' : processLine l j = some (indentBy j (emitStart kw arg), j + 1) := by
      unfold processLine; simp only [hl, he', hbs, Bool.false_eq_true, if_false]; rfl
    rw [hp'] at hp
    simp only [Option.some.injEq, Prod.mk.injEq] at hp
    obtain ⟨rfl, rfl⟩ := hp
    have e : trimLeftSpTab (indentBy j (emitStart kw arg)) = emitStart kw arg :=
      trimLeftSpTab_indentBy j _ (by intro c hc; simp [emitStart] at hc; subst hc; rfl)
    have hbs' := blockStart?_emit kw arg hkw harg
    refine ⟨l ++ ['\n'], emitStart kw arg ++ ['\n'], ?_, ?_, block_start_spell l kw arg hnl hbs⟩
    · unfold delta; rw [hl]; exact deltaV_isText _ _ _ _ _ _ (notDirective_of_blockStart l kw arg hbs)
    · unfold delta; rw [e]; exact deltaV_isText _ _ _ _ _ _ (notDirective_of_blockStart _ kw arg hbs')

theorem parseLines_fmt (fs : Fs) (o1 o2 : Ord) (f : Nat) {L1 L2 : List Bytes} (h : Pointwise FmtLine L1 L2) :
    ∀ s1 s2, SRel s1 s2 → ERel (parseLines fs o1 o2 f s1 L1) (parseLines fs o1 o2 f s2 L2) := by
  induction h with
  | nil => intro s1 s2 hs; simpa [parseLines, ERel] using hs
  | cons hl _ ih =>
    intro s1 s2 hs
    rw [parseLines_cons_delta, parseLines_cons_delta]
    rcases delta_fmt fs o1 o2 f _ _ hl with he | ⟨Z, Z', h1, h2, hseg⟩
    · rw [he]
      cases hd : delta fs o1 o2 f _ with
      | error e => simp [ERel]
      | ok d => exact ih _ _ (hs.apply d (delta_ok fs o1 o2 f _ d hd))
    · rw [h1, h2]
      exact ih _ _ ⟨TRel.snoc hs.out hseg, hs.vars, hs.flags, hs.prefixes, hs.suffixes, hs.ok⟩

/-! ### lines the parser skips; left-trimming -/

theorem parseLines_append (fs : Fs) (o1 o2 : Ord) (f : Nat) (A B : List Bytes) : ∀ st,
    parseLines fs o1 o2 f st (A ++ B) =
      match parseLines fs o1 o2 f st A with
      | .error e => .error e
      | .ok s => parseLines fs o1 o2 f s B := by
  induction A with
  | nil => intro st; simp [parseLines]
  | cons l A ih =>
    intro st
    simp only [List.cons_append]
    rw [parseLines_cons_delta, parseLines_cons_delta]
    cases delta fs o1 o2 f l with
    | error e => rfl
    | ok d => exact ih _

theorem parseLines_skip (fs : Fs) (o1 o2 : Ord) (f : Nat) (A : List Bytes) (hA : ∀ l ∈ A, delta fs o1 o2 f l = .ok .skip) :
    ∀ st, parseLines fs o1 o2 f st A = .ok st := by
  induction A with
  | nil => intro st; simp [parseLines]
  | cons l A ih =>
    intro st
    rw [parseLines_cons_delta, hA l (by simp)]
    exact ih (fun x hx => hA x (by simp [hx])) st

theorem delta_nil (fs : Fs) (o1 o2 : Ord) (f : Nat) : delta fs o1 o2 f [] = .ok .skip := by
  have : view (trimLeftSpTab []) = view [] := rfl
  have hb : (view []).blank = true := by decide
  unfold delta deltaV
  rw [this]; simp [hb]

theorem delta_header1 (fs : Fs) (o1 o2 : Ord) (f : Nat) : delta fs o1 o2 f header1 = .ok .skip := by
  have hb : (view (trimLeftSpTab header1)).blank = false := by decide +kernel
  have hc : (view (trimLeftSpTab header1)).comment = true := by decide +kernel
  unfold delta deltaV
  simp [hb, hc]

theorem delta_header2 (fs : Fs) (o1 o2 : Ord) (f : Nat) : delta fs o1 o2 f header2 = .ok .skip := by
  have hb : (view (trimLeftSpTab header2)).blank = false := by decide +kernel
  have hc : (view (trimLeftSpTab header2)).comment = true := by decide +kernel
  unfold delta deltaV
  simp [hb, hc]

theorem trimLeftSpTab_idem (l : Bytes) : trimLeftSpTab (trimLeftSpTab l) = trimLeftSpTab l := by
  unfold trimLeftSpTab
  induction l with
  | nil => rfl
  | cons a l ih =>
    by_cases ha : isSpTab a = true
    · simp [List.dropWhile, ha, ih]
    · simp [List.dropWhile, ha]

theorem delta_trim (fs : Fs) (o1 o2 : Ord) (f : Nat) (l : Bytes) : delta fs o1 o2 f (trimLeftSpTab l) = delta fs o1 o2 f l := by
  unfold delta; rw [trimLeftSpTab_idem]

theorem parseLines_map_trim (fs : Fs) (o1 o2 : Ord) (f : Nat) (L : List Bytes) : ∀ st,
    parseLines fs o1 o2 f st (L.map trimLeftSpTab) = parseLines fs o1 o2 f st L := by
  induction L with
  | nil => intro st; rfl
  | cons l L ih =>
    intro st
    simp only [List.map_cons]
    rw [parseLines_cons_delta, parseLines_cons_delta, delta_trim]
    cases delta fs o1 o2 f l with
    | error e => rfl
    | ok d => exact ih _

theorem Pointwise.strengthen {α β} {R : α → β → Prop} {P : α → Prop} {as : List α} {bs : List β}
    (h : Pointwise R as bs) (hp : ∀ a ∈ as, P a) : Pointwise (fun a b => P a ∧ R a b) as bs := by
  induction h with
  | nil => exact .nil
  | cons hr _ ih => exact .cons ⟨hp _ (by simp), hr⟩ (ih (fun a ha => hp a (by simp [ha])))

theorem Pointwise.mono {α β} {R S : α → β → Prop} {as : List α} {bs : List β}
    (h : Pointwise R as bs) (hrs : ∀ a b, R a b → S a b) : Pointwise S as bs := by
  induction h with
  | nil => exact .nil
  | cons hr _ ih => exact .cons (hrs _ _ hr) ih

/-! ### definitions are expanded the same way in both texts -/

theorem closeStep_varsOK (vs : Vars) (n : Bytes) (h : VarsOK vs) : VarsOK (closeStep vs n) := by
  unfold closeStep
  split
  · rename_i r hr
    have hrv := (h _ (lookup_mem hr)).2
    intro p hp
    obtain ⟨q, hq, rfl⟩ := List.mem_map.mp hp
    refine ⟨(h q hq).1, replaceAll_head _ _ _ (h q hq).2.1 hrv.1, ?_⟩
    intro hm
    rcases replaceAll_mem _ _ _ _ hm with hm | hm
    · exact (h q hq).2.2 hm
    · exact hrv.2 hm
  · exact h

theorem closeVars_varsOK (ord : List Bytes) (vs : Vars) (h : VarsOK vs) : VarsOK (closeVars ord vs) := by
  unfold closeVars
  induction ord generalizing vs with
  | nil => exact h
  | cons n ord ih => exact ih _ (closeStep_varsOK vs n h)

theorem applyVars_trel (ord : List Bytes) (vs : Vars) (h : VarsOK vs) {X Y : Bytes} (hxy : TRel X Y) :
    TRel (applyVars ord vs X) (applyVars ord vs Y) := by
  unfold applyVars
  induction ord generalizing X Y with
  | nil => exact hxy
  | cons n ord ih =>
    apply ih
    unfold applyStep
    split
    · rename_i r hr
      have := h _ (lookup_mem hr)
      exact hxy.subst n r this.1 this.2
    · exact hxy

theorem parse_fmt (fs : Fs) (o1 o2 : Ord) (f : Nat) (vars0 : Vars) (hv : VarsOK vars0) (c1 c2 : Bytes)
    (h : ERel (parseLines fs o1 o2 (f - 1) { vars := vars0 } (scanLines c1))
              (parseLines fs o1 o2 (f - 1) { vars := vars0 } (scanLines c2))) :
    ERel (parse fs o1 o2 f vars0 c1) (parse fs o1 o2 f vars0 c2) := by
  cases f with
  | zero => simp [parse, ERel]
  | succ f =>
    simp only [Nat.add_sub_cancel] at h
    simp only [parse]
    cases h1 : parseLines fs o1 o2 f { vars := vars0 } (scanLines c1) with
    | error e1 =>
      cases h2 : parseLines fs o1 o2 f { vars := vars0 } (scanLines c2) with
      | error e2 => rw [h1, h2] at h; simpa [ERel] using h
      | ok s2 => rw [h1, h2] at h; simp [ERel] at h
    | ok s1 =>
      cases h2 : parseLines fs o1 o2 f { vars := vars0 } (scanLines c2) with
      | error e2 => rw [h1, h2] at h; simp [ERel] at h
      | ok s2 =>
        rw [h1, h2] at h
        have hs : SRel s1 s2 := h
        simp only
        rw [← hs.vars]
        by_cases hem : s1.vars.isEmpty = true
        · simp only [hem, if_true]; exact hs
        · simp only [hem, Bool.false_eq_true, if_false, expandDefinitions]
          have hok := closeVars_varsOK (o1 (s1.vars.map Prod.fst)) s1.vars hs.ok
          exact ⟨applyVars_trel _ _ hok hs.out, rfl, hs.flags, hs.prefixes, hs.suffixes, hok⟩

end Crs.FormatGen
