import Crs.Bytes
import Crs.Renumber
