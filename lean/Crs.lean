import Crs.Bytes
import Crs.Renumber
import Crs.Copyright
