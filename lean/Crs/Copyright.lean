/-
  Model of chore/update_copyright.go: updateRules (C14) with the five marker patterns of
  regex/definitions.go (CRSVersionRegex, ShortCRSVersionRegex, CRSCopyrightYearRegex,
  CRSYearSecRuleVerRegex, CRSVersionComponentSignatureRegex).

  The two unanchored patterns are modelled on the fields obtained by splitting the line at the
  character that delimits the marker (`'` resp. `=`); this is equivalent to regexp's leftmost,
  non-overlapping ReplaceAllString for these patterns and is what the correspondence check compares.
-/
import Crs.Bytes
import Crs.Lit
namespace Crs.Copyright
open Crs

def p1a : Bytes := b!"# OWASP ModSecurity Core Rule Set ver."
def p1b : Bytes := b!"# OWASP CRS ver."
def p3 : Bytes := b!"# Copyright (c) 2021-"
def s3a : Bytes := b!" Core Rule Set project"
def s3b : Bytes := b!" CRS project"
def s3c : Bytes := b!" All rights reserved"
def p5 : Bytes := b!"SecComponentSignature \"OWASP_CRS/"
def k4a : Bytes := ['v','e','r',':']
def k4b : Bytes := ['O','W','A','S','P','_','C','R','S','/']
def k2a : Bytes := b!"setvar:tx"
def k2b : Bytes := b!"crs_setup_version"

/-- `^(# OWASP (ModSecurity Core Rule Set|CRS) ver\.)(.+)$` → `${1}version` -/
def sub1 (v l : Bytes) : Bytes :=
  match stripPrefix? p1a l with
  | some (_ :: _) => p1a ++ v
  | _ =>
    match stripPrefix? p1b l with
    | some (_ :: _) => p1b ++ v
    | _ => l

/-- exactly one rune (any character but `\n`), as the regexp `.` sees it -/
def oneRune (r : Bytes) : Bool := r.length ≥ 1 && runeLen r == r.length

/-- `b` is `rune ++ rest'` for a single rune: the candidates for `rest'` (at most one) -/
def dropRune? (b : Bytes) : Option Bytes :=
  match b with
  | [] => none
  | _ => some (b.drop (runeLen b))

/-- one rune, ` All rights reserved`, one rune, end of line -/
def yearTailEnd (t : Bytes) : Bool :=
  match dropRune? t with
  | some t1 =>
    match stripPrefix? s3c t1 with
    | some t2 => (match dropRune? t2 with | some [] => true | _ => false)
    | none => false
  | none => false

/-- `( (Core Rule Set|CRS) project. All rights reserved.)$` -/
def yearTailOk (r3 : Bytes) : Bool :=
  (match stripPrefix? s3a r3 with | some t => yearTailEnd t | none => false) ||
  (match stripPrefix? s3b r3 with | some t => yearTailEnd t | none => false)

def isYear4 (d : Bytes) : Bool := d.length == 4 && d.all isDigit

/-- `^(# Copyright \(c\) 2021-)(\d{4})( (Core Rule Set|CRS) project. All rights reserved.)$` → `${1}year${3}` -/
def sub3 (y l : Bytes) : Bytes :=
  match stripPrefix? p3 l with
  | some rest =>
    if isYear4 (rest.take 4) && yearTailOk (rest.drop 4) then p3 ++ y ++ rest.drop 4 else l
  | none => l

/-- `^(SecComponentSignature "OWASP_CRS/)([^"]+)` → `${1}version` -/
def sub5 (v l : Bytes) : Bytes :=
  match stripPrefix? p5 l with
  | some rest =>
    let run := rest.takeWhile (· != '"')
    if run.isEmpty then l else p5 ++ v ++ rest.dropWhile (· != '"')
  | none => l

/-- `(ver:'OWASP_CRS/)([^']+)` → `${1}version`, all occurrences. On the fields between quotes:
    field i+1 is rewritten when field i ends with `ver:`, was not itself consumed by a match, and
    field i+1 is `OWASP_CRS/` followed by at least one character. -/
def sub4Fields (v : Bytes) : (prevAvail : Bool) → (prev : Bytes) → List Bytes → List Bytes
  | _, _, [] => []
  | avail, prev, f :: fs =>
    match stripPrefix? k4b f with
    | some (_ :: _) =>
      if avail && hasSuffix k4a prev then (k4b ++ v) :: sub4Fields v false f fs
      else f :: sub4Fields v true f fs
    | _ => f :: sub4Fields v true f fs

def sub4 (v l : Bytes) : Bytes :=
  match splitCh '\'' l with
  | [] => l
  | f :: fs => joinCh '\'' (f :: sub4Fields v true f fs)

/-- does `f` end with `setvar:tx` + one rune + `crs_setup_version`?  (rune widths 1..4) -/
def endsWithKey2 (f : Bytes) : Bool :=
  match cutSuffix? k2b f with
  | some g =>
    [1, 2, 3, 4].any fun w =>
      let r := g.drop (g.length - w)
      let h := g.take (g.length - w)
      w ≤ g.length && oneRune r && runeLen (r ++ k2b) == w && hasSuffix k2a h
  | none => false

/-- `(setvar:tx.crs_setup_version=)(\d+)` → `${1}digits`, all occurrences. On the fields between `=`:
    the leading digit run of field i+1 is replaced when the text before that `=` ends with the key
    (the wildcard may itself be `=`, then the key spans two fields). -/
def sub2Fields (n : Bytes) : (prev2 prev : Option Bytes) → List Bytes → List Bytes
  | _, _, [] => []
  | prev2, prev, f :: fs =>
    let keyEnds : Bool :=
      match prev with
      | some p =>
        endsWithKey2 p ||
        (p == k2b && (match prev2 with | some q => hasSuffix k2a q | none => false))
      | none => false
    let f' := if keyEnds && (match f with | c :: _ => isDigit c | [] => false) then n ++ f.dropWhile isDigit else f
    f' :: sub2Fields n prev (some f) fs

def sub2 (n l : Bytes) : Bytes := joinCh '=' (sub2Fields n none none (splitCh '=' l))

/-- only the digits of the version (`regexp.MustCompile(\d+).FindAllString` joined) -/
def digitsOf (v : Bytes) : Bytes := v.filter isDigit

/-- one line of `updateRules` -/
def stepLine (v y l : Bytes) : Bytes :=
  sub5 v (sub4 v (sub3 y (sub2 (digitsOf v) (sub1 v l))))

/-- `updateRules` -/
def updateRules (v y contents : Bytes) : Bytes :=
  unlines ((scanLines contents).map (stepLine v y))

end Crs.Copyright
