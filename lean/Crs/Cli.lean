/-
  Model of the file-level effects of the rewriting commands (cmd/regex_format.go: processAll, processFile;
  util/renumber_tests.go: RenumberTests, processFile; chore/update_copyright.go: UpdateCopyright, processFile):
  which files of a CRS tree a command selects and what it writes.   (C15, C16, C08)

  A tree is the list of regular files under the resolved CRS root, as (slash-separated root-relative path,
  contents), in `filepath.WalkDir` order. Directories, modes and anything outside the root are not part of
  the model: no modelled command has an operation that could name them.
-/
import Crs.Format
import Crs.Renumber
import Crs.Copyright
import Crs.Update
namespace Crs.Cli
open Crs Crs.Format

abbrev Tree := List (Bytes × Bytes)

/-- `path.Base` of a clean relative path -/
def baseName (p : Bytes) : Bytes := ((splitCh '/' p).getLast?).getD []

/-- is the file below directory `dir` (at any depth)? -/
def inDir (dir p : Bytes) : Bool := hasPrefix (dir ++ ['/']) p

/-- `regex format --all`: `WalkDir(regex-assembly)`, regular files with `path.Ext(name) == ".ra"` -/
def isFormatTarget (p : Bytes) : Bool := inDir b!"regex-assembly" p && hasSuffix b!".ra" (baseName p)

/-- `RuleIdTestFileNameRegex` = `^(\d{6})\.ya?ml$` on the base name: the rule id -/
def testFileId? (name : Bytes) : Option Bytes :=
  let id := name.take 6
  let ext := name.drop 6
  if id.length == 6 && id.all isDigit && (ext == b!".yaml" || ext == b!".yml") then some id else none

/-- `util renumber-tests --all`: `WalkDir(tests/regression/tests)`, files whose base name matches -/
def renumberId? (p : Bytes) : Option Bytes :=
  if inDir b!"tests/regression/tests" p then testFileId? (baseName p) else none

/-- `chore update-copyright`: `WalkDir(root)`, base name ends in `.conf` or `.example` -/
def isCopyrightTarget (p : Bytes) : Bool := hasSuffix b!".conf" (baseName p) || hasSuffix b!".example" (baseName p)

/-- result of a command on a tree: the new tree and whether the command reports success (exit status 0) -/
structure Outcome where
  tree : Tree
  ok : Bool

/-- one file of `regex format`: new contents and success. `lint` is the verdict of the upper-case lint (an input:
    it reads nothing but the file). In check mode nothing is written. -/
def formatOne (check : Bool) (lint : Bool) (b : Bytes) : Bytes × Bool :=
  match formatFile b with
  | .error _ => (b, false)
  | .ok out => if check then (b, out == b && !lint) else (out, true)

/-- `regex format --all [--check]`: every target is processed; a failure does not stop the walk (D19) -/
def formatAll (check : Bool) (lint : Bytes → Bool) : Tree → Outcome
  | [] => ⟨[], true⟩
  | (p, b) :: rest =>
    let r := formatAll check lint rest
    if isFormatTarget p then
      let (b', ok) := formatOne check (lint p) b
      ⟨(p, b') :: r.tree, ok && r.ok⟩
    else ⟨(p, b) :: r.tree, r.ok⟩

/-- one file of `util renumber-tests`: (new contents, success) -/
def renumberOne (check : Bool) (id b : Bytes) : Bytes × Bool :=
  let out := Crs.Renumber.processYaml id b
  if out == b then (b, true) else if check then (b, false) else (out, true)

/-- `util renumber-tests --all [--check]` -/
def renumberAll (check : Bool) : Tree → Outcome
  | [] => ⟨[], true⟩
  | (p, b) :: rest =>
    let r := renumberAll check rest
    match renumberId? p with
    | some id =>
      let (b', ok) := renumberOne check id b
      ⟨(p, b') :: r.tree, ok && r.ok⟩
    | none => ⟨(p, b) :: r.tree, r.ok⟩

/-- `chore update-copyright -v V -y Y` (version and year already validated) -/
def copyrightAll (v y : Bytes) : Tree → Outcome
  | [] => ⟨[], true⟩
  | (p, b) :: rest =>
    let r := copyrightAll v y rest
    if isCopyrightTarget p then ⟨(p, Crs.Copyright.updateRules v y b) :: r.tree, r.ok⟩
    else ⟨(p, b) :: r.tree, r.ok⟩

/-- commands that only inspect: generate, compare, version, completion, and every `--check` (by the definitions above) -/
def inspect (t : Tree) : Tree := t

end Crs.Cli
