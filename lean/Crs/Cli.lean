/-
  Model of the file-level effects of the rewriting commands (cmd/regex_format.go: processAll, processFile;
  util/renumber_tests.go: RenumberTests, processFile; chore/update_copyright.go: UpdateCopyright, processFile):
  which files of a CRS tree a command selects and what it writes.   (C15, C16, C08)

  A tree is the list of regular files under the resolved CRS root, as (slash-separated root-relative path,
  contents), in `filepath.WalkDir` order. Directories, modes and anything outside the root are not part of
  the model: no modelled command has an operation that could name them.
-/
import Crs.Format
import Crs.Renumber
import Crs.Copyright
import Crs.Update
import Crs.Assemble
namespace Crs.Cli
open Crs Crs.Format

abbrev Tree := List (Bytes × Bytes)

/-- `path.Base` of a clean relative path -/
def baseName (p : Bytes) : Bytes := ((splitCh '/' p).getLast?).getD []

/-- is the file below directory `dir` (at any depth)? -/
def inDir (dir p : Bytes) : Bool := hasPrefix (dir ++ ['/']) p

/-- `regex format --all`: `WalkDir(regex-assembly)`, regular files with `path.Ext(name) == ".ra"` -/
def isFormatTarget (p : Bytes) : Bool := inDir b!"regex-assembly" p && hasSuffix b!".ra" (baseName p)

/-- `RuleIdTestFileNameRegex` = `^(\d{6})\.ya?ml$` on the base name: the rule id -/
def testFileId? (name : Bytes) : Option Bytes :=
  let id := name.take 6
  let ext := name.drop 6
  if id.length == 6 && id.all isDigit && (ext == b!".yaml" || ext == b!".yml") then some id else none

/-- `util renumber-tests --all`: `WalkDir(tests/regression/tests)`, files whose base name matches -/
def renumberId? (p : Bytes) : Option Bytes :=
  if inDir b!"tests/regression/tests" p then testFileId? (baseName p) else none

/-- `chore update-copyright`: `WalkDir(root)`, base name ends in `.conf` or `.example` -/
def isCopyrightTarget (p : Bytes) : Bool := hasSuffix b!".conf" (baseName p) || hasSuffix b!".example" (baseName p)

/-- result of a command on a tree: the new tree and whether the command reports success (exit status 0) -/
structure Outcome where
  tree : Tree
  ok : Bool

/-- one file of `regex format`: new contents and success. `lint` is the verdict of the upper-case lint (an input:
    it reads nothing but the file). In check mode nothing is written. -/
def formatOne (check : Bool) (lint : Bool) (b : Bytes) : Bytes × Bool :=
  match formatFile b with
  | .error _ => (b, false)
  | .ok out => if check then (b, out == b && !lint) else (out, true)

/-- does `Parse(formatOnly)` get through the file? An unsupported flag or an odd replacement list is a
    `logger.Panic`: the process ends there. -/
def parseable (b : Bytes) : Bool := ((scanLines b).map trimLeftSpTab).all lineAccepted

/-- `regex format --all [--check]`: every target is processed in walk order; a file that cannot be formatted
    (unbalanced block) is reported and the walk goes on (D19); a file the parser panics on ends the process: nothing
    after it is touched. -/
def formatAll (check : Bool) (lint : Bytes → Bool) : Tree → Outcome
  | [] => ⟨[], true⟩
  | (p, b) :: rest =>
    if isFormatTarget p then
      if !parseable b then ⟨(p, b) :: rest, false⟩
      else
        let r := formatAll check lint rest
        let (b', ok) := formatOne check (lint p) b
        ⟨(p, b') :: r.tree, ok && r.ok⟩
    else
      let r := formatAll check lint rest
      ⟨(p, b) :: r.tree, r.ok⟩

/-- one file of `util renumber-tests`: (new contents, success) -/
def renumberOne (check : Bool) (id b : Bytes) : Bytes × Bool :=
  let out := Crs.Renumber.processYaml id b
  if out == b then (b, true) else if check then (b, false) else (out, true)

/-- `util renumber-tests --all [--check]` -/
def renumberAll (check : Bool) : Tree → Outcome
  | [] => ⟨[], true⟩
  | (p, b) :: rest =>
    let r := renumberAll check rest
    match renumberId? p with
    | some id =>
      let (b', ok) := renumberOne check id b
      ⟨(p, b') :: r.tree, ok && r.ok⟩
    | none => ⟨(p, b) :: r.tree, r.ok⟩

/-- `chore update-copyright -v V -y Y` (version and year already validated) -/
def copyrightAll (v y : Bytes) : Tree → Outcome
  | [] => ⟨[], true⟩
  | (p, b) :: rest =>
    let r := copyrightAll v y rest
    if isCopyrightTarget p then ⟨(p, Crs.Copyright.updateRules v y b) :: r.tree, r.ok⟩
    else ⟨(p, b) :: r.tree, r.ok⟩

/-! ### regex update / compare: one assembly file, then --all -/

/-- the include and exclude directories as the parser sees them: files directly below them, by base name -/
def fsOf (t : Tree) : Parser.Fs :=
  { inc := (t.filter fun pb => hasPrefix b!"regex-assembly/include/" pb.1 && !(pb.1.drop 23).contains '/').map fun pb => (pb.1.drop 23, pb.2),
    exc := (t.filter fun pb => hasPrefix b!"regex-assembly/exclude/" pb.1 && !(pb.1.drop 23).contains '/').map fun pb => (pb.1.drop 23, pb.2) }

def lookup (p : Bytes) : Tree → Option Bytes
  | [] => none
  | (q, b) :: rest => if q == p then some b else lookup p rest

def setFile (p c : Bytes) : Tree → Tree
  | [] => []
  | (q, b) :: rest => if q == p then (q, c) :: rest else (q, b) :: setFile p c rest

/-- `filepath.Glob(rules/*-PFX-*)` with exactly one match -/
def rulesFileOf (t : Tree) (id : Bytes) : Option Bytes :=
  let key := ['-'] ++ id.take 3 ++ ['-']
  match t.filter (fun pb => hasPrefix b!"rules/" pb.1 && !(pb.1.drop 6).contains '/' && Update.contains key (pb.1.drop 6)) with
  | [pb] => some pb.1
  | _ => none

/-- process-wide state the Go code keeps between runs: the package-level processor stack of the assembler and
    the stash of the last context -/
structure Globals where
  stack : List Asm.Proc := []
  stash : Asm.Stash := []

/-- one `runAssemble`: a NEW context (empty stash) and `Operator.Run`, which RESETS the processor stack before
    anything else — whatever the globals were before. Returns the globals it leaves behind. -/
def runFile (E : Asm.Engine) (cfg : Asm.Config) (o1 o2 : Parser.Ord) (_g : Globals) (fs : Parser.Fs) (input : Bytes) :
    Globals × Except Fault Bytes :=
  let r := Asm.generate E fs cfg o1 o2 input
  -- what is left behind is irrelevant to the next run (it starts by overwriting it); kept abstractly as "dirty"
  (match Parser.parse fs o1 o2 Parser.defaultFuel [] input with
   | .error _ => {}
   | .ok st =>
     match Asm.runLines E cfg [] [.assemble [] []] (scanLines st.out) with
     | .error _ => {}
     | .ok (stash, stack) => { stack := stack, stash := stash }, r)

/-- `processRule`: assemble, find the rules file, splice the operand. `.error` = `logger.Fatal` (nothing written). -/
def updateRule (E : Asm.Engine) (cfg : Asm.Config) (o1 o2 : Parser.Ord) (g : Globals) (t : Tree) (input id : Bytes) (offset : Nat) :
    Globals × Except Fault Tree :=
  let (g', r) := runFile E cfg o1 o2 g (fsOf t) input
  (g', match r with
    | .error e => .error e
    | .ok re =>
      match rulesFileOf t id with
      | none => .error .diag
      | some rp =>
        match lookup rp t with
        | none => .error .diag
        | some rc =>
          match Update.updateRegex rc id offset re with
          | .error e => .error e
          | .ok rc' => .ok (setFile rp rc' t))

/-- how `regex update --all` reads an assembly file name: `none` = not a rule file (skipped),
    `some none` = chain offset above 255 (the walk fails), `some (some (id, k))` -/
def ruleOfFileName (name : Bytes) : Option (Option (Bytes × Nat)) :=
  if !((name.take 6).length == 6 && (name.take 6).all isDigit) then none
  else
    match Update.splitChain (name.drop 6) with
    | (offs, rest') =>
      if !(rest'.isEmpty || rest' == Update.raExt) then none
      else
        match offs with
        | none => some (some (name.take 6, 0))
        | some ds => if Update.digitsVal ds > 255 then some none else some (some (name.take 6, Update.digitsVal ds))

/-- `regex update --all`: the assembly files in walk order (`files`: the part of the tree still to visit);
    the first fatal error ends the run with everything before it already written (D19) -/
def updateAll (E : Asm.Engine) (cfg : Asm.Config) (o1 o2 : Parser.Ord) : Globals → Tree → List (Bytes × Bytes) → Outcome
  | _, t, [] => ⟨t, true⟩
  | g, t, (p, b) :: rest =>
    if isFormatTarget p then
      match ruleOfFileName (baseName p) with
      | none => updateAll E cfg o1 o2 g t rest
      | some none => ⟨t, false⟩
      | some (some (id, k)) =>
        match updateRule E cfg o1 o2 g t b id k with
        | (_, .error _) => ⟨t, false⟩
        | (g', .ok t') => updateAll E cfg o1 o2 g' t' rest
    else updateAll E cfg o1 o2 g t rest

def assemblyPath (fileName : Bytes) : Bytes := b!"regex-assembly/" ++ fileName

/-! ### regex compare -/

/-- `processRegexForCompare` after `runAssemble`: is the stored operand the generated regex?
    `.error` = a fatal error (assembly fails, rules file missing or ambiguous, rule not found) -/
def compareRule (E : Asm.Engine) (cfg : Asm.Config) (o1 o2 : Parser.Ord) (t : Tree) (input id : Bytes) (offset : Nat) :
    Except Fault Bool :=
  match (runFile E cfg o1 o2 {} (fsOf t) input).2 with
  | .error e => .error e
  | .ok re =>
    match rulesFileOf t id with
    | none => .error .diag
    | some rp =>
      match lookup rp t with
      | none => .error .diag
      | some rc =>
        match Update.readCurrentRegex rc id offset with
        | .error e => .error e
        | .ok cur => .ok (cur == re)

/-- what a compare run reports: the rules found up to date and out of date, in walk order, and the exit status -/
structure CompareResult where
  unchanged : List Bytes
  changed : List Bytes
  ok : Bool

/-- `regex compare --all`: every rule file in walk order; a rule that is out of date is reported and the walk goes on;
    a fatal error ends the run with a non-zero status. At the end the status is non-zero in GitHub mode when some rule was
    out of date (in text mode an out-of-date rule does not change the status of an `--all` run). -/
def compareAll (E : Asm.Engine) (cfg : Asm.Config) (o1 o2 : Parser.Ord) (github : Bool) (t : Tree) :
    List (Bytes × Bytes) → CompareResult
  | [] => ⟨[], [], true⟩
  | (p, b) :: rest =>
    if isFormatTarget p then
      match ruleOfFileName (baseName p) with
      | none => compareAll E cfg o1 o2 github t rest
      | some none => ⟨[], [], false⟩
      | some (some (id, k)) =>
        match compareRule E cfg o1 o2 t b id k with
        | .error _ => ⟨[], [], false⟩
        | .ok true =>
          let r := compareAll E cfg o1 o2 github t rest
          ⟨id :: r.unchanged, r.changed, r.ok⟩
        | .ok false =>
          let r := compareAll E cfg o1 o2 github t rest
          ⟨r.unchanged, id :: r.changed, r.ok && !github⟩
    else compareAll E cfg o1 o2 github t rest

/-- `regex compare ARG` (either output mode): status 0 exactly when the stored operand is the generated regex -/
def compareCmd (E : Asm.Engine) (cfg : Asm.Config) (o1 o2 : Parser.Ord) (t : Tree) (arg : Bytes) : CompareResult :=
  match Update.parseRuleId arg with
  | .error _ => ⟨[], [], false⟩
  | .ok ra =>
    match lookup (assemblyPath ra.fileName) t with
    | none => ⟨[], [], false⟩
    | some b =>
      match compareRule E cfg o1 o2 t b ra.id ra.chainOffset with
      | .error _ => ⟨[], [], false⟩
      | .ok true => ⟨[ra.id], [], true⟩
      | .ok false => ⟨[], [ra.id], false⟩

/-! ### single-target commands: stdout, tree, success -/

structure CmdResult where
  stdout : Bytes
  tree : Tree
  ok : Bool

/-- `regex generate ARG`: the regex on stdout (`os.Stdout.WriteString`, no newline), or nothing and a non-zero exit status -/
def generateCmd (E : Asm.Engine) (cfg : Asm.Config) (o1 o2 : Parser.Ord) (t : Tree) (arg : Bytes) : CmdResult :=
  match Update.parseRuleId arg with
  | .error _ => ⟨[], t, false⟩
  | .ok ra =>
    match lookup (assemblyPath ra.fileName) t with
    | none => ⟨[], t, false⟩
    | some b =>
      match (runFile E cfg o1 o2 {} (fsOf t) b).2 with
      | .ok re => ⟨re, t, true⟩
      | .error _ => ⟨[], t, false⟩

/-- `regex update ARG`: the rules file with the operand replaced, or the tree as it was and a non-zero exit status -/
def updateCmd (E : Asm.Engine) (cfg : Asm.Config) (o1 o2 : Parser.Ord) (t : Tree) (arg : Bytes) : CmdResult :=
  match Update.parseRuleId arg with
  | .error _ => ⟨[], t, false⟩
  | .ok ra =>
    match lookup (assemblyPath ra.fileName) t with
    | none => ⟨[], t, false⟩
    | some b =>
      match (updateRule E cfg o1 o2 {} t b ra.id ra.chainOffset).2 with
      | .ok t' => ⟨[], t', true⟩
      | .error _ => ⟨[], t, false⟩

/-- commands that only inspect: generate, compare, version, completion, and every `--check` (by the definitions above) -/
def inspect (t : Tree) : Tree := t

end Crs.Cli
