/-
  Model of the file-level effects of the rewriting commands (cmd/regex_format.go: processAll, processFile;
  util/renumber_tests.go: RenumberTests, processFile; chore/update_copyright.go: UpdateCopyright, processFile):
  which files of a CRS tree a command selects and what it writes.   (C15, C16, C08)

  A tree is the list of regular files under the resolved CRS root, as (slash-separated root-relative path,
  contents), in `filepath.WalkDir` order. Directories, modes and anything outside the root are not part of
  the model: no modelled command has an operation that could name them.
-/
import Crs.Format
import Crs.Renumber
import Crs.Copyright
import Crs.Update
import Crs.Assemble
import Crs.Path
namespace Crs.Cli
open Crs Crs.Format

abbrev Tree := List (Bytes × Bytes)

/-- `path.Base` of a clean relative path -/
def baseName (p : Bytes) : Bytes := ((splitCh '/' p).getLast?).getD []

/-- is the file below directory `dir` (at any depth)? -/
def inDir (dir p : Bytes) : Bool := hasPrefix (dir ++ ['/']) p

/-- `regex format --all`: `WalkDir(regex-assembly)`, regular files with `path.Ext(name) == ".ra"` -/
def isFormatTarget (p : Bytes) : Bool := inDir b!"regex-assembly" p && hasSuffix b!".ra" (baseName p)

/-- `RuleIdTestFileNameRegex` = `^(\d{6})\.ya?ml$` on the base name: the rule id -/
def testFileId? (name : Bytes) : Option Bytes :=
  let id := name.take 6
  let ext := name.drop 6
  if id.length == 6 && id.all isDigit && (ext == b!".yaml" || ext == b!".yml") then some id else none

/-- `util renumber-tests --all`: `WalkDir(tests/regression/tests)`, files whose base name matches -/
def renumberId? (p : Bytes) : Option Bytes :=
  if inDir b!"tests/regression/tests" p then testFileId? (baseName p) else none

/-- `chore update-copyright`: `WalkDir(root)`, base name ends in `.conf` or `.example` -/
def isCopyrightTarget (p : Bytes) : Bool := hasSuffix b!".conf" (baseName p) || hasSuffix b!".example" (baseName p)

/-- result of a command on a tree: the new tree and whether the command reports success (exit status 0) -/
structure Outcome where
  tree : Tree
  ok : Bool

/-- one file of `regex format`: new contents and success. `lint` is the verdict of the upper-case lint (an input:
    it reads nothing but the file). In check mode nothing is written. -/
def formatOne (check : Bool) (lint : Bool) (b : Bytes) : Bytes × Bool :=
  match formatFile b with
  | .error _ => (b, false)
  | .ok out => if check then (b, out == b && !lint) else (out, true)

/-- does `Parse(formatOnly)` get through the file? An unsupported flag or an odd replacement list is a
    `logger.Panic`: the process ends there. -/
def parseable (b : Bytes) : Bool := ((scanLines b).map trimLeftSpTab).all lineAccepted

/-- `regex format --all [--check]`: every target is processed in walk order; a file that cannot be formatted
    (unbalanced block) is reported and the walk goes on (D19); a file the parser panics on ends the process: nothing
    after it is touched. -/
def formatAll (check : Bool) (lint : Bytes → Bool) : Tree → Outcome
  | [] => ⟨[], true⟩
  | (p, b) :: rest =>
    if isFormatTarget p then
      if !parseable b then ⟨(p, b) :: rest, false⟩
      else
        let r := formatAll check lint rest
        let (b', ok) := formatOne check (lint p) b
        ⟨(p, b') :: r.tree, ok && r.ok⟩
    else
      let r := formatAll check lint rest
      ⟨(p, b) :: r.tree, r.ok⟩

/-- one file of `util renumber-tests`: (new contents, success) -/
def renumberOne (check : Bool) (id b : Bytes) : Bytes × Bool :=
  let out := Crs.Renumber.processYaml id b
  if out == b then (b, true) else if check then (b, false) else (out, true)

/-- `util renumber-tests --all [--check]` -/
def renumberAll (check : Bool) : Tree → Outcome
  | [] => ⟨[], true⟩
  | (p, b) :: rest =>
    let r := renumberAll check rest
    match renumberId? p with
    | some id =>
      let (b', ok) := renumberOne check id b
      ⟨(p, b') :: r.tree, ok && r.ok⟩
    | none => ⟨(p, b) :: r.tree, r.ok⟩

/-! ### what format and renumber-tests print on standard output -/

/-- `formatMessage`: in GitHub mode the text is wrapped as a warning command and carries its own line feed (Println adds one more) -/
def fmtMsg (github : Bool) (name : Bytes) : Bytes :=
  if github then b!"::warning ::" ++ name ++ b!" not properly formatted\n\n" else name ++ b!" not properly formatted\n"

/-- one file of `regex format`: the message of check mode (a file that cannot be formatted is reported on stderr only) -/
def formatOneOut (check github lint : Bool) (name b : Bytes) : Bytes :=
  match formatFile b with
  | .error _ => []
  | .ok out => if check && !(out == b && !lint) then fmtMsg github name else []

/-- the walk of `regex format --all`: (text, some file failed, ended by a parser panic) -/
def formatWalkOut (check github : Bool) (lint : Bytes → Bool) : Tree → Bytes × Bool × Bool
  | [] => ([], false, false)
  | (p, b) :: rest =>
    if isFormatTarget p then
      if !parseable b then ([], true, true)
      else
        let (o, f, e) := formatWalkOut check github lint rest
        (formatOneOut check github (lint p) (baseName p) b ++ o, f || !(formatOne check (lint p) b).2, e)
    else formatWalkOut check github lint rest

def formatAllNotice : Bytes := b!"::error::All assembly files need to be properly formatted. Please run `crs-toolchain regex format --all`\n"

/-- standard output of `regex format --all [--check]` -/
def formatAllOut (check github : Bool) (lint : Bytes → Bool) (t : Tree) : Bytes :=
  match formatWalkOut check github lint t with
  | (o, _, true) => o
  | (o, f, false) => if f && github then o ++ formatAllNotice else o

/-- the walk of `util renumber-tests --all`: in GitHub mode every file whose numbering changes is named — in check mode
    and in write mode alike; (text, some file failed) -/
def renumberWalkOut (check github : Bool) : Tree → Bytes × Bool
  | [] => ([], false)
  | (p, b) :: rest =>
    let (o, f) := renumberWalkOut check github rest
    match renumberId? p with
    | some id =>
      let changed := Crs.Renumber.processYaml id b != b
      ((if github && changed then b!"::warning::Test file not properly numbered: " ++ baseName p ++ b!"\n" else []) ++ o,
       f || (changed && check))
    | none => (o, f)

def renumberAllNotice : Bytes := b!"::error::All test files need to be properly numbered. Please run `crs-toolchain util renumber-tests --all`\n"

/-- standard output of `util renumber-tests --all [--check]` -/
def renumberAllOut (check github : Bool) (t : Tree) : Bytes :=
  match renumberWalkOut check github t with
  | (o, f) => if f && github then o ++ renumberAllNotice else o

/-- `chore update-copyright -v V -y Y` (version and year already validated) -/
def copyrightAll (v y : Bytes) : Tree → Outcome
  | [] => ⟨[], true⟩
  | (p, b) :: rest =>
    let r := copyrightAll v y rest
    if isCopyrightTarget p then ⟨(p, Crs.Copyright.updateRules v y b) :: r.tree, r.ok⟩
    else ⟨(p, b) :: r.tree, r.ok⟩

/-! ### regex update / compare: one assembly file, then --all -/

/-- the include and exclude directories as the parser sees them: files directly below them, by base name -/
def fsOf (t : Tree) : Parser.Fs :=
  { inc := (t.filter fun pb => hasPrefix b!"regex-assembly/include/" pb.1 && !(pb.1.drop 23).contains '/').map fun pb => (pb.1.drop 23, pb.2),
    exc := (t.filter fun pb => hasPrefix b!"regex-assembly/exclude/" pb.1 && !(pb.1.drop 23).contains '/').map fun pb => (pb.1.drop 23, pb.2) }

def lookup (p : Bytes) : Tree → Option Bytes
  | [] => none
  | (q, b) :: rest => if q == p then some b else lookup p rest

def setFile (p c : Bytes) : Tree → Tree
  | [] => []
  | (q, b) :: rest => if q == p then (q, c) :: rest else (q, b) :: setFile p c rest

/-- `filepath.Glob(rules/*-PFX-*)` with exactly one match -/
def rulesFileOf (t : Tree) (id : Bytes) : Option Bytes :=
  let key := ['-'] ++ id.take 3 ++ ['-']
  match t.filter (fun pb => hasPrefix b!"rules/" pb.1 && !(pb.1.drop 6).contains '/' && Update.contains key (pb.1.drop 6)) with
  | [pb] => some pb.1
  | _ => none

/-- process-wide state the Go code keeps between runs: the package-level processor stack of the assembler and
    the stash of the last context -/
structure Globals where
  stack : List Asm.Proc := []
  stash : Asm.Stash := []

/-- one `runAssemble`: a NEW context (empty stash) and `Operator.Run`, which RESETS the processor stack before
    anything else — whatever the globals were before. Returns the globals it leaves behind. -/
def runFile (E : Asm.Engine) (cfg : Asm.Config) (o1 o2 : Parser.Ord) (_g : Globals) (fs : Parser.Fs) (input : Bytes) :
    Globals × Except Fault Bytes :=
  let r := Asm.generate E fs cfg o1 o2 input
  -- what is left behind is irrelevant to the next run (it starts by overwriting it); kept abstractly as "dirty"
  (match Parser.parse fs o1 o2 Parser.defaultFuel [] input with
   | .error _ => {}
   | .ok st =>
     match Asm.runLines E cfg [] [.assemble [] []] (scanLines st.out) with
     | .error _ => {}
     | .ok (stash, stack) => { stack := stack, stash := stash }, r)

/-- `processRule`: assemble, find the rules file, splice the operand. `.error` = `logger.Fatal` (nothing written). -/
def updateRule (E : Asm.Engine) (cfg : Asm.Config) (o1 o2 : Parser.Ord) (g : Globals) (t : Tree) (input id : Bytes) (offset : Nat) :
    Globals × Except Fault Tree :=
  let (g', r) := runFile E cfg o1 o2 g (fsOf t) input
  (g', match r with
    | .error e => .error e
    | .ok re =>
      match rulesFileOf t id with
      | none => .error .diag
      | some rp =>
        match lookup rp t with
        | none => .error .diag
        | some rc =>
          match Update.updateRegex rc id offset re with
          | .error e => .error e
          | .ok rc' => .ok (setFile rp rc' t))

/-- how `regex update --all` reads an assembly file name: `none` = not a rule file (skipped),
    `some none` = chain offset above 255 (the walk fails), `some (some (id, k))` -/
def ruleOfFileName (name : Bytes) : Option (Option (Bytes × Nat)) :=
  if !((name.take 6).length == 6 && (name.take 6).all isDigit) then none
  else
    match Update.splitChain (name.drop 6) with
    | (offs, rest') =>
      if !(rest'.isEmpty || rest' == Update.raExt) then none
      else
        match offs with
        | none => some (some (name.take 6, 0))
        | some ds => if Update.digitsVal ds > 255 then some none else some (some (name.take 6, Update.digitsVal ds))

/-- `regex update --all`: the assembly files in walk order (`files`: the part of the tree still to visit);
    the first fatal error ends the run with everything before it already written (D19) -/
def updateAll (E : Asm.Engine) (cfg : Asm.Config) (o1 o2 : Parser.Ord) : Globals → Tree → List (Bytes × Bytes) → Outcome
  | _, t, [] => ⟨t, true⟩
  | g, t, (p, b) :: rest =>
    if isFormatTarget p then
      match ruleOfFileName (baseName p) with
      | none => updateAll E cfg o1 o2 g t rest
      | some none => ⟨t, false⟩
      | some (some (id, k)) =>
        match updateRule E cfg o1 o2 g t b id k with
        | (_, .error _) => ⟨t, false⟩
        | (g', .ok t') => updateAll E cfg o1 o2 g' t' rest
    else updateAll E cfg o1 o2 g t rest

def assemblyPath (fileName : Bytes) : Bytes := b!"regex-assembly/" ++ fileName

/-! ### regex compare -/

/-- `processRegexForCompare` after `runAssemble`: is the stored operand the generated regex?
    `.error` = a fatal error (assembly fails, rules file missing or ambiguous, rule not found) -/
def compareRule (E : Asm.Engine) (cfg : Asm.Config) (o1 o2 : Parser.Ord) (t : Tree) (input id : Bytes) (offset : Nat) :
    Except Fault Bool :=
  match (runFile E cfg o1 o2 {} (fsOf t) input).2 with
  | .error e => .error e
  | .ok re =>
    match rulesFileOf t id with
    | none => .error .diag
    | some rp =>
      match lookup rp t with
      | none => .error .diag
      | some rc =>
        match Update.readCurrentRegex rc id offset with
        | .error e => .error e
        | .ok cur => .ok (cur == re)

/-- what a compare run reports: the rules found up to date and out of date, in walk order, and the exit status -/
structure CompareResult where
  unchanged : List Bytes
  changed : List Bytes
  ok : Bool

/-- `regex compare --all`: every rule file in walk order; a rule that is out of date is reported and the walk goes on;
    a fatal error ends the run with a non-zero status. At the end the status is non-zero in GitHub mode when some rule was
    out of date (in text mode an out-of-date rule does not change the status of an `--all` run). -/
def compareAll (E : Asm.Engine) (cfg : Asm.Config) (o1 o2 : Parser.Ord) (github : Bool) (t : Tree) :
    List (Bytes × Bytes) → CompareResult
  | [] => ⟨[], [], true⟩
  | (p, b) :: rest =>
    if isFormatTarget p then
      match ruleOfFileName (baseName p) with
      | none => compareAll E cfg o1 o2 github t rest
      | some none => ⟨[], [], false⟩
      | some (some (id, k)) =>
        match compareRule E cfg o1 o2 t b id k with
        | .error _ => ⟨[], [], false⟩
        | .ok true =>
          let r := compareAll E cfg o1 o2 github t rest
          ⟨id :: r.unchanged, r.changed, r.ok⟩
        | .ok false =>
          let r := compareAll E cfg o1 o2 github t rest
          ⟨r.unchanged, id :: r.changed, r.ok && !github⟩
    else compareAll E cfg o1 o2 github t rest

/-- `regex compare ARG` (either output mode): status 0 exactly when the stored operand is the generated regex -/
def compareCmd (E : Asm.Engine) (cfg : Asm.Config) (o1 o2 : Parser.Ord) (t : Tree) (arg : Bytes) : CompareResult :=
  match Update.parseRuleId arg with
  | .error _ => ⟨[], [], false⟩
  | .ok ra =>
    match lookup (assemblyPath ra.fileName) t with
    | none => ⟨[], [], false⟩
    | some b =>
      match compareRule E cfg o1 o2 t b ra.id ra.chainOffset with
      | .error _ => ⟨[], [], false⟩
      | .ok true => ⟨[ra.id], [], true⟩
      | .ok false => ⟨[], [ra.id], false⟩

/-! ### single-target commands: stdout, tree, success -/

structure CmdResult where
  stdout : Bytes
  tree : Tree
  ok : Bool

/-- `regex generate ARG`: the regex on stdout (`os.Stdout.WriteString`, no newline), or nothing and a non-zero exit status -/
def generateCmd (E : Asm.Engine) (cfg : Asm.Config) (o1 o2 : Parser.Ord) (t : Tree) (arg : Bytes) : CmdResult :=
  match Update.parseRuleId arg with
  | .error _ => ⟨[], t, false⟩
  | .ok ra =>
    match lookup (assemblyPath ra.fileName) t with
    | none => ⟨[], t, false⟩
    | some b =>
      match (runFile E cfg o1 o2 {} (fsOf t) b).2 with
      | .ok re => ⟨re, t, true⟩
      | .error _ => ⟨[], t, false⟩

/-- `regex update ARG`: the rules file with the operand replaced, or the tree as it was and a non-zero exit status -/
def updateCmd (E : Asm.Engine) (cfg : Asm.Config) (o1 o2 : Parser.Ord) (t : Tree) (arg : Bytes) : CmdResult :=
  match Update.parseRuleId arg with
  | .error _ => ⟨[], t, false⟩
  | .ok ra =>
    match lookup (assemblyPath ra.fileName) t with
    | none => ⟨[], t, false⟩
    | some b =>
      match (updateRule E cfg o1 o2 {} t b ra.id ra.chainOffset).2 with
      | .ok t' => ⟨[], t', true⟩
      | .error _ => ⟨[], t, false⟩

/-- commands that only inspect: generate, compare, version, completion, and every `--check` (by the definitions above) -/
def inspect (t : Tree) : Tree := t

/-! ### an invocation: what the command line says, after the flag parser -/

/-- the commands whose wiring is modelled -/
inductive Command where
  | generate | update | compare | format | renumber | copyright
  deriving DecidableEq

/-- what cobra hands to the command: the value of `-o` or `--output` (if given), the positional arguments, which flags
    were given. (`-d`, `-l`, `-f` are outside: the tree IS the resolved root, the log is not an output.) -/
structure Invocation where
  output : Option Bytes := none
  cmd : Command
  args : List Bytes := []
  all : Bool := false
  check : Bool := false
  version : Option Bytes := none
  year : Bytes := []
  stdin : Bytes := []  -- what the process finds on standard input (read by `generate -` only)

/-- result of an invocation: exit status 0?, the tree, and what the command printed on standard output
    (compare: filled in by `CompareView.runWithView`) -/
structure RunResult where
  ok : Bool
  tree : Tree
  stdout : Bytes := []

/-- `path.Ext(name) == ""`: no dot in the last path element -/
def noExt (name : Bytes) : Bool := !((splitCh '/' name).getLast?.getD []).contains '.'

/-- `regex format ARG [--check]`: a rule argument addresses its assembly file, anything else is the name of an include
    file (`.ra` added when the argument has no extension at all). -/
def formatPathOf (arg : Bytes) : Bytes :=
  let filename := if noExt arg then arg ++ b!".ra" else arg
  match Update.parseRuleId filename with
  | .ok ra => assemblyPath ra.fileName
  | .error _ => b!"regex-assembly/include/" ++ filename

/-- `processFile` on one path of the tree -/
def formatAt (check github : Bool) (lint : Bytes → Bool) (t : Tree) (p : Bytes) : RunResult :=
  match lookup p t with
  | none => ⟨false, t, []⟩
  | some b =>
    if !parseable b then ⟨false, t, []⟩
    else ⟨(formatOne check (lint p) b).2, setFile p (formatOne check (lint p) b).1 t, formatOneOut check github (lint p) (baseName p) b⟩

/-- the file a format argument addresses, relative to the root: `path.Join` cleans the path (an argument may carry
    separators, `.` and `..`) -/
def formatTarget (arg : Bytes) : Bytes := Path.clean (formatPathOf arg)

/-- `regex format ARG [--check]`: only a `.ra` file below regex-assembly is ever opened; an argument that resolves to
    anything else is refused (D29). `none`: the cleaned path climbs above the root — whether it comes back into the
    tree depends on the names of the directories above, which the model does not know. -/
def formatCmd (check github : Bool) (lint : Bytes → Bool) (t : Tree) (arg : Bytes) : Option RunResult :=
  let p := formatTarget arg
  if p == b!".." || hasPrefix b!"../" p then none
  else if isFormatTarget p then some (formatAt check github lint t p)
  else some ⟨false, t, []⟩

/-- `path.Ext` removed: the name up to the last dot of its last path element (the whole name when that has no dot) -/
def stripExt (name : Bytes) : Bytes :=
  let last := (splitCh '/' name).getLast?.getD []
  if last.contains '.' then name.take (name.length - ((splitCh '.' last).getLast?.getD []).length - 1) else name

/-- the elements of the pattern `path.Join(tests/regression/tests, "*", NAME) + ".*"`, relative to the root; the last
    one stands for `LAST.*`. `path.Join` cleans: a `..` at the start of NAME takes the `*` away, further ones climb.
    `none`: the pattern climbs above the root, or its last element is the `*` itself. -/
def testPattern (name : Bytes) : Option (List Bytes) :=
  let p := Path.clean (b!"tests/regression/tests/*/" ++ name)
  if p == b!".." || hasPrefix b!"../" p then none
  else
    let comps := splitCh '/' p
    if comps.getLast? == some b!"*" then none else some comps

/-- do the elements of a path begin with a match of the pattern? (`*` matches any one element, the last pattern
    element `LAST` matches an element that begins with `LAST.`) -/
def matchPattern : List Bytes → List Bytes → Bool
  | [], _ => false
  | [last], c :: _ => hasPrefix (last ++ b!".") c
  | pe :: ps, c :: cs => (pe == b!"*" || pe == c) && matchPattern ps cs
  | _ :: _, [] => false

/-- the entries the pattern matches (files and directories, each once): path, is a file -/
def testCandidates (pat : List Bytes) (t : Tree) : List (Bytes × Bool) :=
  (t.filterMap fun (p, _) =>
    let cs := splitCh '/' p
    if matchPattern pat cs then some (joinCh '/' (cs.take pat.length), cs.length == pat.length) else none).eraseDups

/-- `util renumber-tests ARG [--check]`: the argument without its extension names the test file, whatever its directory
    and extension (`parseFilePath`: exactly one entry must match the pattern, and it must lie below the tests directory —
    D30). `none`: an argument with a pattern character (the pattern language of `filepath.Glob` is not modelled) or a
    pattern that climbs above the root. -/
def renumberCmd (check : Bool) (t : Tree) (arg : Bytes) : Option RunResult :=
  if arg.any (fun c => c == '*' || c == '?' || c == '[' || c == '\\') then none
  else
    match testPattern (stripExt arg) with
    | none => none
    | some pat =>
      match testCandidates pat t with
      | [(p, isFile)] =>
        if !inDir b!"tests/regression/tests" p then some ⟨false, t, []⟩
        else
          match testFileId? (baseName p) with
          | none => some ⟨true, t, []⟩  -- not a test file name: skipped without a word
          | some id =>
            if !isFile then some ⟨false, t, []⟩
            else
              match lookup p t with
              | none => some ⟨false, t, []⟩
              | some c =>
                let (c', ok) := renumberOne check id c
                some ⟨ok, setFile p c' t, []⟩
      | _ => some ⟨false, t, []⟩

/-- `RULE_ID | --all`: exactly one of the two, at most one argument (the `Args` validators of cmd/*.go) -/
def oneTarget (inv : Invocation) : Bool :=
  (inv.all && inv.args.isEmpty) || (!inv.all && inv.args.length == 1)

/-- `crs-toolchain [-o O] COMMAND …` on the tree of the resolved root. `lint`: verdict of the upper-case lint per file
    (an input); `versionOk`: verdict of the semantic-version library on the `-v` value (an input).
    `none`: a form of the command this model does not cover (arguments with path separators or pattern characters). -/
def run (E : Asm.Engine) (cfg : Asm.Config) (o1 o2 : Parser.Ord) (lint : Bytes → Bool) (versionOk : Bool)
    (inv : Invocation) (t : Tree) : Option RunResult :=
  let fail : RunResult := ⟨false, t, []⟩
  -- the output option is read before anything else: an unknown value ends the run
  match inv.output with
  | some v => if v == b!"text" || v == b!"github" then go (v == b!"github") else some fail
  | none => go false
where
  go (github : Bool) : Option RunResult :=
    let fail : RunResult := ⟨false, t, []⟩
    match inv.cmd with
    | .generate =>
      match inv.args with
      | [arg] =>
          if arg == b!"-" then
            -- the program comes from standard input; include files and configuration from the tree as ever
            match (runFile E cfg o1 o2 {} (fsOf t) inv.stdin).2 with
            | .ok re => some ⟨true, t, re⟩
            | .error _ => some fail
          else
            let r := generateCmd E cfg o1 o2 t arg
            some ⟨r.ok, r.tree, r.stdout⟩
      | _ => some fail
    | .update =>
      if !oneTarget inv then some fail
      else if inv.all then let r := updateAll E cfg o1 o2 {} t t; some ⟨r.ok, r.tree, []⟩
      else match inv.args with
        | [arg] => let r := updateCmd E cfg o1 o2 t arg; some ⟨r.ok, r.tree, []⟩
        | _ => some fail
    | .compare =>
      if !oneTarget inv then some fail
      else if inv.all then some ⟨(compareAll E cfg o1 o2 github t t).ok, t, []⟩
      else match inv.args with
        | [arg] => some ⟨(compareCmd E cfg o1 o2 t arg).ok, t, []⟩
        | _ => some fail
    | .format =>
      if !oneTarget inv then some fail
      else if inv.all then let r := formatAll inv.check lint t; some ⟨r.ok, r.tree, formatAllOut inv.check github lint t⟩
      else match inv.args with
        | [arg] => if arg == b!"-" then some fail else formatCmd inv.check github lint t arg
        | _ => some fail
    | .renumber =>
      if !oneTarget inv then some fail
      else if inv.all then let r := renumberAll inv.check t; some ⟨r.ok, r.tree, renumberAllOut inv.check github t⟩
      else match inv.args with
        | [arg] => if arg == b!"-" then some fail else renumberCmd inv.check t arg
        | _ => some fail
    | .copyright =>
      match inv.version with
      | none => some fail
      | some v =>
        if v.isEmpty || !versionOk then some fail
        else let r := copyrightAll v inv.year t; some ⟨r.ok, r.tree, []⟩

end Crs.Cli
