/-
  Byte strings and the Go standard-library functions the toolchain uses on them.

  Go strings are byte strings.  The model carrier is `List Char` restricted (by the driver,
  not by the type) to code points < 256: every byte of a file is one `Char`.
  Every function here is total and executable and is cross-checked against the Go function
  it stands for by the harness ("stdlib" stream, row K0 of DESIGN §6.1).
-/
namespace Crs

abbrev Bytes := List Char

/-- How an operation can fail. `diag`: a deliberate diagnostic (returned error, `logger.Fatal` = exit 1,
    `logger.Panic` = exit 2 with a message). `runtime`: what would be a Go runtime fault (index out of
    range, nil dereference). -/
inductive Fault where
  | diag
  | runtime
  /-- driver only: the table that stands for the regex engine has no entry for this query yet;
      the harness computes the real `rassemble.Join` result, adds it and runs the operation again.
      Engines in theorems never return it (`Engine.Total`). -/
  | need (query : List (List Char))
  deriving DecidableEq, Repr

instance {ε α : Type} [DecidableEq ε] [DecidableEq α] : DecidableEq (Except ε α) := fun a b =>
  match a, b with
  | .ok x, .ok y => if h : x = y then isTrue (by rw [h]) else isFalse (fun e => h (by injection e))
  | .error x, .error y => if h : x = y then isTrue (by rw [h]) else isFalse (fun e => h (by injection e))
  | .ok _, .error _ => isFalse (fun e => by cases e)
  | .error _, .ok _ => isFalse (fun e => by cases e)

/-- literal helper: `B "##!>"` -/
@[inline] def B (s : String) : Bytes := s.toList

/-- Go's `\s` in `regexp` (ASCII only, no vertical tab): `[\t\n\f\r ]`. -/
def isWs (c : Char) : Bool :=
  c == '\t' || c == '\n' || c == '\x0c' || c == '\r' || c == ' '

/-- the cut set `" \t"` used by `strings.TrimLeft(line, " \t")` -/
def isSpTab (c : Char) : Bool := c == ' ' || c == '\t'

def isDigit (c : Char) : Bool := '0' ≤ c && c ≤ '9'
def isLower (c : Char) : Bool := 'a' ≤ c && c ≤ 'z'
def isUpper (c : Char) : Bool := 'A' ≤ c && c ≤ 'Z'
/-- `[a-zA-Z0-9-_]` -/
def isNameCh (c : Char) : Bool := isLower c || isUpper c || isDigit c || c == '-' || c == '_'

/-- `strings.TrimLeft(s, " \t")` -/
def trimLeftSpTab (b : Bytes) : Bytes := b.dropWhile isSpTab

def dropWs (b : Bytes) : Bytes := b.dropWhile isWs
def trimRightWs (b : Bytes) : Bytes := (b.reverse.dropWhile isWs).reverse
def trimWs (b : Bytes) : Bytes := trimRightWs (dropWs b)

/-- `strings.HasPrefix` -/
def hasPrefix (p : Bytes) (b : Bytes) : Bool := p.isPrefixOf b

/-- `strings.CutPrefix`: the rest after `p` when `b` starts with `p`. -/
def stripPrefix? : (p b : Bytes) → Option Bytes
  | [], b => some b
  | _ :: _, [] => none
  | x :: p, y :: b => if x == y then stripPrefix? p b else none

/-- `strings.HasSuffix` -/
def hasSuffix (s : Bytes) (b : Bytes) : Bool := s.reverse.isPrefixOf b.reverse

/-- `strings.CutSuffix` -/
def cutSuffix? (s b : Bytes) : Option Bytes :=
  (stripPrefix? s.reverse b.reverse).map List.reverse

/-- first occurrence of `needle` in `b`: (text before, text after) -/
def splitFirst? (needle : Bytes) : Bytes → Option (Bytes × Bytes)
  | [] => if needle.isEmpty then some ([], []) else none
  | c :: cs =>
    match stripPrefix? needle (c :: cs) with
    | some rest => some ([], rest)
    | none =>
      match splitFirst? needle cs with
      | some (pre, post) => some (c :: pre, post)
      | none => none

/-- `strings.ReplaceAll(b, old, new)` for non-empty `old`: leftmost, non-overlapping.
    Structural recursion: `skip` counts the characters of a match that are still to be passed over. -/
def replaceAllAux (old new : Bytes) : (skip : Nat) → Bytes → Bytes
  | _, [] => []
  | k + 1, _ :: cs => replaceAllAux old new k cs
  | 0, c :: cs =>
    if old.isPrefixOf (c :: cs) && !old.isEmpty then new ++ replaceAllAux old new (old.length - 1) cs
    else c :: replaceAllAux old new 0 cs

def replaceAll (b old new : Bytes) : Bytes := replaceAllAux old new 0 b

/-- prepend a character to the first line -/
def consHead (c : Char) : List Bytes → List Bytes
  | [] => [[c]]
  | l :: ls => (c :: l) :: ls

/-- split at every occurrence of the character `sep`: never empty (`strings.Split` with a one-byte separator) -/
def splitCh (sep : Char) : Bytes → List Bytes
  | [] => [[]]
  | c :: cs => if c == sep then [] :: splitCh sep cs else consHead c (splitCh sep cs)

/-- `strings.Join` with a one-byte separator -/
def joinCh (sep : Char) : List Bytes → Bytes
  | [] => []
  | [l] => l
  | l :: l' :: ls => l ++ sep :: joinCh sep (l' :: ls)

/-- `bytes.Split(b, "\n")` / `strings.Split(s, "\n")`: never empty. -/
def splitNl (b : Bytes) : List Bytes := splitCh '\n' b

/-- `bytes.Join(ls, "\n")` / `strings.Join(ls, "\n")` -/
def joinNl (ls : List Bytes) : Bytes := joinCh '\n' ls

/-- concatenate `line ++ "\n"` for every line (what the writers produce) -/
def unlines (ls : List Bytes) : Bytes := (ls.map (· ++ ['\n'])).flatten

def dropCR (l : Bytes) : Bytes :=
  match l.getLast? with
  | some '\r' => l.dropLast
  | _ => l

/-- all lines of the file: split at `\n`, without the empty remainder after a final `\n` -/
def rawLines (b : Bytes) : List Bytes :=
  match (splitNl b).getLast? with
  | some [] => (splitNl b).dropLast
  | _ => splitNl b

/-- `bufio.Scanner` with `bufio.ScanLines` and a buffer that never overflows: split at `\n`,
    drop one trailing `\r` per line, a final unterminated line is kept, no line for the empty
    remainder after a final `\n`. -/
def scanLines (b : Bytes) : List Bytes := (rawLines b).map dropCR

/-- `bufio.Scanner` with the default 64 KiB token limit: scanning stops (silently, `Err()` is never
    inspected by the toolchain) at the first line of `max` or more bytes. `scanLines` is the case
    without limit; the toolchain now sets `math.MaxInt` at every site (C17). -/
def scanLinesLim (max : Nat) (b : Bytes) : List Bytes :=
  ((rawLines b).takeWhile (fun l => l.length < max)).map dropCR

def digitChar (d : Nat) : Char := Char.ofNat (48 + d)

def natDigits : Nat → Nat → Bytes
  | 0, _ => []
  | f + 1, n => if n < 10 then [digitChar n] else natDigits f (n / 10) ++ [digitChar (n % 10)]

/-- decimal rendering of a natural number (`strconv.Itoa`, `fmt.Sprint(int)`) -/
def natToBytes (n : Nat) : Bytes := natDigits (n + 1) n

/-! ### Unicode white space (`strings.TrimSpace`, `bytes.TrimSpace`, `unicode.IsSpace`)
    in UTF-8, as byte sequences. Invalid UTF-8 is never white space. -/

/-- if `b` starts with the UTF-8 encoding of a Unicode white-space rune, the rest after it -/
def dropUSpace? : Bytes → Option Bytes
  | c :: rest =>
    if c == '\t' || c == '\n' || c == '\x0b' || c == '\x0c' || c == '\r' || c == ' ' then some rest
    else if c.toNat == 0xC2 then
      match rest with
      | d :: rest' => if d.toNat == 0x85 || d.toNat == 0xA0 then some rest' else none
      | [] => none
    else if c.toNat == 0xE1 then
      match rest with
      | d :: e :: rest' => if d.toNat == 0x9A && e.toNat == 0x80 then some rest' else none
      | _ => none
    else if c.toNat == 0xE2 then
      match rest with
      | d :: e :: rest' =>
        if d.toNat == 0x80 && ((0x80 ≤ e.toNat && e.toNat ≤ 0x8A) || e.toNat == 0xA8 || e.toNat == 0xA9 || e.toNat == 0xAF) then some rest'
        else if d.toNat == 0x81 && e.toNat == 0x9F then some rest'
        else none
      | _ => none
    else if c.toNat == 0xE3 then
      match rest with
      | d :: e :: rest' => if d.toNat == 0x80 && e.toNat == 0x80 then some rest' else none
      | _ => none
    else none
  | [] => none

/-- `len(strings.TrimSpace(b)) == 0` -/
def isBlankU : Nat → Bytes → Bool
  | _, [] => true
  | 0, _ => false
  | n + 1, b =>
    match dropUSpace? b with
    | some rest => isBlankU n rest
    | none => false

def isBlank (b : Bytes) : Bool := isBlankU b.length b

/-! ### hex framing used by the driver -/

def hexDigit (n : Nat) : Char :=
  if n < 10 then Char.ofNat (48 + n) else Char.ofNat (87 + n)

def toHex (b : Bytes) : String :=
  String.ofList (b.flatMap fun c => [hexDigit (c.toNat / 16 % 16), hexDigit (c.toNat % 16)])

def hexVal? (c : Char) : Option Nat :=
  if '0' ≤ c && c ≤ '9' then some (c.toNat - 48)
  else if 'a' ≤ c && c ≤ 'f' then some (c.toNat - 87)
  else none

def fromHexAux : List Char → Option Bytes
  | [] => some []
  | [_] => none
  | a :: b :: rest =>
    match hexVal? a, hexVal? b, fromHexAux rest with
    | some x, some y, some r => some (Char.ofNat (x * 16 + y) :: r)
    | _, _, _ => none

/-- `-` encodes the empty string -/
def fromHex? (s : String) : Option Bytes :=
  if s == "-" then some [] else fromHexAux s.toList

def toHexArg (b : Bytes) : String := if b.isEmpty then "-" else toHex b

end Crs

namespace Crs

/-! ### UTF-8 decoding as Go does it (`utf8.DecodeRune`): width of the first rune, 1 for an invalid byte -/

def isCont (c : Char) : Bool := 0x80 ≤ c.toNat && c.toNat ≤ 0xBF

/-- (code point, width) of the first rune; invalid encodings give (0xFFFD, 1) -/
def decodeRune : Bytes → Nat × Nat
  | [] => (0xFFFD, 0)
  | b0 :: rest =>
    let x := b0.toNat
    if x < 0x80 then (x, 1)
    else if 0xC2 ≤ x && x ≤ 0xDF then
      match rest with
      | b1 :: _ => if isCont b1 then ((x - 0xC0) * 64 + (b1.toNat - 0x80), 2) else (0xFFFD, 1)
      | [] => (0xFFFD, 1)
    else if 0xE0 ≤ x && x ≤ 0xEF then
      match rest with
      | b1 :: b2 :: _ =>
        let lo := if x == 0xE0 then 0xA0 else 0x80
        let hi := if x == 0xED then 0x9F else 0xBF
        if lo ≤ b1.toNat && b1.toNat ≤ hi && isCont b2 then
          ((x - 0xE0) * 4096 + (b1.toNat - 0x80) * 64 + (b2.toNat - 0x80), 3)
        else (0xFFFD, 1)
      | _ => (0xFFFD, 1)
    else if 0xF0 ≤ x && x ≤ 0xF4 then
      match rest with
      | b1 :: b2 :: b3 :: _ =>
        let lo := if x == 0xF0 then 0x90 else 0x80
        let hi := if x == 0xF4 then 0x8F else 0xBF
        if lo ≤ b1.toNat && b1.toNat ≤ hi && isCont b2 && isCont b3 then
          ((x - 0xF0) * 262144 + (b1.toNat - 0x80) * 4096 + (b2.toNat - 0x80) * 64 + (b3.toNat - 0x80), 4)
        else (0xFFFD, 1)
      | _ => (0xFFFD, 1)
    else (0xFFFD, 1)

def runeLen (b : Bytes) : Nat := (decodeRune b).2

end Crs
