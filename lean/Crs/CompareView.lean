/-
  cmd/regex_compare.go: what `regex compare` prints on standard output.

  compareRegex prints both expressions in pieces of 50 bytes, side by side, marks the pieces that differ with `~` and
  frames the first differing piece ("first difference"). Modelled byte for byte: `rows` is the list of piece pairs
  (what the loop over `index` visits), `render` is the text printed for them.
-/
import Crs.Cli

namespace Crs.CompareView
open Crs

/-- piece `i` of an expression: bytes `50*i … 50*i+49` (empty beyond the end) -/
def chunkAt (s : Bytes) (i : Nat) : Bytes := (s.drop (50 * i)).take 50

/-- `maxChunks`: ceil(max(len cur, len gen) / 50) -/
def nChunks (cur gen : Bytes) : Nat := (max cur.length gen.length + 49) / 50

/-- the piece pairs the display loop visits, in order -/
def rows (cur gen : Bytes) : List (Bytes × Bytes) :=
  (List.range (nChunks cur gen)).map fun i => (chunkAt cur i, chunkAt gen i)

def spaces (n : Nat) : Bytes := List.replicate n ' '

/-- `(i / n)`, preceded by `~ ` on a differing pair -/
def counter (i n : Nat) (differ : Bool) : Bytes :=
  (if differ then b!"~ " else []) ++ b!"(" ++ natToBytes i ++ b!" / " ++ natToBytes n ++ b!")"

/-- the text of one pair; `first` = this is the first differing pair (framed) -/
def renderRow (n i : Nat) (first : Bool) (c g : Bytes) : Bytes :=
  let differ := c != g
  (if first then b!"\n===========\nfirst difference\n-----------" else []) ++
  (if c != [] then b!"\ncurrent:  " ++ spaces 5 ++ c ++ spaces (60 - c.length) ++ counter (i + 1) n differ else []) ++
  (if g != [] then b!"\ngenerated: " ++ spaces 4 ++ g ++ spaces (59 - g.length) ++ b!" " ++ counter (i + 1) n differ ++ b!"\n" else []) ++
  (if first then b!"===========\n" else [])

/-- the loop: `found` = a differing pair has been framed already -/
def renderRows (n : Nat) : Nat → Bool → List (Bytes × Bytes) → Bytes
  | _, _, [] => []
  | i, found, (c, g) :: rest =>
    let first := !found && c != g
    renderRow n i first c g ++ renderRows n (i + 1) (found || first) rest

/-- compareRegex in text mode, expressions differ -/
def changedText (id cur gen : Bytes) : Bytes :=
  b!"Regex of " ++ id ++ b!" has changed!\n" ++ renderRows (nChunks cur gen) 0 false (rows cur gen) ++ b!"\n"

def unchangedText (id : Bytes) : Bytes := b!"Regex of " ++ id ++ b!" has not changed\n"

/-- standard output of the comparison of one rule (`processRegexForCompare`); `none` = fatal error (the process ends) -/
def ruleOut (E : Asm.Engine) (cfg : Asm.Config) (o1 o2 : Parser.Ord) (github : Bool) (t : Cli.Tree) (input id : Bytes) (offset : Nat) :
    Option (Bytes × Bool) :=
  match (Cli.runFile E cfg o1 o2 {} (Cli.fsOf t) input).2 with
  | .error _ => none
  | .ok re =>
    match Cli.rulesFileOf t id with
    | none => none
    | some rp =>
      match Cli.lookup rp t with
      | none => none
      | some rc =>
        match Update.readCurrentRegex rc id offset with
        | .error _ => none
        | .ok cur =>
          if cur == re then some (unchangedText id, true)
          else if github then some ([], false)
          else some (changedText id cur re, false)

/-- standard output and status of `regex compare ARG` -/
def compareOut (E : Asm.Engine) (cfg : Asm.Config) (o1 o2 : Parser.Ord) (github : Bool) (t : Cli.Tree) (arg : Bytes) : Bytes × Bool :=
  match Update.parseRuleId arg with
  | .error _ => ([], false)
  | .ok ra =>
    match Cli.lookup (Cli.assemblyPath ra.fileName) t with
    | none => ([], false)
    | some b =>
      match ruleOut E cfg o1 o2 github t b ra.id ra.chainOffset with
      | none => ([], false)
      | some r => r

def githubNotice : Bytes := b!"::error::All rules need to be up to date. Please run `crs-toolchain regex update --all`\n"

/-- the walk of `regex compare --all`: (text so far, some rule differed, ended by a fatal error) -/
def walkOut (E : Asm.Engine) (cfg : Asm.Config) (o1 o2 : Parser.Ord) (github : Bool) (t : Cli.Tree) :
    List (Bytes × Bytes) → Bytes × Bool × Bool
  | [] => ([], false, false)
  | (p, b) :: rest =>
    if Cli.isFormatTarget p then
      match Cli.ruleOfFileName (Cli.baseName p) with
      | none => walkOut E cfg o1 o2 github t rest
      | some none => ([], false, true)
      | some (some (id, k)) =>
        match ruleOut E cfg o1 o2 github t b id k with
        | none => ([], false, true)
        | some (txt, same) =>
          let (o, d, f) := walkOut E cfg o1 o2 github t rest
          (txt ++ o, d || !same, f)
    else walkOut E cfg o1 o2 github t rest

/-- standard output and status of `regex compare --all` -/
def compareAllOut (E : Asm.Engine) (cfg : Asm.Config) (o1 o2 : Parser.Ord) (github : Bool) (t : Cli.Tree) : Bytes × Bool :=
  match walkOut E cfg o1 o2 github t t with
  | (o, _, true) => (o, false)
  | (o, d, false) => if d && github then (o ++ githubNotice, false) else (o, true)


/-- `Cli.run` with the standard output of `regex compare` filled in (every other command as in `Cli.run`) -/
def runWithView (E : Asm.Engine) (cfg : Asm.Config) (o1 o2 : Parser.Ord) (lint : Bytes → Bool) (versionOk : Bool)
    (inv : Cli.Invocation) (t : Cli.Tree) : Option Cli.RunResult :=
  match Cli.run E cfg o1 o2 lint versionOk inv t with
  | none => none
  | some r =>
    match inv.cmd with
    | .compare =>
      let known := match inv.output with
        | some v => v == b!"text" || v == b!"github"
        | none => true
      let github := inv.output == some b!"github"
      if !known || !Cli.oneTarget inv then some r
      else if inv.all then some { r with stdout := (compareAllOut E cfg o1 o2 github t).1 }
      else match inv.args with
        | [arg] => some { r with stdout := (compareOut E cfg o1 o2 github t arg).1 }
        | _ => some r
    | _ => some r

end Crs.CompareView
