/-
  Model of the decision made by `self-update` (internal/updater/updater.go: Updater,
  getLatestVersionFromGitHub) on top of go-selfupdate v1.4.1 (findReleaseAndAsset: draft / pre-release
  filter, version scan, newest wins; validateReleaseAsset: checksum asset by unique file name;
  Updater.UpdateTo: validation before installation).

  Only the decision is modelled: which release, whether to install, and which bytes. HTTP, TLS,
  archive decoding and the replacement of the file are exercised by the correspondence check against a
  local fake release service (row K11), not modelled. SHA-256 is an abstract function.
-/
import Crs.Bytes
namespace Crs.Updater
open Crs

/-- a version as far as ordering is concerned: major.minor.patch and whether it carries a pre-release tag
    (any version with a pre-release tag is older than the same numbers without) -/
structure Version where
  major : Nat
  minor : Nat
  patch : Nat
  pre : Bool          -- has a pre-release suffix
  deriving DecidableEq, Repr

def Version.lt (a b : Version) : Bool :=
  a.major < b.major || (a.major == b.major && (a.minor < b.minor || (a.minor == b.minor &&
    (a.patch < b.patch || (a.patch == b.patch && a.pre && !b.pre)))))

structure Asset where
  name : Bytes
  content : Bytes      -- what a download returns
  available : Bool := true   -- false = the download fails
  deriving DecidableEq

structure Release where
  version : Option Version   -- `none`: the tag carries no x.y.z
  draft : Bool
  prerelease : Bool
  assets : List Asset
  deriving DecidableEq

/-- the asset for this platform: first asset whose (lower-cased) name ends in `os_arch` + known extension;
    the name test is a parameter -/
def platformAsset (isPlatform : Bytes → Bool) (r : Release) : Option Asset :=
  r.assets.find? (fun a => isPlatform a.name)

def checksumFileName : Bytes := "crs-toolchain-checksums.txt".toList

def checksumAsset (r : Release) : Option Asset :=
  r.assets.find? (fun a => a.name == checksumFileName)

/-- candidates in catalogue order: not a draft, not a pre-release, versioned, with a platform asset -/
def candidates (isPlatform : Bytes → Bool) (rels : List Release) : List (Version × Release × Asset) :=
  rels.filterMap fun r =>
    if r.draft || r.prerelease then none
    else match r.version, platformAsset isPlatform r with
      | some v, some a => some (v, r, a)
      | _, _ => none

/-- newest candidate; on equal versions the first one stays (`v.GreaterThan(ver)` is strict) -/
def newest : List (Version × Release × Asset) → Option (Version × Release × Asset)
  | [] => none
  | c :: cs =>
    match newest cs with
    | none => some c
    | some d => if c.1.lt d.1 then some d else some c

inductive Decision where
  | install (bytes : Bytes)      -- the executable is replaced by these bytes
  | upToDate                     -- nothing newer: unchanged, success
  | fail                         -- unchanged, failure reported
  deriving DecidableEq

/-- does the checksum file list `digest` for `name`? (`<hex>  <name>` lines; abstracted) -/
abbrev ChecksumLookup := (checksums : Bytes) → (name : Bytes) → Option Bytes

/-- `latest.LessOrEqual(running)` is false. `running = none`: a development build whose version is not
    comparable counts as older than anything. -/
def isNewer (running : Option Version) (v : Version) : Bool :=
  match running with
  | none => true
  | some rv => rv.lt v

/-- download the asset and the checksum file and validate: the bytes to install, if they verify -/
def verifiedBytes (sha256 : Bytes → Bytes) (lookup : ChecksumLookup) (a cs : Asset) : Option Bytes :=
  if a.available && cs.available then
    match lookup cs.content a.name with
    | some digest => if digest == sha256 a.content then some a.content else none
    | none => none
  else none

/-- the decision of `self-update` -/
def decideUpdate (sha256 : Bytes → Bytes) (lookup : ChecksumLookup) (isPlatform : Bytes → Bool)
    (listOk : Bool) (rels : List Release) (running : Option Version) : Decision :=
  if !listOk then .fail
  else
    match newest (candidates isPlatform rels) with
    | none => .fail
    | some (v, r, a) =>
      match checksumAsset r with
      | none => .fail                         -- DetectLatest fails: validation asset not found
      | some cs =>
        if !isNewer running v then .upToDate
        else
          match verifiedBytes sha256 lookup a cs with
          | some bytes => .install bytes
          | none => .fail

end Crs.Updater
