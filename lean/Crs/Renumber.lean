/-
  Model of util/renumber_tests.go: processYaml, formatEndOfFile (C13).
-/
import Crs.Bytes
namespace Crs.Renumber
open Crs

/-- `(.*KEY)\s+(.*$)` with leftmost-first semantics on a line without `\n`:
    the text up to and including the LAST occurrence of `key` that is followed by a
    white-space character (group 1). -/
def lastKey? (key : Bytes) : Bytes → Option Bytes
  | [] => none
  | c :: cs =>
    match lastKey? key cs with
    | some pre => some (c :: pre)
    | none =>
      match stripPrefix? key (c :: cs) with
      | some (d :: _) => if isWs d then some key else none
      | _ => none

def testIdKey : Bytes := ['t','e','s','t','_','i','d',':']
def testTitleKey : Bytes := ['t','e','s','t','_','t','i','t','l','e',':']

structure St where
  ids : Nat := 0
  titles : Nat := 0

/-- the legacy-title half of one loop iteration (applied to the possibly rewritten line) -/
def stepTitle (ruleId : Bytes) (st : St) (line : Bytes) : St × Bytes :=
  match lastKey? testTitleKey line with
  | some pre => ({ st with titles := st.titles + 1 }, pre ++ ' ' :: (ruleId ++ '-' :: natToBytes (st.titles + 1)))
  | none => (st, line)

/-- one line of `processYaml`'s loop -/
def stepLine (ruleId : Bytes) (st : St) (line : Bytes) : St × Bytes :=
  match lastKey? testIdKey line with
  | some pre => stepTitle ruleId { st with ids := st.ids + 1 } (pre ++ ' ' :: natToBytes (st.ids + 1))
  | none => stepTitle ruleId st line

def renumberLines (ruleId : Bytes) : St → List Bytes → List Bytes
  | _, [] => []
  | st, l :: ls => (stepLine ruleId st l).2 :: renumberLines ruleId (stepLine ruleId st l).1 ls

/-- drop trailing lines that are blank in the sense of `bytes.TrimSpace` -/
def dropTrailingBlank : List Bytes → List Bytes
  | [] => []
  | l :: ls =>
    match dropTrailingBlank ls with
    | [] => if isBlank l then [] else [l]
    | r :: rs => l :: r :: rs

/-- `formatEndOfFile` (the `eof < 0` branch is unreachable: `bytes.Split` never returns an empty slice) -/
def formatEndOfFile (ls : List Bytes) : List Bytes :=
  match ls with
  | [] => [[], []]
  | _ => dropTrailingBlank ls ++ [[]]

/-- `processYaml` -/
def processYaml (ruleId contents : Bytes) : Bytes :=
  let out := unlines (renumberLines ruleId {} (scanLines contents))
  joinNl (formatEndOfFile (splitNl out))

/-- what `processFile` does with the result: `none` = file left alone -/
def processFile (ruleId contents : Bytes) (checkOnly : Bool) : Option Bytes × Bool :=
  let out := processYaml ruleId contents
  if out == contents then (none, true)
  else if checkOnly then (none, false)
  else (some out, true)

end Crs.Renumber
