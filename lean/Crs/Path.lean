/-
  Go's `path.Clean` / `path.Join` (lexical path processing), as used by cmd/regex_format.go, cmd/regex_generate.go and
  cmd/util_renumber_tests.go when an argument carries path separators.

  Clean: multiple slashes become one, `.` elements disappear, an inner `..` disappears together with the element before
  it, `..` at the start of a rooted path disappears, the empty result is `.`.
-/
import Crs.Bytes
import Crs.Lit
namespace Crs.Path
open Crs

def dot : Bytes := ['.']
def dotdot : Bytes := ['.', '.']

/-- one element onto the stack of kept elements (last kept element first) -/
def push (rooted : Bool) (stack : List Bytes) (c : Bytes) : List Bytes :=
  if c == [] || c == dot then stack
  else if c == dotdot then
    match stack with
    | top :: rest => if top == dotdot then c :: stack else rest
    | [] => if rooted then [] else [c]
  else c :: stack

/-- the elements that remain, in path order -/
def cleanComps (rooted : Bool) (comps : List Bytes) : List Bytes := (comps.foldl (push rooted) []).reverse

def isRooted (p : Bytes) : Bool := p.head? == some '/'

/-- `path.Clean` -/
def clean (p : Bytes) : Bytes :=
  let comps := cleanComps (isRooted p) (splitCh '/' p)
  if isRooted p then '/' :: joinCh '/' comps
  else if comps.isEmpty then dot else joinCh '/' comps

/-- `path.Join`: the non-empty elements joined by `/`, cleaned; nothing at all gives the empty path -/
def join (elems : List Bytes) : Bytes :=
  match elems.filter (· != []) with
  | [] => []
  | es => clean (joinCh '/' es)

end Crs.Path
