/-
  `b!"text"` — a byte-string literal that elaborates to an explicit list of character literals,
  so that `simp`/`decide` can compute with it.
-/
import Lean
namespace Crs
open Lean in
macro:max "b!" s:str : term => do
  let cs : Array (TSyntax `term) := (s.getString.toList.map (fun c => (Syntax.mkCharLit c : TSyntax `term))).toArray
  `(([$cs,*] : List Char))
end Crs
