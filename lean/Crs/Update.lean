/-
  Model of cmd/regex_update.go: updateRegex, and cmd/regex_compare.go: readCurrentRegex, compareRegex
  (C11, C12), and of cmd/regex.go: parseRuleId (C18).
-/
import Crs.Bytes
import Crs.Lit
namespace Crs.Update
open Crs

/-- does `needle` occur in `b`? (`regexp.Match` of a literal) -/
def contains (needle b : Bytes) : Bool := (splitFirst? needle b).isSome

def secRule : Bytes := b!"SecRule"
def rxA : Bytes := b!"\"@rx "
def rxB : Bytes := b!"\"!@rx "
def closeQ : Bytes := b!"\" \\"

/-- the scan of `updateRegex`/`readCurrentRegex` after the id line was found: index of the `k`-th line
    containing `SecRule` among `rest` (lines after the id line), counted from `base` -/
def findChained : (k : Nat) → (base : Nat) → List Bytes → Option Nat
  | _, _, [] => none
  | k, base, l :: ls =>
    if contains secRule l then
      (if k == 1 then some base else findChained (k - 1) (base + 1) ls)
    else findChained k (base + 1) ls

/-- end of the first occurrence of `"@rx ` or `"!@rx `: (text up to and including it, rest) -/
def splitAtOperator : Bytes → Option (Bytes × Bytes)
  | [] => none
  | c :: cs =>
    match stripPrefix? rxA (c :: cs) with
    | some rest => some (rxA, rest)
    | none =>
      match stripPrefix? rxB (c :: cs) with
      | some rest => some (rxB, rest)
      | none =>
        match splitAtOperator cs with
        | some (pre, rest) => some (c :: pre, rest)
        | none => none

/-- last occurrence of `" \`: (text before it, text from it on) -/
def splitAtLastClose : Bytes → Option (Bytes × Bytes)
  | [] => none
  | c :: cs =>
    match splitAtLastClose cs with
    | some (pre, post) => some (c :: pre, post)
    | none => if hasPrefix closeQ (c :: cs) then some ([], c :: cs) else none

/-- `RuleRxRegex` on one line: (prefix up to the operand, operand, rest of the line) -/
def splitOperand (line : Bytes) : Option (Bytes × Bytes × Bytes) :=
  match splitAtOperator line with
  | none => none
  | some (pre, rest) =>
    match splitAtLastClose rest with
    | none => none
    | some (operand, post) => some (pre, operand, post)

/-- the line that carries the rule's `id:R` action: it mentions `id:R` and is not an operand line — text inside an
    `@rx` operand (of this or of another rule) is not an id -/
def isIdLine (id l : Bytes) : Bool := contains (b!"id:" ++ id) l && (splitOperand l).isNone

/-- index of the line whose operand is addressed by (id, chain offset k).
    `.error .runtime`: the id is on line 0 and k = 0 (Go indexes `lines[-1]`). -/
def targetIndex (id : Bytes) (k : Nat) : (base : Nat) → List Bytes → Except Fault Nat
  | _, [] => .error .diag
  | base, l :: ls =>
    if isIdLine id l then
      (if k == 0 then (if base == 0 then .error .runtime else .ok (base - 1))
       else match findChained k (base + 1) ls with
         | some i => .ok i
         | none => .error .diag)
    else targetIndex id k (base + 1) ls

def setAt : List Bytes → Nat → Bytes → List Bytes
  | [], _, _ => []
  | _ :: ls, 0, x => x :: ls
  | l :: ls, n + 1, x => l :: setAt ls n x

/-- `updateRegex` on the bytes of the rules file -/
def updateRegex (contents id : Bytes) (k : Nat) (newRegex : Bytes) : Except Fault Bytes :=
  let lines := splitNl contents
  match targetIndex id k 0 lines with
  | .error e => .error e
  | .ok i =>
    match lines[i]? with
    | none => .error .runtime
    | some line =>
      match splitOperand line with
      | none => .error .diag
      | some (pre, _, post) => .ok (joinNl (setAt lines i (pre ++ newRegex ++ post)))

/-- `readCurrentRegex` -/
def readCurrentRegex (contents id : Bytes) (k : Nat) : Except Fault Bytes :=
  let lines := splitNl contents
  match targetIndex id k 0 lines with
  | .error e => .error e
  | .ok i =>
    match lines[i]? with
    | none => .error .runtime
    | some line =>
      match splitOperand line with
      | none => .error .diag
      | some (_, operand, _) => .ok operand

/-- verdict of `compareRegex`: unchanged? -/
def compareRegex (generated current : Bytes) : Bool := current == generated

/-! ### rule arguments (`parseRuleId`, `RuleIdFileNameRegex`) -/

structure RuleArg where
  id : Bytes
  fileName : Bytes
  chainOffset : Nat
  deriving DecidableEq, Repr

/-- decimal value of a digit string -/
def digitsVal (ds : Bytes) : Nat := ds.foldl (fun n c => n * 10 + (c.toNat - 48)) 0

def chainKw : Bytes := b!"-chain"
def raExt : Bytes := b!".ra"

/-- `(?:-chain(\d+))?` on the text after the six digits: (offset digits, remaining text) -/
def splitChain (rest : Bytes) : Option Bytes × Bytes :=
  match stripPrefix? chainKw rest with
  | some r => if (r.takeWhile isDigit).isEmpty then (none, rest) else (some (r.takeWhile isDigit), r.dropWhile isDigit)
  | none => (none, rest)

/-- the whole argument, with `.ra` appended unless it already ends in it -/
def fileNameFor (arg : Bytes) : Bytes := if hasSuffix raExt arg then arg else arg ++ raExt

/-- `^(\d{6})(?:-chain(\d+))?(?:\.ra)?$` then `strconv.ParseUint(offset, 10, 8)` -/
def parseRuleId (arg : Bytes) : Except Fault RuleArg :=
  if !((arg.take 6).length == 6 && (arg.take 6).all isDigit) then .error .diag
  else
    match splitChain (arg.drop 6) with
    | (offs, rest') =>
      if !(rest'.isEmpty || rest' == raExt) then .error .diag
      else
        match offs with
        | none => .ok ⟨arg.take 6, fileNameFor arg, 0⟩
        | some ds =>
          if digitsVal ds > 255 then .error .diag
          else .ok ⟨arg.take 6, fileNameFor arg, digitsVal ds⟩

end Crs.Update
