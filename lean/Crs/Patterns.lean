/-
  Hand-written recognisers for the directive patterns of regex/definitions.go, returning the
  same submatches Go's leftmost-first `regexp` returns on a line without `\n`.
  They are the *model*; Go's regexp on the literal in the source is the implementation; the
  correspondence check compares them on pattern-directed inputs (row K1).
-/
import Crs.Bytes
import Crs.Lit
namespace Crs.Pat
open Crs

def nonWs (c : Char) : Bool := !isWs c

/-- first token (maximal run of non-white-space) and the rest -/
def tok (b : Bytes) : Bytes × Bytes := (b.takeWhile nonWs, b.dropWhile nonWs)

def marker : Bytes := b!"##!"
def startMarker : Bytes := b!"##!>"

/-- index-free search for the first `--`: (text before, text after) -/
def splitDashDash : Bytes → Option (Bytes × Bytes)
  | [] => none
  | [_] => none
  | c :: d :: rest =>
    if c == '-' && d == '-' then some ([], rest)
    else
      match splitDashDash (d :: rest) with
      | some (pre, post) => some (c :: pre, post)
      | none => none

/-- last `--` that starts at a position ≥ 1: (text before, text after) -/
def splitLastDashDashFrom1 : Bytes → Option (Bytes × Bytes)
  | [] => none
  | c :: rest =>
    -- search in `rest` for the last occurrence
    let rec go : Bytes → Option (Bytes × Bytes)
      | [] => none
      | [_] => none
      | x :: y :: r =>
        match go (y :: r) with
        | some (pre, post) => some (x :: pre, post)
        | none => if x == '-' && y == '-' then some ([], r) else none
    match go rest with
    | some (pre, post) => some (c :: pre, post)
    | none => none

/-- `^##!>\s*(assemble|cmdline)(?:\s+(.*\S))?\s*$` → (keyword, argument text or empty) -/
def blockStart? (l : Bytes) : Option (Bytes × Bytes) :=
  match stripPrefix? startMarker l with
  | none => none
  | some r =>
    let r := dropWs r
    let kw (k : Bytes) : Option (Bytes × Bytes) :=
      match stripPrefix? k r with
      | none => none
      | some rest =>
        match rest with
        | [] => some (k, [])
        | c :: _ => if isWs c then some (k, trimWs rest) else none
    match kw b!"assemble" with
    | some x => some x
    | none => kw b!"cmdline"

/-- `^##!<` -/
def blockEnd? (l : Bytes) : Bool := hasPrefix b!"##!<" l

/-- `^##!C\s*(.*\S)\s*$` for C ∈ {`+`,`^`,`$`} → value -/
def valueLine? (ch : Char) (l : Bytes) : Option Bytes :=
  match stripPrefix? (marker ++ [ch]) l with
  | none => none
  | some r => let v := trimWs r; if v.isEmpty then none else some v

def flags? := valueLine? '+'
def prefix? := valueLine? '^'
def suffix? := valueLine? '$'

/-- `^(##!>\s*define\s+([a-zA-Z0-9-_]+)\s+)(\S+)\s*$` → (name, value) -/
def definition? (l : Bytes) : Option (Bytes × Bytes) :=
  match stripPrefix? startMarker l with
  | none => none
  | some r =>
    match stripPrefix? b!"define" (dropWs r) with
    | none => none
    | some r1 =>
      match r1 with
      | [] => none
      | c :: _ =>
        if !isWs c then none else
        let r2 := dropWs r1
        let name := r2.takeWhile isNameCh
        let r3 := r2.dropWhile isNameCh
        if name.isEmpty then none else
        match r3 with
        | [] => none
        | d :: _ =>
          if !isWs d then none else
          let r4 := dropWs r3
          let (value, r5) := tok r4
          if value.isEmpty then none
          else if (dropWs r5).isEmpty then some (name, value) else none

/-- `^##!>\s*include\s+(\S+)(?:\s*--\s*(.*?))?\s*$` → (file name, replacement text or empty) -/
def include? (l : Bytes) : Option (Bytes × Bytes) :=
  match stripPrefix? startMarker l with
  | none => none
  | some r =>
    match stripPrefix? b!"include" (dropWs r) with
    | none => none
    | some r1 =>
      match r1 with
      | [] => none
      | c :: _ =>
        if !isWs c then none else
        let (t, rest) := tok (dropWs r1)
        if t.isEmpty then none else
        let rest' := dropWs rest
        if rest'.isEmpty then some (t, [])
        else match stripPrefix? b!"--" rest' with
          | some after => some (t, trimWs after)
          | none =>
            -- the token has to give back characters: longest proper prefix followed by `--`
            match splitLastDashDashFrom1 t with
            | some (p, after) => some (p, trimWs (after ++ rest))
            | none => none

/-- `^##!>\s*include-except\s+(\S+)\s*(.*?)(?:\s*--\s*(.*?))?\s*$`
    → (file name, exclusion text, replacement text or empty) -/
def includeExcept? (l : Bytes) : Option (Bytes × Bytes × Bytes) :=
  match stripPrefix? startMarker l with
  | none => none
  | some r =>
    match stripPrefix? b!"include-except" (dropWs r) with
    | none => none
    | some r1 =>
      match r1 with
      | [] => none
      | c :: _ =>
        if !isWs c then none else
        let (t, rest) := tok (dropWs r1)
        if t.isEmpty then none else
        let rest' := dropWs rest
        match splitDashDash rest' with
        | some (pre, after) => some (t, trimRightWs pre, trimWs after)
        | none => some (t, trimRightWs rest', [])

/-- `^\s*##!(?:[^^$+><=]|$)` -/
def comment? (l : Bytes) : Bool :=
  match stripPrefix? marker (dropWs l) with
  | none => false
  | some [] => true
  | some (c :: _) => !(c == '^' || c == '$' || c == '+' || c == '>' || c == '<' || c == '=')

/-- `^##!>\s*([a-z]+)(?:\s+([a-z]+))?` → (name, argument or empty) -/
def processorStart? (l : Bytes) : Option (Bytes × Bytes) :=
  match stripPrefix? startMarker l with
  | none => none
  | some r =>
    let r := dropWs r
    let name := r.takeWhile isLower
    if name.isEmpty then none else
    let r1 := r.dropWhile isLower
    match r1 with
    | c :: _ =>
      if isWs c then some (name, (dropWs r1).takeWhile isLower) else some (name, [])
    | [] => some (name, [])

/-- `^\s*##!=<\s*(.*)$` -/
def assembleInput? (l : Bytes) : Option Bytes :=
  match stripPrefix? b!"##!=<" (dropWs l) with
  | none => none
  | some r => some (dropWs r)

/-- `^\s*##!=>\s*(.*)$` -/
def assembleOutput? (l : Bytes) : Option Bytes :=
  match stripPrefix? b!"##!=>" (dropWs l) with
  | none => none
  | some r => some (dropWs r)

/-- `\s+` → single space, then split at spaces (`splitArgs`) -/
def splitArgs (b : Bytes) : List Bytes :=
  let rec squeeze : Bool → Bytes → Bytes
    | _, [] => []
    | inWs, c :: cs =>
      if isWs c then (if inWs then squeeze true cs else ' ' :: squeeze true cs)
      else c :: squeeze false cs
  splitCh ' ' (squeeze false b)

end Crs.Pat
