/-
  Model of regex/processors (Assemble, CmdLine) and regex/operators/assembler.go
  (Run, assemble, startPreprocessor, endPreprocessor, complete, runFinalPass).

  The regex engine (`rassemble.Join`) is a parameter: `Engine.join`.
-/
import Crs.Parser
import Crs.Passes
namespace Crs.Asm
open Crs Crs.Pat Crs.Passes

/-- `rassemble.Join(lines)`: `.error .diag` = it returned an error (a line does not parse);
    `.error (.need q)` only occurs in the driver's table-backed engine -/
structure Engine where
  join : List Bytes → Except Fault Bytes

/-- the six patterns of toolchain.yaml (after `strings.TrimSpace`) -/
structure Config where
  unixEvasion : Bytes := []
  unixSuffix : Bytes := []
  unixNoSpaceSuffix : Bytes := []
  winEvasion : Bytes := []
  winSuffix : Bytes := []
  winNoSpaceSuffix : Bytes := []

inductive Shell where | unix | windows
  deriving DecidableEq

abbrev Stash := List (Bytes × Bytes)

def Stash.set (s : Stash) (k v : Bytes) : Stash := (k, v) :: s.filter (fun p => p.1 != k)

/-! ### cmdline -/

structure Patterns where
  evasion : Bytes
  suffix : Bytes
  noSpaceSuffix : Bytes

def Config.patterns (c : Config) : Shell → Patterns
  | .unix => ⟨c.unixEvasion, c.unixSuffix, c.unixNoSpaceSuffix⟩
  | .windows => ⟨c.winEvasion, c.winSuffix, c.winNoSpaceSuffix⟩

/-- `regexpChar`. The code converts the byte with `string(char)`: a byte ≥ 0x80 is read as the code point of that
    number and written in UTF-8 (two bytes), so non-ASCII command words are re-encoded byte by byte. -/
def regexpChar (c : Char) : Bytes :=
  if c == '.' then b!"\\." else if c == '-' then b!"\\-" else if c == ' ' then b!"\\s+"
  else if c.toNat < 0x80 then [c]
  else [Char.ofNat (0xC0 + c.toNat / 64), Char.ofNat (0x80 + c.toNat % 64)]

/-- `computeSuffix`: (stripped input, suffix pattern) -/
def computeSuffix (p : Patterns) (input : Bytes) : Bytes × Bytes :=
  if input.length < 2 then (input, [])
  else if !isEscaped input (input.length - 1) then
    match input.getLast? with
    | some '@' => (input.dropLast, p.suffix)
    | some '~' => (input.dropLast, p.noSpaceSuffix)
    | _ => (input, [])
  else
    -- remove the backslash before the last character
    (input.take (input.length - 2) ++ input.drop (input.length - 1), [])

/-- characters of the word with the evasion pattern between them -/
def interleave (ev : Bytes) : Bytes → Bytes
  | [] => []
  | [c] => regexpChar c
  | c :: d :: rest => regexpChar c ++ ev ++ interleave ev (d :: rest)

/-- `regexpStr` -/
def regexpStr (p : Patterns) (input : Bytes) : Bytes :=
  match input with
  | '\'' :: rest => rest
  | _ =>
    let (stripped, suffix) := computeSuffix p input
    interleave p.evasion stripped ++ (if suffix.isEmpty then [] else p.evasion ++ suffix)

/-! ### processors -/

inductive Proc where
  | assemble (lines : List Bytes) (output : Bytes)
  | cmdline (sh : Shell) (lines : List Bytes)

/-- `runAssemble`: (regex, remaining lines) -/
def runAssemble (E : Engine) (lines : List Bytes) : Except Fault (Bytes × List Bytes) :=
  if lines.isEmpty then .ok ([], lines)
  else match E.join lines with
    | .error e => .error e
    | .ok r => .ok (b!"(?:" ++ r ++ b!")", [])

/-- `Assemble.append("")` -/
def appendPlain (E : Engine) (lines : List Bytes) (output : Bytes) : Except Fault (List Bytes × Bytes) :=
  let pre : Except Fault (List Bytes × Bytes) :=
    match lines with
    | [l] =>
      (match E.join [l] with
       | .ok _ => .ok (lines, output)
       | .error .diag => .ok ([], output ++ l)   -- a fragment that does not parse is pasted as it is
       | .error e => .error e)
    | _ => .ok (lines, output)
  match pre with
  | .error e => .error e
  | .ok (lines, output) =>
    match runAssemble E lines with
    | .error e => .error e
    | .ok (r, lines') => .ok (lines', output ++ r)

/-- `Assemble.ProcessLine` -/
def assembleLine (E : Engine) (stash : Stash) (lines : List Bytes) (output : Bytes) (line : Bytes) :
    Except Fault (Stash × List Bytes × Bytes) :=
  match assembleInput? line with
  | some name =>
    if name.isEmpty then .error .diag
    else match appendPlain E lines output with
      | .error e => .error e
      | .ok (lines', out') => .ok (stash.set name out', lines', [])
  | none =>
    match assembleOutput? line with
    | some name =>
      (match appendPlain E lines output with
       | .error e => .error e
       | .ok (lines', out') =>
         if name.isEmpty then .ok (stash, lines', out')
         else match Parser.assocLookup name stash with
           | none => .error .diag
           | some stored => .ok (stash, lines', out' ++ stored))
    | none => .ok (stash, lines ++ [line], output)

/-- `ProcessLine` of the current processor -/
def procLine (E : Engine) (cfg : Config) (stash : Stash) (p : Proc) (line : Bytes) : Except Fault (Stash × Proc) :=
  match p with
  | .assemble lines output =>
    (match assembleLine E stash lines output line with
     | .error e => .error e
     | .ok (st, l, o) => .ok (st, .assemble l o))
  | .cmdline sh lines =>
    if line.isEmpty then .ok (stash, p)
    else .ok (stash, .cmdline sh (lines ++ [regexpStr (cfg.patterns sh) line]))

/-- `wrapCompletedAssembly` -/
def wrapCompleted (regex output : Bytes) : Bytes :=
  if regex.isEmpty && output.isEmpty then []
  else if !output.isEmpty && !regex.isEmpty then b!"(?:" ++ output ++ b!")(?:" ++ regex ++ b!")"
  else if !output.isEmpty then b!"(?:" ++ output ++ b!")"
  else b!"(?:" ++ regex ++ b!")"

/-- `Complete` -/
def procComplete (E : Engine) (p : Proc) : Except Fault (List Bytes) :=
  match p with
  | .assemble lines output =>
    (match runAssemble E lines with
     | .error e => .error e
     | .ok (r, _) =>
       let res := wrapCompleted r output
       .ok (if res.isEmpty then [] else [res]))
  | .cmdline _ lines =>
    match E.join lines with
    | .error e => .error e
    | .ok r => .ok [r]

/-- `Consume`: the parent takes the result lines of a finished block -/
def procConsume (E : Engine) (cfg : Config) (stash : Stash) (p : Proc) : List Bytes → Except Fault (Stash × Proc)
  | [] => .ok (stash, p)
  | l :: ls =>
    match p with
    | .cmdline sh lines => procConsume E cfg stash (.cmdline sh (lines ++ [l])) ls
    | .assemble _ _ =>
      match procLine E cfg stash p l with
      | .error e => .error e
      | .ok (st, p') => procConsume E cfg st p' ls

/-! ### the operator -/

/-- the line loop of `Operator.assemble`: `stack` is the processor stack, innermost first
    (the package-level `processor` is its head) -/
def runLines (E : Engine) (cfg : Config) : Stash → List Proc → List Bytes → Except Fault (Stash × List Proc)
  | stash, stack, [] => .ok (stash, stack)
  | stash, stack, line :: rest =>
    match stack with
    | [] => .error .runtime   -- unreachable: an empty stack ends the loop with an error before
    | cur :: below =>
      match processorStart? line with
      | some (name, arg) =>
        if name == b!"assemble" then runLines E cfg stash (.assemble [] [] :: stack) rest
        else if name == b!"cmdline" then
          if arg == b!"unix" then runLines E cfg stash (.cmdline .unix [] :: stack) rest
          else if arg == b!"windows" then runLines E cfg stash (.cmdline .windows [] :: stack) rest
          else .error .diag
        else .error .diag
      | none =>
        if blockEnd? line then
          match procComplete E cur with
          | .error e => .error e
          | .ok lines =>
            match below with
            | [] => .error .diag           -- "nothing on top, processor stack is empty"
            | parent :: below' =>
              match procConsume E cfg stash parent lines with
              | .error e => .error e
              | .ok (st, parent') => runLines E cfg st (parent' :: below') rest
        else
          match procLine E cfg stash cur line with
          | .error e => .error e
          | .ok (st, cur') => runLines E cfg st (cur' :: below) rest

def sortFlags (fl : List Char) : Bytes :=
  (if fl.contains 'i' then ['i'] else []) ++ (if fl.contains 's' then ['s'] else [])

/-- `runFinalPass`: a fresh Assemble processor (same context, hence same stash) is fed the lines -/
def feedLines (E : Engine) : Stash → List Bytes → Bytes → List Bytes → Except Fault (List Bytes × Bytes)
  | _, ls, out, [] => .ok (ls, out)
  | stash, ls, out, l :: rest =>
    match assembleLine E stash ls out l with
    | .error e => .error e
    | .ok (st, ls', out') => feedLines E st ls' out' rest

def finalPass (E : Engine) (stash : Stash) (lines : List Bytes) : Except Fault Bytes :=
  match feedLines E stash [] [] lines with
  | .error e => .error e
  | .ok (ls, out) =>
    match procComplete E (.assemble ls out) with
    | .error e => .error e
    | .ok res => .ok res.flatten

/-- prefixes + (grouped) body + suffixes -/
def withAffixes (prefixes suffixes : List Bytes) (result : Bytes) : Bytes :=
  prefixes.flatten ++
    (if !prefixes.isEmpty && !suffixes.isEmpty && !result.isEmpty then b!"(?:" ++ result ++ b!")" else result) ++
    suffixes.flatten

/-- `runSimplificationAssembly`, the six clean-up passes and the flag prefix -/
def finish (E : Engine) (flags : List Char) (text : Bytes) : Except Fault Bytes :=
  if text.isEmpty then .ok []
  else
    match E.join [text] with
    | .error e => .error e
    | .ok simplified =>
      match cleanUp simplified with
      | .error e => .error e
      | .ok r =>
        let fp := sortFlags flags
        .ok (if !fp.isEmpty && !r.isEmpty then b!"(?" ++ fp ++ b!")" ++ r else r)

/-- `complete` (with `runFinalPass` and `runSimplificationAssembly`) -/
def complete (E : Engine) (stash : Stash) (flags : List Char) (prefixes suffixes : List Bytes) (lines : List Bytes) :
    Except Fault Bytes :=
  match finalPass E stash lines with
  | .error e => .error e
  | .ok result => finish E flags (withAffixes prefixes suffixes result)

/-- `Operator.Run(input)` = `regex generate` on the bytes of one assembly file -/
def generate (E : Engine) (fs : Parser.Fs) (cfg : Config) (ord1 ord2 : Parser.Ord) (input : Bytes) : Except Fault Bytes :=
  match Parser.parse fs ord1 ord2 Parser.defaultFuel [] input with
  | .error e => .error e
  | .ok st =>
    match runLines E cfg [] [.assemble [] []] (scanLines st.out) with
    | .error e => .error e
    | .ok (stash, stack) =>
      match stack with
      | [] => .error .diag
      | top :: below =>
        match procComplete E top with
        | .error e => .error e
        | .ok lines =>
          match complete E stash st.flags st.prefixes st.suffixes lines with
          | .error e => .error e
          | .ok r => if below.isEmpty then .ok r else .error .diag  -- "stack has unprocessed items"

end Crs.Asm
