/-
  The recursive (tree) reading of an assembly text, against which the flat line-by-line stack machine of
  `Operator.assemble` (`Crs.Asm.runLines`) is proved correct (C01, structure layer).

  A program text after parsing is a sequence of items: ordinary lines (entries, `##!=>`, `##!=< name`,
  `##!=> name`, …) and blocks `##!> assemble|cmdline …` … `##!<` with nested items. The tree evaluator runs a block's
  body in a fresh processor of its own and hands the completed result to the enclosing processor — there is no stack.
-/
import Crs.Assemble
namespace Crs.Tree
open Crs Crs.Pat Crs.Asm

inductive Item where
  | line (l : Bytes)
  | block (start : Bytes) (body : List Item)

def endLine : Bytes := b!"##!<"

mutual
  def flattenItem : Item → List Bytes
    | .line l => [l]
    | .block s body => s :: (flattenItems body ++ [endLine])
  def flattenItems : List Item → List Bytes
    | [] => []
    | i :: is => flattenItem i ++ flattenItems is
end

/-- the fresh processor a block start line creates (`startPreprocessor`); `none` = unknown processor or shell -/
def startProc? (start : Bytes) : Option Proc :=
  match processorStart? start with
  | some (name, arg) =>
    if name == b!"assemble" then some (.assemble [] [])
    else if name == b!"cmdline" then
      (if arg == b!"unix" then some (.cmdline .unix []) else if arg == b!"windows" then some (.cmdline .windows []) else none)
    else none
  | none => none

mutual
  /-- run one item inside processor `cur` -/
  def evalItem (E : Engine) (cfg : Config) : Stash → Proc → Item → Except Fault (Stash × Proc)
    | st, cur, .line l => procLine E cfg st cur l
    | st, cur, .block s body =>
      match startProc? s with
      | none => .error .diag
      | some q =>
        match evalItems E cfg st q body with
        | .error e => .error e
        | .ok (st1, q') =>
          -- the block is complete: its result lines are consumed by the enclosing processor
          match procComplete E q' with
          | .error e => .error e
          | .ok lines => procConsume E cfg st1 cur lines
  def evalItems (E : Engine) (cfg : Config) : Stash → Proc → List Item → Except Fault (Stash × Proc)
    | st, cur, [] => .ok (st, cur)
    | st, cur, i :: is =>
      match evalItem E cfg st cur i with
      | .error e => .error e
      | .ok (st', cur') => evalItems E cfg st' cur' is
end

mutual
  /-- lines are not block markers, block start lines are recognised as such -/
  def wfItem : Item → Bool
    | .line l => (processorStart? l).isNone && !blockEnd? l
    | .block s body => (processorStart? s).isSome && wfItems body
  def wfItems : List Item → Bool
    | [] => true
    | i :: is => wfItem i && wfItems is
end

end Crs.Tree
