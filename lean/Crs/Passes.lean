/-
  Model of the string-level passes of regex/operators/assembler.go (`complete`):
  useHexEscapes, escapeDoublequotes, useHexBackslashes, includeVerticalTabInSpaceClass,
  dontUseFlagsForMetaCharacters, removeOutermostNonCapturingGroup, findGroupBodyEnd, removeGroup,
  and utils.IsEscaped.  (C02, C19, last layer of C01.)

  Every Go index or slice expression is guarded: out of range yields `Fault.runtime`.
-/
import Crs.Bytes
import Crs.Lit
namespace Crs.Passes
open Crs

/-! ### useHexEscapes -/

def hexDigits : Nat → Nat → Bytes
  | 0, _ => []
  | f + 1, n => if n < 16 then [hexDigit n] else hexDigits f (n / 16) ++ [hexDigit (n % 16)]

/-- `fmt.Sprintf("%x", n)` -/
def toHexBytes (n : Nat) : Bytes := hexDigits (n + 1) n

/-- rune-wise: `< 32` ↦ `\xH…`, `> 126` ↦ `\x{H…}`, else the character (fuel = length) -/
def useHexEscapesAux : Nat → Bytes → Bytes
  | 0, _ => []
  | _ + 1, [] => []
  | f + 1, c :: cs =>
    let (r, w) := decodeRune (c :: cs)
    let rest := (c :: cs).drop w
    (if r < 32 then b!"\\x" ++ toHexBytes r
     else if r > 126 then b!"\\x{" ++ toHexBytes r ++ b!"}"
     else [c]) ++ useHexEscapesAux f rest

def useHexEscapes (s : Bytes) : Bytes := useHexEscapesAux s.length s

/-! ### escapeDoublequotes -/

/-- a `"` gets a backslash unless the byte before it is a backslash -/
def escapeDoublequotesAux : (prev : Option Char) → Bytes → Bytes
  | _, [] => []
  | prev, c :: cs =>
    (if c == '"' && prev != some '\\' then ['\\', '"'] else [c]) ++ escapeDoublequotesAux (some c) cs

def escapeDoublequotes (s : Bytes) : Bytes := escapeDoublequotesAux none s

/-! ### useHexBackslashes -/

def useHexBackslashes (s : Bytes) : Bytes := replaceAll s b!"\\\\" b!"\\x5c"

/-! ### includeVerticalTabInSpaceClass -/

def perlSpace : Bytes := b!"\\t\\n\\f\\r "

/-- the scanner of `includeVerticalTabInSpaceClass` (fuel = length) -/
def includeVTAux : Nat → (inClass : Bool) → Bytes → Bytes
  | 0, _, _ => []
  | _ + 1, _, [] => []
  | f + 1, inClass, c :: cs =>
    let here := c :: cs
    let ps := inClass && hasPrefix perlSpace here
    if c == '\\' && !cs.isEmpty && !ps then
      -- copy the escape sequence verbatim
      here.take 2 ++ includeVTAux f inClass (here.drop 2)
    else if !inClass && c == '[' then c :: includeVTAux f true cs
    else if inClass && c == ']' then c :: includeVTAux f false cs
    else if ps then
      let rest := here.drop perlSpace.length
      let keepSpace :=
        match rest with
        | '-' :: d :: _ => d != ']'
        | _ => false
      b!"\\s\\x0b" ++ (if keepSpace then [' '] else []) ++ includeVTAux f inClass rest
    else c :: includeVTAux f inClass cs

def includeVerticalTabInSpaceClass (s : Bytes) : Bytes := includeVTAux s.length false s

/-! ### group scanning -/

/-- `utils.IsEscaped(input, position)`: odd number of backslashes directly before `position` -/
def isEscaped (input : Bytes) (position : Nat) : Bool :=
  ((input.take position).reverse.takeWhile (· == '\\')).length % 2 == 1

/-- is the character after `c` escaped, when `c` itself is (`esc`) or is not escaped?
    (an odd run of backslashes directly before a position escapes it) -/
def nextEsc (esc : Bool) (c : Char) : Bool := if c == '\\' then !esc else false

/-- the loop of `findGroupBodyEnd` on the rest of the text: number of characters consumed until the
    parenthesis counter reaches 0, and whether a `|` was seen at depth 1. `none`: the text ends first. -/
def scanClose : (esc : Bool) → (parens : Nat) → (alt : Bool) → Bytes → Option (Nat × Bool)
  | _, 0, alt, _ => some (0, alt)
  | _, _ + 1, _, [] => none
  | esc, p + 1, alt, c :: cs =>
    let parens' :=
      if c == '(' && !esc then p + 2
      else if c == ')' && !esc then p
      else p + 1
    let alt' := alt || (c == '|' && p == 0)
    (scanClose (nextEsc esc c) parens' alt' cs).map fun (n, a) => (n + 1, a)

/-- `findGroupBodyEnd(input, groupBodyStart)`: index of the last byte of the group body and whether
    the body has an alternation on its top level. Running off the end is a runtime fault
    (`input[index]` out of range). -/
def findGroupBodyEnd (input : Bytes) (bodyStart : Nat) : Except Fault (Nat × Bool) :=
  if bodyStart > input.length then .error .runtime
  else
    match scanClose (isEscaped input bodyStart) 1 false (input.drop bodyStart) with
    | some (n, alt) => .ok (bodyStart + n - 2, alt)
    | none => .error .runtime

/-- Go slice `s[a:b]`; `none` when out of range -/
def slice? (s : Bytes) (a b : Nat) : Option Bytes :=
  if a ≤ b && b ≤ s.length then some ((s.take b).drop a) else none

/-- `removeGroup(input, groupStart, bodyStart, ignoreAlternations)` -/
def removeGroup (input : Bytes) (groupStart bodyStart : Nat) (ignoreAlt : Bool) : Except Fault Bytes :=
  match findGroupBodyEnd input bodyStart with
  | .error e => .error e
  | .ok (bodyEnd, alt) =>
    let alt := alt && !ignoreAlt
    match slice? input 0 groupStart, slice? input bodyStart (bodyEnd + 1), slice? input (bodyEnd + 2) input.length with
    | some a, some body, some rest =>
      .ok (a ++ (if alt then b!"(?:" else []) ++ body ++ (if alt then b!")" else []) ++ rest)
    | _, _, _ => .error .runtime

def isFlagCh (c : Char) : Bool := c == '-' || c == 'm' || c == 'i' || c == 's' || c == 'U'

/-- does `s` start with `(?` flags `close`? length of the match -/
def flagsAt? (close : Char) (s : Bytes) : Option Nat :=
  match s with
  | '(' :: '?' :: rest =>
    let fl := rest.takeWhile isFlagCh
    if fl.isEmpty then none
    else match rest.drop fl.length with
      | c :: _ => if c == close then some (fl.length + 3) else none
      | [] => none
  | _ => none

/-- leftmost match of `\(\?[-misU]+<close>` in `s`: (start, end) relative to `s` -/
def findFlags (close : Char) : Bytes → Option (Nat × Nat)
  | [] => none
  | c :: cs =>
    match flagsAt? close (c :: cs) with
    | some n => some (0, n)
    | none => (findFlags close cs).map fun (a, b) => (a + 1, b + 1)

/-- first loop of `dontUseFlagsForMetaCharacters`: delete unescaped `(?flags)` (fuel bounds the loop) -/
def dropFlagsAux : Nat → (offset : Nat) → Bytes → Bytes
  | 0, _, r => r
  | f + 1, offset, r =>
    if offset > r.length then r
    else
      match findFlags ')' (r.drop offset) with
      | none => r
      | some (a, b) =>
        let start := offset + a
        let stop := offset + b
        if isEscaped r start then dropFlagsAux f (start + 1) r
        else dropFlagsAux f start (r.take start ++ r.drop stop)

/-- second loop: replace unescaped `(?flags:` groups -/
def dropFlagGroupsAux : Nat → (offset : Nat) → Bytes → Except Fault Bytes
  | 0, _, r => .ok r
  | f + 1, offset, r =>
    if offset > r.length then .ok r
    else
      match findFlags ':' (r.drop offset) with
      | none => .ok r
      | some (a, b) =>
        let start := offset + a
        let stop := offset + b
        if isEscaped r start then dropFlagGroupsAux f (start + 1) r
        else
          match removeGroup r start stop false with
          | .error e => .error e
          | .ok r' => dropFlagGroupsAux f start r'

def dontUseFlagsForMetaCharacters (s : Bytes) : Except Fault Bytes :=
  dropFlagGroupsAux (2 * s.length + 2) 0 (dropFlagsAux (2 * s.length + 2) 0 s)

/-- `^\(\?:.*\)$` (`.` does not match `\n`) -/
def looksLikeGroup (s : Bytes) : Bool :=
  hasPrefix b!"(?:" s && s.length ≥ 4 && s.getLast? == some ')' && !s.contains '\n'

def removeOutermostNonCapturingGroup (s : Bytes) : Except Fault Bytes :=
  if !looksLikeGroup s then .ok s
  else
    match findGroupBodyEnd s 3 with
    | .error e => .error e
    | .ok (bodyEnd, _) =>
      if bodyEnd + 1 < s.length - 1 then .ok s
      else removeGroup s 0 3 true

/-- the six passes in the order of `complete` -/
def cleanUp (s : Bytes) : Except Fault Bytes :=
  let s := includeVerticalTabInSpaceClass (useHexBackslashes (escapeDoublequotes (useHexEscapes s)))
  match dontUseFlagsForMetaCharacters s with
  | .error e => .error e
  | .ok s => removeOutermostNonCapturingGroup s

end Crs.Passes
