/-
  Model of cmd/flag_types.go findRootDirectory (C18, root resolution).

  The function is given a clean absolute path. It tests `<dir>/regex-assembly` for the directory itself and then
  for its parents, and gives up when the current directory is the file-system root, which it does not test.
  Paths are lists of components, INNERMOST FIRST: `c :: up` is the directory `c` inside `up`; `[]` is `/`.
-/
import Crs.Bytes
namespace Crs.Root
open Crs

/-- a directory as the list of its components, innermost first -/
abbrev Dir := List Bytes

/-- `findRootDirectory(startPath)`; `hasAssembly d` = "`d/regex-assembly` exists" -/
def findRoot (hasAssembly : Dir → Bool) : Dir → Option Dir
  | [] => none
  | c :: up => if hasAssembly (c :: up) then some (c :: up) else findRoot hasAssembly up

end Crs.Root
