/-
  Model of regex/parser/parser.go and include_except_builder.go:
  Parse(formatOnly = false), parseLine, parseFile, mergePrefixesSuffixes, expandDefinitions,
  buildIncludeString, buildIncludeExceptString, replaceSuffixes, buildPairMap.
  (C03, C05, C06, C07, and the front end of C01.)
-/
import Crs.Patterns
namespace Crs.Parser
open Crs Crs.Pat

/-- the two directories include files are looked up in (regex-assembly/include, then
    regex-assembly/exclude): file name (with extension) ↦ contents -/
structure Fs where
  inc : List (Bytes × Bytes) := []
  exc : List (Bytes × Bytes) := []

/-- `path.Ext(name) == ".ra"` -/
def hasRaExt (name : Bytes) : Bool :=
  let base := (splitCh '/' name).getLast?.getD []
  -- extension: from the last '.' of the last path element
  let rec lastDot : Bytes → Option Bytes
    | [] => none
    | c :: cs =>
      match lastDot cs with
      | some e => some e
      | none => if c == '.' then some (c :: cs) else none
  lastDot base == some b!".ra"

def fileNameOf (name : Bytes) : Bytes := if hasRaExt name then name else name ++ b!".ra"

def assocLookup (k : Bytes) : List (Bytes × Bytes) → Option Bytes
  | [] => none
  | (k', v) :: rest => if k' == k then some v else assocLookup k rest

def Fs.find (fs : Fs) (name : Bytes) : Option Bytes :=
  match assocLookup (fileNameOf name) fs.inc with
  | some c => some c
  | none => assocLookup (fileNameOf name) fs.exc

/-! ### definitions -/

abbrev Vars := List (Bytes × Bytes)

/-- `mergo.Merge` without override: the first definition of a name wins -/
def Vars.define (vs : Vars) (n v : Bytes) : Vars :=
  if (assocLookup n vs).isSome then vs else vs ++ [(n, v)]

def refOf (n : Bytes) : Bytes := b!"{{" ++ n ++ b!"}}"

/-- visiting name `n` in the first loop of `expandDefinitions`: `{{n}}` is replaced in every value by the value
    `n` has at that moment -/
def closeStep (vs : Vars) (n : Bytes) : Vars :=
  match assocLookup n vs with
  | some r => vs.map (fun p => (p.1, replaceAll p.2 (refOf n) r))
  | none => vs

/-- first loop of `expandDefinitions`; `ord` is the order in which the Go map yields the names. -/
def closeVars (ord : List Bytes) (vs : Vars) : Vars := ord.foldl closeStep vs

/-- one step of the second loop: apply the definition of `n` to the text -/
def applyStep (vs : Vars) (src : Bytes) (n : Bytes) : Bytes :=
  match assocLookup n vs with
  | some r => replaceAll src (refOf n) r
  | none => src

/-- second loop: apply every definition to the text, in iteration order `ord` -/
def applyVars (ord : List Bytes) (vs : Vars) (src : Bytes) : Bytes := ord.foldl (applyStep vs) src

/-- `expandDefinitions(src, variables)`: returns the text and the (mutated) map -/
def expandDefinitions (ord1 ord2 : List Bytes) (src : Bytes) (vs : Vars) : Bytes × Vars :=
  let vs' := closeVars ord1 vs
  (applyVars ord2 vs' src, vs')

/-! ### suffix replacement -/

/-- `buildPairMap`: `none` = uneven number of arguments (logger.Panic) -/
def buildPairs (input : Bytes) : Option (List (Bytes × Bytes)) :=
  if isBlank input then some []
  else
    let rec pairUp : List Bytes → Option (List (Bytes × Bytes))
      | [] => some []
      | [_] => none
      | a :: b :: rest => (pairUp rest).map ((a, b) :: ·)
    pairUp (splitArgs input)

/-- `^(?:##!|\s*$)` -/
def skipLine (l : Bytes) : Bool := hasPrefix marker l || l.all isWs

/-- the first pair whose key the entry ends with rewrites it -/
def rewriteEntry : List (Bytes × Bytes) → Bytes → Bytes
  | [], e => e
  | (k, r) :: rest, e =>
    match cutSuffix? k e with
    | some stem => if r == b!"\"\"" then stem else stem ++ r
    | none => rewriteEntry rest e

/-- `replaceSuffixes`; `pairs = []` stands for the nil map: the text is returned untouched -/
def replaceSuffixes (content : Bytes) (pairs : List (Bytes × Bytes)) : Bytes :=
  if pairs.isEmpty then content
  else unlines ((scanLines content).map fun l => if skipLine l then l else rewriteEntry pairs l)

/-! ### include-except -/

/-- lines of the include file with duplicates removed, each kept at its LAST position
    (the map stores the latest index) -/
def dedupLast : List Bytes → List Bytes
  | [] => []
  | l :: ls => if ls.contains l then dedupLast ls else l :: dedupLast ls

/-- `stringFromInclusionLines` -/
def linesToText (ls : List Bytes) : Bytes := unlines ls

/-! ### the parser -/

structure PState where
  out : Bytes := []
  vars : Vars := []
  flags : List Char := []
  prefixes : List Bytes := []
  suffixes : List Bytes := []

/-- `mergePrefixesSuffixes`: the text an included file contributes -/
def wrapInclude (p : PState) : Bytes :=
  if p.prefixes.isEmpty && p.suffixes.isEmpty then p.out
  else
    b!"##!> assemble\n" ++
    (p.prefixes.map (· ++ b!"\n##!=>\n")).flatten ++
    p.out ++
    (if p.suffixes.isEmpty then [] else b!"##!=>\n") ++
    (p.suffixes.map (· ++ b!"\n##!=>\n")).flatten ++
    b!"##!<\n"

def addFlag (fl : List Char) (c : Char) : List Char := if fl.contains c then fl else fl ++ [c]

/-- iteration orders of `expandDefinitions`' two map loops, as a function of the map's keys:
    the model is parameterised by it (C03/C07 quantify over it); the driver uses definition order. -/
abbrev Ord := List Bytes → List Bytes

mutual
  /-- `Parse(false)` of `contents` with initial definitions `vars0`; `fuel` bounds the include depth -/
  def parse (fs : Fs) (ord1 ord2 : Ord) : Nat → Vars → Bytes → Except Fault PState
    | 0, _, _ => .error .diag
    | fuel + 1, vars0, contents =>
      match parseLines fs ord1 ord2 fuel { vars := vars0 } (scanLines contents) with
      | .error e => .error e
      | .ok st =>
        if st.vars.isEmpty then .ok st
        else
          let (out, vs) := expandDefinitions (ord1 (st.vars.map Prod.fst)) (ord2 (st.vars.map Prod.fst)) st.out st.vars
          .ok { st with out := out, vars := vs }

  def parseLines (fs : Fs) (ord1 ord2 : Ord) (fuel : Nat) : PState → List Bytes → Except Fault PState
    | st, [] => .ok st
    | st, line :: rest =>
      let t := trimLeftSpTab line
      if isBlank t then parseLines fs ord1 ord2 fuel st rest
      else if comment? t then parseLines fs ord1 ord2 fuel st rest
      else
        match definition? t with
        | some (n, v) => parseLines fs ord1 ord2 fuel { st with vars := st.vars.define n v } rest
        | none =>
        match include? t with
        | some (name, repl) =>
          -- buildPairMap runs (and may panic) while the line is classified, before the file is read
          match buildPairs repl with
          | none => .error .diag
          | some pairs =>
            match parseFile fs ord1 ord2 fuel name [] with
            | .error e => .error e
            | .ok (text, _) =>
              parseLines fs ord1 ord2 fuel { st with out := st.out ++ replaceSuffixes text pairs } rest
        | none =>
        match includeExcept? t with
        | some (name, excl, repl) =>
          match buildPairs repl with
          | none => .error .diag
          | some pairs =>
            match parseFile fs ord1 ord2 fuel name [] with
            | .error e => .error e
            | .ok (text, defs) =>
              match exclusions fs ord1 ord2 fuel defs (splitArgs excl) with
              | .error e => .error e
              | .ok excluded =>
                let kept := (dedupLast (scanLines text)).filter (fun l => !excluded.contains l)
                parseLines fs ord1 ord2 fuel { st with out := st.out ++ replaceSuffixes (linesToText kept) pairs } rest
        | none =>
        match flags? t with
        | some v =>
          if v.all (fun c => c == 'i' || c == 's') then
            parseLines fs ord1 ord2 fuel { st with flags := v.foldl addFlag st.flags } rest
          else .error .diag
        | none =>
        match prefix? t with
        | some v => parseLines fs ord1 ord2 fuel { st with prefixes := st.prefixes ++ [v] } rest
        | none =>
        match suffix? t with
        | some v => parseLines fs ord1 ord2 fuel { st with suffixes := st.suffixes ++ [v] } rest
        | none => parseLines fs ord1 ord2 fuel { st with out := st.out ++ t ++ ['\n'] } rest

  /-- `parseFile`: text contributed by the file and the definitions it ended with -/
  def parseFile (fs : Fs) (ord1 ord2 : Ord) (fuel : Nat) (name : Bytes) (defs : Vars) : Except Fault (Bytes × Vars) :=
    match fs.find name with
    | none => .error .diag
    | some contents =>
      match parse fs ord1 ord2 fuel defs contents with
      | .error e => .error e
      | .ok st =>
        if !st.flags.isEmpty then .error .diag
        else .ok (wrapInclude st, st.vars)

  /-- `removeExclusions`: all lines of all exclude files; the definitions map of the include file is
      shared with (and mutated by) the parsers of the exclude files -/
  def exclusions (fs : Fs) (ord1 ord2 : Ord) (fuel : Nat) : Vars → List Bytes → Except Fault (List Bytes)
    | _, [] => .ok []
    | defs, name :: names =>
      match parseFile fs ord1 ord2 fuel name defs with
      | .error e => .error e
      | .ok (text, defs') =>
        match exclusions fs ord1 ord2 fuel defs' names with
        | .error e => .error e
        | .ok more => .ok (scanLines text ++ more)
end

/-- the driver's iteration order: order of first definition -/
def idOrd : Ord := id

/-- byte-wise lexicographic order: Go's `<` on strings, the order of `sort.Strings` -/
def nameLt : Bytes → Bytes → Bool
  | [], [] => false
  | [], _ :: _ => true
  | _ :: _, [] => false
  | a :: as, b :: bs => if a.toNat < b.toNat then true else if b.toNat < a.toNat then false else nameLt as bs

def insertName (x : Bytes) : List Bytes → List Bytes
  | [] => [x]
  | y :: ys => if nameLt x y then x :: y :: ys else y :: insertName x ys

/-- `sort.Strings` -/
def sortNames (ns : List Bytes) : List Bytes := ns.foldr insertName []

/-- the order in which `expandDefinitions` visits the names since the repair of D28: sorted, in both loops -/
def sortedOrd : Ord := sortNames

def defaultFuel : Nat := 40

end Crs.Parser
