/-
  Model of cmd/regex_format.go (processLine, processFile, checkStandardHeader) and of
  parser.Parse(formatOnly = true)  (C09, C10).
-/
import Crs.Patterns
namespace Crs.Format
open Crs Crs.Pat

def header1 : Bytes := b!"##! Please refer to the documentation at"
def header2 : Bytes := b!"##! https://coreruleset.org/docs/development/regex_assembly/."

def indentBy (n : Nat) (l : Bytes) : Bytes := List.replicate (2 * n) ' ' ++ l

/-- `processLine(line, indent)`: the formatted line and the indentation of the next line;
    `none` = "unbalanced processor block". -/
def processLine (line : Bytes) (indent : Nat) : Option (Bytes × Nat) :=
  let t := trimLeftSpTab line
  if t.isEmpty then some (t, indent)
  else
    match blockStart? line with
    | some (kw, arg) =>
      some (indentBy indent (b!"##!> " ++ kw ++ (if arg.isEmpty then [] else ' ' :: arg)), indent + 1)
    | none =>
      if blockEnd? line then
        (if indent == 0 then none else some (indentBy (indent - 1) t, indent - 1))
      else
        match flags? line with
        | some v => some (b!"##!+ " ++ v, indent)
        | none =>
        match prefix? line with
        | some v => some (b!"##!^ " ++ v, indent)
        | none =>
        match suffix? line with
        | some v => some (b!"##!$ " ++ v, indent)
        | none =>
        match definition? line with
        | some (n, v) => some (indentBy indent (b!"##!> define " ++ n ++ ' ' :: v), indent)
        | none =>
        match include? line with
        | some (n, r) =>
          some (indentBy indent (b!"##!> include " ++ n ++ (if r.isEmpty then [] else b!" -- " ++ r)), indent)
        | none =>
        match includeExcept? line with
        | some (n, x, r) =>
          some (indentBy indent (b!"##!> include-except " ++ n ++ ' ' :: x ++ (if r.isEmpty then [] else b!" -- " ++ r)), indent)
        | none => some (indentBy indent t, indent)

def formatLines : List Bytes → Nat → Option (List Bytes)
  | [], _ => some []
  | l :: ls, indent =>
    match processLine l indent with
    | none => none
    | some (l', indent') =>
      match formatLines ls indent' with
      | none => none
      | some rest => some (l' :: rest)

/-- `buildPairMap` panics on an odd number of arguments -/
def pairsOk (repl : Bytes) : Bool := isBlank repl || (splitArgs repl).length % 2 == 0

/-- what `parser.parseLine` can object to in format-only mode: an unsupported flag (logger.Panic)
    or an odd replacement list (logger.Panic). `t` is the left-trimmed line. -/
def lineAccepted (t : Bytes) : Bool :=
  if isBlank t then true
  else match flags? t with
    | some v => v.all (fun c => c == 'i' || c == 's')
    | none =>
      match include? t with
      | some (_, r) => pairsOk r
      | none =>
        match includeExcept? t with
        | some (_, _, r) => pairsOk r
        | none => true

/-- does a flags line set `i`? (for the upper-case lint of `--check`) -/
def setsIgnoreCase (t : Bytes) : Bool :=
  !isBlank t && (match flags? t with | some v => v.contains 'i' | none => false)

def hasHeader : List Bytes → Bool
  | [a, b] => a == header1 && b == header2
  | a :: b :: c :: _ => a == header1 && b == header2 && c.isEmpty
  | _ => false

def trimTrailingEmpty : List Bytes → List Bytes
  | [] => []
  | l :: ls =>
    match trimTrailingEmpty ls with
    | [] => if l.isEmpty then [] else [l]
    | r :: rs => l :: r :: rs

/-- the lines `processFile` works on: `Parse(formatOnly)` left-trims every line and writes it
    with `\n`; the result is scanned again -/
def parsedLines (b : Bytes) : List Bytes :=
  scanLines (unlines ((scanLines b).map trimLeftSpTab))

/-- `regex format` on the bytes of one file: the new contents, or a failure (nothing is written) -/
def formatFile (b : Bytes) : Except Fault Bytes :=
  if !((scanLines b).map trimLeftSpTab).all lineAccepted then .error .diag
  else
    match formatLines (parsedLines b) 0 with
    | none => .error .diag
    | some ls =>
      let body := if hasHeader ls then ls.drop 3 else ls
      .ok (unlines (header1 :: header2 :: [] :: trimTrailingEmpty body))

/-- `regex format --check`: succeeds iff formatting would leave the bytes as they are and the
    upper-case lint (an input of the model) is silent; never writes. -/
def checkFile (b : Bytes) (lint : Bool) : Except Fault Bool :=
  match formatFile b with
  | .error e => .error e
  | .ok out => .ok (out == b && !lint)

end Crs.Format
