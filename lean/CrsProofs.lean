import CrsProofs.Lines
