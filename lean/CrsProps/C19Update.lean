/-
  C19 for `regex update` and `regex compare` ("generate and the commands built on it"): the rule lookup and the splice
  have exactly one way to die from a runtime fault — the rule's id stands on the FIRST line of the rules file and the
  chain offset is 0 (Go then indexes `lines[-1]`; noted in DESIGN §8 as loud and without effect: exit status 2, nothing
  written) — and no other: every index the lookup returns is inside the file.
-/
import Crs.Update
import CrsProofs.Lines
namespace Crs.Props
open Crs Crs.Update

theorem findChained_lt (k base : Nat) (ls : List Bytes) (i : Nat) (h : findChained k base ls = some i) :
    base ≤ i ∧ i < base + ls.length := by
  induction ls generalizing k base with
  | nil => simp [findChained] at h
  | cons l ls ih =>
    simp only [findChained] at h
    split at h
    · split at h
      · simp only [Option.some.injEq] at h; subst h; simp
      · have := ih _ _ h; simp only [List.length_cons]; omega
    · have := ih _ _ h; simp only [List.length_cons]; omega

theorem targetIndex_lt (id : Bytes) (k base : Nat) (ls : List Bytes) (i : Nat) (h : targetIndex id k base ls = .ok i) :
    i < base + ls.length := by
  induction ls generalizing base with
  | nil => simp [targetIndex] at h
  | cons l ls ih =>
    simp only [targetIndex] at h
    split at h
    · split at h
      · split at h
        · simp at h
        · simp only [Except.ok.injEq] at h; subst h; simp only [List.length_cons]; omega
      · split at h
        · rename_i j hj
          simp only [Except.ok.injEq] at h; subst h
          have := findChained_lt _ _ _ _ hj
          simp only [List.length_cons]; omega
        · simp at h
    · have := ih _ h; simp only [List.length_cons]; omega

/-- the lookup dies exactly when the id line is the first line and the offset is 0 -/
theorem targetIndex_runtime_iff (id : Bytes) (k base : Nat) (ls : List Bytes) :
    targetIndex id k base ls = .error .runtime ↔
      (base = 0 ∧ k = 0 ∧ ∃ l rest, ls = l :: rest ∧ isIdLine id l = true) := by
  induction ls generalizing base with
  | nil => simp [targetIndex]
  | cons l ls ih =>
    simp only [targetIndex]
    by_cases hid : isIdLine id l = true
    · simp only [hid, if_true]
      by_cases hk : (k == 0) = true
      · have hk' : k = 0 := by simpa using hk
        simp only [hk, if_true]
        by_cases hb : (base == 0) = true
        · have hb' : base = 0 := by simpa using hb
          simp [hb, hb', hk', hid]
        · have hb' : base ≠ 0 := by simpa using hb
          simp [hb, hb']
      · have hk' : k ≠ 0 := by simpa using hk
        simp only [hk, Bool.false_eq_true, if_false]
        split <;> simp [hk']
    · simp only [hid, Bool.false_eq_true, if_false]
      rw [ih]
      constructor
      · intro ⟨hb, _⟩; omega
      · intro ⟨_, _, l', rest, he, hl'⟩
        simp only [List.cons.injEq] at he
        rw [← he.1] at hl'; exact absurd hl' hid

/-- **C19 (update).** `updateRegex` has no runtime fault but the one of the first line -/
theorem C19_update_runtime_iff (c id : Bytes) (k : Nat) (r : Bytes) :
    updateRegex c id k r = .error .runtime ↔
      (k = 0 ∧ ∃ l rest, splitNl c = l :: rest ∧ isIdLine id l = true) := by
  unfold updateRegex
  simp only
  cases ht : targetIndex id k 0 (splitNl c) with
  | error e =>
    cases e with
    | runtime =>
      have := (targetIndex_runtime_iff id k 0 (splitNl c)).mp ht
      simp only [true_iff]
      exact ⟨this.2.1, this.2.2⟩
    | diag =>
      constructor
      · intro h; simp at h
      · intro ⟨hk, hx⟩
        have := (targetIndex_runtime_iff id k 0 (splitNl c)).mpr ⟨rfl, hk, hx⟩
        rw [this] at ht; simp at ht
    | need q =>
      constructor
      · intro h; simp at h
      · intro ⟨hk, hx⟩
        have := (targetIndex_runtime_iff id k 0 (splitNl c)).mpr ⟨rfl, hk, hx⟩
        rw [this] at ht; simp at ht
  | ok i =>
    have hlt := targetIndex_lt id k 0 (splitNl c) i ht
    simp only [Nat.zero_add] at hlt
    have hsome : (splitNl c)[i]? = some (splitNl c)[i] := List.getElem?_eq_getElem hlt
    simp only [hsome]
    constructor
    · intro h; split at h <;> simp at h
    · intro ⟨hk, hx⟩
      have := (targetIndex_runtime_iff id k 0 (splitNl c)).mpr ⟨rfl, hk, hx⟩
      rw [this] at ht; simp at ht

/-- **C19 (compare).** the same for `readCurrentRegex` -/
theorem C19_read_runtime_iff (c id : Bytes) (k : Nat) :
    readCurrentRegex c id k = .error .runtime ↔
      (k = 0 ∧ ∃ l rest, splitNl c = l :: rest ∧ isIdLine id l = true) := by
  unfold readCurrentRegex
  simp only
  cases ht : targetIndex id k 0 (splitNl c) with
  | error e =>
    cases e with
    | runtime =>
      have := (targetIndex_runtime_iff id k 0 (splitNl c)).mp ht
      simp only [true_iff]
      exact ⟨this.2.1, this.2.2⟩
    | diag =>
      constructor
      · intro h; simp at h
      · intro ⟨hk, hx⟩
        have := (targetIndex_runtime_iff id k 0 (splitNl c)).mpr ⟨rfl, hk, hx⟩
        rw [this] at ht; simp at ht
    | need q =>
      constructor
      · intro h; simp at h
      · intro ⟨hk, hx⟩
        have := (targetIndex_runtime_iff id k 0 (splitNl c)).mpr ⟨rfl, hk, hx⟩
        rw [this] at ht; simp at ht
  | ok i =>
    have hlt := targetIndex_lt id k 0 (splitNl c) i ht
    simp only [Nat.zero_add] at hlt
    have hsome : (splitNl c)[i]? = some (splitNl c)[i] := List.getElem?_eq_getElem hlt
    simp only [hsome]
    constructor
    · intro h; split at h <;> simp at h
    · intro ⟨hk, hx⟩
      have := (targetIndex_runtime_iff id k 0 (splitNl c)).mpr ⟨rfl, hk, hx⟩
      rw [this] at ht; simp at ht

/-- the one case exists: a rules file whose first line carries the id -/
example : updateRegex "    \"id:942100,\\\n".toList "942100".toList 0 "x".toList = .error .runtime := by decide +kernel

end Crs.Props
