/-
  C19 — generate never crashes or hangs, whatever bytes it is given.

  * No hang: every function of the model is total (structural recursion or explicit fuel that is shown
    sufficient where it matters); Lean's termination checker accepted the model.
  * No runtime fault: every Go index/slice expression of the modelled code is a guarded operation in the
    model that yields `Fault.runtime` when out of range; the theorems below show that value is unreachable.

  The regex engine is a parameter. What is assumed of it (and monitored by the harness on every Join
  result): its output is balanced — every unescaped `(` has its `)`, which is how Go's printer writes
  groups and escapes literal parentheses — and it answers every query (`Engine.Total`).
-/
import Crs.Assemble
import CrsProofs.PassesBal
import CrsProofs.Fuel
import CrsProofs.ParseFuel
namespace Crs.Props
open Crs Crs.Passes Crs.Asm

/-- the engine's printer writes balanced text, and the engine answers (ok or parse error) every query -/
structure EngineShape (E : Engine) : Prop where
  balanced : ∀ q r, E.join q = .ok r → Balanced r
  total : ∀ q e, E.join q = .error e → e = .diag

/-- a result that is not a runtime fault -/
def NoRuntime {α} (r : Except Fault α) : Prop := r ≠ .error .runtime

/-- **C19 (group scanning).** On balanced text — in particular text in which an escaped parenthesis is followed
    by `?i:` — the clean-up passes (hex/quote/backslash re-spelling, vertical-tab inclusion, flag-group removal
    with `findGroupBodyEnd`/`removeGroup`, outermost-group removal) never index out of range. -/
theorem C19_cleanUp_total (s : Bytes) (h : Balanced s) : ∃ out, cleanUp s = .ok out :=
  cleanUp_balanced s h

/-- the witness of the repaired defect D04: an optional literal parenthesis followed by `i:foo` is ordinary text -/
theorem C19_escaped_paren_is_text :
    cleanUp "a\\(?i:foo".toList = .ok "a\\(?i:foo".toList ∧ cleanUp "(a\\(?i)b".toList = .ok "(a\\(?i)b".toList := by
  decide +kernel

/-! ### the processors never produce a runtime fault -/

private theorem join_nr (E : Engine) (hE : EngineShape E) (q : List Bytes) : NoRuntime (E.join q) := by
  intro h; have := hE.total q _ h; simp at this

private theorem runAssemble_nr (E : Engine) (hE : EngineShape E) (ls : List Bytes) : NoRuntime (runAssemble E ls) := by
  unfold runAssemble
  split
  · simp [NoRuntime]
  · cases h : E.join ls with
    | ok r => simp [NoRuntime]
    | error e => have := hE.total ls e h; subst this; simp [NoRuntime]

private theorem appendPlain_nr (E : Engine) (hE : EngineShape E) (ls : List Bytes) (o : Bytes) : NoRuntime (appendPlain E ls o) := by
  unfold appendPlain
  simp only
  split
  · rename_i e he
    split at he
    · rename_i l
      cases hj : E.join [l] with
      | ok r => rw [hj] at he; simp at he
      | error e' =>
        have := hE.total [l] e' hj; subst this
        rw [hj] at he; simp at he
    · simp at he
  · rename_i ls' o' _
    have := runAssemble_nr E hE ls'
    cases h : runAssemble E ls' with
    | ok p => simp [NoRuntime]
    | error e => rw [h] at this; intro hh; simp only [Except.error.injEq] at hh; exact this (by rw [hh])

private theorem assembleLine_nr (E : Engine) (hE : EngineShape E) (st : Stash) (ls : List Bytes) (o l : Bytes) :
    NoRuntime (assembleLine E st ls o l) := by
  unfold assembleLine
  have hap := appendPlain_nr E hE ls o
  split
  · split
    · simp [NoRuntime]
    · cases h : appendPlain E ls o with
      | ok p => simp [NoRuntime]
      | error e => rw [h] at hap; intro hh; simp only [Except.error.injEq] at hh; exact hap (by rw [hh])
  · split
    · cases h : appendPlain E ls o with
      | ok p =>
        simp only
        split
        · simp [NoRuntime]
        · split <;> simp [NoRuntime]
      | error e => rw [h] at hap; intro hh; simp only [Except.error.injEq] at hh; exact hap (by rw [hh])
    · simp [NoRuntime]

private theorem procLine_nr (E : Engine) (hE : EngineShape E) (cfg : Config) (st : Stash) (p : Proc) (l : Bytes) :
    NoRuntime (procLine E cfg st p l) := by
  unfold procLine
  cases p with
  | assemble ls o =>
    simp only
    have := assembleLine_nr E hE st ls o l
    cases h : assembleLine E st ls o l with
    | ok r => simp [NoRuntime]
    | error e => rw [h] at this; intro hh; simp only [Except.error.injEq] at hh; exact this (by rw [hh])
  | cmdline sh ls => simp only; split <;> simp [NoRuntime]

private theorem procComplete_nr (E : Engine) (hE : EngineShape E) (p : Proc) : NoRuntime (procComplete E p) := by
  unfold procComplete
  cases p with
  | assemble ls o =>
    simp only
    have := runAssemble_nr E hE ls
    cases h : runAssemble E ls with
    | ok r => simp [NoRuntime]
    | error e => rw [h] at this; intro hh; simp only [Except.error.injEq] at hh; exact this (by rw [hh])
  | cmdline sh ls =>
    simp only
    cases h : E.join ls with
    | ok r => simp [NoRuntime]
    | error e => have := hE.total ls e h; subst this; simp [NoRuntime]

private theorem procConsume_nr (E : Engine) (hE : EngineShape E) (cfg : Config) (st : Stash) (p : Proc) (ls : List Bytes) :
    NoRuntime (procConsume E cfg st p ls) := by
  induction ls generalizing st p with
  | nil => simp [procConsume, NoRuntime]
  | cons l ls ih =>
    cases p with
    | cmdline sh lines => simp only [procConsume]; exact ih _ _
    | assemble a b =>
      simp only [procConsume]
      have := procLine_nr E hE cfg st (.assemble a b) l
      cases h : procLine E cfg st (.assemble a b) l with
      | ok r => simp only; exact ih _ _
      | error e => rw [h] at this; intro hh; simp only [Except.error.injEq] at hh; exact this (by rw [hh])

/-- the processor stack is never empty while lines are processed: `processorStack.top()` cannot fail there -/
private theorem runLines_nr (E : Engine) (hE : EngineShape E) (cfg : Config) (st : Stash) (stack : List Proc) (hs : stack ≠ [])
    (ls : List Bytes) : NoRuntime (runLines E cfg st stack ls) := by
  induction ls generalizing st stack with
  | nil => simp [runLines, NoRuntime]
  | cons l ls ih =>
    cases stack with
    | nil => exact absurd rfl hs
    | cons cur below =>
      simp only [runLines]
      split
      · split
        · exact ih _ _ (by simp)
        · split
          · split
            · exact ih _ _ (by simp)
            · split
              · exact ih _ _ (by simp)
              · simp [NoRuntime]
          · simp [NoRuntime]
      · split
        · have hc := procComplete_nr E hE cur
          cases h : procComplete E cur with
          | error e => rw [h] at hc; intro hh; simp only [Except.error.injEq] at hh; exact hc (by rw [hh])
          | ok lines =>
            simp only
            cases below with
            | nil => simp [NoRuntime]
            | cons parent below' =>
              simp only
              have hp := procConsume_nr E hE cfg st parent lines
              cases h2 : procConsume E cfg st parent lines with
              | error e => rw [h2] at hp; intro hh; simp only [Except.error.injEq] at hh; exact hp (by rw [hh])
              | ok r => simp only; exact ih _ _ (by simp)
        · have hp := procLine_nr E hE cfg st cur l
          cases h : procLine E cfg st cur l with
          | error e => rw [h] at hp; intro hh; simp only [Except.error.injEq] at hh; exact hp (by rw [hh])
          | ok r => simp only; exact ih _ _ (by simp)

private theorem feedLines_nr (E : Engine) (hE : EngineShape E) (st : Stash) (ls : List Bytes) (o : Bytes) (lines : List Bytes) :
    NoRuntime (feedLines E st ls o lines) := by
  induction lines generalizing st ls o with
  | nil => simp [feedLines, NoRuntime]
  | cons l rest ih =>
    simp only [feedLines]
    have := assembleLine_nr E hE st ls o l
    cases h : assembleLine E st ls o l with
    | error e => rw [h] at this; intro hh; simp only [Except.error.injEq] at hh; exact this (by rw [hh])
    | ok r => simp only; exact ih _ _ _

private theorem finalPass_nr (E : Engine) (hE : EngineShape E) (st : Stash) (lines : List Bytes) : NoRuntime (finalPass E st lines) := by
  unfold finalPass
  have hfeed := feedLines_nr E hE st [] [] lines
  cases hf : feedLines E st [] [] lines with
  | error e => rw [hf] at hfeed; simp only; intro hh; simp only [Except.error.injEq] at hh; exact hfeed (by rw [hh])
  | ok p =>
    obtain ⟨ls, out⟩ := p
    simp only
    have hpc := procComplete_nr E hE (.assemble ls out)
    cases hc : procComplete E (.assemble ls out) with
    | error e => rw [hc] at hpc; simp only; intro hh; simp only [Except.error.injEq] at hh; exact hpc (by rw [hh])
    | ok res => simp [NoRuntime]

/-- the simplification join and the clean-up passes produce no runtime fault: the engine's text is balanced -/
private theorem finish_nr (E : Engine) (hE : EngineShape E) (fl : List Char) (text : Bytes) : NoRuntime (finish E fl text) := by
  unfold finish
  split
  · simp [NoRuntime]
  · cases hj : E.join [text] with
    | error e => have := hE.total _ e hj; subst this; simp [NoRuntime]
    | ok simplified =>
      simp only
      obtain ⟨o, ho⟩ := cleanUp_balanced simplified (hE.balanced _ _ hj)
      rw [ho]
      simp [NoRuntime]

private theorem complete_nr (E : Engine) (hE : EngineShape E) (st : Stash) (fl : List Char) (pf sf : List Bytes) (lines : List Bytes) :
    NoRuntime (complete E st fl pf sf lines) := by
  unfold complete
  have h1 := finalPass_nr E hE st lines
  cases hf : finalPass E st lines with
  | error e => rw [hf] at h1; simp only; intro hh; simp only [Except.error.injEq] at hh; exact h1 (by rw [hh])
  | ok r => simp only; exact finish_nr E hE fl _

/-! ### the parser never produces a runtime fault -/

private theorem nr_of_error {α β} {r : Except Fault α} (h : NoRuntime r) {e : Fault} (he : r = .error e) :
    NoRuntime (Except.error e : Except Fault β) := by
  intro hh
  simp only [Except.error.injEq] at hh
  subst hh
  exact h he

open Crs.Parser in
private theorem parse_nr (fs : Fs) (o1 o2 : Ord) (fuel : Nat) : ∀ v c, NoRuntime (parse fs o1 o2 fuel v c) := by
  induction fuel with
  | zero => intro v c; simp [parse, NoRuntime]
  | succ f ih =>
    have hFile : ∀ name defs, NoRuntime (parseFile fs o1 o2 f name defs) := by
      intro name defs
      simp only [parseFile]
      split
      · simp [NoRuntime]
      · rename_i contents _
        cases hp : parse fs o1 o2 f defs contents with
        | error e => (try simp only); exact nr_of_error (ih defs contents) hp
        | ok st => simp only; split <;> simp [NoRuntime]
    have hExcl : ∀ names defs, NoRuntime (exclusions fs o1 o2 f defs names) := by
      intro names
      induction names with
      | nil => intro defs; simp [exclusions, NoRuntime]
      | cons n ns ihn =>
        intro defs
        simp only [exclusions]
        cases hp : parseFile fs o1 o2 f n defs with
        | error e => (try simp only); exact nr_of_error (hFile n defs) hp
        | ok r =>
          (try simp only)
          cases hx : exclusions fs o1 o2 f r.2 ns with
          | error e => (try simp only); exact nr_of_error (ihn r.2) hx
          | ok more => simp [NoRuntime]
    have hLines : ∀ ls st, NoRuntime (parseLines fs o1 o2 f st ls) := by
      intro ls
      induction ls with
      | nil => intro st; simp [parseLines, NoRuntime]
      | cons l rest ihl =>
        intro st
        simp only [parseLines]
        split
        · exact ihl _
        · split
          · exact ihl _
          · split
            · exact ihl _
            · split
              · -- include
                split
                · simp [NoRuntime]
                · split
                  · rename_i hp; exact nr_of_error (hFile _ _) hp
                  · exact ihl _
              · split
                · -- include-except
                  split
                  · simp [NoRuntime]
                  · split
                    · rename_i hp; exact nr_of_error (hFile _ _) hp
                    · split
                      · rename_i hx; exact nr_of_error (hExcl _ _) hx
                      · exact ihl _
                · split
                  · split
                    · exact ihl _
                    · simp [NoRuntime]
                  · split
                    · exact ihl _
                    · split
                      · exact ihl _
                      · exact ihl _
    intro v c
    simp only [parse]
    cases hp : parseLines fs o1 o2 f { vars := v } (scanLines c) with
    | error e => (try simp only); exact nr_of_error (hLines _ _) hp
    | ok st => simp only; split <;> simp [NoRuntime]

/-- **C19 (no runtime fault).** For every input text, every set of include files, every configuration and
    every iteration order of the definition map, `generate` ends with a regular expression or a deliberate
    diagnostic — never with an out-of-range index or an empty processor stack — provided the engine prints
    balanced text and answers every query. -/
theorem C19_generate_no_runtime_fault (E : Engine) (hE : EngineShape E) (fs : Parser.Fs) (cfg : Config)
    (o1 o2 : Parser.Ord) (input : Bytes) :
    generate E fs cfg o1 o2 input ≠ .error .runtime := by
  unfold generate
  have hp := parse_nr fs o1 o2 Parser.defaultFuel [] input
  cases hpe : Parser.parse fs o1 o2 Parser.defaultFuel [] input with
  | error e => simp only; exact nr_of_error (β := Bytes) hp hpe
  | ok st =>
    simp only
    have hr := runLines_nr E hE cfg [] [.assemble [] []] (by simp) (scanLines st.out)
    cases hre : runLines E cfg [] [.assemble [] []] (scanLines st.out) with
    | error e => simp only; exact nr_of_error (β := Bytes) hr hre
    | ok r =>
      obtain ⟨stash, stack⟩ := r
      simp only
      cases stack with
      | nil => simp
      | cons top below =>
        simp only
        have hc := procComplete_nr E hE top
        cases hce : procComplete E top with
        | error e => simp only; exact nr_of_error (β := Bytes) hc hce
        | ok lines =>
          simp only
          have hk := complete_nr E hE stash st.flags st.prefixes st.suffixes lines
          cases hke : complete E stash st.flags st.prefixes st.suffixes lines with
          | error e => simp only; exact nr_of_error (β := Bytes) hk hke
          | ok out => simp only; split <;> simp

/-- the theorem is not vacuous: a trivially shaped engine (alternatives joined by `|` are balanced when
    every alternative is) exists for balanced entries; here, the degenerate engine that rejects everything -/
example : EngineShape ⟨fun _ => .error .diag⟩ := ⟨by intro q r h; simp at h, by intro q e h; simp at h; exact h.symm⟩

/-! ### no hang: the bounds of the modelled loops are never reached -/

/-- **C19 (the flag-removal loops reach their exit).** Both loops of `dontUseFlagsForMetaCharacters` are modelled with
    fuel `2·|s| + 2`; every iteration moves the search offset forward or shortens the text, so for EVERY text the
    result is the same with any larger amount of fuel — the bound is never what ends the loop. -/
theorem C19_flag_loops_reach_exit (s : Bytes) (e1 e2 : Nat) :
    dropFlagGroupsAux (2 * s.length + 2 + e2) 0 (dropFlagsAux (2 * s.length + 2 + e1) 0 s) = dontUseFlagsForMetaCharacters s :=
  dontUseFlags_fuel_suffices s e1 e2

/-- the rune loop of `useHexEscapes` and the scanner of `includeVerticalTabInSpaceClass` consume at least one byte per
    step: their fuel (the length) is never used up -/
theorem C19_scanners_reach_end (s : Bytes) (extra : Nat) :
    useHexEscapesAux (s.length + extra) s = useHexEscapes s ∧
    includeVTAux (s.length + extra) false s = includeVerticalTabInSpaceClass s :=
  ⟨useHexEscapesAux_fuel _ _ s (by omega) (by omega), includeVTAux_fuel _ _ false s (by omega) (by omega)⟩

/-- **C19 (include depth).** The parser model bounds the include depth by fuel; a successful parse is the same with
    any larger bound: the bound only ever turns an include cycle (which the code follows until the OS stops it) into a
    failure, it is never the reason for a result. -/
theorem C19_include_bound_harmless (fs : Parser.Fs) (o1 o2 : Parser.Ord) (extra : Nat) (input : Bytes) (st : Parser.PState)
    (h : Parser.parse fs o1 o2 Parser.defaultFuel [] input = .ok st) :
    Parser.parse fs o1 o2 (Parser.defaultFuel + extra) [] input = .ok st :=
  Parser.parse_mono_add fs o1 o2 _ extra [] input st h

end Crs.Props
