import Crs.Assemble
namespace Crs.Props
theorem C19_placeholder : True := trivial
end Crs.Props
