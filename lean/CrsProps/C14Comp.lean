/-
  C14, composition of the five marker patterns on header lines.

  The per-pattern laws of C14.lean say that for each marker pattern on its own the last invocation wins. `stepLine` applies
  all five patterns to every line. For the header line (`# OWASP CRS ver.X` / `# OWASP ModSecurity Core Rule Set ver.X`)
  the composition is settled here: the first pattern rewrites the whole line to `PREFIX ++ version`, an accepted version
  carries none of the characters the other four patterns need (`=`, `'`) and the line begins like none of them, so the
  other four leave it alone — `stepLine_header` — and the last invocation wins for the whole step — `C14_header_line_composed`.
  (Lines that carry several *different* markers — a SecAction with `ver:'OWASP_CRS/…'` and `setvar:tx.crs_setup_version=…` —
  remain covered by the correspondence and the sequence oracle only.)
-/
import CrsProps.C14

namespace Crs.Props
open Crs Crs.Copyright

theorem verOk_noEq (v : Bytes) (h : VersionOk v) : '=' ∉ v := by
  intro hm; have := h.2 '=' hm; simp [isVerCh, isLower, isUpper, isDigit] at this

theorem verOk_noQuote (v : Bytes) (h : VersionOk v) : '\'' ∉ v := by
  intro hm; have := h.2 '\'' hm; simp [isVerCh, isLower, isUpper, isDigit] at this

/-- the two header prefixes -/
def IsHeaderPrefix (P : Bytes) : Prop := P = p1a ∨ P = p1b

theorem headerPrefix_noEq (P : Bytes) (h : IsHeaderPrefix P) : '=' ∉ P ∧ '\'' ∉ P := by
  rcases h with rfl | rfl <;> exact ⟨by decide, by decide⟩

/-- on `PREFIX ++ version` the other four patterns do nothing -/
theorem others_leave_header (P v y : Bytes) (hP : IsHeaderPrefix P) (hv : VersionOk v) :
    sub5 v (sub4 v (sub3 y (sub2 (digitsOf v) (P ++ v)))) = P ++ v := by
  have hne : '=' ∉ P ++ v := by
    intro hm; rcases List.mem_append.mp hm with h | h
    · exact (headerPrefix_noEq P hP).1 h
    · exact verOk_noEq v hv h
  have hnq : '\'' ∉ P ++ v := by
    intro hm; rcases List.mem_append.mp hm with h | h
    · exact (headerPrefix_noEq P hP).2 h
    · exact verOk_noQuote v hv h
  have h2 : sub2 (digitsOf v) (P ++ v) = P ++ v := by
    unfold sub2
    rw [splitCh_noSep '=' _ hne]
    simp [sub2Fields, joinCh]
  have h3 : sub3 y (P ++ v) = P ++ v := by
    unfold sub3
    have : stripPrefix? p3 (P ++ v) = none := by
      rcases hP with rfl | rfl <;> simp [p3, p1a, p1b, stripPrefix?]
    rw [this]
  have h4 : sub4 v (P ++ v) = P ++ v := by
    unfold sub4
    rw [splitCh_noSep '\'' _ hnq]
    simp [sub4Fields, joinCh]
  have h5 : sub5 v (P ++ v) = P ++ v := by
    unfold sub5
    have : stripPrefix? p5 (P ++ v) = none := by
      rcases hP with rfl | rfl <;> simp [p5, p1a, p1b, stripPrefix?]
    rw [this]
  rw [h2, h3, h4, h5]

theorem sub1_header (P v r : Bytes) (hP : IsHeaderPrefix P) (hr : r ≠ []) : sub1 v (P ++ r) = P ++ v := by
  cases r with
  | nil => exact absurd rfl hr
  | cons c cs =>
    rcases hP with rfl | rfl
    · unfold sub1; rw [stripPrefix?_append]
    · unfold sub1
      have : stripPrefix? p1a (p1b ++ c :: cs) = none := by simp [p1a, p1b, stripPrefix?]
      rw [this, stripPrefix?_append]

/-- **C14 (header line, all five patterns).** One step of update-copyright turns a header line into `PREFIX ++ version`. -/
theorem stepLine_header (P v y r : Bytes) (hP : IsHeaderPrefix P) (hv : VersionOk v) (hr : r ≠ []) :
    stepLine v y (P ++ r) = P ++ v := by
  unfold stepLine
  rw [sub1_header P v r hP hr]
  exact others_leave_header P v y hP hv

/-- **C14 (header line: the last invocation wins, for the composed step).** -/
theorem C14_header_line_composed (P v1 y1 v2 y2 r : Bytes) (hP : IsHeaderPrefix P) (h1 : VersionOk v1) (h2 : VersionOk v2)
    (hr : r ≠ []) :
    stepLine v2 y2 (stepLine v1 y1 (P ++ r)) = stepLine v2 y2 (P ++ r) := by
  rw [stepLine_header P v1 y1 r hP h1 hr, stepLine_header P v2 y2 r hP h2 hr, stepLine_header P v2 y2 v1 hP h2 h1.1]

/-- non-vacuity -/
example : stepLine b!"4.8.0-rc1" b!"2031" b!"# OWASP CRS ver.4.0.0" = b!"# OWASP CRS ver.4.8.0-rc1" := by decide +kernel

end Crs.Props
